// Package sched is a cooperative, controlled scheduler for systematic
// exploration of thread interleavings (CHESS-style). Harness threads are real
// goroutines, but exactly one runs at a time; at every hooked synchronisation
// operation (the vsync / vatomic shims call Point) the explorer decides which
// thread continues. Outside a controlled run the hooks are no-ops and the shims
// behave like the real primitives.
package sched

import (
	"fmt"
	"runtime"
	"sync"
)

// PointInfo describes one scheduling decision of an execution.
type PointInfo struct {
	// Enabled lists thread ids in canonical order: the running thread first if
	// it is still enabled, then the others in ascending order.
	Enabled        []int
	Chosen         int // index into Enabled
	RunningEnabled bool
	Op             string
}

// Result is what one controlled execution produced.
type Result struct {
	Points   []PointInfo
	Deadlock bool
	Diverged string // non-empty: the prescribed prefix could not be followed
	Panics   []string
}

type thread struct {
	id      int
	goid    uint64
	resume  chan struct{}
	done    bool
	blocked any
}

// goid returns the id of the calling goroutine (parsed from the stack header;
// about a microsecond, only paid while a controlled run is active).
func goid() uint64 {
	var buf [40]byte
	n := runtime.Stack(buf[:], false)
	// "goroutine 123 ["
	var id uint64
	for i := len("goroutine "); i < n && buf[i] >= '0' && buf[i] <= '9'; i++ {
		id = id*10 + uint64(buf[i]-'0')
	}
	return id
}

var (
	mu      sync.Mutex // protects nothing hot: only one harness thread runs at a time
	active  bool
	threads []*thread
	current *thread
	prefix  []int
	res     *Result
	finish  chan struct{}
	over    bool // the run has been ended (all done, or deadlock declared)
	maxPts  int
)

// Active reports whether the CALLER is a thread of a controlled run in
// progress. A goroutine that is not a harness thread (a background worker the
// code under test spawned) and touches a hooked primitive while a run is in
// progress is parked until the run is over and then continues with the real
// primitives: that is the legal schedule in which the background goroutine is
// slow, and it keeps the scheduler's single-running-thread invariant intact.
func Active() bool {
	if !active || over {
		// (over: a deadlock was declared; threads unwinding their stacks run deferred
		// unlocks, which must not schedule any more)
		return false
	}
	cur := current
	if cur != nil && cur.goid == goid() {
		return true
	}
	fin := finish
	if fin != nil {
		<-fin
	}
	return false
}

// Current returns the id of the running thread (-1 outside a run).
func Current() int {
	if !active || current == nil {
		return -1
	}
	return current.id
}

// Run executes the bodies as threads under the scheduler. choices is the
// prescribed prefix of decisions (indices into the canonical enabled list);
// after the prefix the default decision 0 is taken.
func Run(bodies []func(), choices []int, maxPoints int) Result {
	mu.Lock()
	defer mu.Unlock()
	r := &Result{}
	res, prefix, maxPts = r, choices, maxPoints
	threads = nil
	over = false
	finishClosed = false
	finish = make(chan struct{})
	for i, body := range bodies {
		t := &thread{id: i, resume: make(chan struct{}, 1)}
		threads = append(threads, t)
		body := body
		go func() {
			t.goid = goid()
			<-t.resume
			func() {
				defer func() {
					if p := recover(); p != nil {
						if _, ok := p.(abort); !ok {
							r.Panics = append(r.Panics, fmt.Sprintf("thread %d: %v", t.id, p))
						}
					}
				}()
				body()
			}()
			t.done = true
			if over {
				// unwound after a deadlock was declared: only now may Run return.
				closeFinish()
				return
			}
			yield(t, "exit")
		}()
	}
	active = true
	current = threads[0]
	// the first decision: which thread starts.
	first := decide(nil, "start")
	if first == nil {
		active = false
		return *r
	}
	current = first
	first.resume <- struct{}{}
	<-finish
	active = false
	over = false // no thread is unwinding any more: the others stay parked for ever
	current = nil
	return *r
}

type abort struct{}

var finishClosed bool

func closeFinish() {
	if !finishClosed {
		finishClosed = true
		close(finish)
	}
}

// Zombie reports whether the caller is a thread of a run in which a deadlock
// was declared: it is unwinding its stack, and the primitives it touches on the
// way (deferred unlocks) must neither schedule nor touch real locks.
func Zombie() bool {
	if !over {
		return false
	}
	id := goid()
	for _, t := range threads {
		if t.goid == id {
			return true
		}
	}
	return false
}

// enabledList returns the canonical enabled list for a decision taken by t (nil at start).
func enabledList(t *thread) (list []*thread, runningEnabled bool) {
	if t != nil && !t.done && t.blocked == nil {
		list = append(list, t)
		runningEnabled = true
	}
	for _, o := range threads {
		if o != t && !o.done && o.blocked == nil {
			list = append(list, o)
		}
	}
	return
}

// decide records a decision point and returns the thread to run next (nil: nothing enabled).
func decide(t *thread, op string) *thread {
	list, re := enabledList(t)
	if len(list) == 0 {
		return nil
	}
	idx := 0
	k := len(res.Points)
	if k < len(prefix) {
		idx = prefix[k]
		if idx >= len(list) {
			res.Diverged = fmt.Sprintf("decision %d (%s): prescribed choice %d but only %d threads enabled", k, op, idx, len(list))
			idx = 0
		}
	}
	ids := make([]int, len(list))
	for i, x := range list {
		ids[i] = x.id
	}
	res.Points = append(res.Points, PointInfo{Enabled: ids, Chosen: idx, RunningEnabled: re, Op: op})
	return list[idx]
}

// yield lets the scheduler decide; called by the running thread t.
func yield(t *thread, op string) {
	if over {
		return
	}
	if maxPts > 0 && len(res.Points) >= maxPts {
		// horizon reached: abort the execution (reported by the caller as a cap).
		res.Diverged = "horizon"
	}
	next := decide(t, op)
	switch {
	case next == nil:
		// nothing enabled: either everything finished or a deadlock.
		for _, o := range threads {
			if !o.done {
				res.Deadlock = true
			}
		}
		over = true
		if !t.done {
			// unwinds the blocked thread's stack (deferred unlocks become no-ops, see
			// Zombie); the goroutine's wrapper ends the run when the stack is gone.
			panic(abort{})
		}
		closeFinish()
		return
	case next == t:
		return
	default:
		current = next
		next.resume <- struct{}{}
		if t.done {
			return
		}
		<-t.resume
	}
}

// Point is a scheduling point before a synchronisation operation.
func Point(op string) {
	if !Active() {
		return
	}
	yield(current, op)
}

// BlockOn marks the running thread as blocked on obj and yields until some
// thread calls Unblock(obj).
func BlockOn(obj any, op string) {
	if !Active() {
		panic("vsync: blocking operation outside a controlled run would deadlock")
	}
	t := current
	t.blocked = obj
	yield(t, op)
}

// Unblock enables all threads blocked on obj.
func Unblock(obj any) {
	if !active {
		return
	}
	for _, o := range threads {
		if o.blocked == obj {
			o.blocked = nil
		}
	}
}
