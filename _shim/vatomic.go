// Package vatomic mirrors the typed atomics of sync/atomic used by the packages
// under test; every operation is a scheduling point of the controlled scheduler.
package vatomic

import (
	"sync/atomic"

	"github.com/mycoria/mycoria/zz_verif/sched"
)

// Int32 mirrors atomic.Int32.
type Int32 struct{ v atomic.Int32 }

func (x *Int32) Load() int32        { sched.Point("Int32.Load"); return x.v.Load() }
func (x *Int32) Store(v int32)      { sched.Point("Int32.Store"); x.v.Store(v) }
func (x *Int32) Add(d int32) int32  { sched.Point("Int32.Add"); return x.v.Add(d) }
func (x *Int32) Swap(v int32) int32 { sched.Point("Int32.Swap"); return x.v.Swap(v) }
func (x *Int32) CompareAndSwap(o, n int32) bool {
	sched.Point("Int32.CompareAndSwap")
	return x.v.CompareAndSwap(o, n)
}

// Uint32 mirrors atomic.Uint32.
type Uint32 struct{ v atomic.Uint32 }

func (x *Uint32) Load() uint32         { sched.Point("Uint32.Load"); return x.v.Load() }
func (x *Uint32) Store(v uint32)       { sched.Point("Uint32.Store"); x.v.Store(v) }
func (x *Uint32) Add(d uint32) uint32  { sched.Point("Uint32.Add"); return x.v.Add(d) }
func (x *Uint32) Swap(v uint32) uint32 { sched.Point("Uint32.Swap"); return x.v.Swap(v) }
func (x *Uint32) CompareAndSwap(o, n uint32) bool {
	sched.Point("Uint32.CompareAndSwap")
	return x.v.CompareAndSwap(o, n)
}

// Int64 mirrors atomic.Int64.
type Int64 struct{ v atomic.Int64 }

func (x *Int64) Load() int64        { sched.Point("Int64.Load"); return x.v.Load() }
func (x *Int64) Store(v int64)      { sched.Point("Int64.Store"); x.v.Store(v) }
func (x *Int64) Add(d int64) int64  { sched.Point("Int64.Add"); return x.v.Add(d) }
func (x *Int64) Swap(v int64) int64 { sched.Point("Int64.Swap"); return x.v.Swap(v) }
func (x *Int64) CompareAndSwap(o, n int64) bool {
	sched.Point("Int64.CompareAndSwap")
	return x.v.CompareAndSwap(o, n)
}

// Uint64 mirrors atomic.Uint64.
type Uint64 struct{ v atomic.Uint64 }

func (x *Uint64) Load() uint64         { sched.Point("Uint64.Load"); return x.v.Load() }
func (x *Uint64) Store(v uint64)       { sched.Point("Uint64.Store"); x.v.Store(v) }
func (x *Uint64) Add(d uint64) uint64  { sched.Point("Uint64.Add"); return x.v.Add(d) }
func (x *Uint64) Swap(v uint64) uint64 { sched.Point("Uint64.Swap"); return x.v.Swap(v) }
func (x *Uint64) CompareAndSwap(o, n uint64) bool {
	sched.Point("Uint64.CompareAndSwap")
	return x.v.CompareAndSwap(o, n)
}

// Bool mirrors atomic.Bool.
type Bool struct{ v atomic.Bool }

func (x *Bool) Load() bool       { sched.Point("Bool.Load"); return x.v.Load() }
func (x *Bool) Store(v bool)     { sched.Point("Bool.Store"); x.v.Store(v) }
func (x *Bool) Swap(v bool) bool { sched.Point("Bool.Swap"); return x.v.Swap(v) }
func (x *Bool) CompareAndSwap(o, n bool) bool {
	sched.Point("Bool.CompareAndSwap")
	return x.v.CompareAndSwap(o, n)
}
