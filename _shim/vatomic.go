// Package vatomic mirrors the typed atomics of sync/atomic used by the packages
// under test; every operation is a scheduling point of the controlled scheduler.
package vatomic

import (
	"sync/atomic"

	"github.com/mycoria/mycoria/zz_verif/sched"
)

// Int32 mirrors atomic.Int32.
type Int32 struct{ v atomic.Int32 }

func (x *Int32) Load() int32        { sched.Point("Int32.Load"); return x.v.Load() }
func (x *Int32) Store(v int32)      { sched.Point("Int32.Store"); x.v.Store(v) }
func (x *Int32) Add(d int32) int32  { sched.Point("Int32.Add"); return x.v.Add(d) }
func (x *Int32) Swap(v int32) int32 { sched.Point("Int32.Swap"); return x.v.Swap(v) }
func (x *Int32) CompareAndSwap(o, n int32) bool {
	sched.Point("Int32.CompareAndSwap")
	return x.v.CompareAndSwap(o, n)
}

// Uint32 mirrors atomic.Uint32.
type Uint32 struct{ v atomic.Uint32 }

func (x *Uint32) Load() uint32         { sched.Point("Uint32.Load"); return x.v.Load() }
func (x *Uint32) Store(v uint32)       { sched.Point("Uint32.Store"); x.v.Store(v) }
func (x *Uint32) Add(d uint32) uint32  { sched.Point("Uint32.Add"); return x.v.Add(d) }
func (x *Uint32) Swap(v uint32) uint32 { sched.Point("Uint32.Swap"); return x.v.Swap(v) }
func (x *Uint32) CompareAndSwap(o, n uint32) bool {
	sched.Point("Uint32.CompareAndSwap")
	return x.v.CompareAndSwap(o, n)
}

// Int64 mirrors atomic.Int64.
type Int64 struct{ v atomic.Int64 }

func (x *Int64) Load() int64        { sched.Point("Int64.Load"); return x.v.Load() }
func (x *Int64) Store(v int64)      { sched.Point("Int64.Store"); x.v.Store(v) }
func (x *Int64) Add(d int64) int64  { sched.Point("Int64.Add"); return x.v.Add(d) }
func (x *Int64) Swap(v int64) int64 { sched.Point("Int64.Swap"); return x.v.Swap(v) }
func (x *Int64) CompareAndSwap(o, n int64) bool {
	sched.Point("Int64.CompareAndSwap")
	return x.v.CompareAndSwap(o, n)
}

// Uint64 mirrors atomic.Uint64.
type Uint64 struct{ v atomic.Uint64 }

func (x *Uint64) Load() uint64         { sched.Point("Uint64.Load"); return x.v.Load() }
func (x *Uint64) Store(v uint64)       { sched.Point("Uint64.Store"); x.v.Store(v) }
func (x *Uint64) Add(d uint64) uint64  { sched.Point("Uint64.Add"); return x.v.Add(d) }
func (x *Uint64) Swap(v uint64) uint64 { sched.Point("Uint64.Swap"); return x.v.Swap(v) }
func (x *Uint64) CompareAndSwap(o, n uint64) bool {
	sched.Point("Uint64.CompareAndSwap")
	return x.v.CompareAndSwap(o, n)
}

// Bool mirrors atomic.Bool.
type Bool struct{ v atomic.Bool }

func (x *Bool) Load() bool       { sched.Point("Bool.Load"); return x.v.Load() }
func (x *Bool) Store(v bool)     { sched.Point("Bool.Store"); x.v.Store(v) }
func (x *Bool) Swap(v bool) bool { sched.Point("Bool.Swap"); return x.v.Swap(v) }
func (x *Bool) CompareAndSwap(o, n bool) bool {
	sched.Point("Bool.CompareAndSwap")
	return x.v.CompareAndSwap(o, n)
}

// Uintptr mirrors atomic.Uintptr.
type Uintptr struct{ v atomic.Uintptr }

func (x *Uintptr) Load() uintptr          { sched.Point("Uintptr.Load"); return x.v.Load() }
func (x *Uintptr) Store(v uintptr)        { sched.Point("Uintptr.Store"); x.v.Store(v) }
func (x *Uintptr) Add(d uintptr) uintptr  { sched.Point("Uintptr.Add"); return x.v.Add(d) }
func (x *Uintptr) Swap(v uintptr) uintptr { sched.Point("Uintptr.Swap"); return x.v.Swap(v) }
func (x *Uintptr) CompareAndSwap(o, n uintptr) bool {
	sched.Point("Uintptr.CompareAndSwap")
	return x.v.CompareAndSwap(o, n)
}

// Pointer mirrors atomic.Pointer.
type Pointer[T any] struct{ v atomic.Pointer[T] }

func (x *Pointer[T]) Load() *T     { sched.Point("Pointer.Load"); return x.v.Load() }
func (x *Pointer[T]) Store(v *T)   { sched.Point("Pointer.Store"); x.v.Store(v) }
func (x *Pointer[T]) Swap(v *T) *T { sched.Point("Pointer.Swap"); return x.v.Swap(v) }
func (x *Pointer[T]) CompareAndSwap(o, n *T) bool {
	sched.Point("Pointer.CompareAndSwap")
	return x.v.CompareAndSwap(o, n)
}

// Value mirrors atomic.Value.
type Value struct{ v atomic.Value }

func (x *Value) Load() any      { sched.Point("Value.Load"); return x.v.Load() }
func (x *Value) Store(v any)    { sched.Point("Value.Store"); x.v.Store(v) }
func (x *Value) Swap(v any) any { sched.Point("Value.Swap"); return x.v.Swap(v) }
func (x *Value) CompareAndSwap(o, n any) bool {
	sched.Point("Value.CompareAndSwap")
	return x.v.CompareAndSwap(o, n)
}

// Function forms of sync/atomic (a change under test may switch to them).
func AddInt32(a *int32, d int32) int32     { sched.Point("AddInt32"); return atomic.AddInt32(a, d) }
func AddInt64(a *int64, d int64) int64     { sched.Point("AddInt64"); return atomic.AddInt64(a, d) }
func AddUint32(a *uint32, d uint32) uint32 { sched.Point("AddUint32"); return atomic.AddUint32(a, d) }
func AddUint64(a *uint64, d uint64) uint64 { sched.Point("AddUint64"); return atomic.AddUint64(a, d) }
func LoadInt32(a *int32) int32             { sched.Point("LoadInt32"); return atomic.LoadInt32(a) }
func LoadInt64(a *int64) int64             { sched.Point("LoadInt64"); return atomic.LoadInt64(a) }
func LoadUint32(a *uint32) uint32          { sched.Point("LoadUint32"); return atomic.LoadUint32(a) }
func LoadUint64(a *uint64) uint64          { sched.Point("LoadUint64"); return atomic.LoadUint64(a) }
func StoreInt32(a *int32, v int32)         { sched.Point("StoreInt32"); atomic.StoreInt32(a, v) }
func StoreInt64(a *int64, v int64)         { sched.Point("StoreInt64"); atomic.StoreInt64(a, v) }
func StoreUint32(a *uint32, v uint32)      { sched.Point("StoreUint32"); atomic.StoreUint32(a, v) }
func StoreUint64(a *uint64, v uint64)      { sched.Point("StoreUint64"); atomic.StoreUint64(a, v) }
func SwapInt32(a *int32, v int32) int32    { sched.Point("SwapInt32"); return atomic.SwapInt32(a, v) }
func SwapInt64(a *int64, v int64) int64    { sched.Point("SwapInt64"); return atomic.SwapInt64(a, v) }
func SwapUint32(a *uint32, v uint32) uint32 {
	sched.Point("SwapUint32")
	return atomic.SwapUint32(a, v)
}
func SwapUint64(a *uint64, v uint64) uint64 {
	sched.Point("SwapUint64")
	return atomic.SwapUint64(a, v)
}
func CompareAndSwapInt32(a *int32, o, n int32) bool {
	sched.Point("CompareAndSwapInt32")
	return atomic.CompareAndSwapInt32(a, o, n)
}
func CompareAndSwapInt64(a *int64, o, n int64) bool {
	sched.Point("CompareAndSwapInt64")
	return atomic.CompareAndSwapInt64(a, o, n)
}
func CompareAndSwapUint32(a *uint32, o, n uint32) bool {
	sched.Point("CompareAndSwapUint32")
	return atomic.CompareAndSwapUint32(a, o, n)
}
func CompareAndSwapUint64(a *uint64, o, n uint64) bool {
	sched.Point("CompareAndSwapUint64")
	return atomic.CompareAndSwapUint64(a, o, n)
}
