// Package vsync mirrors the part of package sync used by the packages under
// test, routing every operation through the controlled scheduler. Outside a
// controlled run it behaves like package sync (single-threaded use only needs
// the state kept here; real mutual exclusion is provided by an embedded real
// mutex for free-running use).
package vsync

import (
	"sync"

	"github.com/mycoria/mycoria/zz_verif/sched"
)

// Locker mirrors sync.Locker.
type Locker = sync.Locker

// WaitGroup, Once, Cond and Map are passed through unchanged.
type (
	WaitGroup = sync.WaitGroup
	Once      = sync.Once
	Cond      = sync.Cond
	Map       = sync.Map
)

// OnceFunc, OnceValue and OnceValues mirror the sync helpers.
func OnceFunc(f func()) func()                                 { return sync.OnceFunc(f) }
func OnceValue[T any](f func() T) func() T                     { return sync.OnceValue(f) }
func OnceValues[T1, T2 any](f func() (T1, T2)) func() (T1, T2) { return sync.OnceValues(f) }

// NewCond mirrors sync.NewCond.
func NewCond(l Locker) *Cond { return sync.NewCond(l) }

// Mutex mirrors sync.Mutex.
type Mutex struct {
	real   sync.Mutex
	locked bool
}

// Lock mirrors (*sync.Mutex).Lock.
func (m *Mutex) Lock() {
	if sched.Zombie() {
		return
	}
	if !sched.Active() {
		m.real.Lock()
		return
	}
	for {
		sched.Point("Mutex.Lock")
		if !m.locked {
			m.locked = true
			return
		}
		sched.BlockOn(m, "Mutex.Lock(blocked)")
	}
}

// TryLock mirrors (*sync.Mutex).TryLock.
func (m *Mutex) TryLock() bool {
	if sched.Zombie() {
		return true
	}
	if !sched.Active() {
		return m.real.TryLock()
	}
	sched.Point("Mutex.TryLock")
	if m.locked {
		return false
	}
	m.locked = true
	return true
}

// Unlock mirrors (*sync.Mutex).Unlock.
func (m *Mutex) Unlock() {
	if sched.Zombie() {
		return
	}
	if !sched.Active() {
		m.real.Unlock()
		return
	}
	sched.Point("Mutex.Unlock")
	if !m.locked {
		panic("vsync: unlock of unlocked mutex")
	}
	m.locked = false
	sched.Unblock(m)
}

// RWMutex mirrors sync.RWMutex.
type RWMutex struct {
	real    sync.RWMutex
	writer  bool
	readers int
	// waiting counts writers blocked in Lock: as with the real RWMutex, a blocked
	// Lock call keeps NEW readers out (so a goroutine that read-locks twice
	// deadlocks when a writer arrives in between).
	waiting int
}

// Lock mirrors (*sync.RWMutex).Lock.
func (m *RWMutex) Lock() {
	if sched.Zombie() {
		return
	}
	if !sched.Active() {
		m.real.Lock()
		return
	}
	for {
		sched.Point("RWMutex.Lock")
		if !m.writer && m.readers == 0 {
			m.writer = true
			return
		}
		m.waiting++
		sched.BlockOn(m, "RWMutex.Lock(blocked)")
		m.waiting--
	}
}

// Unlock mirrors (*sync.RWMutex).Unlock.
func (m *RWMutex) Unlock() {
	if sched.Zombie() {
		return
	}
	if !sched.Active() {
		m.real.Unlock()
		return
	}
	sched.Point("RWMutex.Unlock")
	m.writer = false
	sched.Unblock(m)
}

// RLock mirrors (*sync.RWMutex).RLock.
func (m *RWMutex) RLock() {
	if sched.Zombie() {
		return
	}
	if !sched.Active() {
		m.real.RLock()
		return
	}
	for {
		sched.Point("RWMutex.RLock")
		if !m.writer && m.waiting == 0 {
			m.readers++
			return
		}
		sched.BlockOn(m, "RWMutex.RLock(blocked)")
	}
}

// RUnlock mirrors (*sync.RWMutex).RUnlock.
func (m *RWMutex) RUnlock() {
	if sched.Zombie() {
		return
	}
	if !sched.Active() {
		m.real.RUnlock()
		return
	}
	sched.Point("RWMutex.RUnlock")
	m.readers--
	sched.Unblock(m)
}

// Pool mirrors sync.Pool as a deterministic LIFO free list.
type Pool struct {
	New   func() any
	mu    sync.Mutex
	items []any
}

// Get mirrors (*sync.Pool).Get.
func (p *Pool) Get() any {
	sched.Point("Pool.Get")
	p.mu.Lock()
	if n := len(p.items); n > 0 {
		x := p.items[n-1]
		p.items = p.items[:n-1]
		p.mu.Unlock()
		return x
	}
	p.mu.Unlock()
	if p.New != nil {
		return p.New()
	}
	return nil
}

// Put mirrors (*sync.Pool).Put.
func (p *Pool) Put(x any) {
	sched.Point("Pool.Put")
	p.mu.Lock()
	p.items = append(p.items, x)
	p.mu.Unlock()
	// handing an object to the pool publishes it: another thread may take it
	// before the releasing one has finished whatever it still does with it.
	sched.Point("Pool.Put(done)")
}
