package kit

import (
	"fmt"
	"net/netip"
	"sort"
	"strings"
	"time"

	"github.com/fxamacker/cbor/v2"

	"github.com/mycoria/mycoria/frame"
	"github.com/mycoria/mycoria/router"
	"github.com/mycoria/mycoria/state"
)

// PingSpec describes a ping message to be built with a sender's real keys.
type PingSpec struct {
	Dst      netip.Addr
	MsgType  frame.MessageType
	PingType string
	Code     uint8
	FollowUp bool
	PingID   uint64
	Body     []byte
	// Src overrides the frame source (default: the sender's address).
	Src netip.Addr
	// NoHeaderKey leaves the identity fields of the ping header empty.
	NoHeaderKey bool
	// RawSign signs like a first-contact frame (no session) instead of sealing
	// with the sender's session for Dst.
	RawSign bool
	Switch  []byte
	TTL     uint8
}

// BuildPing builds and seals a ping exactly the way router.sendPingMsg does
// (same header encoding, same sealing rules) and returns the wire bytes.
func BuildPing(sender *Node, sp PingSpec) ([]byte, error) {
	id := sender.Identity()
	hdr := router.PingHeader{PingID: sp.PingID, PingType: sp.PingType, PingCode: sp.Code, FollowUp: sp.FollowUp}
	if !sp.NoHeaderKey {
		hdr.AddrHash, hdr.KeyType, hdr.PublicKey = id.Hash, id.Type, id.PublicKey
	}
	if hdr.PingID == 0 {
		hdr.PingID = 4711
	}
	hd, err := cbor.Marshal(&hdr)
	if err != nil {
		return nil, err
	}
	if len(hd) > 255 {
		return nil, fmt.Errorf("ping header too big")
	}
	msg := append([]byte{1, byte(len(hd))}, hd...)
	msg = append(msg, sp.Body...)
	src := id.IP
	if sp.Src.IsValid() {
		src = sp.Src
	}
	f, err := sender.FrameBuilder().NewFrameV1(src, sp.Dst, sp.MsgType, sp.Switch, msg, nil)
	if err != nil {
		return nil, err
	}
	defer f.ReturnToPool()
	var sess *state.Session
	if !sp.RawSign {
		sess = sender.State().GetSession(sp.Dst)
	}
	switch {
	case sess != nil:
		if err := f.Seal(sess); err != nil {
			return nil, err
		}
	case sp.MsgType.IsEncrypted():
		return nil, fmt.Errorf("encryption is not set up")
	default:
		f.SetTTL(0)
		f.SetSequenceTime(time.Now().Round(state.DefaultPrecision).Add(-state.DefaultPrecision))
		if err := f.SignRaw(id.PrivateKey); err != nil {
			return nil, err
		}
		f.SetTTL(32)
	}
	if sp.TTL != 0 {
		f.SetTTL(sp.TTL)
	}
	d, err := f.FrameDataWithMargins(0, 0)
	if err != nil {
		return nil, err
	}
	return append([]byte(nil), d...), nil
}

// MustCBOR marshals v or panics.
func MustCBOR(v any) []byte {
	b, err := cbor.Marshal(v)
	if err != nil {
		panic(err)
	}
	return b
}

// Snapshot is the canonical form of everything the control plane may change at
// n with respect to the given router addresses: sessions (set-up flag, key
// fingerprints, peer MTU), routing table, connection verdicts, stored public
// info and offline flags.
func Snapshot(n *Node, ips []netip.Addr) string {
	var b strings.Builder
	b.WriteString("TABLE\n")
	b.WriteString(TableKey(n))
	b.WriteString("SESSIONS\n")
	for _, ip := range ips {
		fmt.Fprintf(&b, "%s: %s | %s\n", ip, SessionKey(n, ip), StoredKey(n, ip))
	}
	b.WriteString("CONNS\n")
	conns := n.Router().ExportConnections(1000 * time.Hour)
	lines := make([]string, 0, len(conns))
	for _, c := range conns {
		lines = append(lines, fmt.Sprintf("%s %s %d %d %d in=%v %s", c.LocalIP, c.RemoteIP, c.Protocol, c.LocalPort, c.RemotePort, c.Inbound, c.StatusName))
	}
	sort.Strings(lines)
	b.WriteString(strings.Join(lines, "\n"))
	return b.String()
}

// SnapshotMap is Snapshot split into named sections so that a harness can say
// which parts changed.
func SnapshotMap(n *Node, ips []netip.Addr) map[string]string {
	out := map[string]string{"table": TableKey(n)}
	for _, ip := range ips {
		out["session/"+ip.String()] = SessionKey(n, ip)
		out["stored/"+ip.String()] = StoredKey(n, ip)
	}
	conns := n.Router().ExportConnections(1000 * time.Hour)
	lines := make([]string, 0, len(conns))
	for _, c := range conns {
		lines = append(lines, fmt.Sprintf("%s %s %d %d %d in=%v %s", c.LocalIP, c.RemoteIP, c.Protocol, c.LocalPort, c.RemotePort, c.Inbound, c.StatusName))
	}
	sort.Strings(lines)
	out["conns"] = strings.Join(lines, "\n")
	return out
}

// DiffKeys returns the sorted section names whose content differs.
func DiffKeys(a, b map[string]string) []string {
	var out []string
	for k, v := range a {
		if b[k] != v {
			out = append(out, k)
		}
	}
	for k := range b {
		if _, ok := a[k]; !ok {
			out = append(out, k)
		}
	}
	sort.Strings(out)
	return out
}

// TunBytes returns the bytes the tun writer hands to the local interface for a
// frame taken from the tun device's SendFrame queue. It mirrors the two lines
// of tun.(*Device).tunWriter (MessageDataWithOffset(10), written from offset 10).
func TunBytes(f frame.Frame) ([]byte, error) {
	d, err := f.MessageDataWithOffset(10)
	if err != nil {
		return nil, err
	}
	return d[10:], nil
}

// TunBytesOrNil is TunBytes without the error.
func TunBytesOrNil(f frame.Frame) []byte {
	b, _ := TunBytes(f)
	return b
}
