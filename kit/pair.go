package kit

import (
	"fmt"

	"github.com/mycoria/mycoria/state"
)

// Introduce makes a and b know each other's public address (stored router
// record), which is what creates sessions on demand.
func Introduce(a, b *Node) error {
	if err := a.State().AddRouter(&b.Identity().PublicAddress); err != nil {
		return err
	}
	return b.State().AddRouter(&a.Identity().PublicAddress)
}

// KeySessions runs the real X25519 key exchange between a's session for b and
// b's session for a (a is the client). Both sessions are set up afterwards.
func KeySessions(a, b *Node) error {
	if err := Introduce(a, b); err != nil {
		return err
	}
	sa := a.State().GetSession(b.Identity().IP)
	sb := b.State().GetSession(a.Identity().IP)
	if sa == nil || sb == nil {
		return fmt.Errorf("no session")
	}
	return KeyPair(sa.Encryption(), sb.Encryption())
}

// KeyPair runs the real key exchange between two encryption sessions.
func KeyPair(client, server *state.EncryptionSession) error {
	k, t, err := client.InitKeyClientStart()
	if err != nil {
		return err
	}
	k2, t2, err := server.InitKeyServer(k, t)
	if err != nil {
		return err
	}
	if err := client.InitKeyClientComplete(k2, t2); err != nil {
		return err
	}
	client.InitCleanup()
	server.InitCleanup()
	return nil
}
