package kit

import (
	"fmt"

	"github.com/mycoria/mycoria/state"
)

// Introduce makes a and b know each other's public address (stored router
// record), which is what creates sessions on demand.
func Introduce(a, b *Node) error {
	if err := a.State().AddRouter(&b.Identity().PublicAddress); err != nil {
		return err
	}
	return b.State().AddRouter(&a.Identity().PublicAddress)
}

// KeySessions runs the real X25519 key exchange between a's session for b and
// b's session for a (a is the client). Both sessions are set up afterwards.
func KeySessions(a, b *Node) error {
	if err := Introduce(a, b); err != nil {
		return err
	}
	sa := a.State().GetSession(b.Identity().IP)
	sb := b.State().GetSession(a.Identity().IP)
	if sa == nil || sb == nil {
		return fmt.Errorf("no session")
	}
	return KeyPair(sa.Encryption(), sb.Encryption())
}

// KeySessionsHello is KeySessions with the clean-up pattern of the end-to-end
// hello exchange: only the initiator discards its temporary keys (the router's
// hello request handler never calls InitCleanup), whereas both ends of a link
// handshake do.
func KeySessionsHello(a, b *Node) error {
	if err := Introduce(a, b); err != nil {
		return err
	}
	sa := a.State().GetSession(b.Identity().IP)
	sb := b.State().GetSession(a.Identity().IP)
	if sa == nil || sb == nil {
		return fmt.Errorf("no session")
	}
	return keyPair(sa.Encryption(), sb.Encryption(), false)
}

// KeyPair runs the real key exchange between two encryption sessions (both ends
// discard their temporary keys afterwards, as the link handshake does).
func KeyPair(client, server *state.EncryptionSession) error {
	return keyPair(client, server, true)
}

func keyPair(client, server *state.EncryptionSession, serverCleans bool) error {
	k, t, err := client.InitKeyClientStart()
	if err != nil {
		return err
	}
	k2, t2, err := server.InitKeyServer(k, t)
	if err != nil {
		return err
	}
	if err := client.InitKeyClientComplete(k2, t2); err != nil {
		return err
	}
	client.InitCleanup()
	if serverCleans {
		server.InitCleanup()
	}
	return nil
}
