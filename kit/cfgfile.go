package kit

import (
	"encoding/json"
	"fmt"
	"os"
	"path/filepath"

	"gopkg.in/yaml.v3"

	"github.com/mycoria/mycoria/config"
)

// The configuration file as a user writes it. The key names are the documented
// ones, spelled out here and NOT taken from the repository's struct tags, so that
// the path file -> loader -> parser (the way cmd/mycoria starts a router) is part
// of what a check exercises.
type fileAddress struct {
	IP         string `json:"ip,omitempty" yaml:"ip,omitempty"`
	Hash       string `json:"hash,omitempty" yaml:"hash,omitempty"`
	Type       string `json:"type,omitempty" yaml:"type,omitempty"`
	PublicKey  string `json:"public,omitempty" yaml:"public,omitempty"`
	PrivateKey string `json:"private,omitempty" yaml:"private,omitempty"`
	Easing     uint64 `json:"easing,omitempty" yaml:"easing,omitempty"`
}

type fileRouter struct {
	Address        fileAddress `json:"address" yaml:"address"`
	Universe       string      `json:"universe,omitempty" yaml:"universe,omitempty"`
	UniverseSecret string      `json:"universeSecret,omitempty" yaml:"universeSecret,omitempty"`
	Isolate        bool        `json:"isolate,omitempty" yaml:"isolate,omitempty"`
	Listen         []string    `json:"listen,omitempty" yaml:"listen,omitempty"`
	IANA           []string    `json:"iana,omitempty" yaml:"iana,omitempty"`
	Connect        []string    `json:"connect,omitempty" yaml:"connect,omitempty"`
	Bootstrap      []string    `json:"bootstrap,omitempty" yaml:"bootstrap,omitempty"`
	Stub           bool        `json:"stub,omitempty" yaml:"stub,omitempty"`
	Lite           bool        `json:"lite,omitempty" yaml:"lite,omitempty"`
}

type fileSystem struct {
	TunName    string `json:"tunName,omitempty" yaml:"tunName,omitempty"`
	TunMTU     int    `json:"tunMTU,omitempty" yaml:"tunMTU,omitempty"`
	DisableTun bool   `json:"disableTun,omitempty" yaml:"disableTun,omitempty"`
	APIListen  string `json:"apiListen,omitempty" yaml:"apiListen,omitempty"`
	StatePath  string `json:"statePath,omitempty" yaml:"statePath,omitempty"`
}

type fileService struct {
	Name        string   `json:"name,omitempty" yaml:"name,omitempty"`
	Description string   `json:"description,omitempty" yaml:"description,omitempty"`
	Domain      string   `json:"domain,omitempty" yaml:"domain,omitempty"`
	URL         string   `json:"url,omitempty" yaml:"url,omitempty"`
	Public      bool     `json:"public,omitempty" yaml:"public,omitempty"`
	Friends     bool     `json:"friends,omitempty" yaml:"friends,omitempty"`
	For         []string `json:"for,omitempty" yaml:"for,omitempty"`
	Advertise   bool     `json:"advertise,omitempty" yaml:"advertise,omitempty"`
}

type fileFriend struct {
	Name string `json:"name,omitempty" yaml:"name,omitempty"`
	IP   string `json:"ip,omitempty" yaml:"ip,omitempty"`
}

type fileConfig struct {
	Router   fileRouter        `json:"router" yaml:"router"`
	System   fileSystem        `json:"system,omitempty" yaml:"system,omitempty"`
	Services []fileService     `json:"services,omitempty" yaml:"services,omitempty"`
	Friends  []fileFriend      `json:"friends,omitempty" yaml:"friends,omitempty"`
	Resolve  map[string]string `json:"resolve,omitempty" yaml:"resolve,omitempty"`
}

// WriteConfigFile writes st as a configuration file dir/name.ext (ext json, yaml
// or yml) and returns its path.
func WriteConfigFile(dir, name, ext string, st config.Store) (string, error) {
	a := st.Router.Address
	fc := fileConfig{
		Router: fileRouter{
			Address:  fileAddress{IP: a.IP, Hash: string(a.Hash), Type: string(a.Type), PublicKey: a.PublicKey, PrivateKey: a.PrivateKey, Easing: a.Easing},
			Universe: st.Router.Universe, UniverseSecret: st.Router.UniverseSecret, Isolate: st.Router.Isolate,
			Listen: st.Router.Listen, IANA: st.Router.IANA, Connect: st.Router.Connect, Bootstrap: st.Router.Bootstrap,
			Stub: st.Router.Stub, Lite: st.Router.Lite,
		},
		System:  fileSystem{TunName: st.System.TunName, TunMTU: st.System.TunMTU, DisableTun: st.System.DisableTun, APIListen: st.System.APIListen, StatePath: st.System.StatePath},
		Resolve: st.ResolveConfig,
	}
	for _, s := range st.ServiceConfigs {
		fc.Services = append(fc.Services, fileService{s.Name, s.Description, s.Domain, s.URL, s.Public, s.Friends, s.For, s.Advertise})
	}
	for _, f := range st.FriendConfigs {
		fc.Friends = append(fc.Friends, fileFriend{f.Name, f.IP})
	}
	var data []byte
	var err error
	switch ext {
	case "json":
		data, err = json.MarshalIndent(fc, "", "  ")
	case "yaml", "yml":
		data, err = yaml.Marshal(fc)
	default:
		return "", fmt.Errorf("harness: unknown configuration file type %q", ext)
	}
	if err != nil {
		return "", fmt.Errorf("harness: %w", err)
	}
	path := filepath.Join(dir, name+"."+ext)
	if err := os.WriteFile(path, data, 0o600); err != nil {
		return "", fmt.Errorf("harness: %w", err)
	}
	return path, nil
}

// LoadConfigFile writes st as a file and loads it with the real loader; a panic of
// the loader is returned as panicked.
func LoadConfigFile(dir, name, ext string, st config.Store) (cfg *config.Config, err error, panicked any) {
	path, werr := WriteConfigFile(dir, name, ext, st)
	if werr != nil {
		return nil, werr, nil
	}
	if p, v := Try(func() { cfg, err = config.LoadConfig(path) }); p {
		return nil, nil, v
	}
	return cfg, err, nil
}
