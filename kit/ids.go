package kit

import (
	"crypto/ed25519"
	"crypto/sha256"
	"encoding/binary"
	"fmt"
	"net/netip"

	"github.com/mycoria/crop"
	"github.com/mycoria/mycoria/m"
)

// DRBG is a deterministic byte stream (SHA-256 in counter mode) used wherever
// the harness itself needs reproducible "random" bytes.
type DRBG struct {
	seed [32]byte
	ctr  uint64
	buf  []byte
}

// NewDRBG returns a deterministic reader for the given label and seed.
func NewDRBG(label string, seed int64) *DRBG {
	d := &DRBG{}
	d.seed = sha256.Sum256([]byte(fmt.Sprintf("%s/%d", label, seed)))
	return d
}

func (d *DRBG) Read(p []byte) (int, error) {
	n := len(p)
	for len(p) > 0 {
		if len(d.buf) == 0 {
			var c [8]byte
			binary.BigEndian.PutUint64(c[:], d.ctr)
			d.ctr++
			s := sha256.Sum256(append(d.seed[:], c[:]...))
			d.buf = s[:]
		}
		k := copy(p, d.buf)
		p = p[k:]
		d.buf = d.buf[k:]
	}
	return n, nil
}

// Intn returns a deterministic number in [0,n).
func (d *DRBG) Intn(n int) int {
	var b [8]byte
	_, _ = d.Read(b[:])
	return int(binary.BigEndian.Uint64(b[:]) % uint64(n))
}

// GenIdentity generates a real router identity whose address lies in the given
// prefix, deterministically from the DRBG. The result is always passed through
// the real m.AddressFromStorage, so a broken generator here can only make a
// check fail loudly, never pass.
func GenIdentity(d *DRBG, prefix netip.Prefix) *m.Address {
	for tries := 0; tries < 50_000_000; tries++ {
		pub, priv, err := ed25519.GenerateKey(d)
		if err != nil {
			panic(err)
		}
		ip, err := m.DigestToAddress(crop.BLAKE3, crop.KeyPairTypeEd25519, pub, 0)
		if err != nil {
			panic(err)
		}
		if !prefix.Contains(ip) || m.InternalPrefix.Contains(ip) {
			continue
		}
		a := &m.Address{
			PublicAddress: m.PublicAddress{IP: ip, Hash: crop.BLAKE3, Type: crop.KeyPairTypeEd25519, PublicKey: pub},
			PrivateKey:    priv,
		}
		loaded, err := m.AddressFromStorage(a.Store())
		if err != nil {
			panic(fmt.Sprintf("generated identity does not load: %v", err))
		}
		return loaded
	}
	panic("identity generation exhausted")
}

// RoutablePool returns n identities in the routable range fd00::/9,
// deterministic for (label).
func RoutablePool(label string, n int) []*m.Address {
	d := NewDRBG("ids/"+label, 1)
	out := make([]*m.Address, 0, n)
	seen := map[netip.Addr]bool{}
	for len(out) < n {
		a := GenIdentity(d, m.RoutingAddressPrefix)
		if seen[a.IP] {
			continue
		}
		seen[a.IP] = true
		out = append(out, a)
	}
	return out
}

// RoutableWhere returns n distinct routable identities whose address satisfies
// want (deterministic for label); used to pick addresses with particular bits,
// e.g. colliding derived switch labels.
func RoutableWhere(label string, n int, want func(netip.Addr) bool) []*m.Address {
	d := NewDRBG("ids/"+label, 1)
	out := make([]*m.Address, 0, n)
	seen := map[netip.Addr]bool{}
	for tries := 0; len(out) < n; tries++ {
		if tries > 2000000 {
			panic("RoutableWhere: no matching identity found")
		}
		a := GenIdentity(d, m.RoutingAddressPrefix)
		if seen[a.IP] || !want(a.IP) {
			continue
		}
		seen[a.IP] = true
		out = append(out, a)
	}
	return out
}
