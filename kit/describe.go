package kit

import (
	"fmt"
	"net/netip"
	"regexp"
	"sort"
	"strings"

	"github.com/fxamacker/cbor/v2"

	"github.com/mycoria/mycoria/frame"
	"github.com/mycoria/mycoria/router"
)

// DescribeFrame gives a canonical, randomness-free description of a wire frame
// (message type; for pings: type, follow-up flag, code). Ping ids, nonces,
// sequence numbers and key material are left out on purpose.
func DescribeFrame(raw []byte) string {
	if len(raw) < 51 {
		return "short-frame"
	}
	mt := frame.MessageType(raw[4])
	switch mt {
	case frame.RouterPing, frame.RouterHopPing, frame.RouterHopPingDeprecated:
		sw := int(raw[48])
		if len(raw) < 51+sw {
			return fmt.Sprintf("type%d", mt)
		}
		ml := int(raw[49+sw])<<8 | int(raw[50+sw])
		if len(raw) < 51+sw+ml {
			return fmt.Sprintf("type%d", mt)
		}
		msg := raw[51+sw : 51+sw+ml]
		if len(msg) < 3 || int(msg[1])+2 > len(msg) {
			return fmt.Sprintf("type%d:ping?", mt)
		}
		var h router.PingHeader
		if err := cbor.Unmarshal(msg[2:2+int(msg[1])], &h); err != nil {
			return fmt.Sprintf("type%d:ping?", mt)
		}
		return fmt.Sprintf("type%d:ping-%s/followup=%v/code=%d", mt, h.PingType, h.FollowUp, h.PingCode)
	}
	return fmt.Sprintf("type%d/len%d", mt, len(raw))
}

// DescribeFlights is the sorted canonical multiset of the given frames, named by
// the link they crossed.
func DescribeFlights(fls []*Flight) string {
	out := make([]string, len(fls))
	for i, fl := range fls {
		out[i] = fl.From.Name + ">" + fl.To.Name + ":" + DescribeFrame(fl.Bytes)
	}
	sort.Strings(out)
	return strings.Join(out, ", ")
}

// DescribeFlightsByDst is the sorted canonical multiset of the given frames,
// named by emitting router and the frame's DESTINATION ADDRESS (not by the link
// chosen for it: which of several routes a frame takes may legitimately depend
// on what else the router is doing at the moment).
func (w *World) DescribeFlightsByDst(fls []*Flight) string {
	out := make([]string, len(fls))
	for i, fl := range fls {
		dst := "?"
		if len(fl.Bytes) >= 48 {
			ip := netip.AddrFrom16([16]byte(fl.Bytes[32:48]))
			dst = ip.String()
			if n, ok := w.ByIP[ip]; ok {
				dst = n.Name
			}
		}
		out[i] = fl.From.Name + "=>" + dst + ":" + DescribeFrame(fl.Bytes)
	}
	sort.Strings(out)
	return strings.Join(out, ", ")
}

var keyFingerprints = regexp.MustCompile(`in=[0-9a-f]* out=[0-9a-f]*`)

// StripKeys removes key fingerprints from a snapshot string (key material is
// fresh randomness: two executions that do the same thing differ in it).
func StripKeys(s string) string { return keyFingerprints.ReplaceAllString(s, "keys") }
