package kit

import (
	"io"
	"log/slog"
	"os"

	"github.com/mycoria/mycoria/config"
	"github.com/mycoria/mycoria/frame"
	"github.com/mycoria/mycoria/inst"
	"github.com/mycoria/mycoria/m"
	"github.com/mycoria/mycoria/mgr"
	"github.com/mycoria/mycoria/peering"
	"github.com/mycoria/mycoria/router"
	"github.com/mycoria/mycoria/state"
	"github.com/mycoria/mycoria/storage"
	"github.com/mycoria/mycoria/switchr"
	"github.com/mycoria/mycoria/tun"
)

func init() {
	// Module managers log through slog.Default(); worker panic recovery prints
	// the stack to os.Stderr. Both are noise for an explorer running millions of
	// executions. VERIF_VERBOSE=1 keeps them.
	if os.Getenv("VERIF_VERBOSE") == "" {
		slog.SetDefault(slog.New(slog.NewTextHandler(io.Discard, &slog.HandlerOptions{Level: slog.LevelError + 100})))
		if devnull, err := os.OpenFile(os.DevNull, os.O_WRONLY, 0); err == nil {
			os.Stderr = devnull
		}
	}
}

// Node is one real router assembled from the real modules, the way
// instance.go assembles them, minus the kernel tun device and the listeners.
// It satisfies the unexported instance interfaces of state, peering, switchr,
// router and dns structurally.
type Node struct {
	inst.AnceStub

	Name  string
	Store *storage.MemStorage
	// FS is what the state manager sees: Store behind a fault plan (pass-through unless armed).
	FS       *FaultStorage
	RouterIn chan frame.Frame // buffered: Switch.escalateFrame is a non-blocking send
	SwitchIn chan frame.Frame
}

// RoutingTable is required by the peering instance interface.
func (n *Node) RoutingTable() *m.RoutingTable { return n.RouterStub.Table() }

// IP returns the node's router address.
func (n *Node) IP() netipAddr { return n.IdentityStub.IP }

// NodeOpts configures NewNode.
type NodeOpts struct {
	Name  string
	ID    *m.Address
	Store config.Store // Router.Address is filled in from ID
	// Config, if set, is used as is (e.g. loaded from a configuration file by the
	// real loader) instead of parsing Store.
	Config *config.Config
	// Storage, if set, is used as the node's persistent storage (a router that
	// restarts with the state an earlier incarnation stored).
	Storage *storage.MemStorage
	// NoTun leaves the tun device nil and sets System.DisableTun.
	NoTun bool
	// StateOnly builds only identity, config, frame builder and state.
	StateOnly bool
}

// NewNode builds a node. Module Start() is never called here: no periodic
// worker runs unless a harness starts one explicitly.
func NewNode(o NodeOpts) (*Node, error) {
	st := o.Store
	st.Router.Address = o.ID.Store()
	if o.NoTun {
		st.System.DisableTun = true
	}
	cfg, err := o.Config, error(nil)
	if cfg == nil {
		cfg, err = configParse(st)
	}
	if err != nil {
		return nil, err
	}
	n := &Node{Name: o.Name, Store: o.Storage}
	if n.Store == nil {
		n.Store = storage.NewMemStorage()
	}
	n.VersionStub = "verif"
	n.ConfigStub = cfg
	n.IdentityStub = o.ID
	n.FrameBuilderStub = frame.NewFrameBuilder()
	n.FrameBuilderStub.SetFrameMargins(peering.FrameOffset, peering.FrameOverhead)
	n.FS = NewFaultStorage(n.Store)
	n.StateStub = state.New(n, n.FS)
	if o.StateOnly {
		return n, nil
	}
	if !o.NoTun {
		n.TunDeviceStub = &tun.Device{
			RecvRaw:   make(chan []byte, 1000),
			SendRaw:   make(chan []byte, 1000),
			SendFrame: make(chan frame.Frame, 1000),
		}
	}
	n.RouterStub, err = router.New(n, router.Config{})
	if err != nil {
		return nil, err
	}
	// The production router input is unbuffered with workers reading it; in
	// sequential mode the harness drains it, so it must be buffered or the
	// switch's non-blocking escalation would drop every frame.
	n.RouterIn = make(chan frame.Frame, 4096)
	n.SwitchStub = switchr.New(n, n.RouterIn)
	n.SwitchIn = make(chan frame.Frame, 4096)
	n.PeeringStub = peering.New(n, n.SwitchIn)
	return n, nil
}

type (
	mgrManager     = mgr.Manager
	mgrAlertUpdate = mgr.AlertUpdate
)

func configParse(st config.Store) (cfg *config.Config, err error) {
	// MakeTestConfig panics on invalid configs; use the same parse with the
	// same "test" relaxations but as an error.
	defer func() {
		if p := recover(); p != nil {
			err = &configError{p}
		}
	}()
	return config.MakeTestConfig(st), nil
}

type configError struct{ v any }

func (e *configError) Error() string { return "config: " + toString(e.v) }

// WatchPanics installs alert managers on the node's module managers so that
// panics recovered inside *workers* (mgr.Go) become observable; the returned
// function lists the worker-panic alerts raised so far.
func WatchPanics(n *Node) func() []string {
	type am interface{ Export() mgrAlertUpdate }
	var watchers []func() []string
	add := func(name string, m *mgrManager) {
		if m == nil {
			return
		}
		a := m.NewAlertMgr()
		watchers = append(watchers, func() []string {
			var out []string
			for _, al := range a.Export().Alerts {
				if len(al.ID) >= 12 && al.ID[:12] == "worker-panic" {
					out = append(out, name+": "+al.Message)
				}
			}
			return out
		})
	}
	if n.PeeringStub != nil {
		add("peering", n.PeeringStub.Manager())
	}
	if n.SwitchStub != nil {
		add("switch", n.SwitchStub.Manager())
	}
	if n.RouterStub != nil {
		add("router", n.RouterStub.Manager())
	}
	return func() []string {
		var out []string
		for _, w := range watchers {
			out = append(out, w()...)
		}
		return out
	}
}
