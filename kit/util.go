package kit

import (
	"fmt"
	"net/netip"
)

type netipAddr = netip.Addr

func toString(v any) string { return fmt.Sprint(v) }

// Try runs fn and converts a panic into (true, value).
func Try(fn func()) (panicked bool, val any) {
	defer func() {
		if p := recover(); p != nil {
			panicked, val = true, p
		}
	}()
	fn()
	return false, nil
}
