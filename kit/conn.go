package kit

import (
	"errors"
	"io"
	"net"
	"sync"
	"time"
)

// Endpoint is one side of an adversary-owned connection: everything the local
// side writes is captured as a list of messages (one per Write call), and the
// local side reads only what the harness feeds it. It is built on sync.Cond,
// which is durably blocking inside a testing/synctest bubble, so after
// synctest.Wait() the harness sees a quiescent system.
type Endpoint struct {
	mu   sync.Mutex
	cond *sync.Cond

	inbox   []byte
	closed  bool
	readErr error
	// Out holds every message written by the local side, in order.
	Out [][]byte
	// Taken counts how many entries of Out the harness has consumed.
	Taken     int
	writeErr  error
	stalled   bool
	holdClose bool
	name      string
	// MaxRead, if > 0, caps the bytes one Read call returns (a transport that
	// hands data over in segments).
	MaxRead int
}

// NewEndpoint returns a new endpoint.
func NewEndpoint(name string) *Endpoint {
	e := &Endpoint{name: name}
	e.cond = sync.NewCond(&e.mu)
	return e
}

var _ net.Conn = &Endpoint{}

func (e *Endpoint) Read(p []byte) (int, error) {
	e.mu.Lock()
	defer e.mu.Unlock()
	for len(e.inbox) == 0 && !e.closed && e.readErr == nil {
		e.cond.Wait()
	}
	if len(e.inbox) > 0 {
		if e.MaxRead > 0 && len(p) > e.MaxRead {
			p = p[:e.MaxRead]
		}
		n := copy(p, e.inbox)
		e.inbox = e.inbox[n:]
		return n, nil
	}
	if e.closed {
		return 0, net.ErrClosed
	}
	return 0, e.readErr
}

func (e *Endpoint) Write(p []byte) (int, error) {
	e.mu.Lock()
	defer e.mu.Unlock()
	if e.closed {
		return 0, net.ErrClosed
	}
	// a remote side that stopped reading: the writer blocks until the
	// connection is closed or the stall ends.
	for e.stalled && !e.closed {
		e.cond.Wait()
	}
	if e.closed {
		return 0, net.ErrClosed
	}
	if e.writeErr != nil {
		return 0, e.writeErr
	}
	e.Out = append(e.Out, append([]byte(nil), p...))
	return len(p), nil
}

// Close closes the local side.
func (e *Endpoint) Close() error {
	e.mu.Lock()
	defer e.mu.Unlock()
	// a close that takes its time (the kernel is busy, the descriptor is contended):
	// the connection stays open and usable until the hold ends.
	for e.holdClose {
		e.cond.Wait()
	}
	e.closed = true
	e.cond.Broadcast()
	return nil
}

// IsClosed reports whether the local side closed the connection.
func (e *Endpoint) IsClosed() bool {
	e.mu.Lock()
	defer e.mu.Unlock()
	return e.closed
}

func (e *Endpoint) LocalAddr() net.Addr                { return &net.UnixAddr{Name: e.name + "-local"} }
func (e *Endpoint) RemoteAddr() net.Addr               { return &net.UnixAddr{Name: e.name + "-remote"} }
func (e *Endpoint) SetDeadline(t time.Time) error      { return nil }
func (e *Endpoint) SetReadDeadline(t time.Time) error  { return nil }
func (e *Endpoint) SetWriteDeadline(t time.Time) error { return nil }

// Feed releases bytes to the local reader.
func (e *Endpoint) Feed(b []byte) {
	e.mu.Lock()
	e.inbox = append(e.inbox, b...)
	e.cond.Broadcast()
	e.mu.Unlock()
}

// FeedEOF makes subsequent reads (after buffered data) fail with io.EOF.
func (e *Endpoint) FeedEOF() { e.FailReads(io.EOF) }

// FailReads makes subsequent reads (after buffered data) fail with err.
func (e *Endpoint) FailReads(err error) {
	e.mu.Lock()
	e.readErr = err
	e.cond.Broadcast()
	e.mu.Unlock()
}

// FailWrites makes subsequent writes fail with err.
func (e *Endpoint) FailWrites(err error) {
	e.mu.Lock()
	e.writeErr = err
	e.mu.Unlock()
}

// StallWrites makes writes block (the remote side no longer drains the
// connection) until the endpoint is closed or StallWrites(false) is called.
func (e *Endpoint) StallWrites(on bool) {
	e.mu.Lock()
	e.stalled = on
	e.cond.Broadcast()
	e.mu.Unlock()
}

// HoldClose makes Close block (with the connection still open) until HoldClose(false).
func (e *Endpoint) HoldClose(on bool) {
	e.mu.Lock()
	e.holdClose = on
	e.cond.Broadcast()
	e.mu.Unlock()
}

// Take returns the messages written since the last Take.
func (e *Endpoint) Take() [][]byte {
	e.mu.Lock()
	defer e.mu.Unlock()
	out := e.Out[e.Taken:]
	e.Taken = len(e.Out)
	return out
}

// ErrBroken is the error used for injected I/O failures.
var ErrBroken = errors.New("injected i/o failure")
