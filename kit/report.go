// Package kit holds the shared machinery of the model-checking harnesses:
// result reporting, identity pools, the explicit-state search helper and the
// mesh world built from real router modules.
package kit

import (
	"crypto/sha256"
	"encoding/hex"
	"encoding/json"
	"fmt"
	"os"
	"sort"
	"strconv"
	"strings"
	"sync"
	"time"
)

// Violation is one property violation found by a harness.
type Violation struct {
	// Key identifies the failing input / call site / history class. It is what
	// known_findings.jsonl entries are matched against, so it must be stable
	// across runs and specific to the failing behaviour.
	Key    string `json:"key"`
	Detail string `json:"detail"`
	// Replay is the JSON-serialisable description needed to re-execute the case.
	Replay any `json:"replay,omitempty"`
}

// Report is what one shard of a check writes; the driver merges shards.
type Report struct {
	mu sync.Mutex

	Property string `json:"property"`
	Tier     string `json:"tier"`
	Seed     int64  `json:"seed"`
	Shard    int    `json:"shard"`
	Shards   int    `json:"shards"`

	Evaluations int64 `json:"evaluations"`
	Nontrivial  int64 `json:"nontrivial"`
	States      int64 `json:"states"`
	Transitions int64 `json:"transitions"`
	Traces      int64 `json:"traces"`

	Rule        string           `json:"rule"`
	Samples     []any            `json:"samples"`
	Exhaustive  bool             `json:"exhaustive"`
	Bounds      map[string]any   `json:"bounds"`
	Assumptions []string         `json:"assumptions"`
	Outcomes    map[string]int64 `json:"outcomes"`
	Caps        []string         `json:"caps"`
	Violations  []Violation      `json:"violations"`

	start   time.Time
	WallS   float64 `json:"wall_s"`
	maxViol int
}

// Env describes how the driver invoked this shard.
type Env struct {
	Tier     string
	Seed     int64
	Shard    int
	Shards   int
	Out      string
	Replay   string
	Deadline time.Time
}

// GetEnv reads the VERIF_* environment.
func GetEnv() Env {
	e := Env{Tier: "quick", Shards: 1}
	if v := os.Getenv("VERIF_TIER"); v == "thorough" {
		e.Tier = v
	}
	if v := os.Getenv("VERIF_SEED"); v != "" {
		e.Seed, _ = strconv.ParseInt(v, 10, 64)
	}
	if v := os.Getenv("VERIF_SHARD"); v != "" {
		parts := strings.Split(v, "/")
		if len(parts) == 2 {
			e.Shard, _ = strconv.Atoi(parts[0])
			e.Shards, _ = strconv.Atoi(parts[1])
		}
	}
	if e.Shards < 1 {
		e.Shards = 1
	}
	e.Out = os.Getenv("VERIF_OUT")
	e.Replay = os.Getenv("VERIF_REPLAY")
	if v := os.Getenv("VERIF_BUDGET_S"); v != "" {
		if s, err := strconv.ParseFloat(v, 64); err == nil && s > 0 {
			e.Deadline = time.Now().Add(time.Duration(s * float64(time.Second)))
		}
	}
	return e
}

// Deep reports whether the thorough tier was requested on the command line
// (checks whose sequential part is cheap run that part at full depth in the
// quick tier too; their interleaving tiers are scaled by this instead).
func (e Env) Deep() bool {
	if v := os.Getenv("VERIF_REAL_TIER"); v != "" {
		return v == "thorough"
	}
	return e.Tier == "thorough"
}

// Thorough reports whether the thorough tier was requested.
func (e Env) Thorough() bool { return e.Tier == "thorough" }

// Mine reports whether top-level case index i belongs to this shard.
func (e Env) Mine(i int) bool { return i%e.Shards == e.Shard }

// Expired reports whether the internal (soft) deadline has passed. Hitting it
// never fails a check: the report is marked non-exhaustive with the cap.
func (e Env) Expired() bool { return !e.Deadline.IsZero() && time.Now().After(e.Deadline) }

// NewReport creates a report for the given property.
func NewReport(property string, e Env) *Report {
	return &Report{
		Property: property, Tier: e.Tier, Seed: e.Seed, Shard: e.Shard, Shards: e.Shards,
		Bounds: map[string]any{}, Outcomes: map[string]int64{}, Exhaustive: true,
		start: time.Now(), maxViol: 40, Violations: []Violation{}, Samples: []any{}, Caps: []string{},
	}
}

// Outcome counts one execution under an outcome class (vacuity diagnostics).
func (r *Report) Outcome(class string) {
	r.mu.Lock()
	r.Outcomes[class]++
	r.mu.Unlock()
}

// OutcomeN counts n executions under an outcome class.
func (r *Report) OutcomeN(class string, n int64) {
	r.mu.Lock()
	r.Outcomes[class] += n
	r.mu.Unlock()
}

// Sample keeps up to 6 written-out cases per report.
func (r *Report) Sample(s any) {
	r.mu.Lock()
	if len(r.Samples) < 6 {
		r.Samples = append(r.Samples, s)
	}
	r.mu.Unlock()
}

// Cap records that a bound/cap was hit, making the run non-exhaustive.
func (r *Report) Cap(what string) {
	r.mu.Lock()
	r.Exhaustive = false
	for _, c := range r.Caps {
		if c == what {
			r.mu.Unlock()
			return
		}
	}
	r.Caps = append(r.Caps, what)
	r.mu.Unlock()
}

// Violate records a violation (deduplicated by key, bounded in number).
func (r *Report) Violate(key, detail string, replay any) {
	r.mu.Lock()
	defer r.mu.Unlock()
	for i := range r.Violations {
		if r.Violations[i].Key == key {
			return
		}
	}
	if len(r.Violations) >= r.maxViol {
		return
	}
	r.Violations = append(r.Violations, Violation{Key: key, Detail: detail, Replay: replay})
}

// NumViolations returns the number of recorded violations.
func (r *Report) NumViolations() int {
	r.mu.Lock()
	defer r.mu.Unlock()
	return len(r.Violations)
}

// Add adds to the counters.
func (r *Report) Add(evals, nontrivial, states, transitions int64) {
	r.mu.Lock()
	r.Evaluations += evals
	r.Nontrivial += nontrivial
	r.States += states
	r.Transitions += transitions
	r.mu.Unlock()
}

// Finish writes the shard result to env.Out (or stdout when unset).
func (r *Report) Finish(e Env) error {
	r.mu.Lock()
	defer r.mu.Unlock()
	r.WallS = time.Since(r.start).Seconds()
	if r.Traces == 0 {
		// Every explored execution is an execution of the implementation itself.
		r.Traces = r.Evaluations
	}
	sort.Slice(r.Violations, func(i, j int) bool { return r.Violations[i].Key < r.Violations[j].Key })
	data, err := json.MarshalIndent(r, "", " ")
	if err != nil {
		return err
	}
	if e.Out == "" {
		fmt.Println(string(data))
		return nil
	}
	return os.WriteFile(e.Out, data, 0o644)
}

// Hash returns a short hex digest of the given parts, for state canonicalisation.
func Hash(parts ...any) string {
	h := sha256.New()
	for _, p := range parts {
		switch v := p.(type) {
		case []byte:
			_, _ = h.Write(v)
		case string:
			_, _ = h.Write([]byte(v))
		default:
			_, _ = fmt.Fprintf(h, "%v", v)
		}
		_, _ = h.Write([]byte{0})
	}
	return hex.EncodeToString(h.Sum(nil)[:12])
}

// Watchdog is the stall oracle for code under test that may spin or block for
// ever inside one synchronous handler call (which no virtual clock can see past):
// the harness marks the start of every case with Case; if a single case does not
// end within limit of REAL time - orders of magnitude above the milliseconds a
// case needs, also on a loaded machine - the shard reports a stall violation for
// that case class, writes its report and exits (the spinning goroutine cannot be
// stopped from outside). It must be started outside any synctest bubble.
type Watchdog struct {
	mu    sync.Mutex
	gen   int64 // bumped by Case; the oracle goroutine notes the REAL time at which it sees a new value
	class string
	desc  string
	off   bool
}

// StartWatchdog starts the stall oracle; limit 0 means VERIF_STALL_S or 300 s.
func (r *Report) StartWatchdog(e Env, limit time.Duration) *Watchdog {
	if limit == 0 {
		limit = 300 * time.Second
		if v := os.Getenv("VERIF_STALL_S"); v != "" {
			if s, err := strconv.ParseFloat(v, 64); err == nil && s > 0 {
				limit = time.Duration(s * float64(time.Second))
			}
		}
	}
	w := &Watchdog{}
	go func() {
		// Case may be called from inside a bubble of virtual time, where time.Now() is
		// not the real clock: only this goroutine (outside any bubble) reads the clock.
		seen, since := int64(-1), time.Now()
		for {
			time.Sleep(limit / 20)
			w.mu.Lock()
			gen, class, desc, off := w.gen, w.class, w.desc, w.off
			w.mu.Unlock()
			if gen != seen {
				seen, since = gen, time.Now()
			}
			idle := time.Since(since)
			if off {
				return
			}
			if idle > limit && class != "" {
				r.Violate("stall/"+class, fmt.Sprintf("the handler call of this case did not return within %v of real time (a worker spinning or blocked for ever): %s", limit, desc), desc)
				r.Outcome("stall!")
				r.Exhaustive = false
				_ = r.Finish(e)
				os.Exit(0)
			}
		}
	}()
	return w
}

// Case marks the start of a case (class = stable violation key part, desc = replay description).
func (w *Watchdog) Case(class, desc string) {
	w.mu.Lock()
	w.gen++
	w.class, w.desc = class, desc
	w.mu.Unlock()
}

// Stop ends the oracle.
func (w *Watchdog) Stop() {
	w.mu.Lock()
	w.off = true
	w.mu.Unlock()
}
