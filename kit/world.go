package kit

import (
	"errors"
	"fmt"
	"net"
	"net/netip"
	"sort"
	"strings"
	"sync"
	"sync/atomic"
	"time"

	"github.com/mycoria/mycoria/config"
	"github.com/mycoria/mycoria/frame"
	"github.com/mycoria/mycoria/m"
	"github.com/mycoria/mycoria/mgr"
	"github.com/mycoria/mycoria/peering"
	"github.com/mycoria/mycoria/state"
)

// World is a set of real routers wired by virtual links. It is strictly
// sequential: every event is one synchronous call into the real handlers, so
// an execution is a pure function of its event list.
type World struct {
	Nodes    []*Node
	ByIP     map[netip.Addr]*Node
	InFlight []*Flight
	Log      []*Flight // every frame that crossed a virtual link (in emission order)
	Dropped  []string  // frames the (modelled) link writer dropped, with reason
	Panics   []string
	nextID   int
	// mu guards the harness bookkeeping above when handlers run on several
	// goroutines (controlled-scheduler tiers and their free-running companion
	// passes). It is a real mutex and never held across a call into the code
	// under test, so it is no scheduling point and cannot block a schedule.
	mu sync.Mutex
	// Intercept, if set, sees every frame handed to a virtual link; returning
	// false swallows the frame (it neither goes in flight nor into the log).
	Intercept func(fl *Flight) bool
	// OnEscalate, if set, sees every frame a node's switch escalated to its
	// router, before the router handler runs.
	OnEscalate func(n *Node, f frame.Frame)
}

// Flight is one frame crossing a virtual link.
type Flight struct {
	ID    int
	From  *Node
	To    *Node
	Bytes []byte
	Prio  bool
}

// VLink is a virtual link end: it lives at From and its peer is To. It
// implements peering.Link and is registered with the real Peering.AddLink.
type VLink struct {
	W       *World
	From    *Node
	To      *Node
	Label   m.SwitchLabel
	Lat     uint16
	IsLite  bool
	closing atomic.Bool
	in, out uint64
}

var _ peering.Link = &VLink{}

func (l *VLink) String() string                   { return fmt.Sprintf("vlink %s->%s", l.From.Name, l.To.Name) }
func (l *VLink) Peer() netip.Addr                 { return l.To.Identity().IP }
func (l *VLink) SwitchLabel() m.SwitchLabel       { return l.Label }
func (l *VLink) GeoMark() string                  { return "" }
func (l *VLink) PeeringURL() *m.PeeringURL        { return nil }
func (l *VLink) Outgoing() bool                   { return true }
func (l *VLink) Lite() bool                       { return l.IsLite }
func (l *VLink) LocalAddr() net.Addr              { return &net.UnixAddr{Name: l.From.Name} }
func (l *VLink) RemoteAddr() net.Addr             { return &net.UnixAddr{Name: l.To.Name} }
func (l *VLink) Started() time.Time               { return time.Time{} }
func (l *VLink) Uptime() time.Duration            { return 0 }
func (l *VLink) Latency() uint16                  { return l.Lat }
func (l *VLink) AddMeasuredLatency(time.Duration) {}
func (l *VLink) BytesIn() uint64                  { l.W.mu.Lock(); defer l.W.mu.Unlock(); return l.in }
func (l *VLink) BytesOut() uint64                 { l.W.mu.Lock(); defer l.W.mu.Unlock(); return l.out }
func (l *VLink) FlowControlIndicator() frame.FlowControlFlag {
	return frame.FlowControlFlagIncreaseFlow
}
func (l *VLink) IsClosing() bool { return l.closing.Load() }
func (l *VLink) Close(log func()) {
	if !l.closing.CompareAndSwap(false, true) {
		return
	}
	l.From.Peering().RemoveLink(l)
}
func (l *VLink) SendPriority(f frame.Frame) error { return l.emit(f, true) }
func (l *VLink) Send(f frame.Frame) error         { return l.emit(f, false) }

// emit mirrors LinkBase.writeFrame for an encrypted link: the frame is released
// after writing, and a frame that lacks the link margins is dropped.
func (l *VLink) emit(f frame.Frame, prio bool) error {
	defer f.ReturnToPool()
	if l.closing.Load() {
		return nil
	}
	data, err := f.FrameDataWithMargins(peering.FrameOffset, peering.FrameOverhead)
	l.W.mu.Lock()
	defer l.W.mu.Unlock()
	if err != nil {
		l.W.Dropped = append(l.W.Dropped, fmt.Sprintf("%s->%s: %v", l.From.Name, l.To.Name, err))
		return nil
	}
	raw := append([]byte(nil), data[peering.FrameOffset:len(data)-peering.FrameOverhead]...)
	if len(data) > 0xFFFF {
		l.W.Dropped = append(l.W.Dropped, fmt.Sprintf("%s->%s: link frame too big (%d)", l.From.Name, l.To.Name, len(data)))
		return nil
	}
	l.out += uint64(len(data))
	l.W.nextID++
	fl := &Flight{ID: l.W.nextID, From: l.From, To: l.To, Bytes: raw, Prio: prio}
	if l.W.Intercept != nil && !l.W.Intercept(fl) {
		return nil
	}
	l.W.InFlight = append(l.W.InFlight, fl)
	l.W.Log = append(l.W.Log, fl)
	return nil
}

// NewWorld returns an empty world.
func NewWorld() *World { return &World{ByIP: map[netip.Addr]*Node{}} }

// AddNode builds a node and adds it to the world.
func (w *World) AddNode(name string, id *m.Address, st config.Store) (*Node, error) {
	n, err := NewNode(NodeOpts{Name: name, ID: id, Store: st})
	if err != nil {
		return nil, err
	}
	w.Nodes = append(w.Nodes, n)
	w.ByIP[id.IP] = n
	return n, nil
}

// AddNodeWith builds a node from full options and adds it to the world.
func (w *World) AddNodeWith(o NodeOpts) (*Node, error) {
	n, err := NewNode(o)
	if err != nil {
		return nil, err
	}
	w.Nodes = append(w.Nodes, n)
	w.ByIP[o.ID.IP] = n
	return n, nil
}

// Connect registers a pair of virtual link ends through the real AddLink.
// The routers learn each other's identity the way a completed handshake
// leaves it: as a stored router record.
func (w *World) Connect(a, b *Node, labelAtA, labelAtB m.SwitchLabel, latency uint16) (*VLink, *VLink, error) {
	if err := Introduce(a, b); err != nil {
		return nil, nil, err
	}
	la := &VLink{W: w, From: a, To: b, Label: labelAtA, Lat: latency}
	lb := &VLink{W: w, From: b, To: a, Label: labelAtB, Lat: latency}
	if err := a.Peering().AddLink(la); err != nil {
		return nil, nil, err
	}
	if err := b.Peering().AddLink(lb); err != nil {
		return nil, nil, err
	}
	return la, lb, nil
}

// Inject hands raw frame bytes to node `to` as if they had arrived over the
// link from peer `from` (which must have a link registered at `to`).
// It returns the errors of the switch and router handlers (nil = handled).
func (w *World) Inject(from, to *Node, raw []byte) (errs []error) {
	link := to.Peering().GetLink(from.Identity().IP)
	return w.InjectVia(link, to, raw)
}

// InjectVia is Inject with an explicit receive link (may be nil).
func (w *World) InjectVia(link peering.Link, to *Node, raw []byte) (errs []error) {
	b := to.FrameBuilder()
	need := len(raw) + peering.FrameOffset + peering.FrameOverhead
	ps := b.GetPooledSlice(need)
	if ps == nil {
		return []error{errors.New("harness: frame too big for any pooled slice")}
	}
	n := copy(ps[peering.FrameOffset:], raw)
	f, err := b.ParseFrame(ps[peering.FrameOffset:peering.FrameOffset+n], ps[:cap(ps)], peering.FrameOffset)
	if err != nil {
		b.ReturnPooledSlice(ps)
		return []error{fmt.Errorf("parse: %w", err)}
	}
	if link != nil {
		f.SetRecvLink(link)
		if vl, ok := link.(*VLink); ok {
			w.mu.Lock()
			vl.in += uint64(len(raw))
			w.mu.Unlock()
		}
	}
	if err := to.Switch().VerifHandleFrame(f); err != nil {
		w.note(to, "switch", err)
		errs = append(errs, err)
	}
	errs = append(errs, w.DrainRouter(to)...)
	return errs
}

// DrainRouter runs the real router handler on every frame the switch escalated.
func (w *World) DrainRouter(n *Node) (errs []error) {
	for {
		select {
		case f := <-n.RouterIn:
			if w.OnEscalate != nil {
				w.OnEscalate(n, f)
			}
			if err := n.Router().VerifHandleFrame(f); err != nil {
				w.note(n, "router", err)
				errs = append(errs, err)
			}
		default:
			return errs
		}
	}
}

func (w *World) note(n *Node, where string, err error) {
	if errors.Is(err, mgr.ErrWorkerPanic) {
		w.mu.Lock()
		w.Panics = append(w.Panics, fmt.Sprintf("%s/%s: %v", n.Name, where, err))
		w.mu.Unlock()
	}
}

// Clean runs the node's periodic router cleaners (ping handler state,
// connection states) once, with a worker's panic recovery.
func (w *World) Clean(n *Node) error {
	err := n.Router().VerifClean()
	if err != nil {
		w.note(n, "clean", err)
	}
	return err
}

// TunPacket hands one local packet to the node's tun handler.
func (w *World) TunPacket(n *Node, pkt []byte) error {
	err := n.Router().VerifHandleTunPacket(pkt)
	if err != nil {
		w.note(n, "tun", err)
	}
	return err
}

// Deliver delivers the in-flight frame at index i.
func (w *World) Deliver(i int) []error {
	fl := w.InFlight[i]
	w.InFlight = append(w.InFlight[:i:i], w.InFlight[i+1:]...)
	return w.Inject(fl.From, fl.To, fl.Bytes)
}

// Drop removes the in-flight frame at index i without delivering it.
func (w *World) Drop(i int) *Flight {
	fl := w.InFlight[i]
	w.InFlight = append(w.InFlight[:i:i], w.InFlight[i+1:]...)
	return fl
}

// Run delivers in-flight frames until none is left, choosing with pick
// (index into InFlight). It returns the number of deliveries; max bounds it.
func (w *World) Run(pick func(w *World) int, max int) int {
	n := 0
	for len(w.InFlight) > 0 && n < max {
		w.Deliver(pick(w))
		n++
	}
	return n
}

// FIFO and LIFO are delivery disciplines for Run.
func FIFO(w *World) int { return 0 }
func LIFO(w *World) int { return len(w.InFlight) - 1 }

// TableKey returns a canonical description of a node's routing table.
// Expiry is bucketed to live/expired: the exact remaining lifetime cannot be
// observed by any property that uses this key within one clock bucket.
func TableKey(n *Node) string {
	now := time.Now()
	es := n.RoutingTable().VerifEntries()
	var b strings.Builder
	for i := range es {
		e := &es[i]
		exp := "live"
		if e.Source != m.RouteSourcePeer && e.Expires.Before(now) {
			exp = "expired"
		}
		fmt.Fprintf(&b, "%s>%s s%d stub=%v %s [", e.DstIP, e.NextHop, e.Source, e.Stub, exp)
		for _, h := range e.Path.Hops {
			fmt.Fprintf(&b, "%s/%d/%d/%d,", h.Router, h.Delay, h.ForwardLabel, h.ReturnLabel)
		}
		b.WriteString("]\n")
	}
	return b.String()
}

// SessionKey returns a canonical description of n's session with peer ip:
// existence, set-up flag, key fingerprints and peer MTU.
func SessionKey(n *Node, ip netip.Addr) string {
	if _, err := n.Store.GetRouter(ip); err != nil {
		return "none"
	}
	s := n.State().GetSession(ip)
	if s == nil {
		return "none"
	}
	enc := s.Encryption()
	h := &state.EncryptionSessionTestHelper{EncryptionSession: enc}
	return fmt.Sprintf("setup=%v in=%s out=%s mtu=%d", enc.IsSetUp(), Hash(h.InKey()), Hash(h.OutKey()), s.TunMTU())
}

// StoredKey returns a canonical description of the stored record of ip at n.
func StoredKey(n *Node, ip netip.Addr) string {
	r, err := n.Store.GetRouter(ip)
	if err != nil || r == nil {
		return "none"
	}
	info := "nil"
	if r.PublicInfo != nil {
		info = fmt.Sprintf("%+v", *r.PublicInfo)
	}
	return fmt.Sprintf("offline=%v universe=%q info=%s", r.Offline, r.Universe, info)
}

// FlightKey is the canonical multiset of in-flight frames.
func (w *World) FlightKey() string {
	keys := make([]string, len(w.InFlight))
	for i, fl := range w.InFlight {
		keys[i] = fl.From.Name + ">" + fl.To.Name + ":" + Hash(fl.Bytes)
	}
	sort.Strings(keys)
	return strings.Join(keys, ",")
}
