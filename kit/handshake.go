package kit

import (
	"errors"
	"net"
	"testing/synctest"

	"github.com/mycoria/mycoria/peering"
)

// Wire is a pair of real Peering instances whose link setup runs over an
// adversary-owned connection: the harness sees every message either side writes
// and decides what each side reads. It must be used inside a synctest bubble.
type Wire struct {
	A, B   *Node
	EA, EB *Endpoint

	LinkA, LinkB peering.Link
	// AttemptB is B's link object whether or not it got registered.
	AttemptB     peering.Link
	ErrA, ErrB   error
	DoneA, DoneB bool
	PanicA       any
	PanicB       any

	// OnMsg decides the fate of message number idx (counted over both
	// directions in the order observed: per round first A's, then B's).
	// It returns the byte strings to feed to B and to A. nil hook = honest relay.
	OnMsg func(idx int, fromA bool, msg []byte) (toB, toA [][]byte)
	// BFirst dispatches B's messages of a round before A's (the adversary owns
	// the ordering of simultaneous messages).
	BFirst bool
	// Seen records every message written, in order.
	Seen  []WireMsg
	next  int
	round int
}

// WireMsg is one observed message.
type WireMsg struct {
	Idx   int
	FromA bool
	Bytes []byte
	// Round is the pump round in which the message was taken off its endpoint:
	// messages of one round were all written before any of them was delivered.
	Round int
}

// NewWire creates the endpoints (no goroutine started yet).
func NewWire(a, b *Node) *Wire {
	return &Wire{A: a, B: b, EA: NewEndpoint(a.Name), EB: NewEndpoint(b.Name)}
}

// Start launches the real link setup on both ends (A dials).
func (w *Wire) Start() {
	w.StartA()
	w.StartB()
}

// StartA launches A's side (outgoing).
func (w *Wire) StartA() {
	go func() {
		p, v := Try(func() { w.LinkA, w.ErrA = w.A.Peering().VerifSetupLink(w.EA, nil, true) })
		if p {
			w.PanicA = v
		}
		w.DoneA = true
	}()
}

// ErrSetupFailed is reported for the accepting side, whose setup worker logs
// its error instead of returning it.
var ErrSetupFailed = errors.New("link setup of the accepted connection failed")

// StartB launches B's side (incoming) the way the listener does: through the
// setup worker of an accepted connection.
func (w *Wire) StartB() {
	go func() {
		p, v := Try(func() {
			reg, att := w.B.Peering().VerifAcceptLink(w.EB, nil)
			w.AttemptB = att
			if reg != nil {
				w.LinkB = reg
			} else {
				w.ErrB = ErrSetupFailed
			}
		})
		if p {
			w.PanicB = v
		}
		w.DoneB = true
	}()
}

// Pump relays messages (through OnMsg) until both sides are quiescent with
// nothing new written, or maxRounds rounds passed. Returns the rounds used.
func (w *Wire) Pump(maxRounds int) int {
	rounds := 0
	for rounds < maxRounds {
		synctest.Wait()
		ma, mb := w.EA.Take(), w.EB.Take()
		if len(ma) == 0 && len(mb) == 0 {
			break
		}
		rounds++
		w.round++
		if w.BFirst {
			for _, m := range mb {
				w.dispatch(false, m)
			}
		}
		for _, m := range ma {
			w.dispatch(true, m)
		}
		if !w.BFirst {
			for _, m := range mb {
				w.dispatch(false, m)
			}
		}
	}
	synctest.Wait()
	return rounds
}

func (w *Wire) dispatch(fromA bool, m []byte) {
	idx := w.next
	w.next++
	w.Seen = append(w.Seen, WireMsg{idx, fromA, m, w.round})
	var toB, toA [][]byte
	if w.OnMsg != nil {
		toB, toA = w.OnMsg(idx, fromA, m)
	} else if fromA {
		toB = [][]byte{m}
	} else {
		toA = [][]byte{m}
	}
	for _, x := range toB {
		w.EB.Feed(x)
	}
	for _, x := range toA {
		w.EA.Feed(x)
	}
}

// Honest is the relay decision of an honest network.
func Honest(fromA bool, m []byte) (toB, toA [][]byte) {
	if fromA {
		return [][]byte{m}, nil
	}
	return nil, [][]byte{m}
}

// Shutdown ends both connections and stops both peering managers so that every
// goroutine of the bubble exits.
func (w *Wire) Shutdown() {
	w.EA.FeedEOF()
	w.EB.FeedEOF()
	synctest.Wait()
	_ = w.A.Peering().Stop()
	_ = w.B.Peering().Stop()
	_ = w.EA.Close()
	_ = w.EB.Close()
	synctest.Wait()
}

// Accept runs the link setup of an accepted connection on n the way its
// listener would (setup worker under the module manager). A panic - raised
// directly or recovered by the worker wrapper - is returned as panicked.
func Accept(n *Node, conn net.Conn) (l peering.Link, panicked any) {
	watch := WatchPanics(n)
	p, v := Try(func() { l, _ = n.Peering().VerifAcceptLink(conn, nil) })
	if p {
		return nil, v
	}
	if al := watch(); len(al) > 0 {
		return l, al[0]
	}
	return l, nil
}
