package kit

import (
	"errors"
	"fmt"
	"net/netip"
	"sync"

	"github.com/mycoria/mycoria/storage"
)

// ErrStorage is the injected storage failure (an I/O error: NOT "not found").
var ErrStorage = errors.New("injected storage i/o failure")

// FaultStorage wraps the node's real in-memory storage: every router-storage call
// is named "<op>#<n>" (n-th call of that operation since Arm) and fails with
// ErrStorage if the armed plan says so. Unarmed it passes everything through.
type FaultStorage struct {
	*storage.MemStorage
	mu    sync.Mutex
	count map[string]int
	fail  map[string]bool
	Fired []string
	Calls []string
}

// NewFaultStorage wraps st.
func NewFaultStorage(st *storage.MemStorage) *FaultStorage {
	return &FaultStorage{MemStorage: st}
}

// Arm starts counting calls; the named calls fail.
func (f *FaultStorage) Arm(fail ...string) {
	f.mu.Lock()
	defer f.mu.Unlock()
	f.count = map[string]int{}
	f.fail = map[string]bool{}
	for _, x := range fail {
		f.fail[x] = true
	}
	f.Fired, f.Calls = nil, nil
}

// Disarm stops counting and failing.
func (f *FaultStorage) Disarm() {
	f.mu.Lock()
	f.count, f.fail = nil, nil
	f.mu.Unlock()
}

func (f *FaultStorage) hit(op string) error {
	f.mu.Lock()
	defer f.mu.Unlock()
	if f.count == nil {
		return nil
	}
	f.count[op]++
	name := fmt.Sprintf("%s#%d", op, f.count[op])
	f.Calls = append(f.Calls, name)
	sticky := false
	for k := 1; k <= f.count[op]; k++ {
		// "<op>#<k>+": every call of the operation from the k-th on fails (an outage, not a glitch).
		if f.fail[fmt.Sprintf("%s#%d+", op, k)] {
			sticky = true
		}
	}
	if f.fail[name] || sticky {
		f.Fired = append(f.Fired, name)
		return fmt.Errorf("%s: %w", name, ErrStorage)
	}
	return nil
}

// GetRouter implements storage.RouterStorage.
func (f *FaultStorage) GetRouter(router netip.Addr) (*storage.StoredRouter, error) {
	if err := f.hit("GetRouter"); err != nil {
		return nil, err
	}
	return f.MemStorage.GetRouter(router)
}

// SaveRouter implements storage.RouterStorage.
func (f *FaultStorage) SaveRouter(router *storage.StoredRouter) error {
	if err := f.hit("SaveRouter"); err != nil {
		return err
	}
	return f.MemStorage.SaveRouter(router)
}

// DeleteRouter implements storage.RouterStorage.
func (f *FaultStorage) DeleteRouter(router netip.Addr) error {
	if err := f.hit("DeleteRouter"); err != nil {
		return err
	}
	return f.MemStorage.DeleteRouter(router)
}

// QueryRouters implements storage.RouterStorage.
func (f *FaultStorage) QueryRouters(q *storage.RouterQuery) error {
	if err := f.hit("QueryRouters"); err != nil {
		return err
	}
	return f.MemStorage.QueryRouters(q)
}
