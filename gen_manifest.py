#!/usr/bin/env python3
"""Regenerates MANIFEST.json from checks_registry.py + manifest_meta.py."""
import json, os, subprocess, sys
ROOT = os.path.dirname(os.path.abspath(__file__))
sys.path.insert(0, ROOT)
from checks_registry import CHECKS
from manifest_meta import META, NOT_APPLICABLE, ENGINES

hooks_commits = subprocess.run(["git", "-C", "/repo", "log", "--format=%h %s", "--grep", "^verif hooks"], stdout=subprocess.PIPE, text=True).stdout.strip().splitlines()
checks = []
for cid in sorted(CHECKS):
    cfg, meta = CHECKS[cid], META[cid]
    checks.append({
        "property_id": cid,
        "quick_cmd": "./vcheck %s --tier quick" % cid,
        "thorough_cmd": "./vcheck %s --tier thorough" % cid,
        "evidence_file": "/verif/evidence/%s.json" % cid,
        "replay_cmd_template": "./vcheck %s --replay {path}" % cid,
        "engine": meta["engine"],
        "level_claimed": {"category": cfg["level"], "text": meta["text"], "design_ref": meta["design_ref"]},
        "level_note": meta["note"],
        "technique": meta["technique"],
    })
claimed = set(CHECKS)
na = [e for e in NOT_APPLICABLE if e["property_id"] not in claimed]
m = {
    "version": 1,
    "setup_cmd": "cd /verif && python3 vcheck.py --build-all",
    "hooks": {
        "guard": "verif (Go build tag)",
        "enable": "go test -tags verif (the driver vcheck.py always builds the harness with -tags verif against /repo via a module replace)",
        "baseline_off_cmd": "cd /repo && GOFLAGS=-mod=mod GOPROXY=off go test -vet=off -count=1 -timeout 25m ./...",
        "source_commits": [c.split()[0] for c in hooks_commits],
        "add_only": True,
    },
    "engines": ENGINES,
    "checks": checks,
    "not_applicable": na,
    "notes": "All checks are model checking / bounded exhaustive exploration on the real implementation (module replace to /repo, build tag verif). See DESIGN.md.",
}
json.dump(m, open(os.path.join(ROOT, "MANIFEST.json"), "w"), indent=1)
print("wrote MANIFEST.json with", len(checks), "checks,", len(na), "not_applicable")
