#!/usr/bin/env python3
import json, sys, glob
import jsonschema
m=json.load(open('/verif/MANIFEST.json')); s=json.load(open('/root/.vp/MANIFEST.schema.json'))
jsonschema.validate(m,s); print("manifest valid:", len(m["checks"]), "checks")
es=json.load(open('/root/.vp/EVIDENCE.schema.json'))
for f in sorted(glob.glob('/verif/evidence/*.json')):
    jsonschema.validate(json.load(open(f)), es); print("evidence valid:", f)
