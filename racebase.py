#!/usr/bin/env python3
"""Collects the data-race reports of the race companion passes on the CURRENT tree (run it on the unchanged
tree): usage racebase.py C01 C02 ... [--runs N]. Prints every pair of racing functions with a count."""
import os, subprocess, sys, collections
sys.path.insert(0, os.path.dirname(os.path.abspath(__file__)))
import vcheck
from checks_registry import CHECKS
runs = 6
ids = [a for a in sys.argv[1:] if a.upper() in CHECKS]
if "--runs" in sys.argv:
    runs = int(sys.argv[sys.argv.index("--runs") + 1])
for cid in ids:
    cfg = CHECKS[cid]
    b = vcheck.build(cid, cfg, race=True)
    seen = collections.Counter()
    for i in range(runs):
        env = vcheck.goenv()
        env.update({"VERIF_TIER": "quick", "VERIF_REAL_TIER": "quick", "VERIF_SHARD": "0/1", "VERIF_OUT": "/tmp/racebase.json", "GOMAXPROCS": "4", "GORACE": "halt_on_error=0 history_size=2", "VERIF_BUDGET_S": "120"})
        log = "/tmp/racebase-%s.log" % cid
        with open(log, "w") as f:
            subprocess.run([b, "-test.run", "^%s$" % cfg["race_test"], "-test.timeout", "0", "-test.count", "1"], cwd=os.path.join(vcheck.ROOT, cfg["pkg"]), env=env, stdout=f, stderr=subprocess.STDOUT)
        pairs = set(p for p, _ in vcheck.parse_races(log))
        for p in pairs:
            seen[p] += 1
    for p, c in sorted(seen.items()):
        print(cid, "%d/%d" % (c, runs), p, "BASELINE" if p in vcheck.RACE_BASELINE else "NEW")
