#!/bin/sh
# NOTE: run ONE batch at a time (see DESIGN.md, end of section 4).
# usage: seedbatch.sh <seed-out root> : runs seedtest.py on every variant directory that has a meta.json
# and is not yet stored under /verif/seeded (or when FORCE=1); log in <root>/batch.log
root=$1
for d in ${LIST:-"$root"/c*/[a-z]}; do
  [ -f "$d/meta.json" ] || continue
  id=$(python3 -c "import json,sys;m=json.load(open('$d/meta.json'));print(m['property']+'-'+m.get('variant','a'))")
  if [ -z "$FORCE" ] && [ -f "/verif/seeded/$id/meta.json" ]; then continue; fi
  echo "=== $id $(date +%T)" >> "$root/batch.log"
  timeout 1500 python3 /verif/seedtest.py "$d" $SEEDARGS > "$root/$id.out" 2>&1
  # (a seedtest that was killed by the limit may have left its patch applied; undo it UNDER the lock, so that a
  # batch running next to this one never has its freshly applied patch reverted)
  flock /tmp/verif-repo.lock git -C /repo checkout -- . 2>/dev/null
  python3 - "$id" >> "$root/batch.log" <<'P'
import json,sys
m=json.load(open('/verif/seeded/%s/meta.json'%sys.argv[1]))
print(sys.argv[1], 'applies',m.get('applies'),'suite',m.get('suite_passes_with_patch'),'demoF',m.get('demo_fails_with_patch'),'demoP',m.get('demo_passes_without_patch'), {k:v.get('detected') for k,v in m.get('checks',{}).items()})
P
done
echo "=== batch end $(date +%T)" >> "$root/batch.log"
