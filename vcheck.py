#!/usr/bin/env python3
"""vcheck - driver for the model-checking harnesses in /verif.

usage: vcheck.py <ID> [--tier quick|thorough] [--replay FILE] [--shards N]
       vcheck.py --build-all

Builds the harness test binary of the property against /repo's *current working
tree* (module replace + build tag "verif" + generated overlays), runs it sharded
over processes, merges shard results into evidence/<ID>.json, applies
known_findings.jsonl and prints VIOLATION / KNOWN-FINDING lines.
exit 0: property held on everything explored (modulo listed known findings)
exit 1: VIOLATION line(s) printed
exit 2: harness could not be built / run (no VIOLATION line)
"""
import hashlib
import json
import os
import subprocess
import sys
import time

ROOT = os.path.dirname(os.path.abspath(__file__))
BUILD = os.path.join(ROOT, ".build")
REPO = "/repo"

sys.path.insert(0, ROOT)
from checks_registry import CHECKS  # noqa: E402


def goenv():
    env = dict(os.environ)
    env["GOFLAGS"] = "-mod=mod"
    env["GOPROXY"] = "off"
    env.pop("GOSUMDB", None)
    env.pop("GOTOOLCHAIN", None)
    env.setdefault("GOCACHE", os.path.join(BUILD, "gocache"))
    return env


def build(cid, cfg, race=False):
    os.makedirs(BUILD, exist_ok=True)
    out = os.path.join(BUILD, cid.lower() + (".race.test" if race else ".test"))
    cmd = ["go", "test", "-c", "-vet=off", "-tags", "verif", "-o", out]
    alt = os.environ.get("VERIF_REPO")
    if alt:
        # exploratory runs against a private copy of the repository (never used by
        # the registered commands): same module graph, different replace target.
        mod = open(os.path.join(ROOT, "go.mod")).read().replace("=> /repo", "=> " + alt)
        open(os.path.join(BUILD, "go.alt.mod"), "w").write(mod)
        import shutil
        shutil.copy(os.path.join(ROOT, "go.sum"), os.path.join(BUILD, "go.alt.sum"))
        cmd += ["-modfile", os.path.join(BUILD, "go.alt.mod")]
    if cfg.get("overlay"):
        import overlay
        ov = overlay.generate(cfg["overlay"], BUILD)
        cmd += ["-overlay", ov]
    if race:
        cmd += ["-race"]
    cmd += ["./" + cfg["pkg"]]
    p = subprocess.run(cmd, cwd=ROOT, env=goenv(), stdout=subprocess.PIPE, stderr=subprocess.STDOUT, text=True)
    if p.returncode != 0:
        print("HARNESS-BUILD-FAILED for %s:\n%s" % (cid, p.stdout[-4000:]))
        return None
    return out


# Data races of the UNCHANGED tree that break no listed property (DESIGN 3.3):
# stored router records (*storage.StoredRouter) are handed out by pointer and
# stamped / updated in place without a lock by the functions below (UsedAt under
# the storage's READ lock; PublicInfo, Universe, UpdatedAt, Offline with no lock
# at all), so two frame handlers that deal with the same router at once race on
# those fields. A report is part of this baseline iff BOTH racing accesses have
# one of these functions as their innermost repository frame.
RACE_BASELINE_FUNCS = {
    "storage.(*MemStorage).GetRouter",
    "state.(*State).AddPublicRouterInfo",
    "state.(*State).MarkRouterOffline",
    # the hello response handler re-arms the expiry of its ping state (a time.Time) outside the
    # lock under which getActive reads it (a stale or torn expiry only delays or repeats a hello).
    "router.(*HelloPingHandler).getActive",
    "router.(*HelloPingHandler).handlePingHelloResponse",
}


# further single pairs of the same kind (one side is one of the functions above, the other
# reads the record's fields while saving it).
RACE_BASELINE_PAIRS = {
    tuple(sorted(("state.(*State).AddPublicRouterInfo", "storage.(*MemStorage).SaveRouter"))),
    tuple(sorted(("state.(*State).MarkRouterOffline", "storage.(*MemStorage).SaveRouter"))),
}


class _Baseline:
    def __contains__(self, pair):
        return all(f in RACE_BASELINE_FUNCS for f in pair) or tuple(sorted(pair)) in RACE_BASELINE_PAIRS


RACE_BASELINE = _Baseline()


def parse_races(logpath):
    """returns [(key, text)] for every data race report in the race-detector log."""
    try:
        text = open(logpath, errors="replace").read()
    except OSError:
        return []
    out = []
    for block in text.split("=================="):
        if "WARNING: DATA RACE" not in block:
            continue
        tops = []
        lines = block.splitlines()
        for i, l in enumerate(lines):
            ls = l.strip()
            if ls.startswith(("Write at", "Read at", "Previous write at", "Previous read at", "Atomic write at", "Atomic read at", "Previous atomic")):
                # innermost frame that belongs to the repository (not the shims).
                top = None
                for j in range(i + 1, len(lines)):
                    f = lines[j].strip()
                    if not f:
                        break
                    if f.startswith("github.com/mycoria/mycoria/") and "/zz_verif/" not in f:
                        top = f.split("github.com/mycoria/mycoria/", 1)[1].rstrip("()")
                        break
                tops.append(top or "(outside the repository)")
        if len(tops) < 2:
            tops += ["?"] * (2 - len(tops))
        pair = tuple(sorted(tops[:2]))
        out.append((pair, block.strip()[:3000]))
    return out


def load_known():
    known, fixed = [], []
    path = os.path.join(ROOT, "known_findings.jsonl")
    if os.path.exists(path):
        for line in open(path):
            line = line.strip()
            if not line or line.startswith("#"):
                continue
            e = json.loads(line)
            (fixed if e.get("status") == "fixed" else known).append(e)
    return known, fixed


def repo_lock():
    """Serialises users of /repo's working tree (checks vs. seeded-defect runs)."""
    if os.environ.get("VERIF_LOCK_HELD") or os.environ.get("VERIF_REPO"):
        return None
    import fcntl
    f = open("/tmp/verif-repo.lock", "w")
    fcntl.flock(f, fcntl.LOCK_EX)
    return f


def main():
    _lock = repo_lock()
    args = sys.argv[1:]
    if not args:
        print(__doc__)
        return 2
    if args[0] == "--build-all":
        ok = True
        for cid, cfg in CHECKS.items():
            ok = (build(cid, cfg) is not None) and ok
            if cfg.get("race_test"):
                ok = (build(cid, cfg, race=True) is not None) and ok
        return 0 if ok else 2
    cid = args[0].upper()
    tier = os.environ.get("VERIF_TIER", "quick")
    replay = None
    shards = None
    i = 1
    while i < len(args):
        if args[i] == "--tier":
            tier = args[i + 1]; i += 2
        elif args[i] == "--replay":
            replay = args[i + 1]; i += 2
        elif args[i] == "--shards":
            shards = int(args[i + 1]); i += 2
        else:
            print("unknown arg", args[i]); return 2
    if cid not in CHECKS:
        print("unknown check", cid); return 2
    cfg = CHECKS[cid]
    seed = int(os.environ.get("VERIF_SEED", "0") or 0)
    t0 = time.time()
    binary = build(cid, cfg)
    if binary is None:
        return 2
    race_binary = None
    if cfg.get("race_test") and not replay:
        # companion pass: the thread bodies of the controlled-scheduler tier on
        # free-running goroutines under the race detector (see DESIGN 1.1).
        race_binary = build(cid, cfg, race=True)
        if race_binary is None:
            return 2
    ncpu = os.cpu_count() or 4
    if shards is None:
        shards = min(cfg.get("shards", 16), max(1, ncpu))
    def run_once():
        outdir = os.path.join(BUILD, "out")
        os.makedirs(outdir, exist_ok=True)
        procs = []
        budget = cfg.get("budget_s", {}).get(tier)
        for s in range(shards):
            out = os.path.join(outdir, "%s.%d.json" % (cid, s))
            if os.path.exists(out):
                os.remove(out)
            env = goenv()
            # checks whose full depth is cheap run it in the quick tier as well.
            shard_tier = "thorough" if cfg.get("quick_runs_full_depth") else tier
            env.update({"VERIF_TIER": shard_tier, "VERIF_REAL_TIER": tier, "VERIF_SEED": str(seed), "VERIF_SHARD": "%d/%d" % (s, shards), "VERIF_OUT": out})
            env["GOMAXPROCS"] = str(cfg.get("gomaxprocs", max(1, ncpu // shards)))
            env.setdefault("GOMEMLIMIT", "3GiB")  # safety net: the sandbox has no memory limit
            if budget:
                env["VERIF_BUDGET_S"] = str(budget)
            if replay:
                env["VERIF_REPLAY"] = os.path.abspath(replay)
            log = open(os.path.join(outdir, "%s.%d.log" % (cid, s)), "w")
            cmd = [binary, "-test.run", "^%s$" % cfg["test"], "-test.timeout", "0", "-test.count", "1"]
            procs.append((subprocess.Popen(cmd, cwd=os.path.join(ROOT, cfg["pkg"]), env=env, stdout=log, stderr=subprocess.STDOUT), out, log))
        if race_binary:
            out = os.path.join(outdir, "%s.race.json" % cid)
            if os.path.exists(out):
                os.remove(out)
            env = goenv()
            env.update({"VERIF_TIER": tier, "VERIF_REAL_TIER": tier, "VERIF_SEED": str(seed), "VERIF_SHARD": "0/1", "VERIF_OUT": out})
            env["GOMAXPROCS"] = "4"
            env["GORACE"] = "halt_on_error=0 history_size=2"
            env["VERIF_BUDGET_S"] = str(cfg.get("race_budget_s", {}).get(tier, 60 if tier == "quick" else 600))
            log = open(os.path.join(outdir, "%s.race.log" % cid), "w")
            cmd = [race_binary, "-test.run", "^%s$" % cfg["race_test"], "-test.timeout", "0", "-test.count", "1"]
            procs.append((subprocess.Popen(cmd, cwd=os.path.join(ROOT, cfg["pkg"]), env=env, stdout=log, stderr=subprocess.STDOUT), out, log))
        merged = None
        crashed = []
        # A shard that does not end is ended: code under test that spins or blocks for
        # ever (a stalled worker, a read loop that makes no progress) must not hang the
        # check. The limits are far above anything a check needs on the unchanged
        # tree (quick tiers take seconds to a minute per shard, thorough tiers have
        # their own internal budgets of at most 25 minutes).
        limit = float(os.environ.get("VERIF_HANG_LIMIT_S") or cfg.get("hang_limit_s", {}).get(tier) or (2400 if tier == "quick" else 4 * 3600))
        deadline = time.time() + limit
        for s, (p, out, log) in enumerate(procs):
            try:
                rc = p.wait(timeout=max(1.0, deadline - time.time()))
            except subprocess.TimeoutExpired:
                p.kill()
                p.wait()
                rc = -9
                log.write("\nvcheck: shard %d did not end within %.0f s and was killed (code under test or harness does not make progress)\n" % (s, limit))
                if os.path.exists(out):
                    os.remove(out)
            log.close()
            if not os.path.exists(out):
                crashed.append((s, rc, log.name))
                continue
            r = json.load(open(out))
            if race_binary and out.endswith(".race.json"):
                # the race detector fails the test on ANY report; judge the reports themselves.
                seen_pairs = set()
                for pair, text in parse_races(log.name):
                    if pair in RACE_BASELINE or pair in seen_pairs:
                        continue
                    seen_pairs.add(pair)
                    r["violations"].append({"key": "data-race/%s|%s" % pair, "detail": "the race detector reports unsynchronised concurrent accesses in %s and %s when the thread bodies of the interleaving tier run on free goroutines:\n%s" % (pair[0], pair[1], text), "replay": log.name})
                if rc != 0 and "DATA RACE" not in open(log.name, errors="replace").read():
                    crashed.append((s, rc, log.name))
            elif rc != 0:
                crashed.append((s, rc, log.name))
            if merged is None:
                merged = r
                merged["wall_shards"] = [r["wall_s"]]
            else:
                for k in ("evaluations", "nontrivial", "states", "transitions", "traces"):
                    merged[k] += r[k]
                for k, v in r["outcomes"].items():
                    merged["outcomes"][k] = merged["outcomes"].get(k, 0) + v
                merged["exhaustive"] = merged["exhaustive"] and r["exhaustive"]
                for c in r.get("caps") or []:
                    if c not in merged["caps"]:
                        merged["caps"].append(c)
                if len(merged["samples"]) < 8:
                    merged["samples"] += (r["samples"] or [])[:2]
                seen = {v["key"] for v in merged["violations"]}
                for v in r["violations"] or []:
                    if v["key"] not in seen:
                        merged["violations"].append(v); seen.add(v["key"])
                merged["wall_shards"].append(r["wall_s"])
        return merged, crashed

    merged, crashed = run_once()
    if merged is not None and (merged["violations"] or crashed) and not replay:
        # Confirmation: a violation is only reported if an independent second run of
        # the whole check reproduces it (same key); this turns residual
        # nondeterminism of a harness into "UNCONFIRMED" lines instead of alarms.
        first = merged
        first_crashed = crashed
        merged2, crashed2 = run_once()
        keys2 = {v["key"] for v in (merged2["violations"] if merged2 else [])}
        confirmed = [v for v in first["violations"] if v["key"] in keys2]
        for v in first["violations"]:
            if v["key"] not in keys2:
                print("UNCONFIRMED (not reproduced by a second run, not reported): key=%s: %s" % (v["key"], v["detail"][:300]))
        if any(v["key"].startswith("data-race/") for v in confirmed):
            # race reports come from a free-running pass: a third independent run must show them too.
            merged3, _ = run_once()
            keys3 = {v["key"] for v in (merged3["violations"] if merged3 else [])}
            for v in confirmed:
                if v["key"].startswith("data-race/") and v["key"] not in keys3:
                    print("UNCONFIRMED (race report not reproduced by a third run, not reported): key=%s" % v["key"])
            confirmed = [v for v in confirmed if not v["key"].startswith("data-race/") or v["key"] in keys3]
        first["violations"] = confirmed
        merged = first
        crashed = first_crashed if crashed2 else []
        if first_crashed and not crashed2:
            print("UNCONFIRMED: a shard crashed in the first run but not in the second; log: %s" % first_crashed[0][2])
    wall = time.time() - t0

    known, fixed = load_known()
    if replay and merged is not None:
        want = json.load(open(replay)).get("key")
        merged["violations"] = [v for v in merged["violations"] if v["key"] == want]
        if not merged["violations"]:
            print("replay: the recorded violation (key=%s) is not reproduced on the current tree" % want)
    viol_lines, known_lines = [], []
    os.makedirs(os.path.join(ROOT, "replays"), exist_ok=True)
    nviol = 0
    if merged is not None:
        for v in merged["violations"]:
            k = next((e for e in known if e["property"] == cid and e["key"] == v["key"]), None)
            if k is not None:
                known_lines.append("KNOWN-FINDING: property=%s %s" % (cid, k.get("what", v["key"])))
                continue
            nviol += 1
            h = hashlib.sha256((cid + v["key"]).encode()).hexdigest()[:10]
            path = os.path.join(ROOT, "replays", "%s-%s.json" % (cid, h))
            json.dump({"property": cid, "key": v["key"], "detail": v["detail"], "replay": v.get("replay"), "seed": seed, "tier": tier}, open(path, "w"), indent=1)
            viol_lines.append("VIOLATION property=%s replay=%s" % (cid, path))
            print("  violation key=%s: %s" % (v["key"], v["detail"][:500]))
    for (s, rc, logname) in crashed:
        nviol += 1
        viol_lines.append("VIOLATION property=%s replay=%s" % (cid, logname))
        print("  shard %d exited with %d without a clean result (crash of the code under test or of the harness); log: %s" % (s, rc, logname))
        try:
            print("  ---- log tail ----\n" + "".join(open(logname).readlines()[-25:]))
        except OSError:
            pass

    if merged is not None and not replay:
        level = cfg["level"]
        cov = {
            "evaluations": merged["evaluations"],
            "distinct_nontrivial": merged["nontrivial"],
            "rule": merged["rule"],
            "samples": merged["samples"] or ["(none)"],
            "exhaustive": bool(merged["exhaustive"]) and not crashed,
            "bounds": merged["bounds"],
            "outcome_classes": merged["outcomes"],
            "caps_hit": merged["caps"],
            "shards": shards,
        }
        if level == "model_checking":
            cov["states"] = max(1, merged["states"])
            cov["transitions"] = max(1, merged["transitions"])
            cov["traces_validated_against_impl"] = merged["traces"]
        ev = {
            "property_id": cid, "tier": tier, "seed": seed, "level": level,
            "depth_note": ("quick tier runs the full (thorough) depth of this check" if cfg.get("quick_runs_full_depth") else ""),
            "coverage": cov, "assumptions": merged["assumptions"] or [],
            "wall_s": round(wall, 2), "violations": nviol,
            "known_findings_reported": len(known_lines),
        }
        os.makedirs(os.path.join(ROOT, "evidence"), exist_ok=True)
        json.dump(ev, open(os.path.join(ROOT, "evidence", cid + ".json"), "w"), indent=1)
        if len(merged["outcomes"]) <= 1:
            print("WARNING: only one outcome class observed (possible vacuity): %s" % merged["outcomes"])
        print("%s tier=%s evaluations=%d nontrivial=%d states=%d transitions=%d exhaustive=%s wall=%.1fs" % (
            cid, tier, merged["evaluations"], merged["nontrivial"], merged["states"], merged["transitions"], cov["exhaustive"], wall))
    for l in known_lines:
        print(l)
    for l in viol_lines:
        print(l)
    if viol_lines:
        return 1
    if merged is None:
        print("HARNESS-ERROR: no shard produced a result")
        return 2
    return 0


if __name__ == "__main__":
    sys.exit(main())
