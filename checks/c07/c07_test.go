// C07: control plane — only messages authenticated as their source change router state.
//
// A router R with three real peers X, Y, Z and a populated routing table
// receives pings of every type and code produced by X's real sender-side code.
// For each: every single-bit mutation of the authenticated part, re-addressing,
// re-sealing by another router's key, first-contact header variants and replays
// after intervening traffic are delivered to fresh copies of the world, and a
// snapshot of everything the control plane may change is compared.
package c07

import (
	"crypto/ed25519"
	"fmt"
	"net/netip"
	"strconv"
	"strings"
	"testing"
	"testing/synctest"
	"time"

	"verif/kit"

	"github.com/mycoria/mycoria/config"
	"github.com/mycoria/mycoria/frame"
	"github.com/mycoria/mycoria/m"
	"github.com/mycoria/mycoria/router"
)

var pool = kit.RoutablePool("c07", 8)

const (
	iR = iota
	iX
	iY
	iZ
	iO
	iU // unknown router (first contact)
)

var (
	d1 = netip.MustParseAddr("fd11:d1::1")
	d2 = netip.MustParseAddr("fd11:d2::1")
	d3 = netip.MustParseAddr("fd11:d3::1")
)

type tworld struct {
	w          *kit.World
	r, x, y, z *kit.Node
	o, u       *kit.Node
	ips        []netip.Addr
}

func gossip(tw *tworld, dst netip.Addr, via *kit.Node, relays ...netip.Addr) {
	hops := []m.SwitchHop{{Router: tw.r.Identity().IP, Delay: 5, ForwardLabel: 11}, {Router: via.Identity().IP, Delay: 5, ForwardLabel: 3, ReturnLabel: 4}}
	for _, rl := range relays {
		hops = append(hops, m.SwitchHop{Router: rl, Delay: 5, ForwardLabel: 5, ReturnLabel: 6})
	}
	hops = append(hops, m.SwitchHop{Router: dst, ReturnLabel: 9})
	sp := m.SwitchPath{Hops: hops}
	sp.CalculateTotals()
	added, err := tw.r.RoutingTable().AddRoute(m.RoutingTableEntry{DstIP: dst, NextHop: via.Identity().IP, Path: sp, Source: m.RouteSourceGossip, Expires: time.Now().Add(time.Hour)})
	if err != nil || !added {
		panic(fmt.Sprintf("harness: route not added: %v", err))
	}
}

// tryGossip adds a route if the table takes it.
func tryGossip(tw *tworld, dst netip.Addr, via *kit.Node, relays ...netip.Addr) bool {
	hops := []m.SwitchHop{{Router: tw.r.Identity().IP, Delay: 5, ForwardLabel: 11}, {Router: via.Identity().IP, Delay: 5, ForwardLabel: 3, ReturnLabel: 4}}
	for _, rl := range relays {
		hops = append(hops, m.SwitchHop{Router: rl, Delay: 5, ForwardLabel: 5, ReturnLabel: 6})
	}
	hops = append(hops, m.SwitchHop{Router: dst, ReturnLabel: 9})
	sp := m.SwitchPath{Hops: hops}
	sp.CalculateTotals()
	added, err := tw.r.RoutingTable().AddRoute(m.RoutingTableEntry{DstIP: dst, NextHop: via.Identity().IP, Path: sp, Source: m.RouteSourceGossip, Expires: time.Now().Add(time.Hour)})
	return err == nil && added
}

func packet(src, dst netip.Addr, proto uint8, sport, dport uint16) []byte {
	b := make([]byte, 52)
	b[0] = 0x60
	b[5] = 12
	b[6] = proto
	b[7] = 64
	s, d := src.As16(), dst.As16()
	copy(b[8:24], s[:])
	copy(b[24:40], d[:])
	b[40], b[41] = byte(sport>>8), byte(sport)
	b[42], b[43] = byte(dport>>8), byte(dport)
	return b
}

// build constructs the standard world. knowX=false leaves X unknown to R (first contact).
func build() *tworld {
	w := kit.NewWorld()
	mk := func(name string, i int) *kit.Node {
		n, err := w.AddNode(name, pool[i], config.Store{})
		if err != nil {
			panic(err)
		}
		return n
	}
	tw := &tworld{w: w}
	tw.r, tw.x, tw.y, tw.z, tw.o, tw.u = mk("R", iR), mk("X", iX), mk("Y", iY), mk("Z", iZ), mk("O", iO), mk("U", iU)
	for i, n := range []*kit.Node{tw.x, tw.y, tw.z} {
		if _, _, err := w.Connect(tw.r, n, m.SwitchLabel(11+i), m.SwitchLabel(21+i), 5); err != nil {
			panic(err)
		}
		if err := kit.KeySessions(n, tw.r); err != nil {
			panic(err)
		}
	}
	if _, _, err := w.Connect(tw.x, tw.o, 31, 32, 5); err != nil {
		panic(err)
	}
	// U is linked to Y only; R does not know U.
	if _, _, err := w.Connect(tw.y, tw.u, 41, 42, 5); err != nil {
		panic(err)
	}
	// routing table content: every 2- and 3-router path shape through X / Y / Z to
	// the destinations d1, d2, d3 and to the peers themselves (as many as the
	// per-destination limit of three admits, in a fixed order).
	peersN := []*kit.Node{tw.x, tw.y, tw.z}
	dsts := []netip.Addr{d1, d2, d3, tw.x.Identity().IP, tw.y.Identity().IP, tw.z.Identity().IP}
	perDst := map[netip.Addr]int{}
	for _, dst := range dsts {
		for _, via := range peersN {
			if via.Identity().IP == dst {
				continue
			}
			var relaySets [][]netip.Addr
			relaySets = append(relaySets, nil)
			for _, rl := range peersN {
				if rl != via && rl.Identity().IP != dst {
					relaySets = append(relaySets, []netip.Addr{rl.Identity().IP})
				}
			}
			for _, rs := range relaySets {
				if perDst[dst] >= 3 {
					continue
				}
				if tryGossip(tw, dst, via, rs...) {
					perDst[dst]++
				}
			}
		}
	}
	// connection verdicts: outbound flows to X, d1 and Y.
	for i, dst := range []netip.Addr{tw.x.Identity().IP, d1, tw.y.Identity().IP} {
		pk := packet(tw.r.Identity().IP, dst, 6, uint16(30000+i), 80)
		ps := tw.r.FrameBuilder().GetPooledSlice(len(pk))
		copy(ps, pk)
		_ = w.TunPacket(tw.r, ps[:len(pk)])
	}
	w.InFlight = nil
	w.Log = nil
	tw.ips = []netip.Addr{tw.x.Identity().IP, tw.y.Identity().IP, tw.z.Identity().IP, tw.o.Identity().IP, tw.u.Identity().IP, d1, d2, d3}
	return tw
}

// takeTo returns (and removes) the bytes of the in-flight frames addressed to node n.
func (tw *tworld) takeTo(n *kit.Node) [][]byte {
	var out [][]byte
	var rest []*kit.Flight
	for _, fl := range tw.w.InFlight {
		if fl.To == n {
			out = append(out, fl.Bytes)
		} else {
			rest = append(rest, fl)
		}
	}
	tw.w.InFlight = rest
	return out
}

func (tw *tworld) deliverAllTo(n *kit.Node) {
	for {
		idx := -1
		for i, fl := range tw.w.InFlight {
			if fl.To == n {
				idx = i
				break
			}
		}
		if idx < 0 {
			return
		}
		tw.w.Deliver(idx)
	}
}

type pingKind struct {
	name string
	// mk produces, in a fresh world, one valid ping from X addressed to / delivered at R.
	mk func(tw *tworld) []byte
	// from is the peer whose link delivers the frame (default X).
	enc bool
	hop bool
	// sender is the peer that produced (and delivers) the ping: "" = X, "Y", "Z".
	sender string
	// late marks the variant that is delivered long after it was produced (no vacuity demand).
	late bool
}

func one(frames [][]byte) []byte {
	if len(frames) != 1 {
		panic(fmt.Sprintf("harness: expected exactly one frame, got %d", len(frames)))
	}
	return frames[0]
}

func must(err error) {
	if err != nil {
		panic(err)
	}
}

func kinds() []pingKind {
	rIP := func(tw *tworld) netip.Addr { return tw.r.Identity().IP }
	direct := func(pt string, code uint8, mt frame.MessageType, body func(tw *tworld) []byte) func(tw *tworld) []byte {
		return func(tw *tworld) []byte {
			b, err := kit.BuildPing(tw.x, kit.PingSpec{Dst: rIP(tw), MsgType: mt, PingType: pt, Code: code, Body: body(tw)})
			must(err)
			return b
		}
	}
	return []pingKind{
		{name: "hello-request", mk: func(tw *tworld) []byte {
			_, err := tw.x.Router().HelloPing.Send(rIP(tw))
			must(err)
			return one(tw.takeTo(tw.r))
		}},
		{name: "hello-response", mk: func(tw *tworld) []byte {
			_, err := tw.r.Router().HelloPing.Send(tw.x.Identity().IP)
			must(err)
			tw.deliverAllTo(tw.x)
			return one(tw.takeTo(tw.r))
		}},
		{name: "pong-request", mk: func(tw *tworld) []byte {
			_, _, err := tw.x.Router().PingPong.Send(rIP(tw), true, 0)
			must(err)
			return one(tw.takeTo(tw.r))
		}},
		{name: "pong-response", mk: func(tw *tworld) []byte {
			_, _, err := tw.r.Router().PingPong.Send(tw.x.Identity().IP, true, 0)
			must(err)
			tw.deliverAllTo(tw.x)
			return one(tw.takeTo(tw.r))
		}},
		{name: "error-generic", mk: func(tw *tworld) []byte {
			must(tw.x.Router().ErrorPing.SendGeneric(rIP(tw), "boom"))
			return one(tw.takeTo(tw.r))
		}},
		{name: "error-unreachable", mk: func(tw *tworld) []byte {
			must(tw.x.Router().ErrorPing.SendUnreachable(rIP(tw), d1))
			return one(tw.takeTo(tw.r))
		}},
		{name: "error-no-encryption-keys", mk: func(tw *tworld) []byte {
			must(tw.x.Router().ErrorPing.SendNoEncryptionKeys(rIP(tw)))
			return one(tw.takeTo(tw.r))
		}},
		{name: "error-access-denied", enc: true, mk: func(tw *tworld) []byte {
			must(tw.x.Router().ErrorPing.SendAccessDenied(rIP(tw), tw.x.Identity().IP, 6, 80))
			return one(tw.takeTo(tw.r))
		}},
		{name: "error-rejected", enc: true, mk: func(tw *tworld) []byte {
			must(tw.x.Router().ErrorPing.SendRejected(rIP(tw), tw.x.Identity().IP, 6, 80))
			return one(tw.takeTo(tw.r))
		}},
		{name: "error-unknown-code", mk: direct("error", 9, frame.RouterPing, func(*tworld) []byte { return kit.MustCBOR("x") })},
		{name: "disconnect-going-down", mk: direct("disconnect", 0, frame.RouterPing, func(*tworld) []byte {
			return kit.MustCBOR(&router.DisconnectPingMsg{GoingDown: true})
		})},
		{name: "disconnect-list", mk: direct("disconnect", 0, frame.RouterPing, func(tw *tworld) []byte {
			return kit.MustCBOR(&router.DisconnectPingMsg{Disconnected: []netip.Addr{tw.y.Identity().IP}})
		})},
		{name: "disconnect-going-down-from-Y", sender: "Y", mk: func(tw *tworld) []byte {
			b, err := kit.BuildPing(tw.y, kit.PingSpec{Dst: rIP(tw), MsgType: frame.RouterPing, PingType: "disconnect", Body: kit.MustCBOR(&router.DisconnectPingMsg{GoingDown: true})})
			must(err)
			return b
		}},
		{name: "disconnect-list-from-Z", sender: "Z", mk: func(tw *tworld) []byte {
			b, err := kit.BuildPing(tw.z, kit.PingSpec{Dst: rIP(tw), MsgType: frame.RouterPing, PingType: "disconnect", Body: kit.MustCBOR(&router.DisconnectPingMsg{Disconnected: []netip.Addr{tw.x.Identity().IP}})})
			must(err)
			return b
		}},
		{name: "announce-0-hops", hop: true, mk: func(tw *tworld) []byte {
			must(tw.x.Router().AnnouncePing.Send(rIP(tw)))
			fr := tw.takeTo(tw.r)
			tw.w.InFlight = nil
			return fr[0]
		}},
		{name: "announce-1-hop", hop: true, mk: func(tw *tworld) []byte {
			must(tw.o.Router().AnnouncePing.Send(tw.x.Identity().IP))
			tw.deliverAllTo(tw.x)
			fr := tw.takeTo(tw.r)
			tw.w.InFlight = nil
			if len(fr) == 0 {
				panic("harness: X did not forward O's announcement")
			}
			return fr[0]
		}},
	}
}

// layout of a wire frame (no switch block in pings).
func authStart(raw []byte) (msgStart, authStart, authEnd int) {
	sw := int(raw[48])
	msgStart = 49 + sw + 2
	ml := int(raw[49+sw])<<8 | int(raw[50+sw])
	authStart = msgStart + ml
	al := 64
	if frame.MessageType(raw[4]).IsEncrypted() {
		al = 16
	}
	return msgStart, authStart, authStart + al
}

func flip(raw []byte, byteIdx, bit int) []byte {
	o := append([]byte(nil), raw...)
	o[byteIdx] ^= 1 << bit
	return o
}

func TestC07(t *testing.T) {
	env := kit.GetEnv()
	rep := kit.NewReport("C07", env)
	rep.Rule = "(round 8) for every ping kind, a tampered copy (one bit of the body / of the signature) handled while the receiver's router storage fails with an I/O error - every storage call made during the handling, one at a time, as a single failure and as the start of an outage of that operation, with the sender's session alive and with the sender known from storage only (61 min idle + session cleaner): no protected state may change; per ping kind (hello req/resp, pong req/resp, error codes 0-4 + unknown, disconnect going-down/list, announce with 0 and 1 hop), produced by the real sender code of peer X in a fresh 6-router world: (a) every single-bit flip of every authenticated header byte (all except TTL/flow), the length fields and the signature/MAC, and one bit per body byte (thorough: all bits), each alone and on a copy that follows the genuine ping; (b) source rewritten to each other known identity, destination rewritten; (c) same ping re-built and sealed by another router claiming X's address; (c2) a relayed announcement whose delivering peer forges an inner hop record of a router the receiver already knows, with its own key embedded; (d) first-contact variants with header key right / wrong / for another address, the forged ones repeated three times (again as a hello and as the original kind); (e) replay of the exact frame after {nothing, a newer valid ping from X, a ping from Y, +31 s, 61 min of idle time + the session cleaner, a newer valid ping of each of the other kinds from X; for the encrypted kinds: a newer opposite verdict whose sequence number jumped by {1,2,63,64,65,66,128}}; (f) the valid ping itself with its type-specific effect bound (a disconnect must remove every route containing its sender), also after eight days without storage access and a run of the receiver's storage pruning (sessions live on, stored entries are gone); snapshot = table + sessions(keys, MTU) + stored info/offline flags + connection verdicts; non-trivial = mutation hits an authenticated byte or the case must be rejected; states = distinct snapshots observed"
	rep.Assumptions = []string{
		"state is observed through exported accessors plus the VerifEntries hook; pending-ping bookkeeping (active hello/pong ids, error rate limiter) is not part of the statement's state list",
		"disconnect pings are addressed to the router itself: as emitted by the real sender (unicast type to the multicast address) they are never dispatched to the disconnect handler at all",
		"bit flips in TTL, flow flags and appendix are unauthenticated by design (C02) and excluded",
	}
	ks := kinds()
	var evals, nontrivial, transitions int64
	states := map[string]bool{}
	caseNo := 0
	mine := func() bool { caseNo++; return env.Mine(caseNo) }

	// runCase: fresh world, produce ping with mk, transform, deliver via link of `via`, compare.
	type outcome struct {
		changed []string
		panics  int
		errs    []error
		before  map[string]string
		after   map[string]string
	}
	// storageFaults != nil: the receiver's storage counts its calls while the ping is handled
	// and fails the named ones with an I/O error (not "not found").
	var storageFaults, storageCalls, storageFired []string
	var beforeInject func(tw *tworld)
	run := func(k pingKind, transform func(tw *tworld, raw []byte) ([]byte, *kit.Node), pre func(tw *tworld, raw []byte)) (o outcome) {
		synctest.Test(t, func(t *testing.T) {
			tw := build()
			raw := k.mk(tw)
			if pre != nil {
				pre(tw, raw)
			}
			via := tw.x
			switch k.sender {
			case "Y":
				via = tw.y
			case "Z":
				via = tw.z
			}
			if transform != nil {
				var v *kit.Node
				raw, v = transform(tw, raw)
				if v != nil {
					via = v
				}
			}
			o.before = norm(kit.SnapshotMap(tw.r, tw.ips))
			np := len(tw.w.Panics)
			if storageFaults != nil {
				if beforeInject != nil {
					beforeInject(tw)
				}
				tw.r.FS.Arm(storageFaults...)
			}
			o.errs = tw.w.Inject(via, tw.r, raw)
			if storageFaults != nil {
				storageCalls, storageFired = tw.r.FS.Calls, tw.r.FS.Fired
				tw.r.FS.Disarm()
			}
			o.panics = len(tw.w.Panics) - np
			o.after = norm(kit.SnapshotMap(tw.r, tw.ips))
			o.changed = kit.DiffKeys(o.before, o.after)
			transitions++
		})
		evals++
		states[kit.Hash(fmt.Sprint(o.after))] = true
		return o
	}
	mustUnchanged := func(k pingKind, what string, o outcome, replay any) {
		nontrivial++
		if len(o.changed) > 0 {
			rep.Violate(fmt.Sprintf("%s/%s/state-changed", k.name, what), fmt.Sprintf("%s: %s changed %v", k.name, what, o.changed), replay)
			rep.Outcome("changed-state!")
		} else {
			rep.Outcome("rejected-unchanged")
		}
		if o.panics > 0 {
			rep.Outcome("handler-panic(reported-under-C13)")
		}
	}

	for _, k := range ks {
		k := k
		// (f) valid ping: effect bound.
		if mine() {
			o := run(k, nil, nil)
			checkValid(rep, k, o)
			rep.Sample(map[string]any{"kind": k.name, "valid_ping_changed": o.changed})
		}
		// (f2) the same after the receiver's storage pruning dropped the stored router entries
		// (sessions live on): same effect bound, same obligations.
		if mine() {
			o := run(k, nil, func(tw *tworld, raw []byte) {
				// entries last read and updated more than a week ago are pruned once the
				// storage is over its size limit; sessions do not touch the storage while they live.
				time.Sleep(8 * 24 * time.Hour)
				tw.r.Store.Prune(0)
			})
			k2 := k
			k2.late = true
			checkValid(rep, k2, o)
		}
		// discover the layout once.
		var sample []byte
		synctest.Test(t, func(t *testing.T) { sample = k.mk(build()) })
		msgStart, aStart, aEnd := authStart(sample)
		var positions [][2]int
		for p := 0; p < 51; p++ {
			if p == 1 || p == 2 {
				continue
			}
			for b := 0; b < 8; b++ {
				positions = append(positions, [2]int{p, b})
			}
		}
		for p := msgStart; p < aStart; p++ {
			if env.Thorough() {
				for b := 0; b < 8; b++ {
					positions = append(positions, [2]int{p, b})
				}
			} else {
				positions = append(positions, [2]int{p, p % 8})
			}
		}
		for p := aStart; p < aEnd; p++ {
			for b := 0; b < 8; b++ {
				if env.Thorough() || b == p%8 || p < aStart+4 {
					positions = append(positions, [2]int{p, b})
				}
			}
		}
		// (a) bit flips.
		for _, pb := range positions {
			if !mine() {
				continue
			}
			pb := pb
			o := run(k, func(tw *tworld, raw []byte) ([]byte, *kit.Node) { return flip(raw, pb[0], pb[1]), nil }, nil)
			mustUnchanged(k, fmt.Sprintf("bitflip/%s", region(pb[0], msgStart, aStart)), o, map[string]any{"kind": k.name, "byte": pb[0], "bit": pb[1]})
		}
		// (s) a fault at a point in a dependency: the receiver's router storage fails ONE of
		// the calls it makes while a tampered ping is handled (every call, one at a time) - with
		// the sender's session alive, and after an hour of silence and a run of the session
		// cleaner (the sender is then known from storage only). Nothing may change either way.
		for _, sess := range []string{"live-session", "known-from-storage-only(61min-idle+cleaner)"} {
			for _, tp := range [][2]int{{msgStart + 3, 2}, {aStart + 1, 0}} {
				if !mine() {
					continue
				}
				sess, tp := sess, tp
				pre := func(tw *tworld, raw []byte) {
					// the receiver holds public info about its peers, and knows them as offline
					// (a forged ping must neither drop the one nor reset the other).
					for _, p := range []*kit.Node{tw.x, tw.y, tw.z} {
						must(tw.r.State().AddPublicRouterInfo(p.Identity().IP, &m.RouterInfo{Version: "v-" + p.Name, Listeners: []string{"tcp:4000"}, IANA: []string{"198.51.100.7"}}))
						must(tw.r.State().MarkRouterOffline(p.Identity().IP))
					}
					if sess != "live-session" {
						time.Sleep(61 * time.Minute)
						tw.r.State().VerifCleanSessions()
					}
				}
				tf := func(tw *tworld, raw []byte) ([]byte, *kit.Node) { return flip(raw, tp[0], tp[1]), nil }
				beforeInject = nil
				if sess != "live-session" {
					// taking the "before" snapshot looks the sessions up, which re-creates them (bare,
					// without keys): another idle hour and another cleaner run drop them again, so
					// that the ping meets a router that knows its sender from storage only. (The
					// snapshot also asks for the encryption state, which creates it: such a session
					// lives an hour.)
					beforeInject = func(tw *tworld) {
						time.Sleep(61 * time.Minute)
						tw.r.State().VerifCleanSessions()
					}
				}
				storageFaults = []string{}
				run(k, tf, pre)
				calls := append([]string(nil), storageCalls...)
				rep.OutcomeN(fmt.Sprintf("storage-fault/%s/%s: storage calls while handling", k.name, sess), int64(len(calls)))
				// every call failing once, and every call as the start of an outage of that operation.
				var plans []string
				for _, c := range calls {
					plans = append(plans, c, c+"+")
				}
				for _, c := range plans {
					storageFaults = []string{c}
					o := run(k, tf, pre)
					if len(storageFired) == 0 {
						rep.Outcome("storage-fault/not-reached")
					}
					mustUnchanged(k, fmt.Sprintf("bitflip/%s+storage-fault:%s/%s", region(tp[0], msgStart, aStart), strings.SplitN(c, "#", 2)[0], sess), o, map[string]any{"kind": k.name, "byte": tp[0], "bit": tp[1], "storage_call_failing": c, "session": sess})
				}
				storageFaults, beforeInject = nil, nil
			}
		}
		// (a2) the same bit flips on a copy that follows the genuine ping (same sequence
		// number / time as a frame the receiver has just accepted).
		for _, pb := range positions {
			if !mine() {
				continue
			}
			pb := pb
			o := run(k, func(tw *tworld, raw []byte) ([]byte, *kit.Node) { return flip(raw, pb[0], pb[1]), nil }, func(tw *tworld, raw []byte) {
				first := tw.x
				switch k.sender {
				case "Y":
					first = tw.y
				case "Z":
					first = tw.z
				}
				tw.w.Inject(first, tw.r, raw)
				tw.w.InFlight = nil
			})
			mustUnchanged(k, fmt.Sprintf("bitflip-after-genuine/%s", region(pb[0], msgStart, aStart)), o, map[string]any{"kind": k.name, "byte": pb[0], "bit": pb[1], "after_genuine": true})
		}
		// (b) re-addressing.
		for _, who := range []int{iY, iZ, iO, iU} {
			if !mine() {
				continue
			}
			who := who
			same := false
			o := run(k, func(tw *tworld, raw []byte) ([]byte, *kit.Node) {
				o := append([]byte(nil), raw...)
				ip := pool[who].IP.As16()
				same = string(o[16:32]) == string(ip[:])
				copy(o[16:32], ip[:])
				return o, nil
			}, nil)
			if same {
				continue // rewriting to the original source is not a mutation
			}
			mustUnchanged(k, "source-rewritten", o, map[string]any{"kind": k.name, "src": pool[who].IP.String()})
		}
		if mine() {
			o := run(k, func(tw *tworld, raw []byte) ([]byte, *kit.Node) {
				o := append([]byte(nil), raw...)
				ip := pool[iZ].IP.As16()
				copy(o[32:48], ip[:])
				return o, nil
			}, nil)
			mustUnchanged(k, "destination-rewritten", o, map[string]any{"kind": k.name})
		}
		// (c) same content sealed by Y / Z claiming to be X.
		for _, imp := range []int{iY, iZ} {
			if !mine() {
				continue
			}
			imp := imp
			o := run(k, func(tw *tworld, raw []byte) ([]byte, *kit.Node) {
				impostor := tw.y
				if imp == iZ {
					impostor = tw.z
				}
				// rebuild the same message body under the impostor's keys, source = X.
				ms, as, _ := authStart(raw)
				f, err := impostor.FrameBuilder().NewFrameV1(tw.x.Identity().IP, tw.r.Identity().IP, frame.MessageType(raw[4]), nil, plainBody(tw, k, raw[ms:as]), nil)
				must(err)
				sess := impostor.State().GetSession(tw.r.Identity().IP)
				must(f.Seal(sess))
				d, _ := f.FrameDataWithMargins(0, 0)
				out := append([]byte(nil), d...)
				f.ReturnToPool()
				return out, impostor
			}, nil)
			mustUnchanged(k, "sealed-by-other-router", o, map[string]any{"kind": k.name, "impostor": imp})
		}
		// (c2) relayed announcements: the delivering peer X invents an inner hop record
		// that names a router R already knows (Z or Y) but carries and is signed with
		// X's own key, and wraps it with a genuine record of its own.
		if k.name == "announce-1-hop" {
			for _, victim := range []int{iZ, iY} {
				if !mine() {
					continue
				}
				victim := victim
				o := run(k, func(tw *tworld, raw []byte) ([]byte, *kit.Node) {
					ms, as, ae := authStart(raw)
					_ = ms
					ctx := make([]byte, 16+8+64)
					copy(ctx[:16], raw[16:32])
					copy(ctx[16:24], raw[8:16])
					copy(ctx[24:], raw[as:ae])
					xid := tw.x.Identity()
					sign := func(att router.AnnouncePingAttachment) []byte {
						data := kit.MustCBOR(att)
						sig, err := xid.PrivateKey.Sign(nil, data, &ed25519.Options{Context: string(ctx)})
						must(err)
						return append(data, sig...)
					}
					forged := xid.PublicAddress
					forged.IP = pool[victim].IP
					inner := sign(router.AnnouncePingAttachment{Router: forged, Delay: 5, ForwardLabel: 3, ReturnLabel: 4})
					outer := sign(router.AnnouncePingAttachment{Router: xid.PublicAddress, Delay: 5, ForwardLabel: 31, ReturnLabel: 21, NextAttachment: inner})
					return append(append([]byte(nil), raw[:ae]...), outer...), nil
				}, nil)
				mustUnchanged(k, "forged-hop-of-known-router", o, map[string]any{"kind": k.name, "victim": victim})
			}
		}
		// (e) replays.
		betweens := []string{"nothing", "newer-ping-from-X", "ping-from-Y", "clock+31s", "session-expiry(61min-idle+cleaner)"}
		for _, other := range ks {
			if other.sender == "" && !other.hop {
				betweens = append(betweens, "kind:"+other.name)
			}
		}
		if k.enc {
			// encrypted kinds: X seals N newer encrypted frames of which only the last (the
			// opposite verdict for the same flow) arrives - the sequence number jumps by N,
			// around the width of the replay window - then the rate limit of error pings passes.
			for _, n := range []int{1, 2, 63, 64, 65, 66, 128} {
				betweens = append(betweens, fmt.Sprintf("jump:%d", n))
			}
		}
		for ri, between := range betweens {
			if !mine() {
				continue
			}
			between := between
			o := run(k, nil, func(tw *tworld, raw []byte) {
				first := tw.x
				switch k.sender {
				case "Y":
					first = tw.y
				case "Z":
					first = tw.z
				}
				tw.w.Inject(first, tw.r, raw) // first, legitimate delivery
				tw.w.InFlight = nil
				switch {
				case between == "newer-ping-from-X":
					time.Sleep(2 * time.Millisecond)
					b, err := kit.BuildPing(tw.x, kit.PingSpec{Dst: tw.r.Identity().IP, MsgType: frame.RouterPing, PingType: "pong", Body: kit.MustCBOR(map[string]string{"msg": "ping"})})
					must(err)
					tw.w.Inject(tw.x, tw.r, b)
				case between == "ping-from-Y":
					b, err := kit.BuildPing(tw.y, kit.PingSpec{Dst: tw.r.Identity().IP, MsgType: frame.RouterPing, PingType: "pong", Body: kit.MustCBOR(map[string]string{"msg": "ping"})})
					must(err)
					tw.w.Inject(tw.y, tw.r, b)
				case between == "clock+31s":
					time.Sleep(31 * time.Second)
				case between == "session-expiry(61min-idle+cleaner)":
					// the receiver's session cleaner drops sessions that were idle for an hour.
					time.Sleep(61 * time.Minute)
					tw.r.State().VerifCleanSessions()
				case strings.HasPrefix(between, "jump:"):
					n, _ := strconv.Atoi(strings.TrimPrefix(between, "jump:"))
					time.Sleep(11 * time.Second)
					for i := 0; i < n-1; i++ {
						_, err := kit.BuildPing(tw.x, kit.PingSpec{Dst: tw.r.Identity().IP, MsgType: frame.RouterCtrl, PingType: "pong", Body: kit.MustCBOR(map[string]string{"msg": "lost"})})
						must(err)
					}
					if k.name == "error-access-denied" {
						must(tw.x.Router().ErrorPing.SendRejected(tw.r.Identity().IP, tw.x.Identity().IP, 6, 80))
					} else {
						must(tw.x.Router().ErrorPing.SendAccessDenied(tw.r.Identity().IP, tw.x.Identity().IP, 6, 80))
					}
					tw.w.Inject(tw.x, tw.r, one(tw.takeTo(tw.r)))
					time.Sleep(11 * time.Second)
				default:
					// another valid, newer ping of the given kind from the same router.
					time.Sleep(2 * time.Millisecond)
					for _, other := range ks {
						if "kind:"+other.name == between && other.name != k.name {
							// (the senders' own rate limits may refuse a second ping of a kind; then nothing intervenes)
							kit.Try(func() {
								time.Sleep(11 * time.Second)
								nb := other.mk(tw)
								tw.w.Inject(tw.x, tw.r, nb)
							})
						}
					}
				}
				tw.w.InFlight = nil
			})
			nontrivial++
			_ = ri
			// a replay must change nothing; for hop pings the exact duplicate of the newest
			// announcement is tolerated but must leave the routing table unchanged.
			bad := o.changed
			if k.hop && (between == "nothing" || between == "ping-from-Y" || between == "clock+31s") {
				bad = nil
				for _, c := range o.changed {
					if c == "table" {
						bad = append(bad, c)
					}
				}
			}
			if len(bad) > 0 {
				rep.Violate(fmt.Sprintf("%s/replay-after-%s/state-changed", k.name, between), fmt.Sprintf("replayed %s after %s changed %v", k.name, between, bad), map[string]any{"kind": k.name, "between": between})
				rep.Outcome("replay-changed-state!")
			} else {
				rep.Outcome("replay-unchanged")
			}
		}
	}

	// (d) first contact: U (unknown to R) pings R through Y.
	for _, variant := range []string{"right-key", "wrong-key", "key-of-other-address", "no-key"} {
		for _, pt := range []string{"pong", "hello", "disconnect", "error"} {
			if !mine() {
				continue
			}
			variant, pt := variant, pt
			var o outcome
			synctest.Test(t, func(t *testing.T) {
				tw := build()
				body := kit.MustCBOR(map[string]string{"msg": "ping"})
				switch pt {
				case "disconnect":
					body = kit.MustCBOR(&router.DisconnectPingMsg{GoingDown: true})
				case "hello":
					body = kit.MustCBOR(&router.HelloPingRequest{KeyExchange: make([]byte, 32), KeyExchangeType: "ECDH-X25519/BLAKE3", MTU: 1400})
				case "error":
					body = kit.MustCBOR(map[string]any{"u": d1})
				}
				signer := tw.u
				sp := kit.PingSpec{Dst: tw.r.Identity().IP, MsgType: frame.RouterPing, PingType: pt, Code: 1, Body: body, RawSign: true}
				switch variant {
				case "wrong-key":
					// U's address, but header and signature from O's key.
					signer = tw.o
					sp.Src = tw.u.Identity().IP
				case "key-of-other-address":
					// header carries O's full identity (valid for O), frame claims U's address, signed by O.
					signer = tw.o
					sp.Src = tw.u.Identity().IP
				case "no-key":
					sp.NoHeaderKey = true
				}
				raw, err := kit.BuildPing(signer, sp)
				must(err)
				if variant == "wrong-key" {
					// keep U's hash/type but someone else's key: rebuild header by hand is
					// what BuildPing(signer=O, Src=U) already yields (key does not hash to U).
					_ = raw
				}
				o.before = norm(kit.SnapshotMap(tw.r, tw.ips))
				o.errs = tw.w.Inject(tw.y, tw.r, raw)
				if variant != "right-key" {
					// the forger does not give up after one attempt: the same claim again,
					// as a hello and as the original kind, with fresh timestamps.
					for _, again := range []string{"hello", pt} {
						time.Sleep(2 * time.Millisecond)
						sp2 := sp
						sp2.PingType = again
						if again == "hello" {
							sp2.Body = kit.MustCBOR(&router.HelloPingRequest{KeyExchange: make([]byte, 32), KeyExchangeType: "ECDH-X25519/BLAKE3", MTU: 1300})
						}
						raw2, err := kit.BuildPing(signer, sp2)
						must(err)
						tw.w.Inject(tw.y, tw.r, raw2)
					}
				}
				o.after = norm(kit.SnapshotMap(tw.r, tw.ips))
				o.changed = kit.DiffKeys(o.before, o.after)
				o.panics = len(tw.w.Panics)
			})
			evals++
			transitions++
			nontrivial++
			if variant == "right-key" {
				rep.Outcome("first-contact-accepted:" + strings.Join(o.changed, ","))
				for _, c := range o.changed {
					if !strings.HasSuffix(c, pool[iU].IP.String()) && c != "table" && c != "conns" {
						rep.Violate("first-contact/foreign-state-changed", fmt.Sprintf("valid first-contact %s from U changed %v", pt, o.changed), nil)
					}
				}
			} else if len(o.changed) > 0 {
				rep.Violate(fmt.Sprintf("first-contact/%s/state-changed", variant), fmt.Sprintf("first-contact %s with %s changed %v", pt, variant, o.changed), map[string]any{"variant": variant, "ping": pt})
			} else {
				rep.Outcome("first-contact-rejected")
			}
		}
	}

	runPingSched(t, rep, env)
	rep.Add(evals, nontrivial, int64(len(states)), transitions)
	if err := rep.Finish(env); err != nil {
		t.Fatal(err)
	}
}

// norm maps "a bare identity record exists" to "none": remembering a
// self-certifying (address, key) pair without keys, MTU, public info or offline
// flag is not one of the state items the statement protects (C01 governs which
// identities may be remembered at all).
func norm(m map[string]string) map[string]string {
	for k, v := range m {
		if strings.HasPrefix(k, "session/") && strings.HasPrefix(v, "setup=false in="+kit.Hash([]byte(nil))+" out="+kit.Hash([]byte(nil))+" mtu=0") {
			m[k] = "none"
		}
		if strings.HasPrefix(k, "stored/") && strings.HasPrefix(v, "offline=false") && strings.HasSuffix(v, "info=nil") {
			m[k] = "none"
		}
	}
	return m
}

// plainBody returns the plaintext message (ping header + body) of a valid ping
// so that an impostor can re-seal the same content. For signed frames that is
// the message data itself; for encrypted ones it is rebuilt.
func plainBody(tw *tworld, k pingKind, msg []byte) []byte {
	if !k.enc {
		return append([]byte(nil), msg...)
	}
	hdr := router.PingHeader{PingID: 5, PingType: "error", PingCode: 3}
	hd := kit.MustCBOR(&hdr)
	out := append([]byte{1, byte(len(hd))}, hd...)
	return append(out, kit.MustCBOR(map[string]any{"d": tw.x.Identity().IP, "t": 6, "p": 80})...)
}

func region(p, msgStart, aStart int) string {
	switch {
	case p < 16:
		return "header"
	case p < 32:
		return "src"
	case p < 48:
		return "dst"
	case p < msgStart:
		return "lengths"
	case p < aStart:
		return "body"
	}
	return "auth"
}

// checkValid bounds the effect of the valid ping of each kind.
func checkValid(rep *kit.Report, k pingKind, o struct {
	changed []string
	panics  int
	errs    []error
	before  map[string]string
	after   map[string]string
}) {
	x := pool[iX].IP.String()
	switch k.sender {
	case "Y":
		x = pool[iY].IP.String()
	case "Z":
		x = pool[iZ].IP.String()
	}
	allowed := map[string]bool{}
	switch {
	case strings.HasPrefix(k.name, "hello"):
		allowed["session/"+x] = true
	case strings.HasPrefix(k.name, "pong"):
	case k.name == "error-unreachable", k.name == "error-access-denied", k.name == "error-rejected":
		allowed["conns"] = true
	case k.name == "error-no-encryption-keys":
		allowed["session/"+x] = true
	case strings.HasPrefix(k.name, "disconnect"):
		allowed["table"] = true
		allowed["stored/"+x] = true
	case strings.HasPrefix(k.name, "announce"):
		allowed["table"] = true
		allowed["stored/"+x] = true
		allowed["stored/"+pool[iO].IP.String()] = true
		allowed["session/"+pool[iO].IP.String()] = true
	}
	for _, c := range o.changed {
		if !allowed[c] {
			rep.Violate(k.name+"/valid/changed-foreign-state", fmt.Sprintf("valid %s from X changed %s (allowed: %v)", k.name, c, keys(allowed)), nil)
		}
	}
	if strings.HasPrefix(k.name, "disconnect") {
		// removed routes must contain X; routes not containing X must survive.
		before := strings.Split(o.before["table"], "\n")
		after := map[string]bool{}
		for _, l := range strings.Split(o.after["table"], "\n") {
			after[l] = true
		}
		removed := 0
		for _, l := range before {
			if l == "" || after[l] {
				continue
			}
			removed++
			if !strings.Contains(l, x) {
				rep.Violate(k.name+"/valid/removed-unrelated-route", fmt.Sprintf("disconnect from X removed a route that does not contain X: %s", l), nil)
			}
		}
		for l := range after {
			if l != "" && strings.Contains(l, x) && !strings.HasPrefix(l, x+">"+x) {
				// routes containing X should be gone (statement: removes routes containing X).
				rep.Violate(k.name+"/valid/route-with-x-survived", "route containing the disconnected router survived: "+l, nil)
			}
		}
		if removed == 0 {
			rep.Violate(k.name+"/valid/no-effect", "valid disconnect from X removed nothing (vacuous)", nil)
		}
	}
	if k.name == "hello-request" && len(o.changed) == 0 && !k.late {
		rep.Violate("hello-request/valid/no-effect", "valid hello request did not re-key the session (vacuous)", nil)
	}
	rep.Outcome("valid:" + k.name + ":" + strings.Join(o.changed, ","))
}

func keys(m map[string]bool) []string {
	var o []string
	for k := range m {
		o = append(o, k)
	}
	return o
}
