// C07, interleaving tier: the router handles pings on one frame handler per CPU,
// so a ping and its byte-identical replay (or two pings of one source) are
// processed CONCURRENTLY. The router, state and m packages are compiled with
// their sync / sync/atomic imports rewritten to the controlled-scheduler shims.
// Harness threads deliver pings produced by the real sender code of peer X to
// the real handlers of R at the same time; ALL schedules up to a preemption
// bound are explored. Oracle: the outcome (routing table, sessions, stored
// info, connection verdicts, frames R emitted) of every interleaving equals the
// outcome of one of the orders in which the same deliveries happen one after the
// other - in particular a replay delivered concurrently has no effect of its own.
package c07

import (
	"fmt"
	"sort"
	"strings"
	"testing"
	"testing/synctest"
	"time"

	"verif/kit"
	"verif/schedx"
)

type concCase struct {
	name string
	// sessionless: R's session objects are dropped before the pings arrive (61
	// minutes of idle time and a run of the session cleaner; the stored records stay).
	sessionless bool
	// kinds delivered by the threads; a repeated kind is a byte-identical replay.
	threads [][]string
}

func kindByName(name string) pingKind {
	for _, k := range kinds() {
		if k.name == name {
			return k
		}
	}
	panic("harness: unknown ping kind " + name)
}

func (c concCase) build() *schedx.Instance {
	tw := build()
	if c.sessionless {
		time.Sleep(61 * time.Minute)
		tw.r.State().VerifCleanSessions()
	}
	// produce each distinct kind once (a repeated name is a replay of the same bytes).
	raws := map[string][]byte{}
	vias := map[string]*kit.Node{}
	for _, th := range c.threads {
		for _, name := range th {
			if _, ok := raws[name]; ok {
				continue
			}
			k := kindByName(name)
			raws[name] = k.mk(tw)
			vias[name] = tw.x
			switch k.sender {
			case "Y":
				vias[name] = tw.y
			case "Z":
				vias[name] = tw.z
			}
			time.Sleep(2 * time.Millisecond) // the sender's next ping is a later one
		}
	}
	tw.w.InFlight, tw.w.Log = nil, nil
	in := &schedx.Instance{}
	for _, th := range c.threads {
		var ops []schedx.Op
		for _, name := range th {
			name := name
			ops = append(ops, schedx.Op{Name: "deliver(" + name + ")", Do: func() { tw.w.Inject(vias[name], tw.r, raws[name]) }})
		}
		in.Threads = append(in.Threads, ops)
	}
	in.Observe = func() string {
		snap := norm(kit.SnapshotMap(tw.r, tw.ips))
		var ks []string
		for k := range snap {
			ks = append(ks, k)
		}
		sort.Strings(ks)
		var b strings.Builder
		for _, k := range ks {
			fmt.Fprintf(&b, "%s=%s\n", k, kit.StripKeys(snap[k]))
		}
		var emitted []*kit.Flight
		for _, fl := range tw.w.Log {
			if fl.From == tw.r {
				emitted = append(emitted, fl)
			}
		}
		b.WriteString("emitted: " + tw.w.DescribeFlightsByDst(emitted))
		return b.String()
	}
	in.Check = func(ex *schedx.Exec) {
		for _, p := range tw.w.Panics {
			ex.Bad("panic", "worker panic while pings were handled concurrently: %s", p)
		}
	}
	return in
}

func concCases(thorough bool) []concCase {
	var out []concCase
	for _, sl := range []bool{false, true} {
		tag := "live-sessions"
		if sl {
			tag = "sessions-expired"
		}
		for _, k := range []string{"hello-request", "pong-request", "announce-0-hops", "announce-1-hop", "disconnect-going-down", "error-no-encryption-keys"} {
			out = append(out, concCase{name: tag + "/" + k + "|replay", sessionless: sl, threads: [][]string{{k}, {k}}})
		}
		out = append(out, concCase{name: tag + "/hello-request|disconnect-going-down", sessionless: sl, threads: [][]string{{"hello-request"}, {"disconnect-going-down"}}})
		out = append(out, concCase{name: tag + "/announce-1-hop|disconnect-going-down", sessionless: sl, threads: [][]string{{"announce-1-hop"}, {"disconnect-going-down"}}})
		out = append(out, concCase{name: tag + "/announce-0-hops|announce-1-hop", sessionless: sl, threads: [][]string{{"announce-0-hops"}, {"announce-1-hop"}}})
		if thorough {
			out = append(out, concCase{name: tag + "/hello-request|replay|replay", sessionless: sl, threads: [][]string{{"hello-request"}, {"hello-request"}, {"hello-request"}}})
			out = append(out, concCase{name: tag + "/announce-1-hop|replay|disconnect-going-down-from-Y", sessionless: sl, threads: [][]string{{"announce-1-hop"}, {"announce-1-hop"}, {"disconnect-going-down-from-Y"}}})
		}
	}
	return out
}

func concOf(t *testing.T, c concCase, bubble bool) schedx.Conc {
	cc := schedx.Conc{Name: "concurrent-pings/" + c.name, Build: c.build, MaxPoints: 60000}
	if bubble {
		cc.Wrap = func(f func()) { synctest.Test(t, func(t *testing.T) { f() }) }
	} else {
		// race pass: a race report fails the bubble's test; a sub-test per bubble keeps the pass going.
		cc.Wrap = func(f func()) {
			t.Run("bubble", func(t *testing.T) { synctest.Test(t, func(t *testing.T) { f() }) })
		}
	}
	return cc
}

func runPingSched(t *testing.T, rep *kit.Report, env kit.Env) {
	bound := 2
	rep.Bounds["sched_preemption_bound"] = bound
	top := 0
	for _, c := range concCases(env.Deep()) {
		schedx.ExploreConc(rep, env, concOf(t, c, true), bound, &top)
	}
}

// TestC07Race: the same deliveries on free-running goroutines under the race
// detector (supporting evidence next to the exhaustive pass; see schedx.FreeRun).
func TestC07Race(t *testing.T) {
	env := kit.GetEnv()
	rep := kit.NewReport("C07", env)
	iters := 40
	if env.Deep() {
		iters = 400
	}
	var n int64
	defer func() { _ = rep.Finish(env) }()
	var all []schedx.Conc
	for _, c := range concCases(env.Deep()) {
		all = append(all, concOf(t, c, false))
	}
	n = schedx.FreeRunAll(rep, env, all, true, iters)
	rep.Add(n, 0, 0, 0)
	rep.OutcomeN("free-running race-detector pass [iterations]", n)
}
