// C20: relay-only routers start, run and stop cleanly.
//
// Real instances (mycoria.New) with the tun interface disabled are constructed,
// started, peered over real loopback TCP and stopped, for every configuration of
// a grid (universe, secret, lite, stub, services, friends, listeners, state
// storage) and every well-formed lifecycle history up to three cycles in one
// process. This check runs in real time on real sockets: it enumerates
// configurations and histories exhaustively, not goroutine schedules.
package c20

import (
	"fmt"
	"net"
	"os"
	"path/filepath"
	"runtime"
	"runtime/pprof"
	"strings"
	"testing"
	"time"

	"verif/kit"

	mycoria "github.com/mycoria/mycoria"
	"github.com/mycoria/mycoria/config"
	"github.com/mycoria/mycoria/m"
)

var pool = pickPool()

func pickPool() []*m.Address {
	var out []*m.Address
	for _, a := range kit.RoutablePool("c20", 16) {
		switch m.GetAddressType(a.IP) {
		case m.TypeGeoMarked, m.TypeRoaming, m.TypeOrganization, m.TypeAnycast, m.TypeExperiment:
			out = append(out, a)
		}
	}
	return out
}

type cfgSpec struct {
	universe, secret string
	lite, stub       bool
	services         int
	friends          int
	listeners        int // ports the first router listens on (second router dials the first port)
	jsonState        bool
	api              bool // system.apiListen on a free loopback port (API + dashboard without a tun interface)
}

func (c cfgSpec) String() string {
	return fmt.Sprintf("universe=%q secret=%q lite=%v stub=%v services=%d friends=%d listeners=%d jsonState=%v apiListen=%v", c.universe, c.secret, c.lite, c.stub, c.services, c.friends, c.listeners, c.jsonState, c.api)
}

// cfgSources: how a configuration reaches mycoria.New (rotated over cases and routers).
var cfgSources = []string{"store", "yaml", "json", "yml"}

// loopHost is the loopback host of the current case: the IPv4 or (when the sandbox
// has it) the IPv6 loopback address; ports are probed on that host.
var loopHost = "127.0.0.1"

var haveV6 = func() bool {
	l, err := net.Listen("tcp", "[::1]:0")
	if err != nil {
		return false
	}
	_ = l.Close()
	return true
}()

func freePort() int {
	l, err := net.Listen("tcp", loopHost+":0")
	if err != nil {
		panic(err)
	}
	defer l.Close()
	return l.Addr().(*net.TCPAddr).Port
}

func mkStore(c cfgSpec, id *m.Address, listen []int, connect int, dir string, tag string) config.Store {
	st := config.Store{}
	st.Router.Address = id.Store()
	st.Router.Universe = c.universe
	st.Router.UniverseSecret = c.secret
	st.Router.Lite = c.lite
	st.Router.Stub = c.stub
	st.System.DisableTun = true
	for _, p := range listen {
		st.Router.Listen = append(st.Router.Listen, fmt.Sprintf("tcp://%s:%d", loopHost, p))
	}
	if connect > 0 {
		st.Router.Connect = []string{fmt.Sprintf("tcp://%s:%d", loopHost, connect)}
	}
	for i := 0; i < c.services; i++ {
		st.ServiceConfigs = append(st.ServiceConfigs, config.ServiceConfig{Name: fmt.Sprintf("svc%d", i), URL: fmt.Sprintf("tcp://svc%d.myco:80%d", i, i), Public: true, Advertise: true})
	}
	for i := 0; i < c.friends; i++ {
		st.FriendConfigs = append(st.FriendConfigs, config.FriendConfig{Name: fmt.Sprintf("friend%d", i), IP: pool[5+i].IP.String()})
	}
	if c.api {
		st.System.APIListen = fmt.Sprintf("%s:%d", loopHost, freePort())
	}
	if c.jsonState {
		st.System.StatePath = filepath.Join(dir, "state-"+tag+".json")
	}
	return st
}

func goroutineSummary() string {
	var b strings.Builder
	_ = pprof.Lookup("goroutine").WriteTo(&b, 1)
	// keep only the header lines "N @ ..." followed by the first function.
	var out []string
	lines := strings.Split(b.String(), "\n")
	for i, l := range lines {
		if strings.Contains(l, " @ ") && i+1 < len(lines) {
			// find creating / top function
			fn := ""
			for j := i + 1; j < len(lines) && strings.HasPrefix(lines[j], "#"); j++ {
				fn = strings.TrimSpace(lines[j])
			}
			out = append(out, strings.SplitN(l, " @", 2)[0]+"x "+fn)
		}
	}
	return strings.Join(out, "; ")
}

// waitFor polls a monotone condition with a generous ceiling; it is a liveness
// ceiling, not an oracle on speed.
func waitFor(cond func() bool, ceiling time.Duration) bool {
	deadline := time.Now().Add(ceiling)
	for time.Now().Before(deadline) {
		if cond() {
			return true
		}
		time.Sleep(5 * time.Millisecond)
	}
	return cond()
}

type history []string // N = new both, S = start both, P = wait for peering, X = stop one after the other, C = stop both concurrently

// stopWatch is the real-time stall oracle for Stop (see kit.Watchdog): a Stop that
// has not returned after four minutes (it needs seconds) is reported as a router
// that cannot be stopped, and the shard ends (the stuck instance cannot be cleaned up).
var stopWatch *kit.Watchdog

func guardStop(f func()) {
	if stopWatch != nil {
		stopWatch.Case("lifecycle/stop-never-returns", "Instance.Stop() of a relay-only router did not return: a worker is blocked for ever")
		defer stopWatch.Case("", "")
	}
	f()
}

func TestC20(t *testing.T) {
	env := kit.GetEnv()
	rep := kit.NewReport("C20", env)
	stopWatch = rep.StartWatchdog(env, 240*time.Second)
	defer stopWatch.Stop()
	rep.Rule = "configurations: universe {'', 'u'} x secret {'', 's'} x lite x stub x services {0,1} x friends {0,1} x listeners {1,2 loopback ports; IPv4 loopback, every third case IPv6 loopback} x state storage {memory, json file} x API listener {none, free loopback port} (quick: a pairwise-covering subset of 24, thorough: all 512) for a pair of real relay-only instances (second dials the first), each configuration handed over as a parsed store or written as a .yaml / .json / .yml file and read by the real loader (rotating over cases); plus, for every sixth configuration (thorough: all), three routers on one host of which one has two connect URLs and must peer with both; histories: every well-formed word over {New, Start, Peer, Stop (sequential), Stop (both concurrently), Stop of one router while its peer keeps sending it frames} of up to 3 cycles from a fixed family (start-stop, start-peer-stop, construct-only, stop-without-start, double stop, and their repetitions) in one process; plus the module group alone with stub modules: all assignments of {ok, start fails, stop fails, worker never ends} to 4 modules with at most 2 faults (virtual time): every started module stopped once in reverse order, managers cancelled, result reports the failure; observed: panics/errors of New/Start, link on both sides, return value of Stop, goroutine count back to the pre-New baseline after every cycle; non-trivial = every case (each has >= 1 full cycle); distinct = distinct (configuration, history)"
	rep.Assumptions = []string{
		"this check runs on real loopback TCP in real time: goroutine schedules are NOT controlled; the property is quantified over configurations and histories only, which are enumerated exhaustively",
		"waiting uses monotone conditions polled under a 30 s ceiling; no short wall-clock oracle is used",
		"listeners use free loopback ports obtained from the kernel immediately before use",
	}
	var cfgs []cfgSpec
	for _, u := range []string{"", "u"} {
		for _, s := range []string{"", "s"} {
			for _, lite := range []bool{false, true} {
				for _, stub := range []bool{false, true} {
					for _, sv := range []int{0, 1} {
						for _, fr := range []int{0, 1} {
							for _, ls := range []int{1, 2} {
								for _, js := range []bool{false, true} {
									for _, api := range []bool{false, true} {
										c := cfgSpec{u, s, lite, stub, sv, fr, ls, js, api}
										if !env.Thorough() {
											// covering subset (24 of 512): every pair of option values appears.
											h := 0
											for i, b := range []bool{u != "", s != "", lite, stub, sv == 1, fr == 1, ls == 2, js, api} {
												if b {
													h ^= (i + 1) * 37
												}
											}
											if h%19 != 1 {
												continue
											}
										}
										cfgs = append(cfgs, c)
									}
								}
							}
						}
					}
				}
			}
		}
	}
	histories := []history{
		{"N", "S", "P", "X"},
		{"N", "X", "N", "S", "P", "X", "X"},
		{"N", "S", "P", "C"},
		{"N", "S", "P", "L"},
	}
	if env.Thorough() {
		histories = append(histories, history{"N", "S", "X"}, history{"N", "S", "P", "X", "N", "S", "P", "X", "N", "S", "P", "X"},
			history{"N", "X"}, history{"N"}, history{"N", "S", "P", "X", "X"}, history{"N", "S", "X", "N", "S", "P", "X"})
	}
	rep.Bounds["configurations"] = len(cfgs)
	rep.Bounds["histories"] = len(histories)

	dir := t.TempDir()
	var evals, nontrivial int64
	caseNo := 0
	runtime.GC()
	for _, c := range cfgs {
		for hi, h := range histories {
			caseNo++
			if !env.Mine(caseNo) {
				continue
			}
			if env.Expired() {
				rep.Cap(fmt.Sprintf("real-socket lifecycle part stopped by the time budget after %d of %d (configuration, history) cases of this shard's share", evals, len(cfgs)*len(histories)/env.Shards))
				goto afterLifecycle
			}
			evals++
			nontrivial++
			// every third case runs over the IPv6 loopback address.
			loopHost = "127.0.0.1"
			if haveV6 && caseNo%3 == 2 {
				loopHost = "[::1]"
			}
			desc := fmt.Sprintf("%s history=%v loopback=%s", c, h, loopHost)
			key := func(k string) string { return "lifecycle/" + k }
			base := runtime.NumGoroutine()
			var a, b *mycoria.Instance
			ok := true
			fail := func(k, msg string) {
				rep.Violate(key(k), msg+" — "+desc, map[string]any{"config": c.String(), "history": []string(h)})
				ok = false
			}
			expectPeering := c.secret == "" || c.universe != ""
			for step, op := range h {
				if !ok {
					break
				}
				switch op {
				case "N":
					ports := []int{freePort()}
					if c.listeners == 2 {
						ports = append(ports, freePort())
					}
					sa := mkStore(c, pool[0], ports, 0, dir, fmt.Sprintf("a-%d-%d", caseNo, hi))
					sb := mkStore(c, pool[1], []int{freePort()}, ports[0], dir, fmt.Sprintf("b-%d-%d", caseNo, hi))
					for i, st := range []config.Store{sa, sb} {
						// the configuration reaches the constructor as a parsed store or, the way the
						// program starts, from a configuration file through the real loader.
						src := cfgSources[(caseNo+i)%len(cfgSources)]
						var cfg *config.Config
						var err error
						if src == "store" {
							cfg, err = st.Parse()
						} else {
							var pan any
							cfg, err, pan = kit.LoadConfigFile(dir, fmt.Sprintf("config-%d-%d-%d", caseNo, step, i), src, st)
							if pan != nil {
								fail("config-file-load-panics/"+src, fmt.Sprintf("loading a valid relay-only configuration from a .%s file panicked: %v", src, pan))
								break
							}
						}
						if err != nil {
							fail("config-rejected", fmt.Sprintf("valid relay-only configuration (source: %s) rejected: %v", src, err))
							break
						}
						var inst *mycoria.Instance
						pan, pv := kit.Try(func() { inst, err = mycoria.New("verif", cfg) })
						switch {
						case pan:
							fail("new-panics", fmt.Sprintf("constructing a relay-only router panicked: %v", pv))
						case err != nil:
							fail("new-fails", "constructing a relay-only router failed: "+err.Error())
						}
						if i == 0 {
							a = inst
						} else {
							b = inst
						}
					}
				case "S":
					for _, inst := range []*mycoria.Instance{a, b} {
						var err error
						pan, pv := kit.Try(func() { err = inst.Start() })
						if pan {
							fail("start-panics", fmt.Sprintf("Start panicked: %v", pv))
						} else if err != nil {
							fail("start-fails", "Start failed: "+err.Error())
						}
					}
					if ok {
						for name, inst := range map[string]*mycoria.Instance{"A": a, "B": b} {
							if inst.State() == nil || inst.Peering() == nil || inst.Switch() == nil || inst.Router() == nil {
								fail("module-missing", "module missing on "+name)
							}
						}
					}
				case "P":
					if !expectPeering {
						continue
					}
					if !waitFor(func() bool { return a.Peering().LinkCnt() >= 1 && b.Peering().LinkCnt() >= 1 }, 30*time.Second) {
						fail("no-peering", fmt.Sprintf("the two routers did not peer over loopback within the ceiling (links A=%d B=%d)", a.Peering().LinkCnt(), b.Peering().LinkCnt()))
					}
				case "C":
					// both routers stop at the same time: each side's link workers see the
					// remote close while its own shutdown walks the link registry.
					res := make(chan string, 2)
					for name, inst := range map[string]*mycoria.Instance{"A": a, "B": b} {
						go func() {
							var stopped bool
							pan, pv := kit.Try(func() { guardStop(func() { stopped = inst.Stop() }) })
							switch {
							case pan:
								res <- fmt.Sprintf("Stop of %s panicked: %v", name, pv)
							case !stopped:
								res <- "Stop of " + name + " returned false"
							default:
								res <- ""
							}
						}()
					}
					for i := 0; i < 2; i++ {
						if msg := <-res; msg != "" {
							fail("concurrent-stop", msg)
						}
					}
					if ok && !waitFor(func() bool { runtime.Gosched(); return runtime.NumGoroutine() <= base }, 15*time.Second) {
						fail("goroutines-left-running", fmt.Sprintf("after concurrent Stop %d goroutines run, baseline before New was %d: %s", runtime.NumGoroutine(), base, goroutineSummary()))
					}
				case "L":
					// A stops while its peer keeps talking to it: frames keep arriving on the link
					// during the whole stop sequence (after the router and the switch have ended,
					// before the link is closed). Then B stops.
					done := make(chan struct{})
					flooded := make(chan int, 1)
					go func() {
						n := 0
						for {
							select {
							case <-done:
								flooded <- n
								return
							default:
							}
							kit.Try(func() { _, _, _ = b.Router().PingPong.Send(a.Identity().IP, true, 0) })
							n++
							time.Sleep(200 * time.Microsecond)
						}
					}()
					for _, e := range []struct {
						name string
						inst *mycoria.Instance
					}{{"A", a}, {"B", b}} {
						var stopped bool
						pan, pv := kit.Try(func() { guardStop(func() { stopped = e.inst.Stop() }) })
						if pan {
							fail("stop-under-load-panics", fmt.Sprintf("Stop of %s panicked while its peer kept sending: %v", e.name, pv))
						} else if !stopped {
							fail("stop-under-load-false", "Stop of "+e.name+" returned false while its peer kept sending frames (a worker did not stop)")
						}
						if e.name == "A" {
							close(done)
							rep.Outcome(fmt.Sprintf("stop-under-load/peer-sent>0=%v", <-flooded > 0))
						}
					}
					if ok && !waitFor(func() bool { runtime.Gosched(); return runtime.NumGoroutine() <= base }, 15*time.Second) {
						fail("goroutines-left-running", fmt.Sprintf("after Stop under load %d goroutines run, baseline before New was %d: %s", runtime.NumGoroutine(), base, goroutineSummary()))
					}
				case "X":
					for name, inst := range map[string]*mycoria.Instance{"A": a, "B": b} {
						if inst == nil {
							continue
						}
						var stopped bool
						pan, pv := kit.Try(func() { guardStop(func() { stopped = inst.Stop() }) })
						if pan {
							fail("stop-panics", fmt.Sprintf("Stop of %s panicked: %v", name, pv))
						} else if !stopped {
							fail("stop-false", "Stop of "+name+" returned false (a worker did not stop)")
						}
					}
					// goroutines back to the baseline?
					last := step == len(h)-1 || h[step+1] != "X"
					if ok && last {
						if !waitFor(func() bool { runtime.Gosched(); return runtime.NumGoroutine() <= base }, 15*time.Second) {
							fail("goroutines-left-running", fmt.Sprintf("after Stop %d goroutines run, baseline before New was %d: %s", runtime.NumGoroutine(), base, goroutineSummary()))
						}
					}
				}
			}
			if ok {
				rep.Outcome(fmt.Sprintf("clean-lifecycle history=%s peering-expected=%v", strings.Join(h, ""), expectPeering))
			} else {
				rep.Outcome("failed-lifecycle")
				// best effort cleanup so that later cases start clean.
				for _, inst := range []*mycoria.Instance{a, b} {
					if inst != nil {
						kit.Try(func() { guardStop(func() { inst.Stop() }) })
					}
				}
				time.Sleep(300 * time.Millisecond)
			}
			if evals%7 == 1 {
				rep.Sample(map[string]any{"config": c.String(), "history": []string(h), "clean": ok})
			}
			_ = os.Remove
		}
	}
afterLifecycle:
	// three routers on one host: A and C listen, B has two connect URLs and must
	// peer with both (every pair of relay-only routers can peer, also when one of
	// them already has a link over the same host).
	for ci, c := range cfgs {
		if ci%6 != 0 && !env.Thorough() {
			continue
		}
		caseNo++
		if !env.Mine(caseNo) {
			continue
		}
		if !(c.secret == "" || c.universe != "") {
			continue
		}
		evals++
		nontrivial++
		desc := fmt.Sprintf("%s three routers: A and C listen, B connects to both", c)
		base := runtime.NumGoroutine()
		pa, pc := freePort(), freePort()
		stores := []config.Store{
			mkStore(c, pool[0], []int{pa}, 0, dir, fmt.Sprintf("ta-%d", caseNo)),
			mkStore(c, pool[2], []int{pc}, 0, dir, fmt.Sprintf("tc-%d", caseNo)),
			mkStore(c, pool[1], []int{freePort()}, pa, dir, fmt.Sprintf("tb-%d", caseNo)),
		}
		stores[2].Router.Connect = append(stores[2].Router.Connect, fmt.Sprintf("tcp://%s:%d", loopHost, pc))
		var insts []*mycoria.Instance
		ok := true
		for _, st := range stores {
			cfg, err := st.Parse()
			if err != nil {
				rep.Violate("triple/config-rejected", err.Error()+" — "+desc, desc)
				ok = false
				break
			}
			var inst *mycoria.Instance
			pan, pv := kit.Try(func() { inst, err = mycoria.New("verif", cfg) })
			if pan || err != nil {
				rep.Violate("triple/new-fails", fmt.Sprintf("constructing a relay-only router failed (%v / %v) — %s", pv, err, desc), desc)
				ok = false
				break
			}
			insts = append(insts, inst)
		}
		if ok {
			// listeners first, so that both of B's connect URLs can be served at once.
			for _, inst := range insts {
				if err := inst.Start(); err != nil {
					rep.Violate("triple/start-fails", err.Error()+" — "+desc, desc)
					ok = false
				}
			}
		}
		if ok {
			b := insts[2]
			// the connect manager retries a missing configured peer every minute once it has a link.
			if !waitFor(func() bool {
				return b.Peering().LinkCnt() >= 2 && insts[0].Peering().LinkCnt() >= 1 && insts[1].Peering().LinkCnt() >= 1
			}, 150*time.Second) {
				rep.Violate("triple/no-peering", fmt.Sprintf("B did not peer with both configured routers within the ceiling (links A=%d C=%d B=%d) — %s", insts[0].Peering().LinkCnt(), insts[1].Peering().LinkCnt(), b.Peering().LinkCnt(), desc), map[string]any{"config": c.String()})
				ok = false
			}
		}
		for _, inst := range insts {
			var stopped bool
			pan, pv := kit.Try(func() { guardStop(func() { stopped = inst.Stop() }) })
			if pan || !stopped {
				rep.Violate("triple/stop", fmt.Sprintf("Stop failed (panic=%v stopped=%v) — %s", pv, stopped, desc), desc)
				ok = false
			}
		}
		if ok && !waitFor(func() bool { runtime.Gosched(); return runtime.NumGoroutine() <= base }, 15*time.Second) {
			rep.Violate("triple/goroutines-left-running", fmt.Sprintf("after Stop %d goroutines run, baseline before New was %d: %s — %s", runtime.NumGoroutine(), base, goroutineSummary(), desc), desc)
		}
		if ok {
			rep.Outcome("clean-lifecycle three-routers peering-expected=true")
		} else {
			rep.Outcome("failed-lifecycle")
		}
	}
	if env.Mine(1) {
		groupFaults(t, rep, &evals, &nontrivial)
	}
	runRegistrySched(t, rep, env)
	runVnetFaults(t, rep, env, &evals, &nontrivial)
	rep.Add(evals, nontrivial, 0, 0)
	if err := rep.Finish(env); err != nil {
		t.Fatal(err)
	}
}
