// C20, fault tier on a virtual network: three real relay-only instances
// (mycoria.New, tun disabled) run inside one testing/synctest bubble on the
// in-memory network of /verif/vnet (the "net" import of peering/protocol_tcp.go
// is rewritten to it at build time, nothing else changes): A listens, B dials A
// from the start, C is started 150 virtual seconds later and dials A too. The
// minute-scale listen and connect managers, link setup, link workers and the
// whole stop sequence run on the virtual clock.
//
// Enumerated: the fault-free run, then EVERY operation of the network that the
// fault-free run performed (each dial, each Accept call of the listener, each
// Read and Write of either end of each connection, named by connection number,
// side and index) failing once - one deviation -, and in the thorough tier every
// pair (the second fault taken from the operations the singly faulted run
// performed). A faulted connection operation breaks the connection for both
// ends, a faulted Accept returns an error to the listener's worker.
//
// Oracle (the statement's "two such routers can peer over loopback" and "stopping
// returns success with no worker left running", for a router that has been running
// for a while): three minute ticks after the last fault every configured pair has a
// link on both sides again; Stop of every instance returns true; no goroutine of
// the bubble is left.
package c20

import (
	"fmt"
	"os"
	"sort"
	"strings"
	"sync"
	"testing"
	"testing/synctest"
	"time"

	"verif/kit"
	"verif/vlife"

	mycoria "github.com/mycoria/mycoria"
	"github.com/mycoria/mycoria/config"
	"github.com/mycoria/mycoria/zz_verif/vnet"
)

type vnetResult struct {
	ops      []string
	fired    map[string]bool
	problems []string // key|detail
}

const vnetHorizon = 330 * time.Second

func vnetStores(c cfgSpec, dir string) []config.Store {
	loopHost = "127.0.0.1"
	stores := []config.Store{
		mkStore(c, pool[0], []int{4001}, 0, dir, "va"),
		mkStore(c, pool[1], []int{4002}, 4001, dir, "vb"),
		mkStore(c, pool[2], []int{4003}, 4001, dir, "vc"),
	}
	for i := range stores {
		stores[i].System.APIListen = ""
	}
	return stores
}

// vnetRestartB: in these runs B restarts (stop at 60 s, a new instance of the same configuration at 70 s).
var vnetRestartB time.Duration

func vnetRun(t *testing.T, c cfgSpec, faults []string) (res vnetResult) {
	r := vlife.Run(t, vnetStores(c, t.TempDir()), faults, vlife.Options{
		RestartB: vnetRestartB,
		Horizon:  vnetHorizon, LateStart: 150 * time.Second, ExpectPeering: c.secret == "" || c.universe != "",
		GuardStop: guardStop, ListenAddr: "127.0.0.1:4001",
		OnLeftovers: func() {
			if stopWatch != nil {
				stopWatch.Case("vnet/bubble-does-not-end", "workers left running keep the virtual clock going for ever")
			}
		},
	})
	if stopWatch != nil {
		stopWatch.Case("", "")
	}
	return vnetResult{ops: r.Ops, fired: r.Fired, problems: r.Problems}
}

func bubbleLeftovers() []string { return vlife.BubbleLeftovers() }
func opClass(op string) string  { return vlife.OpClass(op) }

// vnetStopSweep: two routers (A listens, B dials) are started and stopped after T virtual
// seconds, for every T of a list that brackets the timing constants of the workers (first
// announcement, keep-alive, minute managers, cleaners); the stop must return true and leave
// no goroutine, whatever the workers are waiting for at that moment.
func vnetStopSweep(t *testing.T, c cfgSpec, after time.Duration, concurrent bool) (problems []string) {
	problem := func(key, detail string) { problems = append(problems, key+"|"+detail) }
	body := func(t *testing.T) {
		n := vnet.New()
		vnet.Install(n)
		defer vnet.Install(nil)
		loopHost = "127.0.0.1"
		dir := t.TempDir()
		var insts []*mycoria.Instance
		for i, st := range []config.Store{mkStore(c, pool[0], []int{4001}, 0, dir, "sa"), mkStore(c, pool[1], []int{4002}, 4001, dir, "sb")} {
			st.System.APIListen = ""
			cfg, err := st.Parse()
			if err != nil {
				problem("vnet-stop/config-rejected", err.Error())
				return
			}
			var inst *mycoria.Instance
			pan, pv := kit.Try(func() { inst, err = mycoria.New("verif", cfg) })
			if pan || err != nil {
				problem("vnet-stop/new-fails", fmt.Sprintf("router %d: panic=%v err=%v", i, pv, err))
				return
			}
			insts = append(insts, inst)
		}
		for i, inst := range insts {
			if err := inst.Start(); err != nil {
				problem("vnet-stop/start-fails", fmt.Sprintf("router %d: %v", i, err))
				return
			}
		}
		synctest.Wait()
		if after > 0 {
			time.Sleep(after)
			synctest.Wait()
		}
		stop := func(i int) {
			var stopped bool
			pan, pv := kit.Try(func() { guardStop(func() { stopped = insts[i].Stop() }) })
			if pan {
				problem("vnet-stop/stop-panics", fmt.Sprintf("Stop of router %d panicked: %v", i, pv))
			} else if !stopped {
				problem("vnet-stop/stop-false", fmt.Sprintf("Stop of router %d, %v after Start, returned false (a worker did not stop within the manager's wait)", i, after))
			}
		}
		if concurrent {
			var wg sync.WaitGroup
			for i := range insts {
				wg.Add(1)
				go func() { defer wg.Done(); stop(i) }()
			}
			wg.Wait()
		} else {
			stop(1)
			stop(0)
		}
		time.Sleep(time.Second)
		synctest.Wait()
		if left := bubbleLeftovers(); len(left) > 0 {
			problem("vnet-stop/goroutines-left-running", fmt.Sprintf("%d goroutines of the routers are left after both stopped %v after Start: %s", len(left), after, strings.Join(left, "; ")))
			if stopWatch != nil {
				stopWatch.Case("vnet-stop/bubble-does-not-end", "workers left running keep the virtual clock going for ever")
			}
		}
	}
	pan, pv := kit.Try(func() { synctest.Test(t, body) })
	if stopWatch != nil {
		stopWatch.Case("", "")
	}
	if pan {
		problem("vnet-stop/bubble-ended-abnormally", fmt.Sprintf("%v", pv))
	}
	return problems
}

var vnetStopTimes = []time.Duration{0, time.Millisecond, time.Second, 4 * time.Second, 5 * time.Second, 6 * time.Second, 11 * time.Second, 31 * time.Second,
	59 * time.Second, 61 * time.Second, 91 * time.Second, 149 * time.Second, 151 * time.Second, 301 * time.Second, 601 * time.Second, 3601 * time.Second}

func runVnetFaults(t *testing.T, rep *kit.Report, env kit.Env, evals, nontrivial *int64) {
	sweepNo := 0
	for _, c := range []cfgSpec{{}, {universe: "u", secret: "s"}, {lite: true}, {stub: true}, {lite: true, stub: true, universe: "u"}} {
		for _, after := range vnetStopTimes {
			for _, conc := range []bool{false, true} {
				sweepNo++
				if !env.Mine(sweepNo) {
					continue
				}
				ps := vnetStopSweep(t, c, after, conc)
				*evals++
				*nontrivial++
				for _, p := range ps {
					kv := strings.SplitN(p, "|", 2)
					rep.Violate(kv[0], fmt.Sprintf("%s — virtual network, A listens, B dials, both stopped %v after Start (concurrently=%v); %s", kv[1], after, conc, c), map[string]any{"config": c.String(), "stop_after": after.String(), "concurrent": conc})
				}
				rep.Outcome(fmt.Sprintf("vnet-stop/after=%v problems=%d", after, len(ps)))
			}
		}
	}
	rep.Bounds["vnet_stop_times"] = len(vnetStopTimes)

	cfgs := []cfgSpec{{}, {universe: "u", secret: "s"}, {lite: true}, {stub: true}}
	rep.Bounds["vnet_configurations"] = len(cfgs)
	rep.Bounds["vnet_scenarios"] = "three routers; the same with a restart of B (stop at 60 s, new instance at 70 s)"
	rep.Bounds["vnet_horizon_virtual_s"] = int(vnetHorizon / time.Second)
	caseNo := 0
	report := func(c cfgSpec, faults []string, r vnetResult) {
		seen := map[string]bool{}
		for _, p := range r.problems {
			kv := strings.SplitN(p, "|", 2)
			cls := []string{}
			for _, f := range faults {
				if r.fired[f] {
					cls = append(cls, opClass(f))
				}
			}
			key := kv[0] + "/after-fault:" + strings.Join(cls, "+")
			if len(cls) == 0 {
				key = kv[0] + "/no-fault"
			}
			if seen[key] {
				continue
			}
			seen[key] = true
			rep.Violate(key, fmt.Sprintf("%s — virtual network, routers A (listens), B (dials A at once), C (started after 150 s, dials A); failed operations: %v; restart of B after: %v; %s", kv[1], faults, vnetRestartB, c), map[string]any{"config": c.String(), "faults": faults, "restart_b_after": vnetRestartB.String()})
		}
	}
	type scen struct {
		c       cfgSpec
		restart time.Duration
	}
	var scens []scen
	for _, c := range cfgs {
		scens = append(scens, scen{c, 0})
	}
	for _, c := range cfgs[:2] {
		scens = append(scens, scen{c, 60 * time.Second})
	}
	defer func() { vnetRestartB = 0 }()
	for _, sc := range scens {
		c := sc.c
		vnetRestartB = sc.restart
		// the fault-free run defines the first-level fault points; it is executed by every shard.
		base := vnetRun(t, c, nil)
		if env.Mine(0) {
			*evals++
			report(c, nil, base)
			rep.Outcome(fmt.Sprintf("vnet/fault-free problems=%d", len(base.problems)))
		}
		if len(base.problems) > 0 {
			continue
		}
		rep.Bounds["vnet_fault_points_"+fmt.Sprint(c.universe != "", c.lite, c.stub, sc.restart)] = len(base.ops)
		baseSet := map[string]bool{}
		for _, o := range base.ops {
			baseSet[o] = true
		}
		for _, f := range base.ops {
			caseNo++
			if !env.Mine(caseNo) {
				continue
			}
			if env.Expired() {
				rep.Cap("vnet fault tier stopped by the time budget")
				return
			}
			r := vnetRun(t, c, []string{f})
			*evals++
			if r.fired[f] {
				*nontrivial++
			}
			report(c, []string{f}, r)
			rep.Outcome(fmt.Sprintf("vnet/one-fault:%s fired=%v problems=%d", opClass(f), r.fired[f], len(r.problems)))
			if !env.Deep() || len(r.problems) > 0 || !r.fired[f] {
				continue
			}
			// second deviation: operations that only exist because of the first fault (the
			// connections and Accept calls of the recovery), plus the dials and accepts of the base run.
			var second []string
			for _, o := range r.ops {
				if !baseSet[o] || strings.HasPrefix(o, "dial") || strings.HasPrefix(o, "accept") {
					if o != f {
						second = append(second, o)
					}
				}
			}
			sort.Strings(second)
			// handshake and first frames of the recovery connection: the first 12 operations per side and kind.
			for _, g := range second {
				if i := strings.LastIndex(g, "#"); strings.HasPrefix(g, "conn") {
					var idx int
					fmt.Sscanf(g[i+1:], "%d", &idx)
					if idx > 12 {
						continue
					}
				}
				if env.Expired() {
					rep.Cap("vnet fault tier (pairs) stopped by the time budget")
					return
				}
				r2 := vnetRun(t, c, []string{f, g})
				*evals++
				if r2.fired[f] && r2.fired[g] {
					*nontrivial++
				}
				report(c, []string{f, g}, r2)
				rep.OutcomeN(fmt.Sprintf("vnet/two-faults:%s+%s problems=%d", opClass(f), opClass(g), len(r2.problems)), 1)
			}
		}
	}
}

// TestC20VnetProbe prints the fault-free run of the virtual-network tier (diagnostic).
func TestC20VnetProbe(t *testing.T) {
	if kit.GetEnv().Replay != "vnet-probe" {
		t.Skip()
	}
	t0 := time.Now()
	r := vnetRun(t, cfgSpec{}, nil)
	fmt.Println("wall", time.Since(t0), "ops", len(r.ops), "problems", r.problems)
	cls := map[string]int{}
	for _, o := range r.ops {
		cls[opClass(o)+"@"+strings.SplitN(o, "/", 2)[0]]++
	}
	fmt.Println(cls)
}

// TestC20VnetProbeFaults runs every single fault of the fault-free run, printing wall time (diagnostic).
func TestC20VnetProbeFaults(t *testing.T) {
	if kit.GetEnv().Replay != "vnet-probe-faults" {
		t.Skip()
	}
	base := vnetRun(t, cfgSpec{}, nil)
	for _, f := range base.ops {
		t0 := time.Now()
		fmt.Println("start", f)
		r := vnetRun(t, cfgSpec{}, []string{f})
		fmt.Println("   wall", time.Since(t0), "fired", r.fired[f], "ops", len(r.ops), "problems", r.problems)
	}
}

// TestC20VnetOne runs the fault list in VERIF_VNET_FAULTS (comma separated; diagnostic / replay).
func TestC20VnetOne(t *testing.T) {
	fl := os.Getenv("VERIF_VNET_FAULTS")
	if fl == "" {
		t.Skip()
	}
	r := vnetRun(t, cfgSpec{}, strings.Split(fl, ","))
	fmt.Println("fired", r.fired, "ops", len(r.ops), "problems", r.problems)
}
