// C20, interleaving tier: a relay-only router runs its announce / keep-alive
// workers (which read the link registry: stub check, link list, link count),
// the link setup workers (which register links) and the link workers (which
// unregister them on close) side by side; if any of them blocks for ever on the
// registry's lock, peering freezes and Stop can never report "no worker left
// running". The peering and m packages are compiled with their sync /
// sync/atomic imports rewritten to the controlled-scheduler shims (whose
// read-write lock keeps new readers out while a writer waits, as the real one
// does); ALL schedules up to a preemption bound are explored; oracle: no
// deadlock, no panic, and the registry is consistent at the end.
package c20

import (
	"fmt"
	"testing"

	"verif/kit"
	"verif/schedx"

	"github.com/mycoria/mycoria/config"
	"github.com/mycoria/mycoria/m"
)

func registryConc(name string, lite bool, threads [][]string) schedx.Conc {
	build := func() *schedx.Instance {
		st := config.Store{}
		st.System.DisableTun = true
		r, err := kit.NewNode(kit.NodeOpts{Name: "R", ID: pool[0], Store: st, NoTun: true})
		if err != nil {
			panic(err)
		}
		w := kit.NewWorld()
		var peers []*kit.Node
		for i := 1; i <= 3; i++ {
			p, err := kit.NewNode(kit.NodeOpts{Name: fmt.Sprintf("P%d", i), ID: pool[i], Store: config.Store{}, NoTun: true})
			if err != nil {
				panic(err)
			}
			peers = append(peers, p)
		}
		links := []*kit.VLink{
			{W: w, From: r, To: peers[0], Label: 11, Lat: 5, IsLite: lite},
			{W: w, From: r, To: peers[1], Label: 12, Lat: 5},
			{W: w, From: r, To: peers[2], Label: 13, Lat: 5},
		}
		// the first link is up before the workers meet.
		if err := r.Peering().AddLink(links[0]); err != nil {
			panic(err)
		}
		in := &schedx.Instance{}
		for _, th := range threads {
			var ops []schedx.Op
			for _, o := range th {
				o := o
				switch o {
				case "reads":
					ops = append(ops, schedx.Op{Name: "announce worker reads the registry", Do: func() {
						_ = r.Peering().IsStub()
						_ = r.Peering().GetLinks()
						_ = r.Peering().LinkCnt()
						_ = r.Peering().GetLink(peers[1].Identity().IP)
						_ = r.Peering().GetLinkByLabel(12)
					}})
				case "add1", "add2":
					l := links[1]
					if o == "add2" {
						l = links[2]
					}
					ops = append(ops, schedx.Op{Name: "setup worker registers a link", Do: func() { _ = r.Peering().AddLink(l) }})
				case "close0":
					ops = append(ops, schedx.Op{Name: "link worker closes the first link", Do: func() { links[0].Close(nil) }})
				case "closeByPeer":
					ops = append(ops, schedx.Op{Name: "connect manager closes the link of a peer", Do: func() { r.Peering().CloseLink(peers[0].Identity().IP) }})
				}
			}
			in.Threads = append(in.Threads, ops)
		}
		in.Observe = func() string { return "" }
		in.Check = func(ex *schedx.Exec) {
			n := 0
			for _, l := range links {
				if got := r.Peering().GetLink(l.Peer()); got == l && !l.IsClosing() {
					n++
					if e, isDst := r.RoutingTable().LookupNearest(l.Peer()); e == nil || !isDst || e.Source != m.RouteSourcePeer {
						ex.Bad("live-link-without-peer-route", "a registered link has no direct-peer route")
					}
				}
			}
			if c := r.Peering().LinkCnt(); c != n {
				ex.Bad("link-count", "the registry counts %d links, %d live links can be found", c, n)
			}
			ex.Sig = fmt.Sprintf("live=%d", n)
		}
		return in
	}
	return schedx.Conc{Name: "registry-workers/" + name, Build: build, InvariantOnly: true}
}

func registryConcs() []schedx.Conc {
	var out []schedx.Conc
	for _, lite := range []bool{false, true} {
		tag := "plain"
		if lite {
			tag = "first-link-lite"
		}
		out = append(out,
			registryConc(tag+"/reads | register", lite, [][]string{{"reads"}, {"add1"}}),
			registryConc(tag+"/reads | close", lite, [][]string{{"reads"}, {"close0"}}),
			registryConc(tag+"/reads | register | close", lite, [][]string{{"reads"}, {"add1"}, {"close0"}}),
			registryConc(tag+"/reads | register | register", lite, [][]string{{"reads"}, {"add1"}, {"add2"}}),
			registryConc(tag+"/reads | close by peer | register", lite, [][]string{{"reads"}, {"closeByPeer"}, {"add1"}}),
		)
	}
	return out
}

func runRegistrySched(t *testing.T, rep *kit.Report, env kit.Env) {
	bound := 2
	rep.Bounds["sched_preemption_bound"] = bound
	top := 0
	for _, c := range registryConcs() {
		schedx.ExploreConc(rep, env, c, bound, &top)
	}
}
