package c20

import (
	"errors"
	"fmt"
	"strings"
	"testing"
	"testing/synctest"

	"verif/kit"

	"github.com/mycoria/mycoria/mgr"
)

// stubModule is a module whose start / stop behaviour the harness decides.
type stubModule struct {
	name      string
	m         *mgr.Manager
	startErr  bool
	stopErr   bool
	stuck     bool // has a worker that ignores cancellation (stop times out)
	log       *[]string
	release   chan struct{}
	started   bool
	stopCalls int
}

func (s *stubModule) Manager() *mgr.Manager { return s.m }
func (s *stubModule) Start() error {
	*s.log = append(*s.log, "start:"+s.name)
	if s.startErr {
		return errors.New("injected start failure")
	}
	s.started = true
	s.m.Go("worker", func(w *mgr.WorkerCtx) error {
		if s.stuck {
			<-s.release
			return nil
		}
		<-w.Done()
		return nil
	})
	return nil
}

func (s *stubModule) Stop() error {
	*s.log = append(*s.log, "stop:"+s.name)
	s.stopCalls++
	if s.stopErr {
		return errors.New("injected stop failure")
	}
	return nil
}

// groupFaults: the module group that starts and stops a router's modules, with
// one deviation from the default environment answer at a time and in pairs: a
// module fails to start, a module's Stop returns an error, a module's worker
// does not end. Whatever fails, every module that was started is stopped exactly
// once, in reverse order, its manager is cancelled, and the result reports the
// failure; no worker of a well-behaved module is left running.
func groupFaults(t *testing.T, rep *kit.Report, evals, nontrivial *int64) {
	const n = 4
	// per module: 0 ok, 1 start fails, 2 stop fails, 3 worker stuck
	total := 1
	for i := 0; i < n; i++ {
		total *= 4
	}
	for code := 0; code < total; code++ {
		beh := make([]int, n)
		faults := 0
		c := code
		for i := range beh {
			beh[i] = c % 4
			c /= 4
			if beh[i] != 0 {
				faults++
			}
		}
		if faults > 2 {
			continue
		}
		synctest.Test(t, func(t *testing.T) {
			var log []string
			release := make(chan struct{})
			var mods []*stubModule
			var asModules []mgr.Module
			for i := 0; i < n; i++ {
				sm := &stubModule{name: fmt.Sprintf("M%d", i), m: mgr.New(fmt.Sprintf("M%d", i)), log: &log, release: release,
					startErr: beh[i] == 1, stopErr: beh[i] == 2, stuck: beh[i] == 3}
				mods = append(mods, sm)
				asModules = append(asModules, sm)
			}
			desc := fmt.Sprintf("modules M0..M3 behaviours %v (0 ok, 1 start fails, 2 stop fails, 3 worker does not end)", beh)
			g := mgr.NewGroup(asModules...)
			err := g.Start()
			firstBad := -1
			for i, b := range beh {
				if b == 1 {
					firstBad = i
					break
				}
			}
			*evals++
			if faults > 0 {
				*nontrivial++
			}
			if (err != nil) != (firstBad >= 0) {
				rep.Violate("group/start-result", fmt.Sprintf("Start returned %v: %s", err, desc), desc)
			}
			stopOK := true
			synctest.Wait() // workers register themselves from their own goroutine: let them begin
			if err == nil {
				stopOK = g.Stop()
			}
			synctest.Wait()
			// obligations.
			upto := n - 1
			if firstBad >= 0 {
				upto = firstBad
			}
			var wantStops []string
			expectOK := true
			for i := upto; i >= 0; i-- {
				wantStops = append(wantStops, fmt.Sprintf("stop:M%d", i))
				if beh[i] == 2 || (beh[i] == 3 && mods[i].started) {
					expectOK = false
				}
			}
			var gotStops []string
			for _, l := range log {
				if strings.HasPrefix(l, "stop:") {
					gotStops = append(gotStops, l)
				}
			}
			if strings.Join(gotStops, ",") != strings.Join(wantStops, ",") {
				rep.Violate("group/modules-not-stopped", fmt.Sprintf("Stop calls were %v, every started module (and the one that failed to start) must be stopped once in reverse order: %v; %s", gotStops, wantStops, desc), desc)
			}
			if err == nil && stopOK != expectOK {
				rep.Violate("group/stop-result", fmt.Sprintf("Stop returned %v, expected %v: %s", stopOK, expectOK, desc), desc)
			}
			for i := 0; i <= upto; i++ {
				if !mods[i].m.IsDone() {
					rep.Violate("group/manager-not-cancelled", fmt.Sprintf("manager of M%d was not cancelled: %s", i, desc), desc)
				}
				if mods[i].started && beh[i] != 3 && !mods[i].m.WaitForWorkers(1) {
					rep.Violate("group/worker-left-running", fmt.Sprintf("a worker of the well-behaved module M%d is still running after the group stopped: %s", i, desc), desc)
				}
			}
			rep.Outcome(fmt.Sprintf("group/faults=%d", faults))
			close(release)
			synctest.Wait()
		})
	}
}
