package c05

import (
	"bytes"
	"fmt"
	"testing"
	"testing/synctest"

	"verif/kit"

	"github.com/mycoria/mycoria/frame"
	"github.com/mycoria/mycoria/m"
	"github.com/mycoria/mycoria/peering"
	"github.com/mycoria/mycoria/state"
)

// disturbedSetup: the end-to-end key state of the peer's router session is
// disturbed while the link handshake is in flight (the router resets it on a
// "no encryption keys" notice, a hello exchange replaces it, a finished key
// setup cleans its temporary keys). Whatever the handshake then does, a link
// that comes up must still protect its frames: no payload in clear on the wire
// and no plain (handshake-style) frame accepted from the wire.
func disturbedSetup(t *testing.T, rep *kit.Report, mine func() bool, evals, nontrivial, transitions *int64, states map[string]bool) {
	kinds := []string{"session-keys-reset", "session-keys-replaced", "temporary-keys-cleaned"}
	sides := []string{"acceptor", "dialler", "both"}
	for _, kind := range kinds {
		for _, side := range sides {
			for at := 0; at <= 7; at++ {
				for _, after := range []bool{false, true} {
					if !mine() {
						continue
					}
					desc := fmt.Sprintf("%s at=%s %s handshake message %d", kind, side, map[bool]string{false: "before delivery of", true: "after delivery of"}[after], at)
					var up [2]bool
					var clear, plainAccepted bool
					var hsMsgs int
					var panics []string
					synctest.Test(t, func(t *testing.T) {
						a, b := mkNode("A", 0), mkNode("B", 1)
						wa, wb := kit.WatchPanics(a), kit.WatchPanics(b)
						w := kit.NewWire(a, b)
						disturb := func() {
							do := func(n, peer *kit.Node) {
								ip := peer.Identity().IP
								switch kind {
								case "session-keys-reset":
									_ = n.State().SetEncryptionSession(ip, nil)
								case "session-keys-replaced":
									_ = n.State().SetEncryptionSession(ip, state.NewEncryptionSession())
								case "temporary-keys-cleaned":
									if s := n.State().GetSession(ip); s != nil {
										s.Encryption().InitCleanup()
									}
								}
							}
							if side != "dialler" {
								do(b, a)
							}
							if side != "acceptor" {
								do(a, b)
							}
						}
						var allWire [][]byte
						handshake := true
						w.OnMsg = func(idx int, fromA bool, msg []byte) (toB, toA [][]byte) {
							if !handshake {
								allWire = append(allWire, msg)
								return kit.Honest(fromA, msg)
							}
							hsMsgs++
							if idx == at && !after {
								disturb()
							}
							if idx == at && after {
								// deliver first, let the receiver act, then disturb.
								if fromA {
									w.EB.Feed(msg)
								} else {
									w.EA.Feed(msg)
								}
								synctest.Wait()
								disturb()
								return nil, nil
							}
							return kit.Honest(fromA, msg)
						}
						w.Start()
						w.Pump(12)
						handshake = false
						up[0], up[1] = w.LinkA != nil, w.LinkB != nil
						var payloads [][]byte
						send := func(n, peer *kit.Node, l peering.Link, i int) {
							pl := payloadFor(i, 120)
							f, err := n.FrameBuilder().NewFrameV1(n.Identity().IP, peer.Identity().IP, frame.SessionData, nil, pl, nil)
							if err != nil {
								panic(err)
							}
							payloads = append(payloads, pl)
							_ = l.Send(f)
						}
						for i := 0; i < 2; i++ {
							if w.LinkA != nil {
								send(a, b, w.LinkA, 700+i)
							}
							if w.LinkB != nil {
								send(b, a, w.LinkB, 800+i)
							}
							w.Pump(3)
						}
						for _, wmsg := range allWire {
							for _, pl := range payloads {
								for off := 0; off+8 <= len(pl); off += 4 {
									if bytes.Contains(wmsg, pl[off:off+8]) {
										clear = true
									}
								}
							}
						}
						// a plain frame in the handshake framing (2-byte length + frame) from the wire.
						plain := func(dst, src *kit.Node) []byte {
							f, err := src.FrameBuilder().NewFrameV1(src.Identity().IP, dst.Identity().IP, frame.SessionData, nil, []byte("INJECTED-PLAIN-FRAME-0123456789"), nil)
							if err != nil {
								panic(err)
							}
							d, _ := f.FrameDataWithMargins(2, 0)
							m.PutUint16(d[:2], uint16(len(d)))
							return append([]byte(nil), d...)
						}
						drain := func(n *kit.Node) {
							for {
								select {
								case f := <-n.SwitchIn:
									if bytes.Contains(f.MessageData(), []byte("INJECTED-PLAIN-FRAME")) {
										plainAccepted = true
									}
								default:
									return
								}
							}
						}
						drain(a)
						drain(b)
						if w.LinkB != nil {
							w.EB.Feed(plain(b, a))
						}
						if w.LinkA != nil {
							w.EA.Feed(plain(a, b))
						}
						synctest.Wait()
						drain(a)
						drain(b)
						panics = append(wa(), wb()...)
						w.Shutdown()
					})
					*evals++
					*transitions += int64(hsMsgs)
					if at < hsMsgs {
						*nontrivial++
					}
					states[fmt.Sprintf("setup/%v/%v", up[0], up[1])] = true
					cls := "disturbed-setup"
					if len(panics) > 0 {
						rep.Violate(cls+"/panic", fmt.Sprintf("link worker panicked: %s; %s", panics[0], desc), desc)
					}
					if clear {
						rep.Violate(cls+"/cleartext-on-wire", "a link came up and wrote frame payload in clear: "+desc, desc)
						rep.Outcome("disturbed-setup: cleartext!")
					}
					if plainAccepted {
						rep.Violate(cls+"/plain-frame-accepted", "a link came up and accepted an unencrypted, unauthenticated frame from the wire: "+desc, desc)
						rep.Outcome("disturbed-setup: plain-accepted!")
					}
					rep.Outcome(fmt.Sprintf("disturbed-setup: link-at-dialler=%v link-at-acceptor=%v", up[0], up[1]))
				}
			}
		}
	}
}
