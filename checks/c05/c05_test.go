// C05: link layer — post-handshake frames are encrypted, authenticated, once-only.
//
// One real link pair is established by the real handshake over an
// adversary-owned connection (synctest bubble). The sender hands frames to the
// link; the adversary holds the resulting link frames and feeds the receiver a
// manipulated byte stream: every bit flip, every truncation, duplicate / swap /
// drop words, injected bytes and well-framed garbage of every short length,
// spliced frames of the reverse direction. What reaches the remote frame
// handler is compared with the list of frames handed to the link.
package c05

import (
	"bytes"
	"fmt"
	"strings"
	"testing"
	"testing/synctest"

	"verif/kit"

	"github.com/mycoria/mycoria/config"
	"github.com/mycoria/mycoria/frame"
	"github.com/mycoria/mycoria/peering"
	"github.com/mycoria/mycoria/state"
)

var pool = kit.RoutablePool("c05", 2)

type fspec struct {
	mt   frame.MessageType
	size int
}

type streamOp struct {
	kind string // "frame" (index), "raw"
	idx  int
	raw  []byte
}

type scenario struct {
	name    string
	frames  []fspec
	reverse bool // B sends to A
	seg     int  // > 0: the transport hands at most seg bytes to one read
	// wrapIn > 0: the link has carried almost 2^32 frames in both directions: the
	// sender's regular sequence wraps with its wrapIn-th next frame (the reverse
	// direction 200 frames later).
	wrapIn int
	// early (with wrapIn): at the start of the sender's current key epoch five frames
	// with sequence numbers 0xFD..0x101 crossed the link and were delivered; their
	// link frames are recorded in *old for the adversary to replay near the wrap.
	early bool
	old   *[][]byte
	// build produces the byte strings fed to the receiver from the held link frames
	// (and the held frames of the reverse direction, if any).
	build func(held [][]byte, rev [][]byte) [][]byte
	// pre > 0: before the link comes up, that many connections of a stranger to the
	// RECEIVING router are aborted during link setup by one cut-short message each
	// (whatever such an aborted setup leaves behind must not touch the frames of
	// the healthy link that follows).
	pre int
	// closeWindow: after the fault window the sending router closes the link; while
	// its Close is still under way (the connection's own close takes its time) two
	// more frames are handed to the link. Whatever still reaches the wire then is
	// subject to the same oracles (no clear text, nothing altered delivered).
	closeWindow bool
	desync      bool // framing is lost: only the safety oracle applies
	// expectDelivered, if >= 0, is the exact number of handed frames that must arrive.
	expect int
}

type result struct {
	delivered    [][]byte
	post         int
	closing      bool
	panics       []string
	cleartext    bool
	handed       [][]byte
	established  bool
	wireBytes    int
	readerPanics []string
}

func mkNode(name string, id int) *kit.Node {
	n, err := kit.NewNode(kit.NodeOpts{Name: name, ID: pool[id], Store: config.Store{}})
	if err != nil {
		panic(err)
	}
	return n
}

func payloadFor(i, size int) []byte {
	b := make([]byte, size)
	for j := range b {
		b[j] = byte(0x41 + (i*31+j*7)%57)
	}
	copy(b, fmt.Sprintf("PAYLOAD-%d-", i))
	return b
}

// stallWatch is the real-time stall oracle (kit.Watchdog): a case takes milliseconds; one
// that has not ended after 300 s of real time has a link worker that spins or is blocked
// for ever - the link neither delivers later frames nor closes.
var stallWatch *kit.Watchdog

func stallClass(name string) string {
	if i := strings.IndexAny(name, "@ ("); i > 0 {
		return name[:i]
	}
	return name
}

func run(t *testing.T, sc scenario) (res result) {
	if stallWatch != nil {
		stallWatch.Case("link-worker-never-returns/"+stallClass(sc.name), "a link worker did not get past this fault (spinning or blocked for ever: later frames neither arrive nor is the link closed): "+sc.name)
		defer stallWatch.Case("", "")
	}
	synctest.Test(t, func(t *testing.T) {
		a, b := mkNode("A", 0), mkNode("B", 1)
		wa, wb := kit.WatchPanics(a), kit.WatchPanics(b)
		for i := 0; i < sc.pre; i++ {
			victim := b
			if sc.reverse {
				victim = a
			}
			// well-framed first messages that fail the frame parser's inner length checks.
			msg := make([]byte, 70)
			msg[0] = 1
			switch i % 3 {
			case 0:
				msg[48] = 0xFF // switch block longer than the frame
			case 1:
				msg[49], msg[50] = 0xFF, 0xFF // message longer than the frame
			default:
				msg[4] = byte(frame.RouterPing)
				msg[49], msg[50] = 0, 19 // signature does not fit
			}
			ep := kit.NewEndpoint(fmt.Sprintf("stranger-%d", i))
			ep.Feed(append([]byte{0, byte(len(msg))}, msg...))
			_, _ = kit.Accept(victim, ep)
			synctest.Wait()
			ep.FeedEOF()
			synctest.Wait()
			_ = ep.Close()
		}
		w := kit.NewWire(a, b)
		w.EA.MaxRead, w.EB.MaxRead = sc.seg, sc.seg
		w.Start()
		w.Pump(10)
		if w.LinkA == nil || w.LinkB == nil {
			w.Shutdown()
			return
		}
		res.established = true
		src, dst, link, rlink := a, b, w.LinkA, w.LinkB
		fromSrcIsA := true
		if sc.reverse {
			src, dst, link, rlink = b, a, w.LinkB, w.LinkA
			fromSrcIsA = false
		}
		var earlyWire [][]byte
		if sc.wrapIn > 0 && sc.early {
			ss, ds := peering.VerifLinkEncSession(link), peering.VerifLinkEncSession(rlink)
			hs := &state.EncryptionSessionTestHelper{EncryptionSession: ss}
			hd := &state.EncryptionSessionTestHelper{EncryptionSession: ds}
			hs.ReglSetOut(0xFC)
			_ = hd.ReglSeq().Check(0xFC)
			var rec [][]byte
			w.OnMsg = func(idx int, fromA bool, msg []byte) (toB, toA [][]byte) {
				if fromA != sc.reverse {
					rec = append(rec, msg)
				}
				return kit.Honest(fromA, msg)
			}
			for i := 0; i < 5; i++ {
				pl := payloadFor(800+i, 40)
				f, err := src.FrameBuilder().NewFrameV1(src.Identity().IP, dst.Identity().IP, frame.SessionData, nil, pl, nil)
				if err != nil {
					panic(err)
				}
				d, _ := f.FrameDataWithMargins(0, 0)
				earlyWire = append(earlyWire, append([]byte(nil), d...))
				_ = link.Send(f)
				w.Pump(3)
			}
			for {
				select {
				case <-dst.SwitchIn:
					continue
				default:
				}
				break
			}
			*sc.old = rec
		}
		if sc.wrapIn > 0 {
			// a long-lived link: counters of both directions just below the 32-bit wrap
			// (set through the session's own test helper on the real link sessions).
			ss, ds := peering.VerifLinkEncSession(link), peering.VerifLinkEncSession(rlink)
			if ss == nil || ds == nil {
				panic("harness: link session not accessible")
			}
			hs := &state.EncryptionSessionTestHelper{EncryptionSession: ss}
			hd := &state.EncryptionSessionTestHelper{EncryptionSession: ds}
			fwd := uint32(0xFFFFFFFF) - uint32(sc.wrapIn) + 1
			bwd := uint32(0xFFFFFFFF) - 200
			hs.ReglSetOut(fwd)
			_ = hd.ReglSeq().Check(fwd)
			hd.ReglSetOut(bwd)
			_ = hs.ReglSeq().Check(bwd)
		}
		var held, rev [][]byte
		var allWire [][]byte
		holding := true
		w.OnMsg = func(idx int, fromA bool, msg []byte) (toB, toA [][]byte) {
			allWire = append(allWire, msg)
			if holding {
				if fromA == fromSrcIsA {
					held = append(held, msg)
				} else {
					rev = append(rev, msg)
				}
				return nil, nil
			}
			return kit.Honest(fromA, msg)
		}
		var payloads [][]byte
		send := func(n *kit.Node, peer *kit.Node, l interface {
			Send(frame.Frame) error
			SendPriority(frame.Frame) error
		}, i int, fs fspec) []byte {
			pl := payloadFor(i, fs.size)
			f, err := n.FrameBuilder().NewFrameV1(n.Identity().IP, peer.Identity().IP, fs.mt, nil, pl, nil)
			if err != nil {
				panic(err)
			}
			d, _ := f.FrameDataWithMargins(0, 0)
			wire := append([]byte(nil), d...)
			if fs.mt.IsPriority() {
				_ = l.SendPriority(f)
			} else {
				_ = l.Send(f)
			}
			payloads = append(payloads, pl)
			return wire
		}
		for i, fs := range sc.frames {
			res.handed = append(res.handed, send(src, dst, link, i, fs))
			w.Pump(3) // one frame per round keeps the hand-over order = wire order
		}
		// frames of the reverse direction for splicing / reflection (several, so that the
		// last one carries a sequence number the receiver has not seen from its peer).
		nrev := len(sc.frames) + 3
		for i := 0; i < nrev; i++ {
			send(dst, src, rlink, 900+i, fspec{frame.SessionData, 40})
			w.Pump(3)
		}
		payloads = payloads[:len(payloads)-nrev]
		if len(held) != len(sc.frames) {
			panic(fmt.Sprintf("harness: expected %d held link frames, got %d", len(sc.frames), len(held)))
		}
		// adversary feeds the manipulated stream.
		feed := dst
		_ = feed
		ep := w.EB
		if sc.reverse {
			ep = w.EA
		}
		for _, chunk := range sc.build(held, rev) {
			ep.Feed(chunk)
		}
		synctest.Wait()
		drain := func() (out [][]byte) {
			for {
				select {
				case f := <-dst.SwitchIn:
					d, _ := f.FrameDataWithMargins(0, 0)
					out = append(out, append([]byte(nil), d...))
				default:
					return
				}
			}
		}
		res.delivered = drain()
		// after the fault window: two more intact frames, relayed honestly.
		holding = false
		var postWire [][]byte
		for i := 0; i < 2; i++ {
			postWire = append(postWire, send(src, dst, link, 500+i, fspec{frame.SessionData, 60}))
			w.Pump(3)
		}
		for _, d := range drain() {
			for _, pw := range postWire {
				if bytes.Equal(d, pw) {
					res.post++
				}
			}
			// frames of the fault window arriving late still count as delivered.
			res.delivered = append(res.delivered, d)
		}
		if sc.closeWindow {
			epSrc := w.EA
			if sc.reverse {
				epSrc = w.EB
			}
			epSrc.HoldClose(true)
			go link.Close(nil)
			synctest.Wait()
			for i, mt := range []frame.MessageType{frame.SessionData, frame.RouterCtrl, frame.NetworkTraffic} {
				send(src, dst, link, 700+i, fspec{mt, 90})
				synctest.Wait()
				w.Pump(3)
			}
			epSrc.HoldClose(false)
			synctest.Wait()
			w.Pump(3)
			for _, d := range drain() {
				res.delivered = append(res.delivered, d)
			}
		}
		res.closing = rlink.IsClosing()
		res.readerPanics = append(wa(), wb()...)
		// clear text scan over everything that crossed the wire after the handshake.
		for _, wmsg := range allWire {
			res.wireBytes += len(wmsg)
			for _, pl := range payloads {
				for off := 0; off+8 <= len(pl); off += 4 {
					if bytes.Contains(wmsg, pl[off:off+8]) {
						res.cleartext = true
					}
				}
			}
		}
		w.Shutdown()
	})
	return res
}

func cat(chunks ...[]byte) [][]byte { return chunks }

func TestC05(t *testing.T) {
	env := kit.GetEnv()
	rep := kit.NewReport("C05", env)
	stallWatch = rep.StartWatchdog(env, 0)
	defer stallWatch.Stop()
	rep.Rule = "one real established link per execution (real handshake, adversary-owned stream); frames handed to the link: message types {signed priority, regular encrypted, session data} x sizes {1,45,560,1500,9000,10000}; faults on the held link frames: every bit of every byte of a link frame (length prefix, header, ciphertext, MAC; large frames: all header/MAC bits + one bit per ciphertext byte), truncation at every offset (quick: every offset of a small frame), all words of length <= 2 (thorough 3) over {dup i, swap i/i+1, drop i}, injection of 1..64 arbitrary bytes at a frame boundary, well-framed garbage with every length prefix 0..40 and 100, splice / reflection of frames of the reverse direction (with sequence numbers the receiver has and has not seen), loss bursts of g-1 frames followed by a replay of the frame before the burst (g around the 64-frame window edge; thorough 1..70), the same frame delivered 3 times; the same kinds of faults (reflection, swaps, duplicates, loss, replay, forged frames with sequence numbers {0,1,2,255,256,2^32-1} at three positions) on a link whose counters stand 1,2,3,5 or 100 frames before the 32-bit wrap; both directions; afterwards two intact frames; non-trivial = any fault; distinct = distinct (frames, fault); states = distinct (delivered multiset, post-frames-arrived, closing) outcomes"
	rep.Assumptions = []string{
		"faults that destroy the stream framing (truncation, length-prefix flips, partial injections) are judged by the safety oracle only: resynchronisation of a byte stream is not something the statement promises",
		"a reader panic is observed through the module manager's worker-panic alert",
	}
	var evals, nontrivial, transitions int64
	states := map[string]bool{}
	caseNo := 0
	mine := func() bool { caseNo++; return env.Mine(caseNo) }

	judge := func(sc scenario, r result) {
		evals++
		transitions += int64(len(r.delivered) + r.post)
		states[fmt.Sprintf("%d/%d/%v", len(r.delivered), r.post, r.closing)] = true
		desc := sc.name
		cls := sc.name
		if i := bytes.IndexByte([]byte(cls), '@'); i > 0 {
			cls = cls[:i]
		}
		if !r.established {
			rep.Violate("handshake-failed", "honest handshake did not establish the link", desc)
			return
		}
		if sc.name != "honest" {
			nontrivial++
		}
		if len(r.readerPanics) > 0 {
			rep.Violate(cls+"/reader-panic", fmt.Sprintf("link worker panicked: %s; scenario %s", r.readerPanics[0], desc), desc)
			rep.Outcome("reader-panic!")
		}
		if r.cleartext {
			rep.Violate(cls+"/cleartext-on-wire", "an 8-byte window of a frame payload appeared on the wire after the handshake: "+desc, desc)
		}
		// every delivered frame must be byte-identical to a handed one, at most once each.
		seen := map[int]int{}
		for _, d := range r.delivered {
			idx := -1
			for i, h := range r.handed {
				if bytes.Equal(d, h) {
					idx = i
				}
			}
			isPost := bytes.Contains(d, []byte("PAYLOAD-50")) || bytes.Contains(d, []byte("PAYLOAD-70"))
			if bytes.Contains(d, []byte("PAYLOAD-80")) {
				// a frame of the start of the key epoch, delivered once long ago: a second delivery is a replay.
				rep.Violate(cls+"/duplicate-delivered", fmt.Sprintf("a frame delivered at the start of the key epoch was delivered again when it was replayed near the end of the epoch: %s", desc), desc)
				rep.Outcome("duplicate-delivered!")
				continue
			}
			if idx < 0 && !isPost {
				rep.Violate(cls+"/altered-frame-delivered", fmt.Sprintf("a frame that was never handed to the link reached the remote frame handler (%d bytes): %s", len(d), desc), desc)
				rep.Outcome("altered-delivered!")
				continue
			}
			if idx >= 0 {
				seen[idx]++
				if seen[idx] == 2 {
					rep.Violate(cls+"/duplicate-delivered", fmt.Sprintf("frame %d was delivered twice: %s", idx, desc), desc)
					rep.Outcome("duplicate-delivered!")
				}
			}
		}
		if sc.expect >= 0 && len(seen) != sc.expect {
			rep.Violate(cls+"/intact-frame-lost", fmt.Sprintf("%d of the handed frames arrived, expected %d: %s", len(seen), sc.expect, desc), desc)
		}
		if !sc.desync && r.post < 2 && !r.closing {
			rep.Violate(cls+"/link-stuck", fmt.Sprintf("after the fault neither do intact frames arrive (%d/2) nor is the link closed: %s", r.post, desc), desc)
			rep.Outcome("stuck!")
		}
		rep.Outcome(fmt.Sprintf("%s: delivered=%d post=%d closing=%v", cls, len(seen), r.post, r.closing))
		if evals%3000 == 1 {
			rep.Sample(map[string]any{"scenario": desc, "delivered": len(r.delivered), "post_frames": r.post, "closing": r.closing})
		}
	}

	twoSmall := []fspec{{frame.NetworkTraffic, 45}, {frame.SessionData, 100}}
	// ---- honest, all types and sizes, both directions.
	types := []frame.MessageType{frame.RouterPing, frame.NetworkTraffic, frame.SessionData, frame.RouterCtrl}
	sizes := []int{1, 45, 560, 1500, 9000, 10000}
	for _, rv := range []bool{false, true} {
		for _, mt := range types {
			for _, sz := range sizes {
				for _, seg := range []int{0, 1, 7, 1500} {
					if !mine() {
						continue
					}
					fs := []fspec{{mt, sz}, {frame.SessionData, 33}}
					sc := scenario{name: fmt.Sprintf("honest@type%d-size%d-rev%v", mt, sz, rv), frames: fs, reverse: rv, expect: 2, seg: seg,
						build: func(h, r [][]byte) [][]byte { return h }}
					sc.name = "honest"
					if seg > 0 {
						sc.name = fmt.Sprintf("honest-segmented-transport@%d-byte-reads-type%d-size%d-rev%v", seg, mt, sz, rv)
					}
					judge(sc, run(t, sc))
				}
			}
		}
	}
	// ---- the sender closes the link while frames are still handed to it.
	for _, rv := range []bool{false, true} {
		if !mine() {
			continue
		}
		sc := scenario{name: fmt.Sprintf("close-window@rev%v", rv), frames: twoSmall, reverse: rv, expect: 2, closeWindow: true, desync: true,
			build: func(h, r [][]byte) [][]byte { return h }}
		judge(sc, run(t, sc))
	}
	// ---- honest links that come up after aborted setups of a stranger; several frames read back to back.
	for _, rv := range []bool{false, true} {
		for _, pre := range []int{1, 2, 3, 6} {
			for _, fs := range [][]fspec{
				{{frame.SessionData, 40}, {frame.SessionData, 41}, {frame.NetworkTraffic, 45}, {frame.SessionData, 100}},
				{{frame.RouterCtrl, 300}, {frame.SessionData, 420}, {frame.NetworkTraffic, 45}},
				{{frame.SessionData, 1200}, {frame.NetworkTraffic, 1300}, {frame.SessionData, 900}},
			} {
				if !mine() {
					continue
				}
				sc := scenario{name: fmt.Sprintf("after-aborted-setups@pre%d-frames%d-first%d-rev%v", pre, len(fs), fs[0].size, rv), frames: fs, reverse: rv, pre: pre, expect: len(fs),
					build: func(h, r [][]byte) [][]byte { return [][]byte{bytes.Join(h, nil)} }}
				judge(sc, run(t, sc))
			}
		}
	}
	// ---- bit flips on each of two small frames (all bits), and on a 1500-byte frame (sparse).
	probe := run(t, scenario{name: "honest", frames: twoSmall, expect: 2, build: func(h, r [][]byte) [][]byte { return h }})
	_ = probe
	frameLens := []int{12 + 51 + 45 + 16 + 16 + 0, 12 + 51 + 100 + 16 + 16}
	for _, rv := range []bool{false, true} {
		for fi := 0; fi < 2; fi++ {
			L := frameLens[fi]
			for p := 0; p < L+8; p++ {
				for bit := 0; bit < 8; bit++ {
					if !env.Thorough() && rv && bit != p%8 {
						continue
					}
					if !mine() {
						continue
					}
					fi, p, bit := fi, p, bit
					flipped := false
					sc := scenario{name: fmt.Sprintf("bitflip@frame%d-byte%d-bit%d-rev%v", fi, p, bit, rv), frames: twoSmall, reverse: rv, expect: -1, desync: p < 2,
						build: func(h, r [][]byte) [][]byte {
							out := [][]byte{append([]byte(nil), h[0]...), append([]byte(nil), h[1]...)}
							if p < len(out[fi]) {
								out[fi][p] ^= 1 << bit
								flipped = true
							}
							return out
						}}
					r := run(t, sc)
					// the untouched frame must still arrive when framing is intact;
					// positions beyond the frame's end are not a mutation at all.
					switch {
					case !flipped:
						sc.expect = 2
					case p >= 2:
						sc.expect = 1
					}
					judge(sc, r)
				}
			}
		}
	}
	big := []fspec{{frame.NetworkTraffic, 1500}, {frame.SessionData, 40}}
	for p := 0; p < 12+51+1500+32; p++ {
		if !mine() {
			continue
		}
		p := p
		sc := scenario{name: fmt.Sprintf("bitflip-large@byte%d", p), frames: big, expect: -1, desync: p < 2,
			build: func(h, r [][]byte) [][]byte {
				out := [][]byte{append([]byte(nil), h[0]...), h[1]}
				if p < len(out[0]) {
					out[0][p] ^= 1 << (p % 8)
				}
				return out
			}}
		if p >= 2 {
			sc.expect = 1
		}
		judge(sc, run(t, sc))
	}
	// ---- truncation at every offset of the first frame (stream continues with the second).
	for off := 0; off < frameLens[0]; off++ {
		if !mine() {
			continue
		}
		off := off
		sc := scenario{name: fmt.Sprintf("truncate@offset%d", off), frames: twoSmall, expect: -1, desync: true,
			build: func(h, r [][]byte) [][]byte { return cat(h[0][:off], h[1]) }}
		judge(sc, run(t, sc))
	}
	// ---- words over dup / swap / drop on three frames.
	three := []fspec{{frame.NetworkTraffic, 45}, {frame.RouterPing, 60}, {frame.SessionData, 100}}
	type wop struct {
		name string
		f    func(seq []int) []int
	}
	var wops []wop
	for i := 0; i < 3; i++ {
		i := i
		wops = append(wops, wop{fmt.Sprintf("dup%d", i), func(s []int) []int {
			var o []int
			for _, x := range s {
				o = append(o, x)
				if x == i {
					o = append(o, x)
				}
			}
			return o
		}})
		wops = append(wops, wop{fmt.Sprintf("drop%d", i), func(s []int) []int {
			var o []int
			for _, x := range s {
				if x != i {
					o = append(o, x)
				}
			}
			return o
		}})
		if i < 2 {
			wops = append(wops, wop{fmt.Sprintf("swap%d", i), func(s []int) []int {
				o := append([]int(nil), s...)
				for k := 0; k+1 < len(o); k++ {
					if o[k] == i && o[k+1] == i+1 {
						o[k], o[k+1] = o[k+1], o[k]
						break
					}
				}
				return o
			}})
		}
	}
	maxWord := 2
	if env.Thorough() {
		maxWord = 3
	}
	var words [][]int
	var gen func(prefix []int)
	gen = func(prefix []int) {
		if len(prefix) > 0 {
			words = append(words, append([]int(nil), prefix...))
		}
		if len(prefix) == maxWord {
			return
		}
		for i := range wops {
			gen(append(prefix, i))
		}
	}
	gen(nil)
	for _, rv := range []bool{false, true} {
		for _, word := range words {
			if !mine() {
				continue
			}
			seq := []int{0, 1, 2}
			name := ""
			for _, wi := range word {
				seq = wops[wi].f(seq)
				name += wops[wi].name + ","
			}
			distinct := map[int]bool{}
			for _, x := range seq {
				distinct[x] = true
			}
			seqc := append([]int(nil), seq...)
			sc := scenario{name: fmt.Sprintf("word@%s-rev%v", name, rv), frames: three, reverse: rv, expect: len(distinct),
				build: func(h, r [][]byte) [][]byte {
					var out [][]byte
					for _, x := range seqc {
						out = append(out, h[x])
					}
					return out
				}}
			judge(sc, run(t, sc))
		}
	}
	// ---- the same frame three times, and a replay after the later frames.
	for _, pat := range [][]int{{0, 0, 0, 1}, {0, 1, 0}, {1, 0, 1, 0}} {
		if !mine() {
			continue
		}
		pat := pat
		sc := scenario{name: fmt.Sprintf("replay@%v", pat), frames: twoSmall, expect: 2,
			build: func(h, r [][]byte) [][]byte {
				var out [][]byte
				for _, x := range pat {
					out = append(out, h[x])
				}
				return out
			}}
		judge(sc, run(t, sc))
	}
	// ---- loss bursts: frame 0 arrives, g-1 frames are lost, frame g arrives, frame 0 is replayed.
	gaps := []int{1, 2, 3, 62, 63, 64, 65, 66}
	if env.Thorough() {
		gaps = nil
		for g := 1; g <= 70; g++ {
			gaps = append(gaps, g)
		}
	}
	for _, rv := range []bool{false, true} {
		for _, g := range gaps {
			if !mine() {
				continue
			}
			g := g
			var many []fspec
			for i := 0; i <= g; i++ {
				many = append(many, fspec{frame.SessionData, 20})
			}
			sc := scenario{name: fmt.Sprintf("gap-then-replay@gap%d-rev%v", g, rv), frames: many, reverse: rv, expect: 2,
				build: func(h, r [][]byte) [][]byte { return cat(h[0], h[g], h[0], h[g]) }}
			judge(sc, run(t, sc))
		}
	}
	// ---- reflection: a frame the receiver itself sent is fed back to it, before
	// and after it has received anything from its peer.
	for _, rv := range []bool{false, true} {
		for _, pos := range []int{0, 1, 2} {
			if !mine() {
				continue
			}
			pos := pos
			sc := scenario{name: fmt.Sprintf("reflect-own-frame@pos%d-rev%v", pos, rv), frames: twoSmall, reverse: rv, expect: 2,
				build: func(h, r [][]byte) [][]byte {
					own := r[len(r)-1]
					switch pos {
					case 0:
						return cat(own, h[0], h[1])
					case 1:
						return cat(h[0], own, h[1])
					}
					return cat(h[0], h[1], own)
				}}
			judge(sc, run(t, sc))
		}
	}
	// ---- the same kinds of faults on a link whose sequence numbers are about to wrap
	// (it has carried almost 2^32 frames): the key rollover must not be triggered,
	// lost or doubled by anything but the sender's own wrap.
	garbageSeq := func(seq uint32, fill byte) []byte {
		g := make([]byte, 60)
		for i := range g {
			g[i] = fill
		}
		g[0], g[1], g[2], g[3] = 0, 60, 1, 100
		g[4], g[5], g[6], g[7] = byte(seq>>24), byte(seq>>16), byte(seq>>8), byte(seq)
		return g
	}
	four := []fspec{{frame.NetworkTraffic, 45}, {frame.SessionData, 100}, {frame.SessionData, 30}, {frame.RouterPing, 50}}
	for _, rv := range []bool{false, true} {
		for _, wrapIn := range []int{1, 2, 3, 5, 100} {
			type nw struct {
				name   string
				expect int
				build  func(h, r [][]byte) [][]byte
			}
			cases := []nw{
				{"honest", 4, func(h, r [][]byte) [][]byte { return h }},
				{"reflect-own-frame-first", 4, func(h, r [][]byte) [][]byte { return cat(r[len(r)-1], h[0], h[1], h[2], h[3]) }},
				{"reflect-own-frame-between", 4, func(h, r [][]byte) [][]byte { return cat(h[0], r[len(r)-1], h[1], r[0], h[2], h[3]) }},
				// (a frame of the old key that arrives after one of the new key is lost by
				// design, so swaps are judged by the safety oracles only)
				{"swap-1-2", -1, func(h, r [][]byte) [][]byte { return cat(h[0], h[2], h[1], h[3]) }},
				{"swap-0-1", -1, func(h, r [][]byte) [][]byte { return cat(h[1], h[0], h[2], h[3]) }},
				{"dup-each", 4, func(h, r [][]byte) [][]byte { return cat(h[0], h[0], h[1], h[1], h[2], h[2], h[3], h[3]) }},
				{"drop-1", 3, func(h, r [][]byte) [][]byte { return cat(h[0], h[2], h[3]) }},
				{"replay-first-at-end", 4, func(h, r [][]byte) [][]byte { return cat(h[0], h[1], h[2], h[3], h[0]) }},
			}
			for _, gs := range []uint32{0, 1, 2, 255, 256, 0xFFFFFFFF} {
				gs := gs
				for pos := 0; pos <= 2; pos++ {
					pos := pos
					cases = append(cases, nw{fmt.Sprintf("forged-frame-seq%d-at%d", gs, pos), 4, func(h, r [][]byte) [][]byte {
						g := garbageSeq(gs, 0x5a)
						out := [][]byte{}
						for i, x := range h {
							if i == pos {
								out = append(out, g)
							}
							out = append(out, x)
						}
						return out
					}})
				}
			}
			for _, c := range cases {
				if !mine() {
					continue
				}
				sc := scenario{name: fmt.Sprintf("near-wrap/%s@wrap-in-%d-rev%v", c.name, wrapIn, rv), frames: four, reverse: rv, expect: c.expect, wrapIn: wrapIn, build: c.build}
				judge(sc, run(t, sc))
			}
			// frames of the START of the key epoch (sequence numbers 0xFD..0x101) replayed near its end.
			for oi := 0; oi < 5; oi++ {
				for pos := 0; pos <= 1; pos++ {
					if !mine() {
						continue
					}
					oi, pos := oi, pos
					var old [][]byte
					sc := scenario{name: fmt.Sprintf("near-wrap/replay-of-epoch-start-frame-seq%#x-at%d@wrap-in-%d-rev%v", 0xFD+oi, pos, wrapIn, rv), frames: four, reverse: rv, expect: 4, wrapIn: wrapIn, early: true, old: &old,
						build: func(h, r [][]byte) [][]byte {
							out := [][]byte{}
							for i, x := range h {
								if i == pos {
									out = append(out, old[oi])
								}
								out = append(out, x)
							}
							return out
						}}
					judge(sc, run(t, sc))
				}
			}
		}
	}
	// ---- splice of a reverse-direction frame between the two frames.
	if mine() {
		sc := scenario{name: "splice-reverse-direction-frame", frames: twoSmall, expect: 2,
			build: func(h, r [][]byte) [][]byte { return cat(h[0], r[len(r)-1], h[1]) }}
		judge(sc, run(t, sc))
	}
	// ---- well-framed garbage of every short length at the frame boundary.
	for l := 0; l <= 40; l++ {
		for _, fill := range []byte{0x00, 0xFF, 0x5A} {
			if !mine() {
				continue
			}
			l, fill := l, fill
			glen := l
			if l <= 3 {
				glen = 2 // the reader rejects such a prefix after consuming just the prefix
			}
			g := make([]byte, glen)
			for i := range g {
				g[i] = fill
			}
			g[0], g[1] = byte(l>>8), byte(l)
			sc := scenario{name: fmt.Sprintf("framed-garbage@len%d-fill%#x", l, fill), frames: twoSmall, expect: -1, desync: l < 2,
				build: func(h, r [][]byte) [][]byte { return cat(h[0], g, h[1]) }}
			sc.desync = false
			sc.expect = 2
			judge(sc, run(t, sc))
		}
	}
	// ---- raw injected bytes (not framed) at the boundary.
	for _, n := range []int{1, 2, 3, 4, 11, 12, 13, 28, 64} {
		if !mine() {
			continue
		}
		n := n
		junk := bytes.Repeat([]byte{0x00, 0x07, 0xEE}, 30)[:n]
		sc := scenario{name: fmt.Sprintf("inject-raw@%dbytes", n), frames: twoSmall, expect: -1, desync: true,
			build: func(h, r [][]byte) [][]byte { return cat(h[0], junk, h[1]) }}
		judge(sc, run(t, sc))
	}
	// ---- key state of the peer's session disturbed during the handshake.
	disturbedSetup(t, rep, mine, &evals, &nontrivial, &transitions, states)
	rep.Add(evals, nontrivial, int64(len(states)), transitions)
	if err := rep.Finish(env); err != nil {
		t.Fatal(err)
	}
}
