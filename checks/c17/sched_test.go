// C17, interleaving tier: frames live on one goroutine each, but the builder's
// buffer and object pools are shared by every handler, reader and writer of a
// router. The frame package is compiled with its sync / sync/atomic imports
// rewritten to the controlled-scheduler shims (its pools become deterministic
// LIFO free lists whose Get and Put are scheduling points, with a further point
// right after an object has been handed to the pool); one harness thread
// releases frames while others build, parse, clone and grow frames on the same
// builder; ALL schedules up to a preemption bound are explored. Oracle: the
// content of a frame never changes because another frame was released, and a
// frame built on a recycled buffer is exactly the frame that was asked for.
package c17

import (
	"bytes"
	"fmt"
	"sync"
	"testing"

	"verif/kit"
	"verif/schedx"

	"github.com/mycoria/mycoria/frame"
)

func poolConc(name string, size int, threads [][]string) schedx.Conc {
	build := func() *schedx.Instance {
		b := frame.NewFrameBuilder()
		b.SetFrameMargins(off, ovh)
		mk := func(tag byte) frame.Frame {
			f, err := b.NewFrameV1(ipA, ipB, frame.SessionData, nil, pattern(size, tag), nil)
			if err != nil {
				panic(err)
			}
			return f
		}
		// frames that are alive before the threads start: some are released by one
		// thread, one stays alive and is watched.
		olds := []frame.Frame{mk(0x10), mk(0x20), mk(0x30)}
		watched := mk(0x40)
		watchedWant := append([]byte(nil), wireOf(watched)...)
		in := &schedx.Instance{}
		var results []string
		var mu sync.Mutex
		note := func(s string) {
			mu.Lock()
			results = append(results, s)
			mu.Unlock()
		}
		for ti, th := range threads {
			ti := ti
			var ops []schedx.Op
			for oi, o := range th {
				oi, o := oi, o
				tag := byte(0x50 + 0x10*ti + oi)
				switch o {
				case "release0", "release1", "release2":
					f := olds[int(o[7]-'0')]
					ops = append(ops, schedx.Op{Name: o, Do: func() { f.ReturnToPool() }})
				case "new":
					ops = append(ops, schedx.Op{Name: o, Do: func() {
						g := mk(tag)
						want := expectedWire(frame.SessionData, ipA, ipB, nil, pattern(size, tag), nil)
						// use the frame for a while (other threads run in between).
						_ = b.GetPooledSlice(10)
						got := append([]byte(nil), wireOf(g)...)
						if len(got) > 8 {
							copy(got[5:8], want[5:8]) // the fresh random part of the nonce
						}
						if !bytes.Equal(got, want) {
							note(fmt.Sprintf("t%d: a frame built while another frame was released differs from what was asked for at byte %d", ti, firstDiff(got, want)))
						}
						if g.RecvLink() != nil {
							note(fmt.Sprintf("t%d: new frame exposes a receive link", ti))
						}
					}})
				case "parse":
					ops = append(ops, schedx.Op{Name: o, Do: func() {
						want := expectedWire(frame.SessionData, ipA, ipB, nil, pattern(size, tag), nil)
						ps := b.GetPooledSlice(len(want) + off + ovh)
						n := copy(ps[off:], want)
						g, err := b.ParseFrame(ps[off:off+n], ps[:cap(ps)], off)
						if err != nil {
							note(fmt.Sprintf("t%d: parse failed: %v", ti, err))
							return
						}
						_ = b.GetPooledSlice(10)
						if got := wireOf(g); !bytes.Equal(got, want) || !bytes.Equal(g.MessageData(), pattern(size, tag)) {
							note(fmt.Sprintf("t%d: a frame parsed while another frame was released changed afterwards (byte %d)", ti, firstDiff(got, want)))
						}
					}})
				case "clone+grow":
					ops = append(ops, schedx.Op{Name: o, Do: func() {
						c := watched.Clone()
						if err := c.SetAppendixData(pattern(700, tag)); err != nil {
							note(fmt.Sprintf("t%d: growing the clone's appendix failed: %v", ti, err))
							return
						}
						want := append(append([]byte(nil), watchedWant...), pattern(700, tag)...)
						if got := wireOf(c); !bytes.Equal(got, want) {
							note(fmt.Sprintf("t%d: clone with a grown appendix differs at byte %d", ti, firstDiff(got, want)))
						}
					}})
				}
			}
			in.Threads = append(in.Threads, ops)
		}
		in.Observe = func() string { return fmt.Sprint(results) }
		in.Check = func(ex *schedx.Exec) {
			for _, r := range results {
				ex.Bad("frame-content", "%s", r)
			}
			if got := wireOf(watched); !bytes.Equal(got, watchedWant) {
				ex.Bad("live-frame-changed", "the content of a live frame changed (byte %d) while other frames were released and built on the same builder", firstDiff(got, watchedWant))
			}
		}
		return in
	}
	return schedx.Conc{Name: "shared-pools/" + name, Build: build, InvariantOnly: true}
}

func poolConcs(deep bool) []schedx.Conc {
	var out []schedx.Conc
	sizes := []int{100, 1200}
	if deep {
		sizes = []int{100, 1200, 4000, 9000}
	}
	for _, size := range sizes {
		tag := fmt.Sprintf("size%d/", size)
		out = append(out,
			poolConc(tag+"release | new", size, [][]string{{"release0"}, {"new"}}),
			poolConc(tag+"release,release | new,new", size, [][]string{{"release0", "release1"}, {"new", "new"}}),
			poolConc(tag+"release | parse", size, [][]string{{"release0"}, {"parse"}}),
			poolConc(tag+"release | clone+grow", size, [][]string{{"release0"}, {"clone+grow"}}),
			poolConc(tag+"release | new | parse", size, [][]string{{"release0", "release1"}, {"new"}, {"parse"}}),
			poolConc(tag+"new | new", size, [][]string{{"release0", "new"}, {"release1", "new"}}),
		)
	}
	return out
}

func runPoolSched(t *testing.T, rep *kit.Report, env kit.Env) {
	bound := 2
	if env.Deep() {
		bound = 3
	}
	rep.Bounds["sched_preemption_bound"] = bound
	top := 0
	for _, c := range poolConcs(env.Deep()) {
		schedx.ExploreConc(rep, env, c, bound, &top)
	}
}

// TestC17Race: the same operations on free-running goroutines under the race
// detector (supporting evidence next to the exhaustive pass; see schedx.FreeRun).
func TestC17Race(t *testing.T) {
	env := kit.GetEnv()
	rep := kit.NewReport("C17", env)
	defer func() { _ = rep.Finish(env) }()
	iters := 400
	if env.Deep() {
		iters = 4000
	}
	var n int64
	n = schedx.FreeRunAll(rep, env, poolConcs(env.Deep()), false, iters)
	rep.Add(n, 0, 0, 0)
	rep.OutcomeN("free-running race-detector pass [iterations]", n)
}
