// C17: frame copies and buffer reuse are exact and isolated.
//
// Depth-bounded exhaustive enumeration of operation sequences
// (new / parse / clone / reply / set-appendix / mutate / set-link / release)
// on one shared real frame.Builder with at most three live frames, against a
// shadow model (expected bytes + parsed fields per live frame). The pools are
// made deterministic by running single-threaded with the garbage collector
// off, and a gate verifies that recycling really happens.
package c17

import (
	"bytes"
	"fmt"
	"net/netip"
	"runtime"
	"runtime/debug"
	"testing"

	"verif/kit"

	"github.com/mycoria/mycoria/frame"
	"github.com/mycoria/mycoria/peering"
)

var links []frame.LinkAccessor

func init() {
	w := kit.NewWorld()
	links = []frame.LinkAccessor{&kit.VLink{W: w, Label: 1}, &kit.VLink{W: w, Label: 2}}
}

type live struct {
	f    frame.Frame
	wire []byte
	src  netip.Addr
	dst  netip.Addr
	mt   frame.MessageType
	link frame.LinkAccessor
	swL  int
	msgL int
	apxL int
	tag  byte
	poff int // offset margin this frame was built / parsed with
	// unpooled: parsed from a buffer the caller owns (no pooled slice): the frame
	// never owns that buffer, whatever happens to the frame later.
	unpooled bool
}

// plainBuf is a caller-owned buffer frames were parsed from, with its expected content.
type plainBuf struct {
	buf, want []byte
}

type opKind int

const (
	kNew opKind = iota
	kParse
	kClone
	kReply
	kSetApx
	kMutate
	kSetLink
	kRelease
	kParseBad
)

type op struct {
	kind opKind
	i    int // live frame index
	arg  int
}

func (o op) String() string {
	names := []string{"new", "parse", "clone", "reply", "setapx", "mutate", "setlink", "release", "parsebad"}
	return fmt.Sprintf("%s(%d,%d)", names[o.kind], o.i, o.arg)
}

const (
	off = peering.FrameOffset
	ovh = peering.FrameOverhead
)

var (
	ipA = netip.MustParseAddr("fd10:aaaa::1")
	ipB = netip.MustParseAddr("fd20:bbbb::2")
)

// newSizes are total required sizes (offset+frame+overhead) around the pooled tiers.
var newSizesQuick = []int{150, 600, 601, 1600, 1601, 5101}
var newSizesThorough = []int{150, 599, 600, 601, 1599, 1600, 1601, 5100, 5101, 9600, 9601, 20000}
var apxLensQuick = []int{0, 1, 400, 1500, 10000, 10001}
var apxLensThorough = []int{0, 1, 64, 400, 600, 1500, 5000, 9000, 10000, 10001}

func pattern(n int, tag byte) []byte {
	b := make([]byte, n)
	for i := range b {
		b[i] = tag ^ byte(i*7+1) | 1
	}
	return b
}

func expectedWire(mt frame.MessageType, src, dst netip.Addr, sw, msg, apx []byte) []byte {
	auth := 64
	if mt.IsEncrypted() {
		auth = 16
	}
	w := make([]byte, 0, 51+len(sw)+len(msg)+auth+len(apx))
	w = append(w, 1, 32, 0, 0, byte(mt), 0, 0, 0)
	w = append(w, make([]byte, 8)...)
	s, d := src.As16(), dst.As16()
	w = append(w, s[:]...)
	w = append(w, d[:]...)
	w = append(w, byte(len(sw)))
	w = append(w, sw...)
	w = append(w, byte(len(msg)>>8), byte(len(msg)))
	w = append(w, msg...)
	w = append(w, make([]byte, auth)...)
	w = append(w, apx...)
	return w
}

type ctx struct {
	b        *frame.Builder
	lives    []*live
	tagCtr   byte
	reused   int
	released map[*byte]bool // first byte address of released pooled slices
	plain    []plainBuf
	viol     []kit.Violation
}

func (c *ctx) bad(key, detail string) {
	c.viol = append(c.viol, kit.Violation{Key: key, Detail: detail})
}

func wireOf(f frame.Frame) []byte {
	d, err := f.FrameDataWithMargins(0, 0)
	if err != nil {
		return nil
	}
	return d
}

// checkAll compares every live frame with its shadow.
func (c *ctx) checkAll(after op) {
	for i, pb := range c.plain {
		if !bytes.Equal(pb.buf, pb.want) {
			c.bad("caller-buffer-changed", fmt.Sprintf("caller-owned buffer %d, from which a frame was parsed without a pooled slice, changed after %s (first diff %d of %d bytes): the frame took ownership of memory it was only lent", i, after, firstDiff(pb.buf, pb.want), len(pb.buf)))
			copy(pb.buf, pb.want)
		}
	}
	for idx, l := range c.lives {
		w := wireOf(l.f)
		if w == nil && l.unpooled {
			// no pooled slice: compare the parsed parts.
			sw := l.wire[49 : 49+l.swL]
			msg := l.wire[49+l.swL+2 : 49+l.swL+2+l.msgL]
			apx := l.wire[len(l.wire)-l.apxL:]
			if !bytes.Equal(l.f.SwitchBlock(), sw) || !bytes.Equal(l.f.MessageData(), msg) || !bytes.Equal(l.f.AppendixData(), apx) || l.f.SrcIP() != l.src || l.f.DstIP() != l.dst || l.f.MessageType() != l.mt {
				c.bad("unpooled-frame-changed", fmt.Sprintf("live frame %d (parsed from a caller-owned buffer) no longer has its expected parts after %s", idx, after))
			}
			continue
		}
		if !bytes.Equal(w, l.wire) {
			c.bad("frame-changed-by-"+[]string{"new", "parse", "clone", "reply", "setapx", "mutate", "setlink", "release", "parsebad"}[after.kind],
				fmt.Sprintf("live frame %d no longer has its expected bytes after %s (len %d vs %d, first diff %d)", idx, after, len(w), len(l.wire), firstDiff(w, l.wire)))
			continue
		}
		if l.f.SrcIP() != l.src || l.f.DstIP() != l.dst || l.f.MessageType() != l.mt {
			c.bad("fields-wrong", fmt.Sprintf("live frame %d parsed fields differ after %s: src %s/%s dst %s/%s", idx, after, l.f.SrcIP(), l.src, l.f.DstIP(), l.dst))
		}
		if len(l.f.SwitchBlock()) != l.swL || len(l.f.MessageData()) != l.msgL || len(l.f.AppendixData()) != l.apxL {
			c.bad("lengths-wrong", fmt.Sprintf("live frame %d block lengths differ after %s", idx, after))
		}
		if l.f.RecvLink() != l.link {
			c.bad("recvlink-wrong", fmt.Sprintf("live frame %d has recv link %v, expected %v, after %s", idx, l.f.RecvLink(), l.link, after))
		}
	}
}

func firstDiff(a, b []byte) int {
	for i := 0; i < len(a) && i < len(b); i++ {
		if a[i] != b[i] {
			return i
		}
	}
	return min(len(a), len(b))
}

func (c *ctx) apply(o op) (ok bool) {
	switch o.kind {
	case kNew:
		if len(c.lives) >= 3 {
			return false
		}
		c.tagCtr += 16
		R := o.arg
		mt := frame.RouterHopPingDeprecated
		fixed := off + 51 + 2 + 64 + ovh
		msgL := R - fixed
		apxL := 0
		if msgL > 10000 {
			apxL = msgL - 10000
			msgL = 10000
		}
		sw, msg, apx := pattern(2, c.tagCtr+1), pattern(msgL, c.tagCtr+2), pattern(apxL, c.tagCtr+3)
		f, err := c.b.NewFrameV1(ipA, ipB, mt, sw, msg, apx)
		if err != nil {
			c.bad("new-failed", fmt.Sprintf("NewFrameV1 required=%d: %v", R, err))
			return false
		}
		exp := expectedWire(mt, ipA, ipB, sw, msg, apx)
		got := wireOf(f)
		if len(got) == len(exp) {
			copy(exp[5:8], got[5:8]) // random nonce
		}
		if !bytes.Equal(got, exp) {
			c.bad("new-content-wrong", fmt.Sprintf("new frame (required=%d) differs from expected bytes at %d", R, firstDiff(got, exp)))
		}
		// give the frame a non-zero signature field, as a sealed frame has.
		copy(f.AuthData(), pattern(64, c.tagCtr+9))
		got = wireOf(f)
		// margins of a frame built on a (possibly recycled) buffer must be clean.
		if full, err := f.FrameDataWithMargins(off, ovh); err == nil {
			for i := 0; i < off; i++ {
				if full[i] != 0 {
					c.bad("stale-bytes-in-margin", fmt.Sprintf("offset margin byte %d = %#x in new frame", i, full[i]))
					break
				}
			}
			for i := len(full) - ovh; i < len(full); i++ {
				if full[i] != 0 {
					c.bad("stale-bytes-in-margin", fmt.Sprintf("overhead margin byte %d = %#x in new frame", i, full[i]))
					break
				}
			}
		} else {
			c.bad("margins-missing", fmt.Sprintf("new frame required=%d lacks its link margins: %v", R, err))
		}
		if f.RecvLink() != nil {
			c.bad("stale-recvlink-new", "new frame exposes a recv link of a previously released frame")
		}
		c.lives = append(c.lives, &live{f: f, wire: append([]byte(nil), got...), src: ipA, dst: ipB, mt: mt, swL: 2, msgL: msgL, apxL: apxL, tag: c.tagCtr, poff: off})
		return true

	case kParse:
		if len(c.lives) >= 3 {
			return false
		}
		var src *live
		if o.arg == 1 {
			// canned frame bytes (a frame received from the network).
			c.tagCtr += 16
			sw, msg, apx := pattern(3, c.tagCtr+1), pattern(90, c.tagCtr+2), pattern(10, c.tagCtr+3)
			src = &live{wire: expectedWire(frame.RouterHopPing, ipB, ipA, sw, msg, apx), src: ipB, dst: ipA, mt: frame.RouterHopPing, swL: 3, msgL: 90, apxL: 10}
		} else {
			if o.i >= len(c.lives) {
				return false
			}
			src = c.lives[o.i]
		}
		if o.arg == 3 {
			// parsed from a buffer the CALLER owns (no pooled slice): the buffer holds the
			// frame's bytes twice, back to back (a receive buffer with two frames in it);
			// nothing that happens to the frame may ever write to that buffer.
			if len(c.lives) >= 3 {
				return false
			}
			n := len(src.wire)
			buf := make([]byte, 2*n+48)
			copy(buf, src.wire)
			copy(buf[n:], src.wire)
			f, err := c.b.ParseFrame(buf[:n], nil, 0)
			if err != nil {
				c.bad("parse-failed", fmt.Sprintf("parse of a live frame's bytes from a caller-owned buffer failed: %v", err))
				return false
			}
			if f.RecvLink() != nil {
				c.bad("stale-recvlink-parse", "parsed frame exposes the recv link of a previously released frame")
				f.SetRecvLink(nil)
			}
			c.plain = append(c.plain, plainBuf{buf, append([]byte(nil), buf...)})
			c.lives = append(c.lives, &live{f: f, wire: append([]byte(nil), src.wire...), src: src.src, dst: src.dst, mt: src.mt, swL: src.swL, msgL: src.msgL, apxL: src.apxL, unpooled: true})
			return true
		}
		// the way the link reader does it: pooled slice, frame at FrameOffset
		// (encrypted link) or at offset 2 (handshake phase, arg 2).
		poff := off
		if o.arg == 2 {
			poff = 2
		}
		ps := c.b.GetPooledSlice(len(src.wire) + off + ovh)
		if ps == nil {
			return false
		}
		for _, x := range ps {
			if x != 0 {
				c.bad("stale-bytes-in-pooled-slice", "pooled slice handed out with non-zero content")
				break
			}
		}
		n := copy(ps[poff:], src.wire)
		f, err := c.b.ParseFrame(ps[poff:poff+n], ps[:cap(ps)], poff)
		if err != nil {
			c.bad("parse-failed", fmt.Sprintf("parse of a live frame's bytes failed: %v", err))
			return false
		}
		if f.RecvLink() != nil {
			c.bad("stale-recvlink-parse", "parsed frame exposes the recv link of a previously released frame")
			f.SetRecvLink(nil)
		}
		c.lives = append(c.lives, &live{f: f, wire: append([]byte(nil), src.wire...), src: src.src, dst: src.dst, mt: src.mt, swL: src.swL, msgL: src.msgL, apxL: src.apxL, poff: poff})
		return true

	case kParseBad:
		// a frame from the network that passes the minimum size check but fails
		// parsing; arg&1: the caller returns its buffer to the pool afterwards
		// (arg 0: drops it, like the link reader); arg&2: second error path.
		c.tagCtr += 16
		sw, msg, apx := pattern(3, c.tagCtr+1), pattern(700, c.tagCtr+2), pattern(10, c.tagCtr+3)
		wire := expectedWire(frame.RouterHopPing, ipB, ipA, sw, msg, apx)
		if o.arg&2 == 0 {
			wire[52], wire[53] = 0x27, 0x00 // message length far beyond the data
		} else {
			wire[48] = 0xFF // switch block longer than the frame
			wire = wire[:200]
		}
		ps := c.b.GetPooledSlice(len(wire) + off + ovh)
		n := copy(ps[off:], wire)
		f, err := c.b.ParseFrame(ps[off:off+n], ps[:cap(ps)], off)
		if err == nil {
			f.ReturnToPool()
			return true
		}
		if o.arg&1 == 1 {
			c.b.ReturnPooledSlice(ps)
		}
		return true

	case kClone:
		if o.i >= len(c.lives) || len(c.lives) >= 3 {
			return false
		}
		src := c.lives[o.i]
		cl := src.f.Clone()
		c.lives = append(c.lives, &live{f: cl, wire: append([]byte(nil), src.wire...), src: src.src, dst: src.dst, mt: src.mt, link: src.link, swL: src.swL, msgL: src.msgL, apxL: src.apxL, poff: src.poff})
		return true

	case kReply:
		if o.i >= len(c.lives) || c.lives[o.i].unpooled {
			return false
		}
		l := c.lives[o.i]
		c.tagCtr += 16
		msg := pattern(20+o.arg, c.tagCtr+5)
		var err error
		nsrc, ndst := l.dst, l.src
		if o.arg == 2 {
			// a reply too big for any buffer is refused and leaves the frame as it is.
			if err := l.f.Reply(nil, make([]byte, 70000), nil); err == nil {
				c.bad("oversize-reply-accepted", "Reply with a 70000-byte message returned no error")
				return false
			}
			return true
		}
		if o.arg == 0 {
			err = l.f.Reply(nil, msg, nil)
		} else {
			nsrc, ndst = ipB, ipA
			err = l.f.ReplyTo(nsrc, ndst, nil, msg, nil)
		}
		if err != nil {
			c.bad("reply-failed", err.Error())
			return false
		}
		exp := expectedWire(l.mt, nsrc, ndst, nil, msg, nil)
		got := wireOf(l.f)
		if len(got) == len(exp) {
			copy(exp[5:8], got[5:8])
		}
		if !bytes.Equal(got, exp) {
			c.bad("reply-content-wrong", fmt.Sprintf("reply frame differs from expected bytes at %d (stale data of the request?)", firstDiff(got, exp)))
		}
		if l.f.RecvLink() != nil {
			c.bad("reply-keeps-recvlink", "reply frame still references the receive link")
		}
		l.wire, l.src, l.dst, l.link = append([]byte(nil), got...), nsrc, ndst, nil
		l.swL, l.msgL, l.apxL = 0, len(msg), 0
		l.poff = off // a reply is rebuilt with the builder's margins
		return true

	case kSetApx:
		if o.i >= len(c.lives) || c.lives[o.i].unpooled {
			return false
		}
		l := c.lives[o.i]
		c.tagCtr += 16
		apx := pattern(o.arg, c.tagCtr+7)
		err := l.f.SetAppendixData(apx)
		base := l.wire[:len(l.wire)-l.apxL]
		if err != nil {
			if o.arg <= 10000 {
				c.bad("appendix-growth-refused", fmt.Sprintf("SetAppendixData(%d bytes) on a %d-byte frame failed: %v", o.arg, len(base), err))
			}
			// frame must be unchanged.
			return true
		}
		if o.arg > 10000 {
			c.bad("appendix-over-limit-accepted", fmt.Sprintf("SetAppendixData(%d) accepted", o.arg))
		}
		l.wire = append(append([]byte(nil), base...), apx...)
		l.apxL = len(apx)
		// the link margins must still be available, or the link writer drops the frame.
		if _, err := l.f.FrameDataWithMargins(l.poff, ovh); err != nil {
			c.bad("appendix-consumed-margins", fmt.Sprintf("after SetAppendixData(%d) the frame lost its link margins: %v", o.arg, err))
		}
		return true

	case kMutate:
		if o.i >= len(c.lives) || c.lives[o.i].unpooled {
			return false
		}
		l := c.lives[o.i]
		l.f.SetTTL(l.f.TTL() ^ 0x15)
		md := l.f.MessageData()
		md[0] ^= 0xFF
		md[len(md)-1] ^= 0x0F
		l.wire[1] ^= 0x15
		start := 49 + l.swL + 2
		l.wire[start] ^= 0xFF
		l.wire[start+l.msgL-1] ^= 0x0F
		if ap := l.f.AppendixData(); len(ap) > 0 {
			ap[len(ap)-1] ^= 0x33
			l.wire[len(l.wire)-1] ^= 0x33
		}
		return true

	case kSetLink:
		if o.i >= len(c.lives) {
			return false
		}
		l := c.lives[o.i]
		l.f.SetRecvLink(links[o.arg])
		l.link = links[o.arg]
		return true

	case kRelease:
		if o.i >= len(c.lives) {
			return false
		}
		l := c.lives[o.i]
		l.f.ReturnToPool()
		c.lives = append(c.lives[:o.i], c.lives[o.i+1:]...)
		return true
	}
	return false
}

func TestC17(t *testing.T) {
	env := kit.GetEnv()
	rep := kit.NewReport("C17", env)
	rep.Rule = "all operation sequences up to depth D over {new(6-12 sizes around every pooled tier), parse(i) (from a pooled slice at the link offset or the handshake offset; the bytes of live frame 0 also from a CALLER-OWNED buffer without a pooled slice, which must never change afterwards), clone(i), reply/replyTo(i) and a refused oversize reply(i), set-appendix(i, 6-10 lengths incl. 0, tier-crossing, 10000, 10001), mutate(i), set-link(i,2 links), release(i)} with <= 3 live frames on one shared real builder; after every op every live frame is compared byte-for-byte and field-for-field with the shadow model; plus frames produced by the real reader of an established encrypted link (9 message sizes across the tiers x 2 types x appendix 0/40 x 4 growth steps) under 7 short sequences of {clone, grow appendix in place, grow the clone's appendix, release the original and reuse its buffer}; non-trivial = the sequence contains a release followed by a new/parse/clone (buffer reuse) or a clone followed by a modification; distinct = distinct op sequence"
	rep.Assumptions = []string{
		"sync.Pool reuse is made deterministic by GOMAXPROCS(1) and GC off; a gate at start verifies that a released frame object and slice are actually handed out again",
		"frames are parsed the way the link reader parses them (pooled slice, frame at the link offset)",
	}
	var evals, nontrivial, transitions int64
	if env.Mine(0) {
		receivedOverLink(t, rep, &evals, &nontrivial)
	}
	runPoolSched(t, rep, env)
	runtime.GOMAXPROCS(1)
	debug.SetGCPercent(-1)

	// determinism gate: a released frame object must be reused by the next parse.
	{
		b := frame.NewFrameBuilder()
		b.SetFrameMargins(off, ovh)
		f, err := b.NewFrameV1(ipA, ipB, frame.RouterPing, nil, []byte("x"), nil)
		if err != nil {
			t.Fatal(err)
		}
		f.SetRecvLink(links[0])
		p1 := fmt.Sprintf("%p", f)
		f.ReturnToPool()
		g, err := b.NewFrameV1(ipA, ipB, frame.RouterPing, nil, []byte("y"), nil)
		if err != nil {
			t.Fatal(err)
		}
		if fmt.Sprintf("%p", g) != p1 {
			t.Fatalf("harness: pool reuse is not deterministic in this process")
		}
	}

	// quick: depth 4 over the quick alphabet. thorough: depth 4 over the full
	// alphabet, then depth 5 over the quick alphabet (150^5 sequences of the full
	// alphabet are out of reach; the cap is reported if the budget ends first).
	sizes, apxLens, depth := newSizesQuick, apxLensQuick, 4
	if env.Thorough() {
		sizes, apxLens, depth = newSizesThorough, apxLensThorough, 4
	}
	rep.Bounds["depth"] = depth
	rep.Bounds["new_required_sizes"] = sizes
	rep.Bounds["appendix_lengths"] = apxLens

	pass := func(sizes, apxLens []int, depth int) {
		var alphabet []op
		for _, s := range sizes {
			alphabet = append(alphabet, op{kNew, 0, s})
		}
		alphabet = append(alphabet, op{kParse, 0, 1}, op{kParse, 0, 3}, op{kParseBad, 0, 0}, op{kParseBad, 0, 1}, op{kParseBad, 0, 2})
		for i := 0; i < 3; i++ {
			alphabet = append(alphabet, op{kParse, i, 2})
		}
		for i := 0; i < 3; i++ {
			alphabet = append(alphabet, op{kParse, i, 0}, op{kClone, i, 0}, op{kReply, i, 0}, op{kReply, i, 1}, op{kReply, i, 2}, op{kMutate, i, 0}, op{kSetLink, i, 0}, op{kSetLink, i, 1}, op{kRelease, i, 0})
			for _, a := range apxLens {
				alphabet = append(alphabet, op{kSetApx, i, a})
			}
		}
		rep.Bounds["alphabet_size"] = len(alphabet)

		seq := make([]int, 0, depth)
		var rec func()
		run := func() {
			b := frame.NewFrameBuilder()
			b.SetFrameMargins(off, ovh)
			c := &ctx{b: b}
			released, interesting := false, false
			cloned := false
			var last op
			pan, pv := kit.Try(func() {
				for _, oi := range seq {
					o := alphabet[oi]
					last = o
					if !c.apply(o) {
						continue
					}
					transitions++
					switch o.kind {
					case kRelease:
						released = true
					case kNew, kParse, kClone:
						if released {
							interesting = true
						}
						if o.kind == kClone {
							cloned = true
						}
					case kSetApx, kMutate, kReply:
						if cloned {
							interesting = true
						}
					}
					c.checkAll(o)
				}
			})
			evals++
			if evals%3000 == 0 {
				runtime.GC() // between sequences only: every sequence has its own builder and pools
			}
			if interesting {
				nontrivial++
			}
			names := make([]string, len(seq))
			for i, oi := range seq {
				names[i] = alphabet[oi].String()
			}
			if pan {
				rep.Violate(fmt.Sprintf("panic-in-%s", []string{"new", "parse", "clone", "reply", "setapx", "mutate", "setlink", "release", "parsebad"}[last.kind]), fmt.Sprintf("panic %v at %s in sequence %v", pv, last, names), names)
			}
			for _, v := range c.viol {
				rep.Violate(v.Key, v.Detail+fmt.Sprintf(" — sequence %v", names), names)
			}
			if evals%50000 == 1 {
				rep.Sample(names)
			}
			for _, l := range c.lives {
				kit.Try(func() { l.f.ReturnToPool() })
			}
		}
		// validity pruning: an op on a non-existing frame index makes the whole
		// sequence equivalent to a shorter one; prune it.
		var liveCount func(prefix []int) int
		liveCount = func(prefix []int) int {
			n := 0
			for _, oi := range prefix {
				switch alphabet[oi].kind {
				case kNew, kParse, kClone:
					n++
				case kRelease:
					n--
				}
			}
			return n
		}
		top := 0
		capped := false
		rec = func() {
			if capped {
				return
			}
			if len(seq) == depth {
				if env.Expired() {
					capped = true
					rep.Cap(fmt.Sprintf("time budget reached during the depth-%d pass", depth))
					return
				}
				run()
				return
			}
			lc := liveCount(seq)
			for oi, o := range alphabet {
				switch o.kind {
				case kNew:
					if lc >= 3 {
						continue
					}
				case kParseBad:
				case kParse, kClone:
					if (o.i >= lc && !(o.kind == kParse && o.arg == 1)) || lc >= 3 {
						continue
					}
				default:
					if o.i >= lc {
						continue
					}
				}
				if len(seq) == 1 {
					top++
					if !env.Mine(top) {
						continue
					}
				}
				seq = append(seq, oi)
				rec()
				seq = seq[:len(seq)-1]
			}
		}
		rec()
	}
	pass(sizes, apxLens, depth)
	if env.Thorough() {
		rep.Bounds["second_pass"] = "depth 5 over the quick alphabet"
		pass(newSizesQuick[:4], []int{0, 400, 10000}, 5)
	}
	rep.Add(evals, nontrivial, 0, transitions)
	rep.Outcome(fmt.Sprintf("sequences=%d", evals))
	if err := rep.Finish(env); err != nil {
		t.Fatal(err)
	}
}
