package c17

import (
	"bytes"
	"fmt"
	"testing"
	"testing/synctest"

	"verif/kit"

	"github.com/mycoria/mycoria/config"
	"github.com/mycoria/mycoria/frame"
)

var linkPool = kit.RoutablePool("c17-link", 2)

// receivedOverLink: the copy / grow / release claims for frames as a router
// actually gets them - produced by the real link reader of an established,
// encrypted link (whatever buffer, length and offset it hands to the parser) -
// instead of frames the harness parses itself. Per received frame (sizes across
// the pooled tiers, with and without an appendix) short op sequences over
// {clone, grow appendix in place, grow the clone's appendix, release}.
func receivedOverLink(t *testing.T, rep *kit.Report, evals, nontrivial *int64) {
	sizes := []int{1, 100, 480, 560, 1400, 1560, 4000, 5060, 9000}
	apx0 := []int{0, 40}
	grows := []int{1, 200, 700, 1500}
	seqs := []string{"clone", "grow,clone", "clone,grow-clone", "grow,clone,grow-clone", "grow,clone,release-original", "clone,grow,grow-clone", "grow,grow,clone"}
	for _, seqName := range seqs {
		synctest.Test(t, func(t *testing.T) {
			mk := func(name string, i int) *kit.Node {
				n, err := kit.NewNode(kit.NodeOpts{Name: name, ID: linkPool[i], Store: config.Store{}})
				if err != nil {
					panic(err)
				}
				return n
			}
			a, b := mk("A", 0), mk("B", 1)
			w := kit.NewWire(a, b)
			w.Start()
			w.Pump(12)
			if w.LinkA == nil || w.LinkB == nil {
				panic("harness: link did not come up")
			}
			for _, mt := range []frame.MessageType{frame.NetworkTraffic, frame.RouterHopPing} {
				for _, sz := range sizes {
					for _, a0 := range apx0 {
						for _, grow := range grows {
							desc := fmt.Sprintf("frame received over a real link: type=%d message=%d bytes appendix=%d, ops=[%s] grow=%d", mt, sz, a0, seqName, grow)
							f, err := a.FrameBuilder().NewFrameV1(a.Identity().IP, b.Identity().IP, mt, nil, pattern(sz, 0x31), pattern(a0, 0x57))
							if err != nil {
								panic(err)
							}
							sent := append([]byte(nil), wireOf(f)...)
							_ = w.LinkA.Send(f)
							w.Pump(3)
							var got frame.Frame
							select {
							case got = <-b.SwitchIn:
							default:
								panic("harness: frame did not arrive: " + desc)
							}
							*evals++
							*nontrivial++
							if !bytes.Equal(wireOf(got), sent) {
								rep.Violate("received/differs-from-sent", "frame handed over by the link reader differs from the frame sent: "+desc, desc)
							}
							shadow := append([]byte(nil), wireOf(got)...) // what `got` must keep showing
							var clone frame.Frame
							var cloneShadow []byte
							growFrame := func(fr frame.Frame, sh []byte, tag byte) []byte {
								newApx := pattern(len(fr.AppendixData())+grow, tag)
								base := len(sh) - len(fr.AppendixData())
								if err := fr.SetAppendixData(newApx); err != nil {
									rep.Violate("received/grow-refused", fmt.Sprintf("SetAppendixData(%d bytes) refused: %v; %s", len(newApx), err, desc), desc)
									return sh
								}
								return append(append([]byte(nil), sh[:base]...), newApx...)
							}
							released := false
							pan, pv := kit.Try(func() {
								for si, step := range bytes.Split([]byte(seqName), []byte(",")) {
									switch string(step) {
									case "clone":
										clone = got.Clone()
										cloneShadow = append([]byte(nil), shadow...)
										if clone.RecvLink() != got.RecvLink() {
											rep.Violate("received/clone-recv-link", "clone has another receive link: "+desc, desc)
										}
									case "grow":
										shadow = growFrame(got, shadow, byte(0x61+si))
									case "grow-clone":
										cloneShadow = growFrame(clone, cloneShadow, byte(0x71+si))
									case "release-original":
										got.ReturnToPool()
										released = true
										// a new frame of the same size class reuses what was released.
										nf, err := b.FrameBuilder().NewFrameV1(b.Identity().IP, a.Identity().IP, mt, nil, pattern(sz, 0x13), nil)
										if err == nil {
											defer nf.ReturnToPool()
										}
									}
									if !released && !bytes.Equal(wireOf(got), shadow) {
										rep.Violate("received/original-changed", fmt.Sprintf("after step %d (%s) the received frame no longer has its expected bytes (first difference at %d of %d): %s", si, step, firstDiff(wireOf(got), shadow), len(shadow), desc), desc)
									}
									if clone != nil && !bytes.Equal(wireOf(clone), cloneShadow) {
										rep.Violate("received/clone-differs", fmt.Sprintf("after step %d (%s) the clone does not have the expected bytes (first difference at %d of %d/%d): %s", si, step, firstDiff(wireOf(clone), cloneShadow), len(wireOf(clone)), len(cloneShadow), desc), desc)
									}
								}
							})
							if pan {
								rep.Violate("received/panic", fmt.Sprintf("panic %v: %s", pv, desc), desc)
							}
							if clone != nil {
								kit.Try(func() { clone.ReturnToPool() })
							}
							if !released {
								kit.Try(func() { got.ReturnToPool() })
							}
							rep.Outcome("received-over-link/" + seqName)
						}
					}
				}
			}
			w.Shutdown()
		})
	}
}
