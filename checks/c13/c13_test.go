// C13: no input from the network can panic or stall a router worker.
//
// (1) Raw bytes: all byte strings of length 0..2, every prefix of valid frames
// and valid frames plus one byte go through the real parser, switch and router;
// every 2-byte string before the handshake, garbage at each handshake read
// position and a sweep of length prefixes after the handshake go through the
// real link reader. (2) Structured deviations: valid, correctly sealed frames of
// every ping type / traffic type are mutated field by field (all single and all
// pairs of deviations) and re-sealed with the authenticated sender's real keys.
// (3) Frames are delivered in sequences to one long-lived router.
// Oracle: no worker panic (incl. "double return to pool!").
package c13

import (
	"crypto/ed25519"
	"fmt"
	"net/netip"
	"regexp"
	"strings"
	"testing"
	"testing/synctest"
	"time"

	"github.com/fxamacker/cbor/v2"

	"verif/kit"

	"github.com/mycoria/crop"
	"github.com/mycoria/mycoria/config"
	"github.com/mycoria/mycoria/frame"
	"github.com/mycoria/mycoria/m"
	"github.com/mycoria/mycoria/router"
	"github.com/mycoria/mycoria/state"
)

var pool = kit.RoutablePool("c13", 110)

// privID is the identity of a router with a privacy (non-routable) address.
var privID = kit.GenIdentity(kit.NewDRBG("ids/c13-privacy", 1), m.PrivacyAddressPrefix)

type tworld struct {
	w          *kit.World
	r, x, y, u *kit.Node
	// pendingIDs: ping type -> id of the request R itself has pending with X (pending flavours).
	pendingIDs map[string]uint64
	p          *kit.Node // a router with a privacy (non-routable) address: it cannot hold a link, but has end-to-end keys with R; its frames arrive relayed over X's link
}

func must(err error) {
	if err != nil {
		panic(err)
	}
}

func build() *tworld { return buildFlavour(false, false) }

// buildFlavour: swap exchanges the identities of R and X (so both address
// orderings of the pair occur); pending leaves the router's own hello and pong
// requests to X unanswered (their frames are discarded), so that frames from X
// meet a router that is itself in the middle of the same exchanges.
func buildFlavour(swap, pending bool) *tworld {
	w := kit.NewWorld()
	mk := func(name string, i int, st config.Store) *kit.Node {
		n, err := w.AddNode(name, pool[i], st)
		must(err)
		return n
	}
	st := config.Store{ServiceConfigs: []config.ServiceConfig{{Name: "web", URL: "tcp://web.myco:80", Public: true}}}
	tw := &tworld{w: w}
	ri, xi := 0, 1
	if swap {
		ri, xi = 1, 0
	}
	tw.r, tw.x, tw.y, tw.u = mk("R", ri, st), mk("X", xi, config.Store{}), mk("Y", 2, config.Store{}), mk("U", 3, config.Store{})
	if pending {
		defer func() {
			_, err := tw.r.Router().HelloPing.Send(tw.x.Identity().IP)
			must(err)
			_, _, err = tw.r.Router().PingPong.Send(tw.x.Identity().IP, true, 0)
			must(err)
			// the ids of R's own pending requests (read from the request frames: signed, not encrypted).
			tw.pendingIDs = map[string]uint64{}
			for _, fl := range w.InFlight {
				b := fl.Bytes
				if len(b) < 52 || fl.From != tw.r {
					continue
				}
				sw := int(b[48])
				if len(b) < 51+sw+2 {
					continue
				}
				msg := b[51+sw:]
				if len(msg) < 2 || len(msg) < 2+int(msg[1]) {
					continue
				}
				var h router.PingHeader
				if err := cbor.Unmarshal(msg[2:2+int(msg[1])], &h); err == nil && !h.FollowUp {
					tw.pendingIDs[h.PingType] = h.PingID
				}
			}
			w.InFlight, w.Log = nil, nil
		}()
	}
	for i, n := range []*kit.Node{tw.x, tw.y} {
		// X's link has a 1-byte label at R, Y's link a 2-byte label.
		_, _, err := w.Connect(tw.r, n, m.SwitchLabel(11+i*289), m.SwitchLabel(21+i), 5)
		must(err)
		must(kit.KeySessions(n, tw.r))
	}
	_, _, err := w.Connect(tw.y, tw.u, 31, 32, 5)
	must(err)
	// three more direct peers of R, so that whatever R fans out (announcements,
	// disconnect notices) goes to several links, with the receive link at every
	// position of the address order across the worlds.
	for i := 0; i < 3; i++ {
		n := mk(fmt.Sprintf("V%d", i), 100+i, config.Store{})
		_, _, err := w.Connect(tw.r, n, m.SwitchLabel(40+i), m.SwitchLabel(50+i), 5)
		must(err)
	}
	pn, err := w.AddNode("P", privID, config.Store{})
	must(err)
	tw.p = pn
	must(kit.KeySessions(tw.p, tw.r))
	// R tracks flows of its own: local packets to X and Y (tcp/80), so that error
	// notices naming a router or a flow meet connection state they refer to.
	for i, n := range []*kit.Node{tw.x, tw.y} {
		pk := make([]byte, 60)
		pk[0], pk[5], pk[6], pk[7] = 0x60, 20, 6, 64
		sr, dn := tw.r.Identity().IP.As16(), n.Identity().IP.As16()
		copy(pk[8:24], sr[:])
		copy(pk[24:40], dn[:])
		pk[40], pk[41], pk[43] = 0x75, byte(0x30+i), 80
		ps := tw.r.FrameBuilder().GetPooledSlice(len(pk))
		copy(ps, pk)
		_ = w.TunPacket(tw.r, ps[:len(pk)])
	}
	w.InFlight, w.Log = nil, nil
	return tw
}

// recipe describes one frame to be built by sender X.
type recipe struct {
	src, dst  netip.Addr
	mt        frame.MessageType
	sw        []byte
	pingVer   byte
	hdr       router.PingHeader
	hdrRaw    []byte // overrides the encoded header
	hdrLenAdj int
	body      []byte
	rawMsg    []byte // overrides ping message entirely
	appendix  []byte
	seal      int // 0 session of X for R (or raw sign if none), 1 raw sign, 2 none
	post      []func(raw []byte) []byte
	via       int // 0 X's link, 1 Y's link, 2 no link
	note      []string
	fromP     bool // built, sealed and delivered by the privacy-address peer P instead of X
}

func (rc recipe) clone() recipe {
	c := rc
	c.sw = append([]byte(nil), rc.sw...)
	c.body = append([]byte(nil), rc.body...)
	c.post = append([]func([]byte) []byte(nil), rc.post...)
	c.note = append([]string(nil), rc.note...)
	return c
}

func (tw *tworld) wire(rc recipe) ([]byte, error) {
	msg := rc.rawMsg
	if msg == nil {
		hd := rc.hdrRaw
		if hd == nil {
			var err error
			hd, err = cbor.Marshal(&rc.hdr)
			if err != nil {
				return nil, err
			}
		}
		if len(hd) > 255 {
			return nil, fmt.Errorf("header too big")
		}
		msg = append([]byte{rc.pingVer, byte(len(hd) + rc.hdrLenAdj)}, hd...)
		msg = append(msg, rc.body...)
	}
	if len(msg) == 0 {
		return nil, fmt.Errorf("empty message")
	}
	sender := tw.x
	if rc.fromP {
		sender = tw.p
	}
	f, err := sender.FrameBuilder().NewFrameV1(rc.src, rc.dst, rc.mt, rc.sw, msg, rc.appendix)
	if err != nil {
		return nil, err
	}
	defer f.ReturnToPool()
	sess := sender.State().GetSession(tw.r.Identity().IP)
	switch {
	case rc.seal == 0 && rc.mt.Class() != frame.MessageClassUnknown:
		if err := f.Seal(sess); err != nil {
			return nil, err
		}
	case rc.seal <= 1 && !rc.mt.IsEncrypted():
		f.SetTTL(0)
		f.SetSequenceTime(time.Now().Round(time.Millisecond).Add(-time.Millisecond))
		if err := f.SignRaw(sender.Identity().PrivateKey); err != nil {
			return nil, err
		}
		f.SetTTL(32)
	}
	d, err := f.FrameDataWithMargins(0, 0)
	if err != nil {
		return nil, err
	}
	raw := append([]byte(nil), d...)
	for _, p := range rc.post {
		raw = p(raw)
	}
	return raw, nil
}

type deviation struct {
	field string
	name  string
	apply func(tw *tworld, rc *recipe)
}

var digits = regexp.MustCompile(`[0-9]+`)

func panicKey(s string) string {
	if i := strings.Index(s, "panic: "); i >= 0 {
		s = s[i+7:]
	}
	s = digits.ReplaceAllString(s, "N")
	if len(s) > 90 {
		s = s[:90]
	}
	return s
}

// bases returns the valid base frames.
func bases(tw *tworld) map[string]recipe {
	x, r := tw.x.Identity(), tw.r.Identity()
	hdr := func(pt string, code uint8, follow bool) router.PingHeader {
		return router.PingHeader{PingID: 99, PingType: pt, PingCode: code, FollowUp: follow, AddrHash: x.Hash, KeyType: x.Type, PublicKey: x.PublicKey}
	}
	ping := func(pt string, code uint8, follow bool, mt frame.MessageType, body any) recipe {
		return recipe{src: x.IP, dst: r.IP, mt: mt, pingVer: 1, hdr: hdr(pt, code, follow), body: kit.MustCBOR(body)}
	}
	kx := make([]byte, 32)
	kx[0] = 9
	pk := make([]byte, 60)
	pk[0], pk[5], pk[6], pk[7] = 0x60, 20, 6, 64
	sx, dr := x.IP.As16(), r.IP.As16()
	copy(pk[8:24], sx[:])
	copy(pk[24:40], dr[:])
	pk[43] = 80
	ann := ping("announce", 0, false, frame.RouterHopPingDeprecated, &router.AnnouncePingMsg{Info: &m.RouterInfo{Version: "v"}, ReturnLabel: 21, Expires: time.Now().Add(10 * time.Minute)})
	ann.dst = m.RouterAddress
	ann.seal = 1
	return map[string]recipe{
		"hello-request":   ping("hello", 0, false, frame.RouterPing, &router.HelloPingRequest{KeyExchange: kx, KeyExchangeType: "ECDH-X25519/BLAKE3", MTU: 1400}),
		"hello-response":  ping("hello", 0, true, frame.RouterPing, &router.HelloPingResponse{KeyExchange: kx, KeyExchangeType: "ECDH-X25519/BLAKE3", MTU: 1400}),
		"pong-request":    ping("pong", 0, false, frame.RouterPing, map[string]string{"msg": "ping"}),
		"pong-response":   ping("pong", 0, true, frame.RouterPing, map[string]string{"msg": "pong"}),
		"error-generic":   ping("error", 0, false, frame.RouterPing, "text"),
		"error-unreach":   ping("error", 1, false, frame.RouterPing, map[string]any{"u": r.IP}),
		"error-unreach-x": ping("error", 1, false, frame.RouterPing, map[string]any{"u": x.IP}),
		"error-unreach-y": ping("error", 1, false, frame.RouterPing, map[string]any{"u": tw.y.Identity().IP}),
		"error-nokeys":    ping("error", 2, false, frame.RouterPing, nil),
		"error-denied":    ping("error", 3, false, frame.RouterCtrl, map[string]any{"d": x.IP, "t": 6, "p": 80}),
		"error-rejected":  ping("error", 4, false, frame.RouterCtrl, map[string]any{"d": x.IP, "t": 6, "p": 80}),
		"disconnect":      ping("disconnect", 0, false, frame.RouterPing, &router.DisconnectPingMsg{GoingDown: true}),
		"announce":        ann,
		"traffic":         {src: x.IP, dst: r.IP, mt: frame.NetworkTraffic, rawMsg: pk},
		"session-ctrl":    {src: x.IP, dst: r.IP, mt: frame.SessionCtrl, rawMsg: []byte("ctrl")},
		"session-data":    {src: x.IP, dst: r.IP, mt: frame.SessionData, rawMsg: []byte("data")},
	}
}

func addrAlphabet(tw *tworld) map[string]netip.Addr {
	return map[string]netip.Addr{
		"self(R)": tw.r.Identity().IP, "X": tw.x.Identity().IP, "Y": tw.y.Identity().IP, "U-unknown": tw.u.Identity().IP,
		"multicast-routers": m.RouterAddress, "api": config.DefaultAPIAddress, "zero": netip.IPv6Unspecified(),
		"non-mycoria": netip.MustParseAddr("2001:db8::1"), "privacy-range": netip.MustParseAddr("fdf0::77"), "v4mapped": netip.MustParseAddr("::ffff:10.0.0.1"),
	}
}

// chain builds an announce appendix with n nested hop records signed by pool identities.
func chain(tw *tworld, n int, raw []byte, selfRef, loop bool, label m.SwitchLabel) []byte {
	sw := int(raw[48])
	ml := int(raw[49+sw])<<8 | int(raw[50+sw])
	as := 51 + sw + ml
	ctx := make([]byte, 16+8+64)
	copy(ctx[:16], raw[16:32])
	copy(ctx[16:24], raw[8:16])
	copy(ctx[24:], raw[as:as+64])
	var apx []byte
	for i := 0; i < n; i++ {
		id := pool[10+i%90]
		if i == n-1 {
			id = tw.x.Identity() // outermost signer = delivering peer
		}
		att := router.AnnouncePingAttachment{Router: id.PublicAddress, Delay: 5, ForwardLabel: label, ReturnLabel: label, NextAttachment: apx}
		if selfRef && i == n/2 {
			att.Router = tw.r.Identity().PublicAddress
		}
		if loop && i == 1 && n > 2 {
			att.Router = pool[10].PublicAddress
		}
		data := kit.MustCBOR(att)
		key := id.PrivateKey
		sig, _ := key.Sign(nil, data, &ed25519.Options{Context: string(ctx)})
		apx = append(data, sig...)
	}
	return apx
}

func deviations() []deviation {
	var ds []deviation
	add := func(field, name string, f func(tw *tworld, rc *recipe)) {
		ds = append(ds, deviation{field, name, f})
	}
	for _, v := range []byte{0, 2, 255} {
		v := v
		add("version", fmt.Sprintf("version=%d", v), func(tw *tworld, rc *recipe) {
			rc.post = append(rc.post, func(raw []byte) []byte { raw[0] = v; return raw })
		})
	}
	for _, v := range []byte{0, 1, 255} {
		v := v
		add("ttl", fmt.Sprintf("ttl=%d", v), func(tw *tworld, rc *recipe) {
			rc.post = append(rc.post, func(raw []byte) []byte { raw[1] = v; return raw })
		})
	}
	for _, v := range []byte{1, 3, 255} {
		v := v
		add("flow", fmt.Sprintf("flow=%d", v), func(tw *tworld, rc *recipe) {
			rc.post = append(rc.post, func(raw []byte) []byte { raw[2] = v; return raw })
		})
	}
	for t := 0; t < 256; t++ {
		if t > 20 && t%37 != 0 && t != 255 {
			continue
		}
		t := t
		add("type", fmt.Sprintf("type=%d", t), func(tw *tworld, rc *recipe) { rc.mt = frame.MessageType(t) })
	}
	add("src", "sender=privacy-address-router-with-keys(relayed-by-X)", func(tw *tworld, rc *recipe) {
		rc.src = tw.p.Identity().IP
		rc.fromP = true
		rc.hdr.AddrHash, rc.hdr.KeyType, rc.hdr.PublicKey = tw.p.Identity().Hash, tw.p.Identity().Type, tw.p.Identity().PublicKey
		if rc.mt == frame.NetworkTraffic && len(rc.rawMsg) >= 44 {
			// the inner packet names the same sender.
			rc.rawMsg = append([]byte(nil), rc.rawMsg...)
			ip := tw.p.Identity().IP.As16()
			copy(rc.rawMsg[8:24], ip[:])
		}
	})
	for _, name := range []string{"self(R)", "Y", "U-unknown", "multicast-routers", "api", "zero", "non-mycoria", "privacy-range", "v4mapped"} {
		name := name
		add("src", "src="+name, func(tw *tworld, rc *recipe) { rc.src = addrAlphabet(tw)[name] })
	}
	for _, name := range []string{"X", "Y", "U-unknown", "multicast-routers", "api", "zero", "non-mycoria", "privacy-range"} {
		name := name
		add("dst", "dst="+name, func(tw *tworld, rc *recipe) { rc.dst = addrAlphabet(tw)[name] })
	}
	swb := map[string][]byte{
		"zero": {0}, "zeros": {0, 0, 0, 0}, "to-Y": {0xac, 0x02, 0, 0, 0}, "to-X": {11, 0, 0, 0}, "dangling": {99, 0, 0}, "no-room": {12}, "two-byte-no-room": {0xac, 0x02},
		"full-255": append(make([]byte, 0, 255), func() []byte {
			b := make([]byte, 255)
			for i := range b {
				b[i] = 12
			}
			return b
		}()...),
		"overlong-varint": {0x80, 0x80, 0x80, 0x80, 0x80, 0x80, 0x80, 0x80, 0x80, 0x80, 0x01}, "unterminated-varint": {0x80, 0x80},
	}
	for name, b := range swb {
		b := b
		add("switch", "switch="+name, func(tw *tworld, rc *recipe) { rc.sw = b })
	}
	add("seal", "seal=raw-signed", func(tw *tworld, rc *recipe) { rc.seal = 1 })
	add("seal", "seal=none", func(tw *tworld, rc *recipe) { rc.seal = 2 })
	add("via", "via=Y-link", func(tw *tworld, rc *recipe) { rc.via = 1 })
	add("via", "via=no-link", func(tw *tworld, rc *recipe) { rc.via = 2 })
	// ping framing.
	for _, v := range []byte{0, 2, 255} {
		v := v
		add("pingver", fmt.Sprintf("pingver=%d", v), func(tw *tworld, rc *recipe) { rc.pingVer = v })
	}
	for _, adj := range []int{-1, 1, 50, 200, -200} {
		adj := adj
		add("hdrlen", fmt.Sprintf("hdrlen%+d", adj), func(tw *tworld, rc *recipe) { rc.hdrLenAdj = adj })
	}
	for _, pt := range []string{"", "hello", "pong", "error", "announce", "disconnect", "unknown", "HELLO", "he llo", strings.Repeat("a", 200)} {
		pt := pt
		n := pt
		if len(n) > 10 {
			n = n[:10]
		}
		add("pingtype", "pingtype="+n, func(tw *tworld, rc *recipe) { rc.hdr.PingType = pt })
	}
	for _, c := range []uint8{0, 1, 2, 3, 4, 5, 255} {
		c := c
		add("code", fmt.Sprintf("code=%d", c), func(tw *tworld, rc *recipe) { rc.hdr.PingCode = c })
	}
	add("followup", "followup=flip", func(tw *tworld, rc *recipe) { rc.hdr.FollowUp = !rc.hdr.FollowUp })
	add("pingid", "pingid=0", func(tw *tworld, rc *recipe) { rc.hdr.PingID = 0 })
	for _, h := range []crop.Hash{"", "blake3", "SHA2_256", crop.Hash(strings.Repeat("H", 120))} {
		h := h
		n := string(h)
		if len(n) > 8 {
			n = n[:8]
		}
		add("hdrhash", "hdrhash="+n, func(tw *tworld, rc *recipe) { rc.hdr.AddrHash = h })
	}
	for _, k := range []crop.KeyPairType{"", "RSA", crop.KeyPairType(strings.Repeat("T", 120))} {
		k := k
		n := string(k)
		if len(n) > 8 {
			n = n[:8]
		}
		add("hdrkeytype", "hdrkeytype="+n, func(tw *tworld, rc *recipe) { rc.hdr.KeyType = k })
	}
	for _, l := range []int{0, 1, 31, 33, 64} {
		l := l
		add("hdrkey", fmt.Sprintf("hdrkeylen=%d", l), func(tw *tworld, rc *recipe) { rc.hdr.PublicKey = make([]byte, l) })
	}
	// self-consistent forged identities as the SOURCE of a first-contact ping: the address is
	// the digest of a malformed identity (odd key sizes, unknown key types), the header carries
	// that identity, the frame is raw-signed (by X's key: the signature cannot be valid).
	for _, fi := range forgedIDs {
		fi := fi
		add("identity", "forged-identity/"+fi.note, func(tw *tworld, rc *recipe) {
			rc.src = fi.ip
			rc.hdr.AddrHash, rc.hdr.KeyType, rc.hdr.PublicKey = fi.hash, fi.typ, fi.key
			rc.seal = 1
		})
	}
	for name, raw := range map[string][]byte{"empty": {}, "not-cbor": {0xff, 0xff, 0xff}, "cbor-array": {0x83, 1, 2, 3}, "cbor-int": {0x18, 0x64}, "truncated-map": {0xa7, 0x61, 0x69}, "indef-nesting": {0x9f, 0x9f, 0x9f, 0x9f, 0x9f, 0x9f}} {
		raw := raw
		add("hdrraw", "hdrraw="+name, func(tw *tworld, rc *recipe) { rc.hdrRaw = raw })
	}
	// bodies.
	bodies := map[string][]byte{
		"empty": {}, "not-cbor": {0xff, 0xfe}, "cbor-nil": {0xf6}, "cbor-array": {0x82, 1, 2}, "cbor-string": kit.MustCBOR("s"), "truncated": {0xa3, 0x62, 0x6b, 0x78},
		"huge-int-fields":         kit.MustCBOR(map[string]any{"kx": 1 << 60, "kxt": 7, "mtu": -1, "i": 5, "b": 1 << 40, "e": "x", "s": 3, "off": "y", "d": 9, "u": 1, "t": 1 << 30, "p": 1 << 30, "msg": 7}),
		"wrong-types":             kit.MustCBOR(map[string]any{"kx": "str", "kxt": []int{1}, "mtu": "m", "i": "info", "b": "b", "e": 5, "s": "s", "off": 1, "d": "d", "u": "u", "t": "t", "p": "p", "msg": []byte{1}}),
		"kx-short":                kit.MustCBOR(&router.HelloPingRequest{KeyExchange: make([]byte, 31), KeyExchangeType: "ECDH-X25519/BLAKE3"}),
		"kx-long":                 kit.MustCBOR(&router.HelloPingRequest{KeyExchange: make([]byte, 33), KeyExchangeType: "ECDH-X25519/BLAKE3"}),
		"kx-zero":                 kit.MustCBOR(&router.HelloPingRequest{KeyExchange: make([]byte, 32), KeyExchangeType: "ECDH-X25519/BLAKE3"}),
		"kx-type-unknown":         kit.MustCBOR(&router.HelloPingRequest{KeyExchange: make([]byte, 32), KeyExchangeType: "X"}),
		"mtu-negative":            kit.MustCBOR(map[string]any{"kx": make([]byte, 32), "kxt": "ECDH-X25519/BLAKE3", "mtu": -5}),
		"mtu-huge":                kit.MustCBOR(map[string]any{"kx": make([]byte, 32), "kxt": "ECDH-X25519/BLAKE3", "mtu": 1 << 40}),
		"announce-nil-info":       kit.MustCBOR(&router.AnnouncePingMsg{ReturnLabel: 1}),
		"announce-expired":        kit.MustCBOR(&router.AnnouncePingMsg{Info: &m.RouterInfo{}, Expires: time.Date(1990, 1, 1, 0, 0, 0, 0, time.UTC)}),
		"announce-far-future":     kit.MustCBOR(&router.AnnouncePingMsg{Info: &m.RouterInfo{}, Expires: time.Date(9990, 1, 1, 0, 0, 0, 0, time.UTC), ReturnLabel: 65535, Stub: true}),
		"announce-big-info":       kit.MustCBOR(&router.AnnouncePingMsg{Info: &m.RouterInfo{Version: strings.Repeat("v", 3000), Listeners: []string{strings.Repeat("l", 3000)}}}),
		"disconnect-list-100":     kit.MustCBOR(&router.DisconnectPingMsg{Disconnected: make([]netip.Addr, 100)}),
		"disconnect-invalid-addr": kit.MustCBOR(map[string]any{"d": []any{[]byte{1, 2, 3}}}),
		"error-invalid-addr":      kit.MustCBOR(map[string]any{"u": []byte{1, 2, 3}, "d": []byte{}}),
	}
	for name, b := range bodies {
		b := b
		add("body", "body="+name, func(tw *tworld, rc *recipe) { rc.body = b })
	}
	// raw message replacements (inner packets / tiny messages).
	for _, l := range []int{1, 2, 3, 43, 44, 45, 1500, 9999, 10000} {
		l := l
		add("rawmsg", fmt.Sprintf("rawmsg=len%d", l), func(tw *tworld, rc *recipe) {
			b := make([]byte, l)
			b[0] = 0x60
			rc.rawMsg = b
		})
	}
	add("inner", "inner=src-mismatch", func(tw *tworld, rc *recipe) {
		if rc.rawMsg != nil && len(rc.rawMsg) >= 44 {
			rc.rawMsg = append([]byte(nil), rc.rawMsg...)
			rc.rawMsg[10] ^= 0xff
		}
	})
	add("inner", "inner=dst-mismatch", func(tw *tworld, rc *recipe) {
		if rc.rawMsg != nil && len(rc.rawMsg) >= 44 {
			rc.rawMsg = append([]byte(nil), rc.rawMsg...)
			rc.rawMsg[30] ^= 0xff
		}
	})
	add("inner", "inner=udp-port-0", func(tw *tworld, rc *recipe) {
		if rc.rawMsg != nil && len(rc.rawMsg) >= 44 {
			rc.rawMsg = append([]byte(nil), rc.rawMsg...)
			rc.rawMsg[6] = 17
			rc.rawMsg[42], rc.rawMsg[43] = 0, 0
		}
	})
	add("inner", "inner=closed-port", func(tw *tworld, rc *recipe) {
		if rc.rawMsg != nil && len(rc.rawMsg) >= 44 {
			rc.rawMsg = append([]byte(nil), rc.rawMsg...)
			rc.rawMsg[42], rc.rawMsg[43] = 0, 81
		}
	})
	add("inner", "inner=ipv4-version", func(tw *tworld, rc *recipe) {
		if rc.rawMsg != nil && len(rc.rawMsg) >= 44 {
			rc.rawMsg = append([]byte(nil), rc.rawMsg...)
			rc.rawMsg[0] = 0x45
		}
	})
	// appendix: arbitrary garbage and hop chains.
	for _, l := range []int{1, 64, 65, 66, 200, 5000, 10000} {
		l := l
		add("appendix", fmt.Sprintf("appendix=garbage%d", l), func(tw *tworld, rc *recipe) {
			b := make([]byte, l)
			for i := range b {
				b[i] = byte(i*7 + 1)
			}
			rc.appendix = b
		})
	}
	for _, cs := range []struct {
		n          int
		self, loop bool
		label      m.SwitchLabel
	}{{1, false, false, 5}, {2, false, false, 300}, {3, true, false, 5}, {4, false, true, 5}, {40, false, false, 40000}, {56, false, false, 40000}} {
		cs := cs
		add("appendix", fmt.Sprintf("appendix=chain%d-self%v-loop%v-label%d", cs.n, cs.self, cs.loop, cs.label), func(tw *tworld, rc *recipe) {
			rc.post = append(rc.post, func(raw []byte) []byte {
				if raw[4] != 0 && raw[4] != 3 {
					return raw
				}
				apx := chain(tw, cs.n, raw, cs.self, cs.loop, cs.label)
				sw := int(raw[48])
				ml := int(raw[49+sw])<<8 | int(raw[50+sw])
				end := 51 + sw + ml + 64
				if end > len(raw) || len(apx) > 10000 {
					return raw
				}
				return append(append([]byte(nil), raw[:end]...), apx...)
			})
		})
	}
	return ds
}

// stallWatch is the real-time stall oracle of this check (see kit.Watchdog).
var stallWatch *kit.Watchdog

func markCase(class, desc string) {
	if stallWatch != nil {
		stallWatch.Case(class, desc)
	}
}

func (tw *tworld) deliver(rc recipe) (panics []string, err error) {
	markCase(fmt.Sprintf("structured/type%d/%s/code%d", rc.mt, rc.hdr.PingType, rc.hdr.PingCode), strings.Join(rc.note, ", "))
	raw, err := tw.wire(rc)
	if err != nil {
		return nil, err
	}
	np := len(tw.w.Panics)
	switch {
	case rc.fromP && rc.via == 0:
		tw.w.Inject(tw.x, tw.r, raw) // relayed by X
		rc.via = 0
	}
	switch rc.via {
	case 0:
		if !rc.fromP {
			tw.w.Inject(tw.x, tw.r, raw)
		}
	case 1:
		tw.w.Inject(tw.y, tw.r, raw)
	default:
		tw.w.InjectVia(nil, tw.r, raw)
	}
	// the periodic cleaners run on whatever state the case left behind.
	_ = tw.w.Clean(tw.r)
	// drain side effects so that the world does not grow.
	tw.w.InFlight = nil
	tw.w.Log = nil
	for {
		select {
		case f := <-tw.r.TunDevice().SendFrame:
			f.ReturnToPool()
			continue
		case <-tw.r.TunDevice().SendRaw:
			continue
		default:
		}
		break
	}
	return tw.w.Panics[np:], nil
}

func TestC13(t *testing.T) {
	env := kit.GetEnv()
	rep := kit.NewReport("C13", env)
	rep.Rule = "(1) raw bytes: every byte string of length 0..2, every prefix of 14 valid frames, each valid frame + 1 byte, through parser, switch and router of a real router; link reader: every 2-byte string as the first bytes of a connection, garbage (0/exact/short/long following bytes) at each of the 3 handshake read positions, a sweep of ~700 length-prefix values x {exact, short} after the handshake; well-formed, correctly signed link-setup messages of a peer that owns its identity, as dialling and as accepting side, with each request/response/ack field set to strings of 1..64000 bytes of {NUL, 'a', quote, DEL}, odd integers or left out; congestion: 99..1300 ping / traffic / mixed frames from an authenticated peer forwarded by the router to a real link whose neighbour stopped reading (both send queues overflow); (2) structured: 14 valid base frames (every ping type and code, traffic, session types) x all single and all pairs (different fields) of ~190 deviations over frame fields (version, TTL, flow, all interesting type values, 9 sources, 8 destinations, 10 switch blocks, sealing mode, receive link), ping framing (version, header length, type, code, follow-up, id, identity fields, raw header encodings), 25 CBOR bodies, inner packets, appendix garbage and signed hop chains (depth up to 56, self reference, loop, 3-byte labels) - always re-sealed with the authenticated peer's real keys; (2b) request/response protocols started by the router itself (pong, hello) with the peer's genuine response delivered 1-3 times, also after clock steps and interleaved with a second exchange; (2c) every base x single deviation against a router whose own hello and pong requests to the sender are pending, in both address orderings, followed by a 31 s clock step and the periodic cleaners; the periodic cleaners also run after every case of (2); (3) cases are delivered back to back to long-lived routers (worlds are renewed every 40 cases or after a panic), so every case also runs from the state its predecessors left; non-trivial = every case except the 14 unmodified bases; distinct = distinct (base, deviation set)"
	stallWatch = rep.StartWatchdog(env, 0)
	defer stallWatch.Stop()
	rep.Assumptions = []string{
		"a stall inside one synchronous handler call is observed in real time: a case that does not return within 300 s (cases take milliseconds) is reported as stalled and ends the shard",
		"a panic is observed exactly where production observes it: recovered by the worker wrapper of the module manager (ErrWorkerPanic) or as a worker-panic alert for link workers",
		"the double-return guard of the frame pool panics, so 'each frame buffer released at most once' is observed as absence of that panic",
		"byte strings longer than the enumerated shapes are covered only through structured deviations",
	}
	var evals, nontrivial, transitions int64
	outcomes := map[string]int{}
	caseNo := 0
	mine := func() bool { caseNo++; return env.Mine(caseNo) }

	devs := deviations()
	rep.Bounds["deviations"] = len(devs)
	var baseNames []string
	synctest.Test(t, func(t *testing.T) {
		for n := range bases(build()) {
			baseNames = append(baseNames, n)
		}
	})
	sortStrings(baseNames)
	rep.Bounds["bases"] = len(baseNames)

	// runs a list of cases on long-lived worlds inside one bubble.
	type tcase struct {
		base string
		devs []int
	}
	runBatch := func(cases []tcase) {
		synctest.Test(t, func(t *testing.T) {
			var tw *tworld
			used := 0
			for _, c := range cases {
				if tw == nil || used >= 40 {
					tw = build()
					used = 0
				}
				used++
				rc := bases(tw)[c.base].clone()
				var names []string
				for _, di := range c.devs {
					devs[di].apply(tw, &rc)
					names = append(names, devs[di].name)
				}
				var pans []string
				var err error
				hp, hv := kit.Try(func() { pans, err = tw.deliver(rc) })
				evals++
				transitions++
				if len(c.devs) > 0 {
					nontrivial++
				}
				desc := fmt.Sprintf("base=%s deviations=%v", c.base, names)
				switch {
				case hp:
					rep.Violate("harness-level-panic/"+panicKey(fmt.Sprint(hv)), fmt.Sprintf("panic outside a worker wrapper: %v; %s", hv, desc), map[string]any{"base": c.base, "deviations": names})
					tw = nil
					outcomes["panic"]++
				case len(pans) > 0:
					rep.Violate("panic/"+panicKey(pans[0]), fmt.Sprintf("worker panic: %s; %s", pans[0], desc), map[string]any{"base": c.base, "deviations": names})
					tw = nil
					outcomes["panic"]++
				case err != nil:
					outcomes["not-buildable"]++
				default:
					outcomes["handled"]++
				}
				if evals%20000 == 1 {
					rep.Sample(map[string]any{"base": c.base, "deviations": names})
				}
			}
		})
	}

	var batch []tcase
	flush := func() {
		if len(batch) > 0 {
			runBatch(batch)
			batch = nil
		}
	}
	for _, b := range baseNames {
		if mine() {
			batch = append(batch, tcase{b, nil})
		}
		for i := range devs {
			if mine() {
				batch = append(batch, tcase{b, []int{i}})
			}
		}
		flush()
		// pairs of deviations in different fields.
		for i := range devs {
			if !mine() {
				continue
			}
			for j := i + 1; j < len(devs); j++ {
				if devs[i].field == devs[j].field {
					continue
				}
				if !env.Thorough() && (i+j)%3 != 0 {
					continue
				}
				batch = append(batch, tcase{b, []int{i, j}})
			}
			if len(batch) > 400 {
				flush()
			}
		}
		flush()
	}

	// (2c) every base and single deviation against a router that has its own
	// hello and pong requests to X pending, in both address orderings.
	for _, swap := range []bool{false, true} {
		for _, b := range baseNames {
			if !mine() {
				continue
			}
			synctest.Test(t, func(t *testing.T) {
				for i := -1; i < len(devs); i++ {
					tw := buildFlavour(swap, true)
					rc := bases(tw)[b].clone()
					var names []string
					if i >= 0 {
						devs[i].apply(tw, &rc)
						names = append(names, devs[i].name)
					}
					var pans []string
					var err error
					hp, hv := kit.Try(func() {
						pans, err = tw.deliver(rc)
						time.Sleep(31 * time.Second)
						np := len(tw.w.Panics)
						_ = tw.w.Clean(tw.r)
						pans = append(pans, tw.w.Panics[np:]...)
					})
					evals++
					transitions += 2
					nontrivial++
					desc := fmt.Sprintf("own hello+pong to X pending (addresses swapped=%v), then base=%s deviations=%v, then cleaners", swap, b, names)
					switch {
					case hp:
						rep.Violate("harness-level-panic/"+panicKey(fmt.Sprint(hv)), fmt.Sprintf("panic outside a worker wrapper: %v; %s", hv, desc), map[string]any{"base": b, "deviations": names, "pending": true, "swap": swap})
						outcomes["panic"]++
					case len(pans) > 0:
						rep.Violate("pending/panic/"+panicKey(pans[0]), fmt.Sprintf("worker panic: %s; %s", pans[0], desc), map[string]any{"base": b, "deviations": names, "pending": true, "swap": swap})
						outcomes["panic"]++
					case err != nil:
						outcomes["not-buildable"]++
					default:
						outcomes["handled"]++
					}
				}
			})
		}
	}

	protocolRepeats(t, rep, env, &evals, &nontrivial, &transitions, outcomes, mine)
	runPairSched(t, rep, env)
	rawBytes(t, rep, env, &evals, &nontrivial, &transitions, outcomes, mine)
	linkReader(t, rep, env, &evals, &nontrivial, &transitions, outcomes, mine)
	maliciousHandshake(t, rep, env, &evals, &nontrivial, &transitions, outcomes, mine)

	for k, v := range outcomes {
		for i := 0; i < v; i++ {
			rep.Outcome(k)
			if i > 2 {
				break
			}
		}
	}
	rep.Bounds["outcome_counts"] = outcomes
	rep.Add(evals, nontrivial, 1, transitions)
	if err := rep.Finish(env); err != nil {
		t.Fatal(err)
	}
	_ = state.DefaultPrecision
}

func sortStrings(s []string) {
	for i := range s {
		for j := i + 1; j < len(s); j++ {
			if s[j] < s[i] {
				s[i], s[j] = s[j], s[i]
			}
		}
	}
}
