package c13

import (
	"fmt"
	"testing"
	"testing/synctest"
	"time"

	"verif/kit"
)

// protocolRepeats: exchanges the router starts itself, with the peer's genuine,
// correctly sealed answers delivered several times and in several orders.
func protocolRepeats(t *testing.T, rep *kit.Report, env kit.Env, evals, nontrivial, transitions *int64, outcomes map[string]int, mine func() bool) {
	type starter struct {
		name  string
		start func(tw *tworld) error
	}
	starters := []starter{
		{"pong-to-peer", func(tw *tworld) error {
			_, _, err := tw.r.Router().PingPong.Send(tw.x.Identity().IP, true, 0)
			return err
		}},
		{"pong-routed", func(tw *tworld) error {
			_, _, err := tw.r.Router().PingPong.Send(tw.x.Identity().IP, false, 0)
			return err
		}},
		{"hello", func(tw *tworld) error { _, err := tw.r.Router().HelloPing.Send(tw.x.Identity().IP); return err }},
	}
	// keep-alive style retry: the same ping id is sent twice and BOTH (distinct,
	// correctly sealed) answers arrive.
	for _, peer := range []bool{true, false} {
		for _, extra := range []int{0, 1, 2} {
			if !mine() {
				continue
			}
			peer, extra := peer, extra
			markCase("repeat", "repeat part")
			synctest.Test(t, func(t *testing.T) {
				tw := build()
				_, id, err := tw.r.Router().PingPong.Send(tw.x.Identity().IP, peer, 0)
				must(err)
				for i := 0; i <= extra; i++ {
					time.Sleep(time.Second)
					_, _, err = tw.r.Router().PingPong.Send(tw.x.Identity().IP, peer, id)
					must(err)
				}
				np := len(tw.w.Panics)
				for len(tw.w.InFlight) > 0 {
					hp, hv := kit.Try(func() { tw.w.Deliver(0) })
					if hp {
						tw.w.Panics = append(tw.w.Panics, fmt.Sprint("outside worker: ", hv))
						break
					}
					*transitions++
				}
				*evals++
				*nontrivial++
				desc := fmt.Sprintf("pong request retried %d times with the same ping id (peer=%v), all answers delivered", extra+1, peer)
				if len(tw.w.Panics) > np {
					rep.Violate("repeat/panic/"+panicKey(tw.w.Panics[np]), fmt.Sprintf("worker panic %s on %s", tw.w.Panics[np], desc), desc)
					outcomes["panic"]++
				} else {
					outcomes["repeat-handled"]++
				}
			})
		}
	}
	patterns := [][]string{{"d"}, {"d", "d"}, {"d", "d", "d"}, {"d", "sleep6", "d"}, {"d", "sleep31", "d"}, {"sleep31", "d", "d"}, {"d", "again", "d", "d"}}
	for _, st := range starters {
		for pi, pat := range patterns {
			if !mine() {
				continue
			}
			st, pat := st, pat
			markCase("repeat", "repeat part")
			synctest.Test(t, func(t *testing.T) {
				tw := build()
				capture := func() []byte {
					if err := st.start(tw); err != nil {
						return nil
					}
					// deliver the request to X, keep X's answer.
					for len(tw.w.InFlight) > 0 && tw.w.InFlight[0].To == tw.x {
						tw.w.Deliver(0)
					}
					for i, fl := range tw.w.InFlight {
						if fl.To == tw.r {
							b := fl.Bytes
							tw.w.Drop(i)
							return b
						}
					}
					return nil
				}
				resp := capture()
				if resp == nil {
					panic("harness: no response captured for " + st.name)
				}
				np := len(tw.w.Panics)
				for _, step := range pat {
					switch step {
					case "d":
						hp, hv := kit.Try(func() { tw.w.Inject(tw.x, tw.r, resp) })
						if hp {
							tw.w.Panics = append(tw.w.Panics, fmt.Sprint("outside worker: ", hv))
						}
					case "sleep6":
						time.Sleep(6 * time.Second)
					case "sleep31":
						time.Sleep(31 * time.Second)
						_ = tw.r.Router().VerifClean()
					case "again":
						time.Sleep(31 * time.Second)
						if r2 := capture(); r2 != nil {
							tw.w.Inject(tw.x, tw.r, r2)
						}
					}
					*transitions++
				}
				*evals++
				*nontrivial++
				desc := fmt.Sprintf("exchange %s started by the router, answer delivery pattern %v", st.name, pat)
				if len(tw.w.Panics) > np {
					rep.Violate("repeat/panic/"+panicKey(tw.w.Panics[np]), fmt.Sprintf("worker panic %s on %s", tw.w.Panics[np], desc), map[string]any{"exchange": st.name, "pattern": pat})
					outcomes["panic"]++
				} else {
					outcomes["repeat-handled"]++
				}
				_ = pi
			})
		}
	}
}
