// C13, interleaving tier: frames of one authenticated peer are handled by one
// frame handler per CPU, so the handlers of two frames run AT THE SAME TIME on
// the same sessions, ping states, routing table and link registry. The router,
// state, m, peering and switchr packages are compiled with their sync /
// sync/atomic imports rewritten to the controlled-scheduler shims; harness
// threads deliver two valid frames of every pair of kinds (also twice the same
// kind, also to a router whose own hello / pong exchanges with the sender are
// pending, both address orders) CONCURRENTLY to the real switch and router
// handlers; ALL schedules up to a preemption bound are explored. Oracle: no
// panic (incl. the double release of a frame buffer), no deadlock (a handler
// blocked for ever on a lock another handler holds = a stalled worker).
package c13

import (
	"fmt"
	"net/netip"
	"sort"
	"strings"
	"testing"
	"testing/synctest"
	"time"

	"verif/kit"
	"verif/schedx"

	"github.com/mycoria/mycoria/m"
)

type pairConc struct {
	name          string
	swap, pending bool
	threads       [][]string // base names
}

func (c pairConc) build() *schedx.Instance {
	tw := buildFlavour(c.swap, c.pending)
	// a populated routing table: routes learned through X and Y to destinations that sort
	// before and after the peers, so that a disconnect of X removes many entries at once.
	for i, d := range []string{"fd00:1::1", "fd00:2::1", "fd00:3::1", "fd01:4::1", "fd01:5::1", "fd02:6::1", "fdfe:7::1", "fdff:8::1"} {
		via := tw.x
		if i%4 == 3 {
			via = tw.y
		}
		dst := netip.MustParseAddr(d)
		sp := m.SwitchPath{Hops: []m.SwitchHop{
			{Router: tw.r.Identity().IP, Delay: 5, ForwardLabel: 11},
			{Router: via.Identity().IP, Delay: 5, ForwardLabel: 3, ReturnLabel: 4},
			{Router: dst, ReturnLabel: 9},
		}}
		sp.CalculateTotals()
		// (destinations outside this router's routable prefixes are refused: fine, the others stay)
		_, _ = tw.r.RoutingTable().AddRoute(m.RoutingTableEntry{DstIP: dst, NextHop: via.Identity().IP, Path: sp, Source: m.RouteSourceGossip, Expires: time.Now().Add(time.Hour)})
	}
	bs := bases(tw)
	in := &schedx.Instance{}
	for _, th := range c.threads {
		var ops []schedx.Op
		for _, name := range th {
			rc := bs[name].clone()
			if strings.HasSuffix(c.name, "[genuine ids]") {
				// the responses answer the requests R really has pending.
				if id, ok := tw.pendingIDs[rc.hdr.PingType]; ok && rc.hdr.FollowUp {
					rc.hdr.PingID = id
				} else if rc.hdr.FollowUp {
					panic("harness: no pending request of type " + rc.hdr.PingType)
				}
			}
			raw, err := tw.wire(rc)
			must(err)
			via := tw.x
			ops = append(ops, schedx.Op{Name: "deliver(" + name + ")", Do: func() { tw.w.Inject(via, tw.r, raw) }})
		}
		in.Threads = append(in.Threads, ops)
	}
	in.Observe = func() string { return "" }
	in.Check = func(ex *schedx.Exec) {
		// the periodic cleaners run on whatever the concurrent handlers left behind.
		_ = tw.w.Clean(tw.r)
		for _, p := range tw.w.Panics {
			ex.Bad("panic/"+panicKey(p), "worker panic while two frames of one peer were handled concurrently: %s", p)
		}
		ex.Sig = fmt.Sprintf("panics=%d emitted=%d", len(tw.w.Panics), len(tw.w.Log))
	}
	return in
}

func pairConcs(deep bool) []pairConc {
	kinds := []string{"hello-request", "hello-response", "pong-request", "pong-response", "error-unreach-x", "error-nokeys", "error-denied", "disconnect", "announce", "traffic"}
	sort.Strings(kinds)
	var out []pairConc
	for _, fl := range []struct {
		n             string
		swap, pending bool
	}{{"plain", false, false}, {"own-exchanges-pending", false, true}, {"own-exchanges-pending/other-address-order", true, true}} {
		for i, a := range kinds {
			for _, b := range kinds[i:] {
				if !fl.pending && !deep && a != b && a != "announce" && b != "announce" && a != "disconnect" && b != "disconnect" && a != "hello-request" && b != "hello-request" {
					continue // quick tier: the plain flavour keeps the pairs around shared tables and key state
				}
				out = append(out, pairConc{name: fl.n + "/" + a + " | " + b, swap: fl.swap, pending: fl.pending, threads: [][]string{{a}, {b}}})
			}
		}
	}
	// the peer's responses carry the ids of the requests R really has pending (two responses
	// to one request handled at once, a response next to a new request of the peer).
	for _, swap := range []bool{false, true} {
		for _, pr := range [][2]string{{"pong-response", "pong-response"}, {"hello-response", "hello-response"}, {"pong-response", "hello-response"}, {"pong-response", "pong-request"}, {"hello-response", "hello-request"}} {
			out = append(out, pairConc{name: fmt.Sprintf("own-exchanges-pending/swap=%v/%s | %s [genuine ids]", swap, pr[0], pr[1]), swap: swap, pending: true, threads: [][]string{{pr[0]}, {pr[1]}}})
		}
	}
	return out
}

func (c pairConc) conc(t *testing.T, bubble bool) schedx.Conc {
	cc := schedx.Conc{Name: "concurrent-frames/" + c.name, Build: c.build, MaxPoints: 80000, InvariantOnly: true}
	if bubble {
		cc.Wrap = func(f func()) { synctest.Test(t, func(t *testing.T) { f() }) }
	} else {
		cc.Wrap = func(f func()) {
			t.Run("bubble", func(t *testing.T) { synctest.Test(t, func(t *testing.T) { f() }) })
		}
	}
	return cc
}

func runPairSched(t *testing.T, rep *kit.Report, env kit.Env) {
	bound := 1
	if env.Deep() {
		bound = 2
	}
	rep.Bounds["sched_preemption_bound"] = bound
	top := 0
	for _, c := range pairConcs(env.Deep()) {
		// (marked here, outside the bubbles of virtual time the executions run in: the
		// stall oracle measures real time)
		markCase("concurrent-frames", c.name)
		schedx.ExploreConc(rep, env, c.conc(t, true), bound, &top)
	}
	markCase("", "")
}

// TestC13Race: the same deliveries on free-running goroutines under the race
// detector (supporting evidence next to the exhaustive pass; see schedx.FreeRun).
func TestC13Race(t *testing.T) {
	env := kit.GetEnv()
	rep := kit.NewReport("C13", env)
	defer func() { _ = rep.Finish(env) }()
	iters := 12
	if env.Deep() {
		iters = 150
	}
	var n int64
	var all []schedx.Conc
	for _, c := range pairConcs(env.Deep()) {
		all = append(all, c.conc(t, false))
	}
	n = schedx.FreeRunAll(rep, env, all, false, iters)
	rep.Add(n, 0, 0, 0)
	rep.OutcomeN("free-running race-detector pass [iterations]", n)
}
