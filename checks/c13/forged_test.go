package c13

import (
	"fmt"
	"net/netip"

	"verif/kit"

	"github.com/mycoria/crop"
	"github.com/mycoria/mycoria/m"
)

// forgedIdentity is a SELF-CONSISTENT malformed identity: its address really is the digest
// of its (malformed) key material, so the address / key check cannot tell it from a
// genuine one by the digest alone - only by the key type and key size.
type forgedIdentity struct {
	ip   netip.Addr
	hash crop.Hash
	typ  crop.KeyPairType
	key  []byte
	note string
}

func forgedDigest(h crop.Hash, typ crop.KeyPairType, key []byte) []byte {
	hh := h.New()
	if hh == nil || len(typ) > 0xFF || len(key) > 0xFFFF {
		return nil
	}
	buf := []byte{1, byte(len(typ)), byte(len(key) >> 8), byte(len(key))}
	buf = append(buf, []byte(typ)...)
	buf = append(buf, key...)
	_, _ = hh.Write(buf)
	return hh.Sum(nil)
}

var forgedIDs = func() []forgedIdentity {
	d := kit.NewDRBG("c13-forgeries", 5)
	var out []forgedIdentity
	for _, c := range []struct {
		typ crop.KeyPairType
		sz  int
	}{{"Ed25519", 0}, {"Ed25519", 1}, {"Ed25519", 31}, {"Ed25519", 33}, {"Ed25519", 64}, {"Ed25519", 255}, {"RSA", 32}, {"", 32}} {
		for tries := 0; tries < 400000; tries++ {
			key := make([]byte, c.sz+8)
			_, _ = d.Read(key)
			key = key[:c.sz]
			typ := c.typ
			if c.sz == 0 {
				// no key bytes to grind on: grind on nothing is impossible, vary the hash input via the type's case is not
				// allowed either - skip unless the digest happens to fit (it does not): use a 2-byte key instead.
				key = make([]byte, 2)
				_, _ = d.Read(key)
			}
			dg := forgedDigest(crop.BLAKE3, typ, key)
			if len(dg) < 16 || dg[0] != 0xfd {
				continue
			}
			ip := netip.AddrFrom16([16]byte(dg[:16]))
			if m.InternalPrefix.Contains(ip) {
				continue
			}
			out = append(out, forgedIdentity{ip: ip, hash: crop.BLAKE3, typ: typ, key: key, note: fmt.Sprintf("type=%q keylen=%d", string(typ), len(key))})
			break
		}
	}
	return out
}()
