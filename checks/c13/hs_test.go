package c13

import (
	"crypto/ecdh"
	"crypto/rand"
	"fmt"
	"strings"
	"testing"
	"testing/synctest"
	"time"

	"github.com/fxamacker/cbor/v2"

	"verif/kit"

	"github.com/mycoria/crop"
	"github.com/mycoria/mycoria/config"
	"github.com/mycoria/mycoria/frame"
	"github.com/mycoria/mycoria/m"
)

// Handshake messages that are well-formed and correctly signed by a peer that
// owns its identity, but carry odd or oversized fields.

type preq struct {
	RouterVersion string          `cbor:"v,omitempty"`
	Universe      string          `cbor:"u,omitempty"`
	LiteMode      bool            `cbor:"lm,omitempty"`
	Address       m.PublicAddress `cbor:"a,omitempty"`
	Challenge     []byte          `cbor:"c,omitempty"`
	LinkVersion   int             `cbor:"lv,omitempty"`
	TunMTU        int             `cbor:"tmtu,omitempty"`
}

type presp struct {
	Challenge       []byte `cbor:"c,omitempty"`
	UniverseAuth    []byte `cbor:"ua,omitempty"`
	KeyExchange     []byte `cbor:"kx,omitempty"`
	KeyExchangeType string `cbor:"kxt,omitempty"`
	Err             string `cbor:"err,omitempty"`
}

type pack struct {
	Ack             bool   `cbor:"ack,omitempty"`
	KeyExchange     []byte `cbor:"kx,omitempty"`
	KeyExchangeType string `cbor:"kxt,omitempty"`
	Err             string `cbor:"err,omitempty"`
}

// hsFrame builds a raw-signed handshake frame with the 2-byte length prefix.
// The frame is assembled by hand (an attacker is not bound by the message-size
// limit of the frame builder); nil if it does not fit a link frame.
func hsFrame(att *kit.Node, dst m.PublicAddress, multicast bool, msg []byte, ts time.Time) []byte {
	if 2+51+len(msg)+64 > 0xFFFF {
		return nil
	}
	b := frame.NewFrameBuilder()
	d := dst.IP
	if multicast {
		d = m.RouterAddress
	}
	f0, err := b.NewFrameV1(att.Identity().IP, d, frame.RouterPing, nil, []byte{1}, nil)
	must(err)
	hd, _ := f0.FrameDataWithMargins(0, 0)
	raw := append([]byte(nil), hd[:48]...)
	f0.ReturnToPool()
	raw = append(raw, 0, byte(len(msg)>>8), byte(len(msg)))
	raw = append(raw, msg...)
	raw = append(raw, make([]byte, 64)...)
	f, err := b.ParseFrameV1(raw, nil, 0)
	must(err)
	f.SetTTL(0)
	f.SetSequenceTime(ts)
	must(f.SignRaw(att.Identity().PrivateKey))
	f.SetTTL(1)
	out := make([]byte, 2, 2+len(raw))
	out = append(out, raw...)
	m.PutUint16(out[:2], uint16(len(out)))
	return out
}

func hsMsgOf(wire []byte) []byte {
	raw := wire[2:]
	sw := int(raw[48])
	ml := int(raw[49+sw])<<8 | int(raw[50+sw])
	return raw[51+sw : 51+sw+ml]
}

type hsDeviation struct {
	name  string
	apply func(rq *preq, rs *presp, ak *pack)
}

func hsDeviations() []hsDeviation {
	var out []hsDeviation
	out = append(out, hsDeviation{"none", func(*preq, *presp, *pack) {}})
	fill := func(n int, c byte) string { return strings.Repeat(string([]byte{c}), n) }
	for _, n := range []int{1, 300, 5000, 17000, 40000, 64000} {
		for _, c := range []byte{0, 'a', '"', 0x7f} {
			n, c := n, c
			s := fill(n, c)
			tag := fmt.Sprintf("%dx%#02x", n, c)
			out = append(out,
				hsDeviation{"request.version=" + tag, func(rq *preq, _ *presp, _ *pack) { rq.RouterVersion = s }},
				hsDeviation{"request.universe=" + tag, func(rq *preq, _ *presp, _ *pack) { rq.Universe = s }},
				hsDeviation{"request.address.hash=" + tag, func(rq *preq, _ *presp, _ *pack) { rq.Address.Hash = crop.Hash(s) }},
				hsDeviation{"request.address.type=" + tag, func(rq *preq, _ *presp, _ *pack) { rq.Address.Type = crop.KeyPairType(s) }},
				hsDeviation{"request.challenge=" + tag, func(rq *preq, _ *presp, _ *pack) { rq.Challenge = []byte(s) }},
				hsDeviation{"response.kxt=" + tag, func(_ *preq, rs *presp, _ *pack) { rs.KeyExchangeType = s }},
				hsDeviation{"response.kx=" + tag, func(_ *preq, rs *presp, _ *pack) { rs.KeyExchange = []byte(s) }},
				hsDeviation{"response.err=" + tag, func(_ *preq, rs *presp, _ *pack) { rs.Err = s }},
				hsDeviation{"response.challenge=" + tag, func(_ *preq, rs *presp, _ *pack) { rs.Challenge = []byte(s) }},
				hsDeviation{"response.universe-auth=" + tag, func(_ *preq, rs *presp, _ *pack) { rs.UniverseAuth = []byte(s) }},
				hsDeviation{"ack.kxt=" + tag, func(_ *preq, _ *presp, ak *pack) { ak.KeyExchangeType = s }},
				hsDeviation{"ack.kx=" + tag, func(_ *preq, _ *presp, ak *pack) { ak.KeyExchange = []byte(s) }},
				hsDeviation{"ack.err=" + tag, func(_ *preq, _ *presp, ak *pack) { ak.Err = s }},
			)
		}
	}
	for _, v := range []int{0, 2, -1, 1 << 40} {
		v := v
		out = append(out,
			hsDeviation{fmt.Sprintf("request.link-version=%d", v), func(rq *preq, _ *presp, _ *pack) { rq.LinkVersion = v }},
			hsDeviation{fmt.Sprintf("request.tun-mtu=%d", v), func(rq *preq, _ *presp, _ *pack) { rq.TunMTU = v }},
		)
	}
	out = append(out,
		hsDeviation{"response.no-kx", func(_ *preq, rs *presp, _ *pack) { rs.KeyExchange, rs.KeyExchangeType = nil, "" }},
		hsDeviation{"ack.not-acked", func(_ *preq, _ *presp, ak *pack) { ak.Ack = false }},
		hsDeviation{"ack.no-kx", func(_ *preq, _ *presp, ak *pack) { ak.KeyExchange, ak.KeyExchangeType = nil, "" }},
	)
	return out
}

// maliciousHandshake: peer ATT (own, valid identity) speaks the link setup with
// router R as the dialling or the accepting side, with one deviation.
func maliciousHandshake(t *testing.T, rep *kit.Report, env kit.Env, evals, nontrivial, transitions *int64, outcomes map[string]int, mine func() bool) {
	devs := hsDeviations()
	for _, rDials := range []bool{false, true} {
		for di := range devs {
			if !mine() {
				continue
			}
			dv := devs[di]
			markCase("handshake", "handshake part")
			synctest.Test(t, func(t *testing.T) {
				r, err := kit.NewNode(kit.NodeOpts{Name: "R", ID: pool[0], Store: config.Store{}})
				must(err)
				att, err := kit.NewNode(kit.NodeOpts{Name: "ATT", ID: pool[1], Store: config.Store{}})
				must(err)
				watch := kit.WatchPanics(r)
				ep := kit.NewEndpoint("att")
				var pv any
				done := false
				go func() {
					if rDials {
						_, pv = kit.Try(func() { _, _ = r.Peering().VerifSetupLink(ep, nil, true) })
					} else {
						_, pv = kit.Accept(r, ep)
					}
					done = true
				}()
				synctest.Wait()
				steps := 0
				func() {
					out := ep.Take()
					if len(out) == 0 {
						return
					}
					var rreq preq
					must(cbor.Unmarshal(hsMsgOf(out[0]), &rreq))
					now := time.Now().Round(time.Millisecond)
					kx, _ := ecdh.X25519().GenerateKey(rand.Reader)
					rq := preq{RouterVersion: "v", Address: att.Identity().PublicAddress, Challenge: make([]byte, 32), LinkVersion: 1}
					rs := presp{Challenge: rreq.Challenge}
					ak := pack{Ack: true}
					if rDials {
						// R is the client: the accepting side answers the key exchange in its ack.
						ak.KeyExchange, ak.KeyExchangeType = kx.PublicKey().Bytes(), "ECDH-X25519/BLAKE3"
					} else {
						rs.KeyExchange, rs.KeyExchangeType = kx.PublicKey().Bytes(), "ECDH-X25519/BLAKE3"
					}
					dv.apply(&rq, &rs, &ak)
					msgs := [][]byte{kit.MustCBOR(&rq), kit.MustCBOR(&rs), kit.MustCBOR(&ak)}
					for i, msg := range msgs {
						w := hsFrame(att, r.Identity().PublicAddress, i == 0, msg, now.Add(time.Duration(i-1)*time.Millisecond))
						if w == nil {
							outcomes["hs-not-buildable"]++
							return
						}
						ep.Feed(w)
						steps++
						synctest.Wait()
						if done || len(ep.Take()) == 0 {
							return
						}
					}
				}()
				*evals++
				*transitions += int64(steps)
				if dv.name != "none" {
					*nontrivial++
				}
				what := fmt.Sprintf("link setup (router dials=%v) with a correctly signed peer, deviation %s", rDials, dv.name)
				if dv.name == "none" && r.Peering().LinkCnt() != 1 {
					panic("harness: the undeviated scripted handshake did not register a link")
				}
				if pv != nil {
					rep.Violate("link/handshake-fields/panic/"+panicKey(fmt.Sprint(pv)), fmt.Sprintf("link setup panicked: %v on %s", pv, what), map[string]any{"router_dials": rDials, "deviation": dv.name})
					outcomes["panic"]++
				} else if al := watch(); len(al) > 0 {
					rep.Violate("link/handshake-fields/worker-panic/"+panicKey(al[0]), fmt.Sprintf("link worker panicked: %s on %s", al[0], what), map[string]any{"router_dials": rDials, "deviation": dv.name})
					outcomes["panic"]++
				} else {
					outcomes["link-handled"]++
				}
				for _, l := range r.Peering().GetLinks() {
					l.Close(nil)
				}
				ep.FeedEOF()
				synctest.Wait()
				_ = r.Peering().Stop()
				_ = ep.Close()
				synctest.Wait()
			})
		}
	}
}
