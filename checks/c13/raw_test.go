package c13

import (
	"fmt"
	"testing"
	"testing/synctest"

	"verif/kit"

	"github.com/mycoria/mycoria/config"
	"github.com/mycoria/mycoria/frame"
)

// rawBytes feeds raw byte strings to parser, switch and router.
func rawBytes(t *testing.T, rep *kit.Report, env kit.Env, evals, nontrivial, transitions *int64, outcomes map[string]int, mine func() bool) {
	if !mine() && env.Shards > 1 && env.Shard != 0 {
		return
	}
	markCase("raw", "raw part")
	synctest.Test(t, func(t *testing.T) {
		tw := build()
		try := func(raw []byte, what string) {
			np := len(tw.w.Panics)
			hp, hv := kit.Try(func() { tw.w.Inject(tw.x, tw.r, raw) })
			*evals++
			*nontrivial++
			*transitions++
			tw.w.InFlight, tw.w.Log = nil, nil
			switch {
			case hp:
				rep.Violate("raw/harness-level-panic/"+panicKey(fmt.Sprint(hv)), fmt.Sprintf("panic outside a worker: %v on %s", hv, what), what)
				tw = build()
			case len(tw.w.Panics) > np:
				rep.Violate("raw/panic/"+panicKey(tw.w.Panics[np]), fmt.Sprintf("worker panic %s on %s", tw.w.Panics[np], what), what)
				tw = build()
				outcomes["panic"]++
			default:
				outcomes["raw-handled"]++
			}
		}
		try(nil, "empty input")
		for a := 0; a < 256; a++ {
			try([]byte{byte(a)}, fmt.Sprintf("1-byte string %#x", a))
			for b := 0; b < 256; b++ {
				try([]byte{byte(a), byte(b)}, fmt.Sprintf("2-byte string %#x %#x", a, b))
			}
		}
		bs := bases(tw)
		for name := range bs {
			raw, err := tw.wire(bs[name])
			if err != nil {
				continue
			}
			for l := 0; l <= len(raw); l++ {
				try(append([]byte(nil), raw[:l]...), fmt.Sprintf("prefix %d/%d of valid %s frame", l, len(raw), name))
			}
			for _, extra := range []byte{0, 1, 0xff} {
				raw2, _ := tw.wire(bs[name])
				try(append(raw2, extra), fmt.Sprintf("valid %s frame + byte %#x", name, extra))
			}
		}
	})
}

// linkReader feeds garbage to the real link reader before, during and after the handshake.
func linkReader(t *testing.T, rep *kit.Report, env kit.Env, evals, nontrivial, transitions *int64, outcomes map[string]int, mine func() bool) {
	mk := func(name string, i int) *kit.Node {
		n, err := kit.NewNode(kit.NodeOpts{Name: name, ID: pool[i], Store: config.Store{}})
		must(err)
		return n
	}
	report := func(where string, watch func() []string, p any, what string) bool {
		if p != nil {
			rep.Violate("link/"+where+"/panic/"+panicKey(fmt.Sprint(p)), fmt.Sprintf("link setup panicked: %v on %s", p, what), what)
			outcomes["panic"]++
			return true
		}
		if al := watch(); len(al) > 0 {
			rep.Violate("link/"+where+"/worker-panic/"+panicKey(al[0]), fmt.Sprintf("link worker panicked: %s on %s", al[0], what), what)
			outcomes["panic"]++
			return true
		}
		outcomes["link-handled"]++
		return false
	}
	// (a) first bytes of a connection: every 2-byte string, then EOF; and with 60 following bytes.
	for a := 0; a < 256; a++ {
		if !mine() {
			continue
		}
		markCase("raw", "raw part")
		synctest.Test(t, func(t *testing.T) {
			for b := 0; b < 256; b++ {
				for _, follow := range []int{0, 60} {
					r := mk("R", 0)
					watch := kit.WatchPanics(r)
					ep := kit.NewEndpoint("adv")
					var pv any
					go func() {
						_, pv = kit.Accept(r, ep)
					}()
					synctest.Wait()
					ep.Feed([]byte{byte(a), byte(b)})
					if follow > 0 {
						ep.Feed(make([]byte, follow))
					}
					synctest.Wait()
					ep.FeedEOF()
					synctest.Wait()
					*evals++
					*nontrivial++
					*transitions++
					report("first-bytes", watch, pv, fmt.Sprintf("first bytes %#x %#x + %d zero bytes", a, b, follow))
					_ = r.Peering().Stop()
					synctest.Wait()
				}
			}
		})
	}
	// (b) garbage at each handshake read position (messages 1, 3, 5 as seen by A = B's messages).
	lens := []int{0, 1, 2, 3, 4, 5, 11, 12, 27, 28, 48, 49, 50, 51, 66, 67, 68, 100, 500, 65535}
	for pos := 0; pos < 3; pos++ {
		for _, l := range lens {
			for _, follow := range []string{"none", "exact", "short", "long"} {
				if !mine() {
					continue
				}
				pos, l, follow := pos, l, follow
				markCase("raw", "raw part")
				synctest.Test(t, func(t *testing.T) {
					a, b := mk("A", 0), mk("B", 1)
					watch := kit.WatchPanics(a)
					w := kit.NewWire(a, b)
					seenB := 0
					w.OnMsg = func(idx int, fromA bool, msg []byte) (toB, toA [][]byte) {
						if fromA {
							return kit.Honest(fromA, msg)
						}
						seenB++
						if seenB-1 != pos {
							return kit.Honest(fromA, msg)
						}
						g := []byte{byte(l >> 8), byte(l)}
						n := 0
						switch follow {
						case "exact":
							n = l - 2
						case "short":
							n = (l - 2) / 2
						case "long":
							n = l + 40
						}
						if n < 0 {
							n = 0
						}
						body := make([]byte, n)
						for i := range body {
							body[i] = byte(i*13 + 1)
						}
						if n > 0 {
							body[0] = 1 // frame version
						}
						return nil, [][]byte{append(g, body...)}
					}
					w.Start()
					w.Pump(12)
					*evals++
					*nontrivial++
					*transitions++
					report(fmt.Sprintf("handshake-read-%d", pos+1), watch, w.PanicA, fmt.Sprintf("handshake read position %d: length prefix %d with %s following bytes", pos+1, l, follow))
					w.Shutdown()
				})
			}
		}
	}
	// (c) after the handshake: sweep of length prefixes.
	var sweep []int
	for l := 0; l <= 300; l++ {
		sweep = append(sweep, l)
	}
	for l := 301; l < 65535; l += 251 {
		sweep = append(sweep, l)
	}
	sweep = append(sweep, 599, 600, 601, 1599, 1600, 1601, 5099, 5100, 5101, 9599, 9600, 9601, 65534, 65535)
	for ci := 0; ci < len(sweep); ci += 30 {
		if !mine() {
			continue
		}
		ci := ci
		for _, follow := range []string{"exact", "short-then-eof"} {
			follow := follow
			markCase("raw", "raw part")
			synctest.Test(t, func(t *testing.T) {
				a, b := mk("A", 0), mk("B", 1)
				watch := kit.WatchPanics(a)
				w := kit.NewWire(a, b)
				w.Start()
				w.Pump(12)
				if w.LinkA == nil {
					panic("harness: handshake failed")
				}
				for _, l := range sweep[ci:min(ci+30, len(sweep))] {
					g := []byte{byte(l >> 8), byte(l)}
					n := l - 2
					if follow != "exact" {
						n = (l - 2) / 2
					}
					if n < 0 || l <= 3 {
						n = 0
					}
					body := make([]byte, n)
					for i := range body {
						body[i] = byte(i*29 + l)
					}
					w.EA.Feed(append(g, body...))
					synctest.Wait()
					*evals++
					*nontrivial++
					*transitions++
					if report("post-handshake", watch, nil, fmt.Sprintf("post-handshake link frame with length prefix %d and %s body", l, follow)) {
						break
					}
					if follow != "exact" {
						break // the reader now waits for the rest; end this link
					}
				}
				w.Shutdown()
			})
		}
	}
	// (d) congestion: a neighbour completes the handshake and then stops reading,
	// while an authenticated peer keeps sending frames the router must forward
	// to it - more than either send queue of the link holds.
	for _, kind := range []string{"ping(priority queue)", "traffic(regular queue)", "mixed"} {
		for _, n := range []int{99, 101, 250, 1001, 1300} {
			if !mine() {
				continue
			}
			kind, n := kind, n
			markCase("raw", "raw part")
			synctest.Test(t, func(t *testing.T) {
				wd := kit.NewWorld()
				add := func(name string, i int) *kit.Node {
					nd, err := wd.AddNode(name, pool[i], config.Store{})
					must(err)
					return nd
				}
				a, b, x := add("A", 0), add("B", 1), add("X", 2)
				_, _, err := wd.Connect(x, a, 31, 32, 5)
				must(err)
				watch := kit.WatchPanics(a)
				w := kit.NewWire(a, b)
				w.Start()
				w.Pump(12)
				if w.LinkA == nil {
					panic("harness: handshake failed")
				}
				w.EA.StallWrites(true)
				ping, err := kit.BuildPing(x, kit.PingSpec{Dst: b.Identity().IP, MsgType: frame.RouterPing, PingType: "pong", Body: []byte{1}, RawSign: true})
				must(err)
				f, err := x.FrameBuilder().NewFrameV1(x.Identity().IP, b.Identity().IP, frame.NetworkTraffic, nil, make([]byte, 80), nil)
				must(err)
				d, _ := f.FrameDataWithMargins(0, 0)
				traffic := append([]byte(nil), d...)
				f.ReturnToPool()
				np := len(wd.Panics)
				var pv any
				for i := 0; i < n; i++ {
					raw := ping
					if kind[0] == 't' || (kind[0] == 'm' && i%2 == 1) {
						raw = traffic
					}
					hp, hv := kit.Try(func() { wd.Inject(x, a, raw) })
					if hp {
						pv = hv
						break
					}
					if len(wd.Panics) > np {
						break
					}
					if i%100 == 0 {
						synctest.Wait()
					}
				}
				synctest.Wait()
				*evals++
				*nontrivial++
				*transitions += int64(n)
				what := fmt.Sprintf("%d frames of kind %s forwarded to a neighbour that stopped reading", n, kind)
				if len(wd.Panics) > np {
					rep.Violate("link/congestion/worker-panic/"+panicKey(wd.Panics[np]), fmt.Sprintf("router worker panicked: %s on %s", wd.Panics[np], what), what)
					outcomes["panic"]++
				} else {
					report("congestion", watch, pv, what)
				}
				w.EA.StallWrites(false)
				w.Shutdown()
			})
		}
	}
}
