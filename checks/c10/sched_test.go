// C10, interleaving tier: in a converged honest mesh a link is replaced (the
// old link object is torn down by its own worker while the setup worker of the
// replacement registers). The peering, m, router and state packages are
// compiled with their sync / sync/atomic imports rewritten to the
// controlled-scheduler shims; ALL schedules up to a preemption bound are
// explored. Oracle: the outcome equals that of one of the serial orders, and
// whenever A ends with a live link to B, a routed request from A to B is handed
// to B's handlers and B's reply reaches A.
package c10

import (
	"fmt"
	"sort"
	"strings"
	"testing"
	"testing/synctest"

	"verif/kit"
	"verif/schedx"
)

func deliveryJudge(rw *schedx.ReconnectWorld, ex *schedx.Exec) {
	a, b := rw.A, rw.B
	l := a.Peering().GetLink(b.Identity().IP)
	if l == nil || l.IsClosing() {
		return
	}
	notify, _, err := a.Router().PingPong.Send(b.Identity().IP, true, 0)
	if err != nil {
		ex.Bad("request-not-sent", "A has a live link to B but its routed request to B cannot be sent: %v", err)
		return
	}
	// B's end of the replaced link: the frame leaves over whichever link object A has registered.
	rw.W.Run(kit.FIFO, 50)
	select {
	case <-notify:
	default:
		ex.Bad("no-reply", "A has a live link to B, but the routed request of A was not answered by B after the link replacement")
	}
}

// relayConc: in the converged line A - B - C the relay B forwards two routed
// requests AT THE SAME TIME (the switch and the router run one handler per CPU):
// A's request to C and C's request to A (or two requests of A). Oracle: both
// requests are handed to their destination and answered, every frame the relay
// emits is one of the frames it received with nothing but TTL / flow flags
// changed (= the outcome of one of the serial orders), no worker panics. The frame
// package is compiled against the scheduler shims too, so the buffer pools the two
// handlers share are scheduling points.
func relayConc(t *testing.T, name string, peer bool, bubble bool) schedx.Conc {
	build := func() *schedx.Instance {
		rw := schedx.NewReconnectWorld(pool[:3])
		w := rw.W
		type req struct {
			from   *kit.Node
			raw    []byte
			notify <-chan struct{}
			desc   string
		}
		var reqs []*req
		send := func(from, to *kit.Node) {
			before := len(w.InFlight)
			notify, _, err := from.Router().PingPong.Send(to.Identity().IP, peer, 0)
			if err != nil || len(w.InFlight) != before+1 {
				panic(fmt.Sprintf("harness: request %s->%s not sent: %v", from.Name, to.Name, err))
			}
			fl := w.Drop(len(w.InFlight) - 1)
			if fl.To != rw.B {
				panic("harness: request does not go through the relay")
			}
			reqs = append(reqs, &req{from: from, raw: fl.Bytes, notify: notify, desc: from.Name + "->" + to.Name})
		}
		send(rw.A, rw.C)
		send(rw.C, rw.A)
		in := &schedx.Instance{}
		for _, r := range reqs {
			r := r
			in.Threads = append(in.Threads, []schedx.Op{{Name: "relay forwards " + r.desc, Do: func() { w.Inject(r.from, rw.B, r.raw) }}})
		}
		logStart := len(w.Log)
		norm := func(x []byte) string {
			b := append([]byte(nil), x...)
			b[1], b[2] = 0, 0 // TTL, flow flags
			return string(b)
		}
		in.Observe = func() string {
			// randomness-free: every emitted frame is named by the received request it equals.
			var out []string
			for _, fl := range w.Log[logStart:] {
				if fl.From != rw.B {
					continue
				}
				which := "a frame that equals none of the received ones"
				for i, r := range reqs {
					if norm(fl.Bytes) == norm(r.raw) {
						which = fmt.Sprintf("request %d (%s) unchanged", i, r.desc)
					}
				}
				out = append(out, fmt.Sprintf("%s<-%s", fl.To.Name, which))
			}
			sort.Strings(out)
			return strings.Join(out, "\n")
		}
		in.Check = func(ex *schedx.Exec) {
			for _, p := range w.Panics {
				ex.Bad("panic", "worker panic: %s", p)
			}
			// what the relay emitted must be what it received (TTL and flow flags aside).
			want := map[string]bool{}
			for _, r := range reqs {
				b := append([]byte(nil), r.raw...)
				b[1], b[2] = 0, 0
				want[kit.Hash(b)] = true
			}
			for _, fl := range w.Log[logStart:] {
				if fl.From != rw.B {
					continue
				}
				b := append([]byte(nil), fl.Bytes...)
				b[1], b[2] = 0, 0
				if !want[kit.Hash(b)] {
					ex.Bad("relay-changed-frame", "the relay emitted a frame (%d bytes to %s) that differs from every frame it received in more than TTL and flow flags", len(fl.Bytes), fl.To.Name)
				}
			}
			w.Run(kit.FIFO, 100)
			for _, r := range reqs {
				select {
				case <-r.notify:
				default:
					ex.Bad("request-not-answered", "the routed request %s, forwarded by the relay while it forwarded another request, was not answered", r.desc)
				}
			}
		}
		return in
	}
	c := schedx.Conc{Name: "relay forwards two requests at once/" + name, Build: build}
	if bubble {
		c.Wrap = func(f func()) { synctest.Test(t, func(t *testing.T) { f() }) }
	} else {
		c.Wrap = func(f func()) {
			t.Run("bubble", func(t *testing.T) { synctest.Test(t, func(t *testing.T) { f() }) })
		}
	}
	return c
}

func flapConcs(t *testing.T, bubble bool) []schedx.Conc {
	return []schedx.Conc{
		relayConc(t, "A->C | C->A", false, bubble),
		schedx.Flap(t, "link replaced: close(old) | register(new)", pool[:3], false, bubble, deliveryJudge),
		schedx.Flap(t, "link replaced: close(old) | register(new) | reader", pool[:3], true, bubble, deliveryJudge),
	}
}

func runFlapSched(t *testing.T, rep *kit.Report, env kit.Env) {
	bound := 2
	if env.Deep() {
		bound = 3
	}
	rep.Bounds["sched_preemption_bound"] = bound
	top := 0
	for _, c := range flapConcs(t, true) {
		schedx.ExploreConc(rep, env, c, bound, &top)
	}
}

// TestC10Race: the same operations on free-running goroutines under the race
// detector (supporting evidence next to the exhaustive pass; see schedx.FreeRun).
func TestC10Race(t *testing.T) {
	env := kit.GetEnv()
	rep := kit.NewReport("C10", env)
	defer func() { _ = rep.Finish(env) }()
	iters := 150
	if env.Deep() {
		iters = 1500
	}
	var n int64
	n = schedx.FreeRunAll(rep, env, flapConcs(t, false), true, iters)
	rep.Add(n, 0, 0, 0)
	rep.OutcomeN("free-running race-detector pass [iterations]", n)
}
