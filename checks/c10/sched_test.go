// C10, interleaving tier: in a converged honest mesh a link is replaced (the
// old link object is torn down by its own worker while the setup worker of the
// replacement registers). The peering, m, router and state packages are
// compiled with their sync / sync/atomic imports rewritten to the
// controlled-scheduler shims; ALL schedules up to a preemption bound are
// explored. Oracle: the outcome equals that of one of the serial orders, and
// whenever A ends with a live link to B, a routed request from A to B is handed
// to B's handlers and B's reply reaches A.
package c10

import (
	"testing"

	"verif/kit"
	"verif/schedx"
)

func deliveryJudge(rw *schedx.ReconnectWorld, ex *schedx.Exec) {
	a, b := rw.A, rw.B
	l := a.Peering().GetLink(b.Identity().IP)
	if l == nil || l.IsClosing() {
		return
	}
	notify, _, err := a.Router().PingPong.Send(b.Identity().IP, true, 0)
	if err != nil {
		ex.Bad("request-not-sent", "A has a live link to B but its routed request to B cannot be sent: %v", err)
		return
	}
	// B's end of the replaced link: the frame leaves over whichever link object A has registered.
	rw.W.Run(kit.FIFO, 50)
	select {
	case <-notify:
	default:
		ex.Bad("no-reply", "A has a live link to B, but the routed request of A was not answered by B after the link replacement")
	}
}

func flapConcs(t *testing.T, bubble bool) []schedx.Conc {
	return []schedx.Conc{
		schedx.Flap(t, "link replaced: close(old) | register(new)", pool[:3], false, bubble, deliveryJudge),
		schedx.Flap(t, "link replaced: close(old) | register(new) | reader", pool[:3], true, bubble, deliveryJudge),
	}
}

func runFlapSched(t *testing.T, rep *kit.Report, env kit.Env) {
	bound := 2
	if env.Deep() {
		bound = 3
	}
	rep.Bounds["sched_preemption_bound"] = bound
	top := 0
	for _, c := range flapConcs(t, true) {
		schedx.ExploreConc(rep, env, c, bound, &top)
	}
}

// TestC10Race: the same operations on free-running goroutines under the race
// detector (supporting evidence next to the exhaustive pass; see schedx.FreeRun).
func TestC10Race(t *testing.T) {
	env := kit.GetEnv()
	rep := kit.NewReport("C10", env)
	defer func() { _ = rep.Finish(env) }()
	iters := 150
	if env.Deep() {
		iters = 1500
	}
	var n int64
	n = schedx.FreeRunAll(rep, env, flapConcs(t, false), true, iters)
	rep.Add(n, 0, 0, 0)
	rep.OutcomeN("free-running race-detector pass [iterations]", n)
}
