package c10

import (
	"bytes"
	"fmt"
	"testing"
	"testing/synctest"
	"time"

	"verif/kit"

	"github.com/mycoria/mycoria/config"
)

// realLinks: delivery over REAL links (the repository's LinkBase: handshake,
// link encryption, reader and writer workers) whose byte streams the harness
// owns. The transport hands data to the reader in segments of every size of a
// small menu (a read may return fewer bytes than asked for): requests, replies
// and traffic of sizes below and above a segment must still arrive, once.
func realLinks(t *testing.T, rep *kit.Report, env kit.Env, evals, nontrivial *int64, mine func() bool) {
	segs := []int{0, 1, 7, 700, 1500}
	sizes := []int{60, 699, 1400, 1501, 3100, 8990} // up to the 9000-byte interface MTU the link handshake reports
	if env.Thorough() {
		segs = append(segs, 2, 13, 64, 1499, 4096)
		sizes = append(sizes, 61, 700, 701, 1500, 2999, 3000, 4981, 9000)
	}
	for _, g := range []graph{line(2), line(3), ring(3)} {
		for _, seg := range segs {
			if !mine() {
				continue
			}
			synctest.Test(t, func(t *testing.T) {
				w := kit.NewWorld()
				var nodes []*kit.Node
				for i := 0; i < g.n; i++ {
					st := config.Store{ServiceConfigs: []config.ServiceConfig{{Name: "web", URL: "tcp://web.myco:80", Public: true}}}
					n, err := w.AddNode(fmt.Sprintf("N%d", i), pool[i], st)
					must(err)
					nodes = append(nodes, n)
				}
				var wires []*kit.Wire
				for _, e := range g.edges {
					time.Sleep(3 * time.Millisecond)
					wr := kit.NewWire(nodes[e[0]], nodes[e[1]])
					wr.EA.MaxRead, wr.EB.MaxRead = seg, seg
					wr.Start()
					wr.Pump(12)
					if wr.LinkA == nil || wr.LinkB == nil {
						rep.Violate("real-links/link-setup-failed", fmt.Sprintf("honest link setup failed with transport segments of %d bytes (%v / %v)", seg, wr.ErrA, wr.ErrB), seg)
						for _, x := range wires {
							x.Shutdown()
						}
						wr.Shutdown()
						return
					}
					wires = append(wires, wr)
				}
				serve := func(n *kit.Node) bool {
					any := false
					for {
						select {
						case f := <-n.SwitchIn:
							any = true
							_ = n.Switch().VerifHandleFrame(f)
							w.DrainRouter(n)
							continue
						default:
						}
						return any
					}
				}
				settle := func() {
					for i := 0; i < 5000; i++ {
						moved := false
						for _, wr := range wires {
							if wr.Pump(1) > 0 {
								moved = true
							}
						}
						for _, n := range nodes {
							if serve(n) {
								moved = true
							}
						}
						if !moved {
							break
						}
					}
				}
				settle()
				for _, n := range nodes {
					for _, l := range n.Peering().GetLinks() {
						must(n.Router().AnnouncePing.Send(l.Peer()))
					}
					time.Sleep(time.Millisecond)
				}
				settle()
				for ai, a := range nodes {
					for bi, b := range nodes {
						if ai == bi {
							continue
						}
						desc := fmt.Sprintf("%s over real links, transport segments of %d bytes, %s->%s", g.name, seg, a.Name, b.Name)
						time.Sleep(2 * time.Millisecond)
						notify, _, err := a.Router().PingPong.Send(b.Identity().IP, false, 0)
						*evals++
						*nontrivial++
						if err != nil {
							rep.Violate("real-links/request-not-sent", fmt.Sprintf("routed request could not be sent: %v; %s", err, desc), desc)
							continue
						}
						settle()
						select {
						case <-notify:
							rep.Outcome("real-links/pingpong/ok")
						default:
							rep.Violate("real-links/no-reply", "request did not reach B or B's reply did not reach A: "+desc, desc)
							rep.Outcome("real-links/pingpong/failed")
						}
						must(kit.KeySessions(a, b))
						for _, n := range sizes {
							pk := make([]byte, n)
							pk[0], pk[6], pk[7] = 0x60, 6, 64
							pk[4], pk[5] = byte((n-40)>>8), byte(n-40)
							sa, sb := a.Identity().IP.As16(), b.Identity().IP.As16()
							copy(pk[8:24], sa[:])
							copy(pk[24:40], sb[:])
							pk[40], pk[41], pk[42], pk[43] = 0x9c, byte(ai*16+bi), 0, 80
							for j := 60; j < n; j++ {
								pk[j] = byte(j*7 + n)
							}
							ps := a.FrameBuilder().GetPooledSlice(len(pk))
							copy(ps, pk)
							time.Sleep(time.Millisecond)
							_ = w.TunPacket(a, ps[:len(pk)])
							settle()
							*evals++
							*nontrivial++
							got := 0
							for {
								select {
								case f := <-b.TunDevice().SendFrame:
									if bytes.Equal(kit.TunBytesOrNil(f), pk) {
										got++
									} else {
										rep.Violate("real-links/traffic-altered", fmt.Sprintf("B's interface was handed bytes that differ from the %d-byte packet: %s", n, desc), desc)
									}
									f.ReturnToPool()
									continue
								default:
								}
								break
							}
							if got != 1 {
								rep.Violate("real-links/traffic-not-delivered", fmt.Sprintf("a %d-byte packet was handed to B's interface %d times: %s", n, got, desc), desc)
								rep.Outcome("real-links/traffic/failed")
							} else {
								rep.Outcome("real-links/traffic/ok")
							}
						}
					}
				}
				for _, pn := range w.Panics {
					rep.Violate("real-links/panic", pn, g.name)
				}
				for _, wr := range wires {
					wr.Shutdown()
				}
			})
		}
	}
}
