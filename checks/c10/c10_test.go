// C10: unicast delivery, bounded forwarding, content preservation.
//
// (a) In converged honest meshes (real routers, real gossip) every ordered pair
// (A,B) exchanges a routed ping-pong; only B may answer, A's notification must
// fire. (b) With arbitrary (cyclic, inconsistent) routing tables and link-label
// maps, frames with every initial TTL and with / without switch blocks are
// injected; every link crossing is logged and checked: TTL strictly decreases,
// crossings <= initial TTL - 1, all bytes outside TTL / flow flags / switch
// block are preserved.
package c10

import (
	"bytes"
	"encoding/binary"
	"fmt"
	"net/netip"
	"strings"
	"testing"
	"testing/synctest"
	"time"

	"verif/kit"

	"github.com/mycoria/mycoria/config"
	"github.com/mycoria/mycoria/frame"
	"github.com/mycoria/mycoria/m"
)

var pool = kit.RoutablePool("c10", 16)

type graph struct {
	name  string
	n     int
	edges [][2]int
}

var oversizeText = strings.Repeat("x", 11000)

func must(err error) {
	if err != nil {
		panic(err)
	}
}

type mesh struct {
	w     *kit.World
	nodes []*kit.Node
	g     graph
	links [][2]*kit.VLink // per edge: link at e[0], link at e[1]
}

func build(g graph, twoByteLabels bool) *mesh { return buildWith(g, twoByteLabels, false) }

// buildWith can make every router with more than one link a pure relay
// (tun interface disabled), and gives every router a public tcp service.
func buildWith(g graph, twoByteLabels bool, relaysWithoutTun bool) *mesh {
	w := kit.NewWorld()
	ms := &mesh{w: w, g: g}
	deg := make([]int, g.n)
	for _, e := range g.edges {
		deg[e[0]]++
		deg[e[1]]++
	}
	for i := 0; i < g.n; i++ {
		st := config.Store{ServiceConfigs: []config.ServiceConfig{{Name: "web", URL: "tcp://web.myco:80", Public: true}}}
		n, err := w.AddNodeWith(kit.NodeOpts{Name: fmt.Sprintf("N%d", i), ID: pool[i], Store: st, NoTun: relaysWithoutTun && deg[i] > 1})
		must(err)
		ms.nodes = append(ms.nodes, n)
	}
	next := make([]m.SwitchLabel, g.n)
	for i := range next {
		next[i] = 2
		if twoByteLabels {
			next[i] = 300
		}
	}
	for ei, e := range g.edges {
		la, lb := next[e[0]], next[e[1]]
		next[e[0]]++
		next[e[1]]++
		l0, l1, err := w.Connect(ms.nodes[e[0]], ms.nodes[e[1]], la, lb, uint16(5+ei%3))
		must(err)
		ms.links = append(ms.links, [2]*kit.VLink{l0, l1})
	}
	return ms
}

func (ms *mesh) converge() {
	for _, n := range ms.nodes {
		for _, l := range n.Peering().GetLinks() {
			must(n.Router().AnnouncePing.Send(l.Peer()))
		}
		time.Sleep(time.Millisecond)
	}
	ms.drain(500000)
	ms.w.Log = nil
}

func (ms *mesh) drain(limit int) int {
	steps := 0
	for len(ms.w.InFlight) > 0 && steps < limit {
		ms.w.Deliver(0)
		steps++
	}
	return steps
}

func line(n int) graph {
	g := graph{fmt.Sprintf("line%d", n), n, nil}
	for i := 0; i+1 < n; i++ {
		g.edges = append(g.edges, [2]int{i, i + 1})
	}
	return g
}
func ring(n int) graph {
	g := line(n)
	g.name = fmt.Sprintf("ring%d", n)
	g.edges = append(g.edges, [2]int{n - 1, 0})
	return g
}
func star(n int) graph {
	g := graph{fmt.Sprintf("star%d", n), n, nil}
	for i := 1; i < n; i++ {
		g.edges = append(g.edges, [2]int{0, i})
	}
	return g
}
func tree(n int) graph {
	g := graph{fmt.Sprintf("bintree%d", n), n, nil}
	for i := 1; i < n; i++ {
		g.edges = append(g.edges, [2]int{(i - 1) / 2, i})
	}
	return g
}
func grid(a, b int) graph {
	g := graph{fmt.Sprintf("grid%dx%d", a, b), a * b, nil}
	for i := 0; i < a; i++ {
		for j := 0; j < b; j++ {
			if j+1 < b {
				g.edges = append(g.edges, [2]int{i*b + j, i*b + j + 1})
			}
			if i+1 < a {
				g.edges = append(g.edges, [2]int{i*b + j, (i+1)*b + j})
			}
		}
	}
	return g
}
func complete(n int) graph {
	g := graph{fmt.Sprintf("complete%d", n), n, nil}
	for i := 0; i < n; i++ {
		for j := i + 1; j < n; j++ {
			g.edges = append(g.edges, [2]int{i, j})
		}
	}
	return g
}
func connectedGraphs(n int) []graph {
	var pairs [][2]int
	for i := 0; i < n; i++ {
		for j := i + 1; j < n; j++ {
			pairs = append(pairs, [2]int{i, j})
		}
	}
	var out []graph
	for mask := 1; mask < 1<<len(pairs); mask++ {
		var es [][2]int
		for i, pr := range pairs {
			if mask&(1<<i) != 0 {
				es = append(es, pr)
			}
		}
		// connectivity
		seen := map[int]bool{0: true}
		for changed := true; changed; {
			changed = false
			for _, e := range es {
				if seen[e[0]] != seen[e[1]] {
					seen[e[0]], seen[e[1]] = true, true
					changed = true
				}
			}
		}
		if len(seen) == n {
			out = append(out, graph{fmt.Sprintf("n%d-g%d", n, mask), n, es})
		}
	}
	return out
}

var (
	fakeSrc = netip.MustParseAddr("fd6a:5555::5")
	fakeDst = netip.MustParseAddr("fd6a:dddd::d")
)

// rawFrame builds an (unsealed, transit) frame.
func rawFrame(n *kit.Node, src, dst netip.Addr, mt frame.MessageType, sw []byte, payload []byte, ttl uint8) []byte {
	f, err := n.FrameBuilder().NewFrameV1(src, dst, mt, sw, payload, nil)
	must(err)
	f.SetTTL(ttl)
	f.SetSequenceNum(77)
	d, _ := f.FrameDataWithMargins(0, 0)
	out := append([]byte(nil), d...)
	f.ReturnToPool()
	return out
}

func TestC10(t *testing.T) {
	env := kit.GetEnv()
	rep := kit.NewReport("C10", env)
	rep.Rule = "(a) converged meshes (all connected graphs on 2-4 routers, lines/rings/stars/trees/grids up to 8 quick / 16 thorough routers, 1- and 2-byte labels): for every ordered pair (A,B) a routed ping-pong from A to B followed to quiescence; (a2) network traffic between every pair of tun-equipped routers across relays with and without a tun interface; (a4) packets of every size within 60 bytes of the pooled-buffer size classes (480, 1480, 4980, 9480) across one relay; (a3) histories on rings, grids and complete graphs: one-way traffic from every router to B, loss of each redundant link (both ends unregister it and flood disconnect notices), traffic from every router to B again, re-announcement by everyone, traffic again - each frame handed to B exactly once whenever the routers' own tables lead from A to B hop by hop over registered links; (a5) a routed request sent in the same millisecond as / one millisecond after or before A's own announcements (4 step orders x 2 gaps); (r) requests, replies and traffic of 6 sizes (thorough 14) over real links (LinkBase over harness-owned streams) whose transport hands data over in segments of {unlimited,1,7,700,1500} bytes (thorough 10 segment sizes); (b) adversarial forwarding state on complete graphs of 2-4 (thorough 5) routers: every assignment of 'next hop towards D' per router (includes every cycle and dead end), x initial TTL {0,1,2,3,32,255} x message class {signed, encrypted} x entry router/link, for routed frames injected over a link, and for frames each router originates itself under the same forwarding state (at most 31 crossings, TTL below 32 on the first link and strictly decreasing); label-switched frames with switch blocks over {valid path, cyclic, too short for the return label, zero-first, dangling label, non-terminated} x label maps; every link crossing of the injected frame is checked (TTL strictly decreasing, crossings <= TTL0-1, bytes preserved outside TTL/flow/switch block); non-trivial = frame crossed at least one link or had to be refused; distinct = distinct (world, injected frame)"
	rep.Assumptions = []string{
		"transit frames are relayed without authentication (by design), so injected frames need no valid seal",
		"deliveries are sequential (one handler invocation at a time), FIFO in (a); a single unicast frame has one frame in flight at a time, so its delivery order is unique",
	}
	var evals, nontrivial int64
	caseNo := 0
	mine := func() bool { caseNo++; return env.Mine(caseNo) }

	// ---------------- (a) delivery in converged meshes.
	var gs []graph
	gs = append(gs, connectedGraphs(2)...)
	gs = append(gs, connectedGraphs(3)...)
	g4 := connectedGraphs(4)
	for i, g := range g4 {
		if env.Thorough() || i%4 == 0 || len(g.edges) >= 5 {
			gs = append(gs, g)
		}
	}
	gs = append(gs, line(5), ring(6), star(6), tree(7), grid(2, 3), line(8))
	if env.Thorough() {
		gs = append(gs, line(12), line(16), ring(10), ring(16), star(12), tree(15), grid(3, 3), grid(3, 4), grid(4, 4))
	}
	for _, g := range gs {
		for _, two := range []bool{false, true} {
			if !mine() {
				continue
			}
			synctest.Test(t, func(t *testing.T) {
				ms := build(g, two)
				ms.converge()
				for ai, a := range ms.nodes {
					for bi, b := range ms.nodes {
						if ai == bi {
							continue
						}
						// every router first tries to originate a notice that is too big to build (refused
						// with an error): whatever such an aborted build leaves behind must not touch the
						// frames the router relays next.
						for _, n := range ms.nodes {
							_ = n.Router().ErrorPing.SendGeneric(b.Identity().IP, oversizeText)
						}
						ms.w.InFlight = nil
						ms.w.Log = nil
						notify, _, err := a.Router().PingPong.Send(b.Identity().IP, false, 0)
						evals++
						nontrivial++
						desc := fmt.Sprintf("%s two-byte-labels=%v %s->%s", g.name, two, a.Name, b.Name)
						if err != nil {
							rep.Violate(g.name+"/request-not-sent", fmt.Sprintf("routed request could not be sent: %v; %s", err, desc), desc)
							continue
						}
						ms.drain(10000)
						delivered := false
						select {
						case <-notify:
							delivered = true
						default:
						}
						if !delivered {
							rep.Violate(classOfGraph(g)+"/no-reply", "request did not reach B or B's reply did not reach A: "+desc, desc)
							rep.Outcome("pingpong/failed")
						} else {
							rep.Outcome("pingpong/ok")
						}
						// frames originated by A and B start below 32 on their first link and count down.
						last := map[[32]byte]int{}
						for _, fl := range ms.w.Log {
							var k [32]byte
							copy(k[:], fl.Bytes[16:48])
							prev, seen := last[k]
							if !seen {
								prev = 32
							}
							if ttl := int(fl.Bytes[1]); ttl >= prev || ttl == 0 {
								rep.Violate(classOfGraph(g)+"/originated-ttl", fmt.Sprintf("frame %s->%s crossed a link with TTL %d after %d: %s", fl.From.Name, fl.To.Name, ttl, prev, desc), desc)
							}
							last[k] = int(fl.Bytes[1])
						}
						// every frame emitted must originate at A or B; B is the only responder.
						for _, fl := range ms.w.Log {
							src := netip.AddrFrom16([16]byte(fl.Bytes[16:32]))
							if src != a.Identity().IP && src != b.Identity().IP {
								rep.Violate(classOfGraph(g)+"/foreign-router-handled-frame", fmt.Sprintf("router %s originated a frame while relaying %s", src, desc), desc)
							}
						}
						if len(ms.w.Panics) > 0 {
							rep.Violate(classOfGraph(g)+"/panic", ms.w.Panics[0]+" "+desc, desc)
							ms.w.Panics = nil
						}
					}
				}
			})
		}
	}

	// ---------------- (a2) network traffic between leaf routers across relays,
	// with and without a tun interface on the relays.
	for _, g := range []graph{line(3), line(4), star(4), tree(7), line(6)} {
		for _, noTun := range []bool{false, true} {
			if !mine() {
				continue
			}
			synctest.Test(t, func(t *testing.T) {
				ms := buildWith(g, false, noTun)
				ms.converge()
				for ai, a := range ms.nodes {
					for bi, b := range ms.nodes {
						if ai == bi || a.TunDevice() == nil || b.TunDevice() == nil {
							continue
						}
						must(kit.KeySessions(a, b))
						pk := make([]byte, 60)
						pk[0], pk[5], pk[6], pk[7] = 0x60, 20, 6, 64
						sa, sb := a.Identity().IP.As16(), b.Identity().IP.As16()
						copy(pk[8:24], sa[:])
						copy(pk[24:40], sb[:])
						pk[40], pk[41], pk[42], pk[43] = 0x9c, byte(ai*16+bi), 0, 80
						ps := a.FrameBuilder().GetPooledSlice(len(pk))
						copy(ps, pk)
						ms.w.Log = nil
						_ = ms.w.TunPacket(a, ps[:len(pk)])
						ms.drain(10000)
						evals++
						nontrivial++
						desc := fmt.Sprintf("%s relays-without-tun=%v traffic %s->%s", g.name, noTun, a.Name, b.Name)
						got := 0
						for {
							select {
							case f := <-b.TunDevice().SendFrame:
								if bytes.Equal(kit.TunBytesOrNil(f), pk) {
									got++
								}
								f.ReturnToPool()
								continue
							default:
							}
							break
						}
						if got != 1 {
							rep.Violate(fmt.Sprintf("traffic/relays-without-tun=%v/not-delivered", noTun), fmt.Sprintf("traffic frame was handed to B's interface %d times: %s", got, desc), desc)
							rep.Outcome("traffic/failed")
						} else {
							rep.Outcome("traffic/ok")
						}
						for _, other := range ms.nodes {
							if other == b || other.TunDevice() == nil {
								continue
							}
							select {
							case f := <-other.TunDevice().SendFrame:
								rep.Violate("traffic/delivered-to-wrong-router", fmt.Sprintf("traffic frame handed to %s: %s", other.Name, desc), desc)
								f.ReturnToPool()
							default:
							}
						}
					}
				}
			})
		}
	}

	// ---------------- (r) the same over real links with a segmenting transport.
	realLinks(t, rep, env, &evals, &nontrivial, mine)

	// ---------------- (a4) packet sizes around the pooled-buffer size classes across a relay.
	if mine() {
		synctest.Test(t, func(t *testing.T) {
			ms := buildWith(line(3), false, false)
			ms.converge()
			a, b := ms.nodes[0], ms.nodes[2]
			must(kit.KeySessions(a, b))
			var sizes []int
			for _, c := range []int{480, 1480, 4980, 9480} {
				for n := c - 60; n <= c+60; n++ {
					sizes = append(sizes, n)
				}
			}
			for _, n := range sizes {
				pk := make([]byte, n)
				pk[0], pk[6], pk[7] = 0x60, 6, 64
				pk[4], pk[5] = byte((n-40)>>8), byte(n-40)
				sa, sb := a.Identity().IP.As16(), b.Identity().IP.As16()
				copy(pk[8:24], sa[:])
				copy(pk[24:40], sb[:])
				pk[40], pk[41], pk[42], pk[43] = 0x9d, byte(n), 0, 80
				pk[n-1] = byte(n >> 3)
				ps := a.FrameBuilder().GetPooledSlice(len(pk))
				copy(ps, pk)
				ms.w.Dropped = nil
				_ = ms.w.TunPacket(a, ps[:len(pk)])
				ms.drain(1000)
				evals++
				nontrivial++
				got := 0
				for {
					select {
					case f := <-b.TunDevice().SendFrame:
						if bytes.Equal(kit.TunBytesOrNil(f), pk) {
							got++
						}
						f.ReturnToPool()
						continue
					default:
					}
					break
				}
				if got != 1 {
					rep.Violate("traffic/size-sweep/not-delivered", fmt.Sprintf("a %d-byte packet sent across one relay was handed to the destination's interface %d times (link writer drops: %v)", n, got, ms.w.Dropped), n)
				}
			}
			rep.Outcome("traffic/size-sweep")
		})
	}

	// ---------------- (a5) a routed request right after (or before) one of A's own
	// announcements, within the same millisecond of A's clock and one millisecond apart.
	for _, g := range []graph{line(2), line(3), ring(3), star(4)} {
		for _, order := range []string{"announce,deliver,request", "announce,request", "request,announce", "announce,announce,request"} {
			for _, gap := range []time.Duration{0, time.Millisecond} {
				if !mine() {
					continue
				}
				synctest.Test(t, func(t *testing.T) {
					ms := build(g, false)
					ms.converge()
					for ai, a := range ms.nodes {
						for bi, b := range ms.nodes {
							if ai == bi {
								continue
							}
							time.Sleep(7 * time.Millisecond)
							desc := fmt.Sprintf("%s %s->%s steps=%s gap=%s", g.name, a.Name, b.Name, order, gap)
							var notify <-chan struct{}
							sent := true
							for si, step := range strings.Split(order, ",") {
								if si > 0 && step != "deliver" {
									time.Sleep(gap)
								}
								switch step {
								case "announce":
									for _, l := range a.Peering().GetLinks() {
										must(a.Router().AnnouncePing.Send(l.Peer()))
									}
								case "deliver":
									ms.drain(10000)
								case "request":
									n, _, err := a.Router().PingPong.Send(b.Identity().IP, false, 0)
									if err != nil {
										rep.Violate("near-announcement/request-not-sent", fmt.Sprintf("routed request could not be sent: %v; %s", err, desc), desc)
										sent = false
									}
									notify = n
								}
							}
							ms.drain(10000)
							evals++
							nontrivial++
							if !sent {
								continue
							}
							select {
							case <-notify:
								rep.Outcome("near-announcement/ok")
							default:
								rep.Violate("near-announcement/no-reply", "request did not reach B or B's reply did not reach A: "+desc, desc)
								rep.Outcome("near-announcement/failed")
							}
						}
					}
				})
			}
		}
	}

	// ---------------- (a3) histories: traffic, loss of a redundant link, re-convergence, traffic.
	// One world per (lost link, destination B): every other tun-equipped router
	// sends one-way traffic to B, the link is lost (both ends unregister it and
	// send their disconnect notices), the mesh re-converges, and every router
	// sends to B again; each frame must be handed to B's interface exactly once.
	// A frame is owed to B whenever the routers' own tables, followed hop by
	// hop over registered links, lead from A to B ("converged for this pair");
	// stale routes elsewhere in the mesh (disconnect notices are not relied
	// upon) only remove pairs from the obligation.
	a3 := []graph{ring(4), ring(5), grid(2, 3), complete(4)}
	if env.Thorough() {
		a3 = append(a3, ring(7), grid(3, 3), complete(5))
		a3 = append(a3, connectedGraphs(4)...)
	}
	for _, g := range a3 {
		for ei := range g.edges {
			if !connectedWithout(g, ei) {
				continue
			}
			for bi := 0; bi < g.n; bi++ {
				if !mine() {
					continue
				}
				synctest.Test(t, func(t *testing.T) {
					ms := build(g, false)
					ms.converge()
					b := ms.nodes[bi]
					round := func(phase string) {
						for ai, a := range ms.nodes {
							if ai == bi {
								continue
							}
							if phase == "before" {
								must(kit.KeySessions(a, b))
							}
							pk := make([]byte, 60)
							pk[0], pk[5], pk[6], pk[7] = 0x60, 20, 6, 64
							sa, sb := a.Identity().IP.As16(), b.Identity().IP.As16()
							copy(pk[8:24], sa[:])
							copy(pk[24:40], sb[:])
							pk[40], pk[41], pk[42], pk[43] = 0x9c, byte(ai*16+bi), 0, 80
							pk[59] = phase[0]
							ps := a.FrameBuilder().GetPooledSlice(len(pk))
							copy(ps, pk)
							owed := ms.tablesLead(a, b)
							ms.w.Log = nil
							_ = ms.w.TunPacket(a, ps[:len(pk)])
							ms.drain(10000)
							evals++
							if owed {
								nontrivial++
							}
							desc := fmt.Sprintf("%s lost-link=%v traffic %s->%s %s the loss", g.name, g.edges[ei], a.Name, b.Name, phase)
							// got: crossings that brought the frame to B's router.
							// (Whether B's inbound policy then hands it to the
							// interface depends on connection state that stale
							// routes may have marked unreachable - outside C10.)
							got, tun := 0, 0
							for _, fl := range ms.w.Log {
								if fl.To == b && fl.Bytes[4] == byte(frame.NetworkTraffic) &&
									bytes.Equal(fl.Bytes[16:32], sa[:]) && bytes.Equal(fl.Bytes[32:48], sb[:]) {
									got++
								}
							}
							for {
								select {
								case f := <-b.TunDevice().SendFrame:
									if bytes.Equal(kit.TunBytesOrNil(f), pk) {
										tun++
									}
									f.ReturnToPool()
									continue
								default:
								}
								break
							}
							if tun > got || (phase == "before" && tun != got) {
								rep.Violate("history/"+phase+"-link-loss/interface-handoff", fmt.Sprintf("frame reached B %d times but was handed to its interface %d times: %s", got, tun, desc), desc)
							}
							if got == 1 && tun == 0 {
								rep.Outcome("history/" + phase + "/reached-B,-inbound-policy-refused(connection marked unreachable via stale route)")
							}
							switch {
							case got == 0 && !owed:
								rep.Outcome("history/" + phase + "/tables-give-no-path(no obligation)")
								continue
							case got == 1 && !owed:
								rep.Outcome("history/" + phase + "/delivered-without-obligation")
								continue
							}
							if got != 1 {
								rep.Violate("history/"+phase+"-link-loss/not-delivered", fmt.Sprintf("traffic frame reached B's router %d times: %s", got, desc), desc)
								rep.Outcome("history/" + phase + "/failed")
							} else {
								rep.Outcome("history/" + phase + "/ok")
							}
						}
					}
					round("before")
					e := g.edges[ei]
					ms.links[ei][0].Close(nil)
					ms.links[ei][1].Close(nil)
					must(ms.nodes[e[0]].Router().DisconnectPing.Send(false, []netip.Addr{ms.nodes[e[1]].Identity().IP}))
					must(ms.nodes[e[1]].Router().DisconnectPing.Send(false, []netip.Addr{ms.nodes[e[0]].Identity().IP}))
					ms.drain(100000)
					round("after")
					time.Sleep(11 * time.Second)
					ms.converge()
					round("after-reannounce")
					if len(ms.w.Panics) > 0 {
						rep.Violate("history/panic", ms.w.Panics[0], g.name)
						ms.w.Panics = nil
					}
				})
			}
		}
	}

	// ---------------- (b) adversarial forwarding state.
	maxN := 4
	if env.Thorough() {
		maxN = 5
	}
	for n := 2; n <= maxN; n++ {
		// every assignment of next hop per router: neighbour index in [0, n-1) or "no route" (n-1).
		opts := n // n-1 neighbours + none
		total := 1
		for i := 0; i < n; i++ {
			total *= opts
		}
		for code := 0; code < total; code++ {
			if !mine() {
				continue
			}
			code := code
			nh := make([]int, n)
			c := code
			for i := 0; i < n; i++ {
				k := c % opts
				c /= opts
				if k == n-1 {
					nh[i] = -1
				} else {
					nh[i] = k
					if k >= i {
						nh[i] = k + 1 // skip self
					}
				}
			}
			// frames the routers ORIGINATE themselves (initial TTL 32, no receive
			// link) under the same forwarding state: at most 31 crossings, TTL
			// below 32 and strictly decreasing on every link.
			synctest.Test(t, func(t *testing.T) {
				ms := build(complete(n), false)
				for i, h := range nh {
					if h < 0 {
						continue
					}
					hops := []m.SwitchHop{
						{Router: ms.nodes[i].Identity().IP, Delay: 5, ForwardLabel: 2},
						{Router: ms.nodes[h].Identity().IP, Delay: 5, ForwardLabel: 3, ReturnLabel: 4},
						{Router: fakeDst, ReturnLabel: 9},
					}
					sp := m.SwitchPath{Hops: hops}
					sp.CalculateTotals()
					_, err := ms.nodes[i].RoutingTable().AddRoute(m.RoutingTableEntry{DstIP: fakeDst, NextHop: ms.nodes[h].Identity().IP, Path: sp, Source: m.RouteSourceGossip, Expires: time.Now().Add(time.Hour)})
					must(err)
				}
				for i := range ms.nodes {
					ms.w.Log = nil
					_, _, err := ms.nodes[i].Router().PingPong.Send(fakeDst, false, 0)
					steps := ms.drain(20000)
					evals++
					desc := fmt.Sprintf("complete%d nexthops=%v frame originated by N%d (send error: %v)", n, nh, i, err)
					if steps >= 20000 {
						rep.Violate("originated/not-draining", "network did not drain: "+desc, desc)
					}
					src := ms.nodes[i].Identity().IP.As16()
					dst := fakeDst.As16()
					nc, prev := 0, 32
					for _, fl := range ms.w.Log {
						if !bytes.Equal(fl.Bytes[16:32], src[:]) || !bytes.Equal(fl.Bytes[32:48], dst[:]) {
							continue
						}
						nc++
						ttl := int(fl.Bytes[1])
						if ttl >= prev {
							rep.Violate("originated/ttl-not-decreasing", fmt.Sprintf("crossing %d has TTL %d after %d: %s", nc, ttl, prev, desc), desc)
						}
						if ttl == 0 {
							rep.Violate("originated/ttl-zero-on-wire", fmt.Sprintf("frame crossed a link with TTL 0 (crossing %d): %s", nc, desc), desc)
						}
						prev = ttl
					}
					if nc > 31 {
						rep.Violate("originated/too-many-crossings", fmt.Sprintf("a frame the router originated crossed %d links: %s", nc, desc), desc)
					}
					if nc > 0 {
						nontrivial++
					}
					rep.Outcome(fmt.Sprintf("originated/crossings=%d", nc))
				}
			})
			for _, ttl := range []uint8{0, 1, 2, 3, 32, 255} {
				for _, mt := range []frame.MessageType{frame.NetworkTraffic, frame.RouterPing} {
					synctest.Test(t, func(t *testing.T) {
						ms := build(complete(n), false)
						for i, h := range nh {
							if h < 0 {
								continue
							}
							hops := []m.SwitchHop{
								{Router: ms.nodes[i].Identity().IP, Delay: 5, ForwardLabel: 2},
								{Router: ms.nodes[h].Identity().IP, Delay: 5, ForwardLabel: 3, ReturnLabel: 4},
								{Router: fakeDst, ReturnLabel: 9},
							}
							sp := m.SwitchPath{Hops: hops}
							sp.CalculateTotals()
							_, err := ms.nodes[i].RoutingTable().AddRoute(m.RoutingTableEntry{DstIP: fakeDst, NextHop: ms.nodes[h].Identity().IP, Path: sp, Source: m.RouteSourceGossip, Expires: time.Now().Add(time.Hour)})
							must(err)
						}
						payload := []byte(fmt.Sprintf("payload-%d-%d-%d-%d-0123456789abcdef", n, code, ttl, mt))
						raw := rawFrame(ms.nodes[0], fakeSrc, fakeDst, mt, nil, payload, ttl)
						// enters at router 0 over the link from router 1.
						ms.w.Inject(ms.nodes[1], ms.nodes[0], raw)
						steps := ms.drain(20000)
						evals++
						desc := fmt.Sprintf("complete%d nexthops=%v ttl=%d type=%d", n, nh, ttl, mt)
						if steps >= 20000 {
							rep.Violate("routed/not-draining", "network did not drain: "+desc, desc)
						}
						nc := checkCrossings(rep, "routed", desc, ms, raw, payload, int(ttl), 0)
						if nc > 0 || ttl <= 1 {
							nontrivial++
						}
						rep.Outcome(fmt.Sprintf("routed/crossings=%d", min(nc, 40)))
						if evals%5000 == 1 {
							rep.Sample(map[string]any{"case": desc, "crossings": nc})
						}
					})
				}
			}
		}
	}

	// label-switched frames on a ring of 3 and a complete graph of 4.
	type blockCase struct {
		name   string
		labels []uint64
		pad    int
	}
	blocks := []blockCase{
		{"valid-2-hops", []uint64{2, 2}, 3},
		{"cyclic-long", repeat(2, 60), 40},
		{"cyclic-two-byte", repeat(300, 40), 20},
		{"too-short-for-return-label", []uint64{2, 2, 2}, 0},
		{"zero-first", []uint64{0, 2, 2}, 2},
		{"dangling-label", []uint64{2, 99, 2}, 3},
		{"non-terminated", repeat(3, 10), 0},
		{"only-zeros", nil, 5},
		{"huge-varint", []uint64{1 << 40, 2}, 4},
		{"full-255", repeat(2, 255), 0},
	}
	for _, g := range []graph{ring(3), complete(4), line(3)} {
		for _, two := range []bool{false, true} {
			for _, bc := range blocks {
				for _, ttl := range []uint8{0, 1, 2, 3, 32, 255} {
					if !mine() {
						continue
					}
					synctest.Test(t, func(t *testing.T) {
						ms := build(g, two)
						var sw []byte
						for _, l := range bc.labels {
							if two && l == 2 {
								l = 300
							}
							sw = binary.AppendUvarint(sw, l)
						}
						sw = append(sw, make([]byte, bc.pad)...)
						if len(sw) > 255 {
							sw = sw[:255]
						}
						payload := []byte(fmt.Sprintf("lbl-%s-%s-%d-0123456789abcdef0123456789", g.name, bc.name, ttl))
						raw := rawFrame(ms.nodes[0], fakeSrc, ms.nodes[g.n-1].Identity().IP, frame.SessionData, sw, payload, ttl)
						ms.w.Inject(ms.nodes[1], ms.nodes[0], raw)
						steps := ms.drain(20000)
						evals++
						desc := fmt.Sprintf("%s two-byte=%v block=%s ttl=%d", g.name, two, bc.name, ttl)
						if steps >= 20000 {
							rep.Violate("switched/not-draining", "network did not drain: "+desc, desc)
						}
						if len(ms.w.Panics) > 0 {
							rep.Outcome("switched/handler-panic(reported-under-C13)")
						}
						nc := checkCrossings(rep, "switched/"+bc.name, desc, ms, raw, payload, int(ttl), len(sw))
						if nc > 0 {
							nontrivial++
						}
						rep.Outcome(fmt.Sprintf("switched/%s/crossings=%d", bc.name, min(nc, 40)))
					})
				}
			}
		}
	}

	runFlapSched(t, rep, env)
	rep.Add(evals, nontrivial, 0, 0)
	if err := rep.Finish(env); err != nil {
		t.Fatal(err)
	}
}

// tablesLead follows the routers' own routing tables hop by hop (the rule of
// RouteFrame: best route to the destination, never back over the receiving
// link, next hop must have a registered link) and reports whether they lead
// from a to b.
func (ms *mesh) tablesLead(a, b *kit.Node) bool {
	cur := a
	var prev *kit.Node
	for i := 0; i < 32; i++ {
		if cur == b {
			return true
		}
		rte, _ := cur.RoutingTable().LookupNearestRoute(b.Identity().IP)
		if rte == nil {
			return false
		}
		if prev != nil && rte.NextHop == prev.Identity().IP {
			return false
		}
		if cur.Peering().GetLink(rte.NextHop) == nil {
			return false
		}
		prev, cur = cur, ms.w.ByIP[rte.NextHop]
		if cur == nil {
			return false
		}
	}
	return false
}

// connectedWithout reports whether g stays connected when edge skip is removed.
func connectedWithout(g graph, skip int) bool {
	seen := make([]bool, g.n)
	seen[0] = true
	for changed := true; changed; {
		changed = false
		for i, e := range g.edges {
			if i == skip {
				continue
			}
			if seen[e[0]] != seen[e[1]] {
				seen[e[0]], seen[e[1]] = true, true
				changed = true
			}
		}
	}
	for _, s := range seen {
		if !s {
			return false
		}
	}
	return true
}

func repeat(v uint64, n int) []uint64 {
	o := make([]uint64, n)
	for i := range o {
		o[i] = v
	}
	return o
}

func classOfGraph(g graph) string {
	if strings.HasPrefix(g.name, "n") {
		return "small-graph"
	}
	return g.name
}

// checkCrossings finds all crossings of the injected frame (by payload) and checks them.
func checkCrossings(rep *kit.Report, class, desc string, ms *mesh, raw, payload []byte, ttl0 int, swLen int) int {
	n := 0
	prevTTL := ttl0
	for _, fl := range ms.w.Log {
		if !bytes.Contains(fl.Bytes, payload) {
			continue
		}
		n++
		ttl := int(fl.Bytes[1])
		if ttl >= prevTTL {
			rep.Violate(class+"/ttl-not-decreasing", fmt.Sprintf("crossing %d has TTL %d after %d: %s", n, ttl, prevTTL, desc), desc)
		}
		if ttl == 0 {
			rep.Violate(class+"/ttl-zero-on-wire", fmt.Sprintf("frame crossed a link with TTL 0 (crossing %d): %s", n, desc), desc)
		}
		prevTTL = ttl
		if len(fl.Bytes) != len(raw) {
			rep.Violate(class+"/length-changed", fmt.Sprintf("frame length changed from %d to %d: %s", len(raw), len(fl.Bytes), desc), desc)
			continue
		}
		for i := range raw {
			if i == 1 || i == 2 || (i >= 49 && i < 49+swLen) {
				continue
			}
			if raw[i] != fl.Bytes[i] {
				rep.Violate(class+"/byte-changed", fmt.Sprintf("byte %d changed from %#x to %#x on crossing %d: %s", i, raw[i], fl.Bytes[i], n, desc), desc)
				break
			}
		}
	}
	bound := ttl0 - 1
	if bound < 0 {
		bound = 0
	}
	if n > bound {
		rep.Violate(class+"/too-many-crossings", fmt.Sprintf("frame crossed %d links with initial TTL %d: %s", n, ttl0, desc), desc)
	}
	return n
}
