// C19, interleaving and fault tier.
//
// (a) Queries are served from several goroutines (the DNS server library runs a
// goroutine per request; the dashboard stores mappings meanwhile). The api/dns
// and storage packages are compiled with their sync / sync/atomic imports
// rewritten to the controlled-scheduler shims; harness threads look names of
// every source up CONCURRENTLY on a server that has never answered before
// (whatever is built on first use is built in the race) and while a mapping for
// the name is saved / deleted; ALL schedules up to a preemption bound are
// explored; every answer must be one a serial order gives.
//
// (b) Environment faults, one deviation at a time: the k-th call that sets the
// write deadline, or the k-th write of a reply, fails. Every LATER query must
// still get exactly one, correct reply (a resolver that stops answering after
// one failed reply answers nothing at all, not "a name error").
package c19

import (
	"errors"
	"fmt"
	"net"
	"strings"
	"sync"
	"testing"
	"time"

	mdns "github.com/miekg/dns"

	"verif/kit"
	"verif/schedx"

	"github.com/mycoria/mycoria/api/dns"
	"github.com/mycoria/mycoria/config"
)

func concServer(conn net.PacketConn) (*dns.Server, *kit.Node) {
	st := config.Store{
		ResolveConfig: map[string]string{"files.myco": ipResolve.String(), "wpad.myco": ipResolve.String()},
		FriendConfigs: []config.FriendConfig{{Name: "alice", IP: ipFriend.String()}, {Name: "files", IP: ipFriend.String()}},
	}
	node, err := kit.NewNode(kit.NodeOpts{Name: "R", ID: pool[0], Store: st, StateOnly: true})
	if err != nil {
		panic(err)
	}
	// stored mappings collide with every other source.
	for _, n := range []string{"alice.myco", "files.myco", "myco.myco", "router.myco", "tom.myco"} {
		if err := node.Store.SaveMapping(n, ipMap1); err != nil {
			panic(err)
		}
	}
	srv, err := dns.New(node, conn, node.Store)
	if err != nil {
		panic(err)
	}
	return srv, node
}

// expected answers of the fixed configuration above (precedence of the statement).
var concExpect = map[string]string{
	"router.myco": fmt.Sprintf("%v/%s", config.DefaultAPIAddress, dns.SourceInternal),
	"files.myco":  fmt.Sprintf("%v/%s", ipResolve, dns.SourceResolveConfig),
	"wpad.myco":   fmt.Sprintf("%v/%s", ipResolve, dns.SourceResolveConfig),
	"myco.myco":   "none",
	"alice.myco":  fmt.Sprintf("%v/%s", ipFriend, dns.SourceFriend),
	"tom.myco":    fmt.Sprintf("%v/%s", ipMap1, dns.SourceMapping),
	"nobody.myco": "none",
}

func lookupStr(srv *dns.Server, name string) string {
	ip, src := srv.Lookup(name)
	if src == dns.SourceNone || src == dns.SourceForbidden {
		return "none"
	}
	return fmt.Sprintf("%v/%s", ip, src)
}

func lookupConc(name string, threads [][]string) schedx.Conc {
	build := func() *schedx.Instance {
		srv, node := concServer(stubConn{})
		in := &schedx.Instance{}
		results := make([][]string, len(threads))
		var mu sync.Mutex
		for ti, th := range threads {
			ti := ti
			var ops []schedx.Op
			for _, n := range th {
				n := n
				switch {
				case strings.HasPrefix(n, "save:"):
					ops = append(ops, schedx.Op{Name: n, Do: func() { _ = node.Store.SaveMapping(strings.TrimPrefix(n, "save:"), ipMap2) }})
				case strings.HasPrefix(n, "delete:"):
					ops = append(ops, schedx.Op{Name: n, Do: func() { _ = node.Store.DeleteMapping(strings.TrimPrefix(n, "delete:")) }})
				default:
					ops = append(ops, schedx.Op{Name: "lookup(" + n + ")", Do: func() {
						r := n + "=" + lookupStr(srv, n)
						mu.Lock()
						results[ti] = append(results[ti], r)
						mu.Unlock()
					}})
				}
			}
			in.Threads = append(in.Threads, ops)
		}
		in.Observe = func() string {
			var b strings.Builder
			for ti, r := range results {
				fmt.Fprintf(&b, "thread%d: %s\n", ti, strings.Join(r, " "))
			}
			return b.String()
		}
		in.Check = func(ex *schedx.Exec) {
			// names no thread writes to have one right answer whatever the order.
			written := map[string]bool{}
			for _, th := range threads {
				for _, n := range th {
					if i := strings.Index(n, ":"); i >= 0 {
						written[n[i+1:]] = true
					}
				}
			}
			for _, r := range results {
				for _, a := range r {
					n, got, _ := strings.Cut(a, "=")
					if want, ok := concExpect[n]; ok && !written[n] && got != want {
						ex.Bad("wrong-answer", "a look-up of %s running next to other look-ups answered %s; the first matching source of the fixed order gives %s", n, got, want)
					}
				}
			}
		}
		return in
	}
	return schedx.Conc{Name: "concurrent-lookups/" + name, Build: build}
}

func lookupConcs(deep bool) []schedx.Conc {
	out := []schedx.Conc{
		lookupConc("first queries of a fresh server: friend | resolve entry", [][]string{{"alice.myco"}, {"files.myco"}}),
		lookupConc("first queries of a fresh server: friend | friend", [][]string{{"alice.myco"}, {"alice.myco"}}),
		lookupConc("first queries of a fresh server: forbidden | resolve entry on a forbidden name | built-in", [][]string{{"myco.myco"}, {"wpad.myco"}, {"router.myco"}}),
		lookupConc("first queries of a fresh server: mapping | friend, unknown", [][]string{{"tom.myco"}, {"alice.myco", "nobody.myco"}}),
		lookupConc("mapping saved for a friend name | look-ups", [][]string{{"save:alice.myco"}, {"alice.myco", "alice.myco"}}),
		lookupConc("mapping deleted | look-ups of it and of a friend", [][]string{{"delete:tom.myco"}, {"tom.myco", "alice.myco"}}),
		lookupConc("mapping replaced | look-up", [][]string{{"save:tom.myco"}, {"tom.myco"}}),
	}
	if deep {
		out = append(out, lookupConc("three first queries + a save", [][]string{{"alice.myco"}, {"files.myco"}, {"tom.myco"}, {"save:files.myco"}}))
	}
	return out
}

// ---- (b) environment faults.

type faultConn struct {
	stubConn
	mu     sync.Mutex
	calls  int
	failAt int // 1-based index of the SetWriteDeadline call that fails (0 = never)
}

func (c *faultConn) SetWriteDeadline(time.Time) error {
	c.mu.Lock()
	defer c.mu.Unlock()
	c.calls++
	if c.calls == c.failAt {
		return errors.New("injected: set write deadline failed")
	}
	return nil
}

type faultWriter struct {
	recWriter
	fail bool
}

func (w *faultWriter) WriteMsg(m *mdns.Msg) error {
	if w.fail {
		return errors.New("injected: write failed")
	}
	return w.recWriter.WriteMsg(m)
}

func replyFaults(rep *kit.Report, env kit.Env) (evals int64) {
	queries := []struct {
		name  string
		qtype uint16
	}{{"alice.myco", mdns.TypeAAAA}, {"example.com", mdns.TypeAAAA}, {"files.myco", mdns.TypeAAAA}, {"alice.myco", mdns.TypeTXT}, {"tom.myco", mdns.TypeAAAA}, {"nobody.myco", mdns.TypeAAAA}}
	for _, kind := range []string{"set-write-deadline", "write"} {
		for k := 1; k <= len(queries); k++ {
			conn := &faultConn{}
			if kind == "set-write-deadline" {
				conn.failAt = k
			}
			srv, _ := concServer(conn)
			for qi, q := range queries {
				req := new(mdns.Msg)
				req.Id = uint16(100 + qi)
				req.Question = []mdns.Question{{Name: q.name + ".", Qtype: q.qtype, Qclass: mdns.ClassINET}}
				rw := &faultWriter{fail: kind == "write" && qi+1 == k}
				done := make(chan any, 1)
				go func() {
					defer func() { done <- recover() }()
					srv.ServeDNS(rw, req)
				}()
				evals++
				select {
				case p := <-done:
					if p != nil {
						rep.Violate("reply-fault/"+kind+"/panic", fmt.Sprintf("ServeDNS panicked on query %d after the %s of reply %d failed: %v", qi+1, kind, k, p), nil)
					}
				case <-time.After(30 * time.Second):
					// a liveness ceiling four orders of magnitude above the microseconds a query takes.
					rep.Violate("reply-fault/"+kind+"/later-query-unanswered", fmt.Sprintf("after the %s of reply %d failed, query %d (%s) was never answered: the server stopped answering altogether", kind, k, qi+1, q.name), map[string]any{"fault": kind, "at": k, "query": qi + 1})
					rep.Outcome("reply-fault/hang!")
					return evals // one stalled server is enough; every further case would wait again
				}
				if qi+1 == k {
					continue // the faulted reply itself may be lost
				}
				if len(rw.msgs) != 1 {
					rep.Violate("reply-fault/"+kind+"/no-reply", fmt.Sprintf("after the %s of reply %d failed, query %d (%s) got %d replies", kind, k, qi+1, q.name, len(rw.msgs)), nil)
					continue
				}
				ip, _ := extract(rw.msgs[0])
				want := concExpect[q.name]
				answerable := q.qtype == mdns.TypeAAAA && strings.HasSuffix(q.name, ".myco") && want != "none" && want != ""
				if answerable != ip.IsValid() || (answerable && !strings.HasPrefix(want, ip.String()+"/")) {
					rep.Violate("reply-fault/"+kind+"/wrong-reply", fmt.Sprintf("after the %s of reply %d failed, query %d (%s) was answered with %v (rcode %d); expected %s", kind, k, qi+1, q.name, ip, rw.msgs[0].Rcode, want), nil)
				}
				rep.Outcome("reply-fault/answered")
			}
		}
	}
	return evals
}

func runLookupSched(t *testing.T, rep *kit.Report, env kit.Env) {
	bound := 2
	if env.Deep() {
		bound = 3
	}
	rep.Bounds["sched_preemption_bound"] = bound
	top := 0
	for _, c := range lookupConcs(env.Deep()) {
		schedx.ExploreConc(rep, env, c, bound, &top)
	}
	if env.Shard == 0 {
		rep.Add(replyFaults(rep, env), 0, 0, 0)
	}
}

// TestC19Race: the same look-ups on free-running goroutines under the race
// detector (supporting evidence next to the exhaustive pass; see schedx.FreeRun).
func TestC19Race(t *testing.T) {
	env := kit.GetEnv()
	rep := kit.NewReport("C19", env)
	defer func() { _ = rep.Finish(env) }()
	iters := 300
	if env.Deep() {
		iters = 3000
	}
	var n int64
	n = schedx.FreeRunAll(rep, env, lookupConcs(env.Deep()), true, iters)
	rep.Add(n, 0, 0, 0)
	rep.OutcomeN("free-running race-detector pass [iterations]", n)
}
