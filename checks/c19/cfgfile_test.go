package c19

import (
	"fmt"

	"verif/kit"

	"github.com/mycoria/mycoria/config"
	"github.com/mycoria/mycoria/m"
)

// loadViaFile writes the configuration as a .json / .yaml / .yml file (documented
// key names, see kit.WriteConfigFile) and loads it with the real loader.
func loadViaFile(dir, ext string, id *m.Address, st config.Store) (*config.Config, error) {
	st.Router.Address = id.Store()
	st.Router.Listen = []string{"tcp:47369"}
	cfg, err, pan := kit.LoadConfigFile(dir, "config", ext, st)
	if pan != nil {
		return nil, fmt.Errorf("the configuration loader panicked: %v", pan)
	}
	return cfg, err
}
