// C19: name resolution — .myco only, fixed precedence, learned mappings cannot shadow.
//
// For every name of a small alphabet and every subset of the three configurable
// sources (resolve entry, friend, stored mapping) holding that name with
// pairwise different addresses, and for every mapping-op history up to depth 3,
// every query variant (case, type, class, question count) is sent through the
// real dns.Server and compared with a reference precedence function.
package c19

import (
	"fmt"
	"net"
	"net/netip"
	"strings"
	"testing"
	"time"

	mdns "github.com/miekg/dns"

	"verif/kit"

	"github.com/mycoria/mycoria/api/dns"
	"github.com/mycoria/mycoria/config"
)

var pool = kit.RoutablePool("c19", 1)

type stubConn struct{}

func (stubConn) ReadFrom(p []byte) (int, net.Addr, error)  { select {} }
func (stubConn) WriteTo(p []byte, a net.Addr) (int, error) { return len(p), nil }
func (stubConn) Close() error                              { return nil }
func (stubConn) LocalAddr() net.Addr                       { return &net.UDPAddr{} }
func (stubConn) SetDeadline(time.Time) error               { return nil }
func (stubConn) SetReadDeadline(time.Time) error           { return nil }
func (stubConn) SetWriteDeadline(time.Time) error          { return nil }

type recWriter struct{ msgs []*mdns.Msg }

func (w *recWriter) LocalAddr() net.Addr         { return &net.UDPAddr{} }
func (w *recWriter) RemoteAddr() net.Addr        { return &net.UDPAddr{} }
func (w *recWriter) WriteMsg(m *mdns.Msg) error  { w.msgs = append(w.msgs, m); return nil }
func (w *recWriter) Write(b []byte) (int, error) { return len(b), nil }
func (w *recWriter) Close() error                { return nil }
func (w *recWriter) TsigStatus() error           { return nil }
func (w *recWriter) TsigTimersOnly(bool)         {}
func (w *recWriter) Hijack()                     {}

var (
	ipResolve = netip.MustParseAddr("fd10:1111::1")
	ipFriend  = netip.MustParseAddr("fd10:2222::2")
	ipMap1    = netip.MustParseAddr("fd10:3333::3")
	ipMap2    = netip.MustParseAddr("fd10:4444::4")
	ipOther   = netip.MustParseAddr("fd10:5555::5")
)

type nameCase struct {
	query   string // name as configured / queried (without trailing dot), lower case ascii form
	cfgName string // as written in config (may be unicode / mixed case)
	builtin bool
	forbid  bool
	myco    bool
}

var names = []nameCase{
	{query: "router.myco", cfgName: "router.myco", builtin: true, myco: true},
	{query: "open.myco", cfgName: "Open.myco", builtin: true, myco: true},
	{query: "wpad.myco", cfgName: "wpad.myco", forbid: true, myco: true},
	{query: "myco.myco", cfgName: "myco.myco", forbid: true, myco: true},
	{query: "alice.myco", cfgName: "alice.myco", myco: true},
	{query: "bob-2.myco", cfgName: "Bob-2.MYCO", myco: true},
	{query: "svc.alice.myco", cfgName: "svc.alice.myco.", myco: true},
	// labels ending in letters of the suffix itself.
	{query: "tom.myco", cfgName: "tom.myco", myco: true},
	{query: "marco.myco", cfgName: "Marco.myco", myco: true},
	{query: "xn--bcher-kva.myco", cfgName: "bücher.myco", myco: true},
	{query: "example.com", cfgName: "", myco: false},
	{query: "alice.myco.example.com", cfgName: "", myco: false},
	{query: "myco", cfgName: "", myco: false},
	{query: "notmyco", cfgName: "", myco: false},
	{query: "", cfgName: "", myco: false},
}

type refAns struct {
	found  bool
	ip     netip.Addr
	source dns.Source
}

// reference precedence.
func reference(nc nameCase, hasResolve, hasFriend bool, mapping netip.Addr) refAns {
	if !nc.myco {
		return refAns{}
	}
	switch {
	case nc.builtin:
		return refAns{true, config.DefaultAPIAddress, dns.SourceInternal}
	case hasResolve:
		return refAns{true, ipResolve, dns.SourceResolveConfig}
	case nc.forbid:
		return refAns{}
	case hasFriend:
		return refAns{true, ipFriend, dns.SourceFriend}
	case mapping.IsValid():
		return refAns{true, mapping, dns.SourceMapping}
	}
	return refAns{}
}

type mapOp struct {
	del  bool
	name int // 0 = the name under test, 1 = an unrelated name
	ip   netip.Addr
}

func (o mapOp) String() string {
	n := []string{"name", "other"}[o.name]
	if o.del {
		return "delete(" + n + ")"
	}
	return fmt.Sprintf("save(%s,%s)", n, o.ip)
}

var mapOps = []mapOp{
	{false, 0, ipMap1}, {false, 0, ipMap2}, {true, 0, netip.Addr{}},
	{false, 1, ipOther}, {true, 1, netip.Addr{}},
}

func caseVariants(q string) []string {
	if q == "" {
		return []string{""}
	}
	up := strings.ToUpper(q)
	mixed := []byte(q)
	for i := range mixed {
		if i%2 == 0 && mixed[i] >= 'a' && mixed[i] <= 'z' {
			mixed[i] -= 32
		}
	}
	return []string{q, up, string(mixed)}
}

func TestC19(t *testing.T) {
	env := kit.GetEnv()
	rep := kit.NewReport("C19", env)
	rep.Rule = "for every name of a 15-name alphabet (2 built-in, 2 forbidden, 5 ordinary incl. labels ending in letters of the suffix, sub-name and mixed-case/trailing-dot config spelling, IDN, 5 non-.myco/edge) x every subset of {resolve entry, friend (second friend name of a router that has another one)} holding it x every history of <= D mapping operations (save ip1/ip2, delete, on the name and on an unrelated name): every query = case variant x trailing dot x qtype in {A,AAAA,SVCB,HTTPS,ANY,TXT,MX,0,65535} x qclass in {IN,ANY,CH,NONE,0} x question count {0,1,2}, through the real ServeDNS and Lookup, compared with the reference precedence function; the same server is also queried before and after every single operation of the history, and for 12 neighbour names of the name (label plus/minus characters, sub- and super-names, names that contain the suffix in the middle such as <label>.myco.myco and <label>.mycology.myco) which must give a name error; non-trivial = at least two sources hold the name or the query must be refused; states = distinct (config subset, mapping store content); distinct = distinct (state, query)"
	rep.Assumptions = []string{
		"friend names in the configuration are lower case (the statement does not define matching of mixed-case friend names)",
		"queries reach the server as parsed DNS messages (miekg/dns does the wire parsing)",
		"mappings are stored under their cleaned name, as the dashboard stores them",
	}
	depth := 2
	if env.Thorough() {
		depth = 3
	}
	rep.Bounds["mapping_history_depth"] = depth

	qtypes := []uint16{mdns.TypeA, mdns.TypeAAAA, mdns.TypeSVCB, mdns.TypeHTTPS, mdns.TypeANY, mdns.TypeTXT, mdns.TypeMX, 0, 65535}
	qclasses := []uint16{mdns.ClassINET, mdns.ClassANY, mdns.ClassCHAOS, mdns.ClassNONE, 0}
	answerable := func(qt, qc uint16) bool {
		okT := qt == mdns.TypeA || qt == mdns.TypeAAAA || qt == mdns.TypeSVCB || qt == mdns.TypeHTTPS || qt == mdns.TypeANY
		okC := qc == mdns.ClassINET || qc == mdns.ClassANY
		return okT && okC
	}

	// enumerate mapping histories.
	var histories [][]mapOp
	var gen func(prefix []mapOp)
	gen = func(prefix []mapOp) {
		histories = append(histories, append([]mapOp(nil), prefix...))
		if len(prefix) == depth {
			return
		}
		for _, o := range mapOps {
			gen(append(prefix, o))
		}
	}
	gen(nil)

	var evals, nontrivial, transitions int64
	states := map[string]bool{}
	idx := 0
	// the configuration reaches the server as a parsed store or through a configuration file.
	cfgVias := []string{"store", "json", "yaml", "yml"}
	cfgDir := t.TempDir()
	for ni, nc := range names {
		for sub := 0; sub < 4; sub++ {
			hasResolve, hasFriend := sub&1 != 0, sub&2 != 0
			if nc.cfgName == "" && sub != 0 {
				continue // names that cannot be configured
			}
			for hi0 := 0; hi0 < len(histories)*len(cfgVias); hi0++ {
				hi, hist := hi0%len(histories), histories[hi0%len(histories)]
				via := cfgVias[hi0/len(histories)]
				if via != "store" && sub == 0 {
					continue // nothing configured: the file adds nothing
				}
				idx++
				if !env.Mine(idx) {
					continue
				}
				// build the real server.
				st := config.Store{}
				if hasResolve {
					st.ResolveConfig = map[string]string{nc.cfgName: ipResolve.String()}
				}
				if hasFriend {
					// the router behind the name is also known under another friend name, listed first.
					st.FriendConfigs = []config.FriendConfig{{Name: "first-name-of-the-same-router", IP: ipFriend.String()}, {Name: strings.TrimSuffix(nc.query, ".myco"), IP: ipFriend.String()}}
				}
				opts := kit.NodeOpts{Name: "R", ID: pool[0], Store: st, StateOnly: true}
				if via != "store" {
					// the same configuration written as a file and read by the real loader.
					cfg, err := loadViaFile(cfgDir, via, pool[0], st)
					if err != nil {
						rep.Violate("config-file-rejected/"+via, fmt.Sprintf("valid %s configuration file rejected for name %q: %v", via, nc.cfgName, err), nil)
						continue
					}
					opts.Config = cfg
				}
				node, err := kit.NewNode(opts)
				if err != nil {
					rep.Violate("config-rejected", fmt.Sprintf("valid configuration rejected for name %q: %v", nc.cfgName, err), nil)
					continue
				}
				srv, err := dns.New(node, stubConn{}, node.Store)
				if err != nil {
					t.Fatal(err)
				}
				// mapping history through the real storage, names cleaned as the dashboard does.
				mapping := netip.Addr{}
				if nc.cfgName != "" {
					cleaned, ok := config.CleanDomain(nc.cfgName)
					if !ok || cleaned != nc.query {
						rep.Violate("clean-domain", fmt.Sprintf("CleanDomain(%q) = %q,%v; expected %q", nc.cfgName, cleaned, ok, nc.query), nil)
						continue
					}
					// the server is queried before the first and after every
					// mapping operation (one server lives through the history).
					stepCheck := func(step int) {
						w := reference(nc, hasResolve, hasFriend, mapping)
						ip, src := srv.Lookup(nc.query)
						gotFound := src != dns.SourceNone && src != dns.SourceForbidden
						evals++
						nontrivial++
						if gotFound != w.found || (w.found && (ip != w.ip || src != w.source)) {
							rep.Violate(fmt.Sprintf("lookup-during-history/%s", classOf(nc)), fmt.Sprintf("after %d of the mapping operations %v: Lookup(%q) = (%v,%q), reference (%v,%q,found=%v); resolve=%v friend=%v mapping=%v", step, hist, nc.query, ip, src, w.ip, w.source, w.found, hasResolve, hasFriend, mapping), map[string]any{"name": nc.query, "resolve": hasResolve, "friend": hasFriend, "mapping_history": fmt.Sprint(hist), "step": step})
						}
						req := new(mdns.Msg)
						req.Id = 78
						req.Question = []mdns.Question{{Name: nc.query + ".", Qtype: mdns.TypeAAAA, Qclass: mdns.ClassINET}}
						rw := &recWriter{}
						if pan, pv := kit.Try(func() { srv.ServeDNS(rw, req) }); pan {
							rep.Violate("servedns-panic", fmt.Sprintf("ServeDNS panicked: %v", pv), nc.query)
							return
						}
						if len(rw.msgs) != 1 {
							rep.Violate("no-reply", fmt.Sprintf("%d replies for %q during the mapping history", len(rw.msgs), nc.query), nc.query)
							return
						}
						gip, gsrc := extract(rw.msgs[0])
						answered := rw.msgs[0].Rcode == mdns.RcodeSuccess && len(rw.msgs[0].Answer) > 0
						if answered != w.found || (w.found && (gip != w.ip || gsrc != string(w.source))) {
							rep.Violate(fmt.Sprintf("answer-during-history/%s", classOf(nc)), fmt.Sprintf("after %d of the mapping operations %v: AAAA %q answered=%v ip=%v source=%q, reference found=%v ip=%v source=%q", step, hist, nc.query, answered, gip, gsrc, w.found, w.ip, w.source), map[string]any{"name": nc.query, "resolve": hasResolve, "friend": hasFriend, "mapping_history": fmt.Sprint(hist), "step": step})
						}
					}
					if nc.myco && len(hist) > 0 {
						stepCheck(0)
					}
					for oi, o := range hist {
						if oi > 0 && nc.myco {
							stepCheck(oi)
						}
						target := cleaned
						if o.name == 1 {
							target = "unrelated.myco"
						}
						if o.del {
							_ = node.Store.DeleteMapping(target)
							if o.name == 0 {
								mapping = netip.Addr{}
							}
						} else {
							_ = node.Store.SaveMapping(target, o.ip)
							if o.name == 0 {
								mapping = o.ip
							}
						}
						transitions++
					}
				} else if len(hist) > 0 {
					continue
				}
				states[fmt.Sprintf("%d/%d/%v/%d", ni, sub, mapping, hi)] = true
				want := reference(nc, hasResolve, hasFriend, mapping)
				sources := 0
				for _, b := range []bool{nc.builtin, hasResolve, nc.forbid, hasFriend, mapping.IsValid()} {
					if b {
						sources++
					}
				}
				histNames := fmt.Sprint(hist)
				desc := func(q string, qt, qc uint16, cnt int) map[string]any {
					return map[string]any{"name": nc.query, "resolve": hasResolve, "friend": hasFriend, "mapping_history": histNames, "query": q, "qtype": qt, "qclass": qc, "questions": cnt}
				}

				// direct Lookup.
				if nc.myco {
					ip, src := srv.Lookup(nc.query)
					gotFound := src != dns.SourceNone && src != dns.SourceForbidden
					if gotFound != want.found || (want.found && (ip != want.ip || src != want.source)) {
						rep.Violate(fmt.Sprintf("lookup-precedence/%s", classOf(nc)), fmt.Sprintf("Lookup(%q) = (%v,%q), reference (%v,%q,found=%v); resolve=%v friend=%v mapping=%v", nc.query, ip, src, want.ip, want.source, want.found, hasResolve, hasFriend, mapping), desc(nc.query, 0, 0, 1))
					}
				}

				// neighbours of the name hold nothing: name error, whatever the name itself holds.
				if nc.myco && nc.cfgName != "" {
					label := strings.TrimSuffix(nc.query, ".myco")
					for _, nb := range []string{label + "c", label + "o", label + "my", label + "myco", label + ".m", label[:len(label)-1], "x" + label, "x." + label, label + ".x", label + ".myco", label + ".mycology", label + ".mycox.y"} {
						nq := nb + ".myco"
						known := nb == ""
						for _, other := range names {
							if other.query == nq {
								known = true
							}
						}
						if known {
							continue
						}
						evals++
						nontrivial++
						if ip, src := srv.Lookup(nq); src != dns.SourceNone && src != dns.SourceForbidden {
							rep.Violate(fmt.Sprintf("neighbour-answered/%s", classOf(nc)), fmt.Sprintf("Lookup(%q) = (%v,%q) although only %q is held (resolve=%v friend=%v mapping=%v)", nq, ip, src, nc.query, hasResolve, hasFriend, mapping), desc(nq, 0, 0, 1))
						}
						req := new(mdns.Msg)
						req.Id = 79
						req.Question = []mdns.Question{{Name: nq + ".", Qtype: mdns.TypeAAAA, Qclass: mdns.ClassINET}}
						rw := &recWriter{}
						if pan, pv := kit.Try(func() { srv.ServeDNS(rw, req) }); pan {
							rep.Violate("servedns-panic", fmt.Sprintf("ServeDNS panicked: %v", pv), desc(nq, mdns.TypeAAAA, mdns.ClassINET, 1))
						} else if len(rw.msgs) != 1 || rw.msgs[0].Rcode != mdns.RcodeNameError || len(rw.msgs[0].Answer) > 0 {
							rep.Violate(fmt.Sprintf("neighbour-answered/%s", classOf(nc)), fmt.Sprintf("AAAA %q is not answered with a name error although only %q is held (resolve=%v friend=%v mapping=%v)", nq, nc.query, hasResolve, hasFriend, mapping), desc(nq, mdns.TypeAAAA, mdns.ClassINET, 1))
						}
					}
				}

				// queries.
				for _, qv := range caseVariants(nc.query) {
					for _, dot := range []bool{true, false} {
						qname := qv
						if dot {
							qname += "."
						}
						for _, qt := range qtypes {
							for _, qc := range qclasses {
								for _, cnt := range []int{1, 0, 2} {
									if cnt != 1 && (qt != mdns.TypeAAAA || qc != mdns.ClassINET) && (qt != mdns.TypeTXT) {
										continue
									}
									req := new(mdns.Msg)
									req.Id = 77
									for i := 0; i < cnt; i++ {
										n := qname
										if i == 1 {
											n = "second.example."
										}
										req.Question = append(req.Question, mdns.Question{Name: n, Qtype: qt, Qclass: qc})
									}
									rw := &recWriter{}
									pan, pv := kit.Try(func() { srv.ServeDNS(rw, req) })
									evals++
									expectAnswer := cnt >= 1 && dot && want.found && answerable(qt, qc)
									if sources >= 2 || !expectAnswer {
										nontrivial++
									}
									cls := "answered"
									switch {
									case pan:
										rep.Violate("servedns-panic", fmt.Sprintf("ServeDNS panicked: %v", pv), desc(qname, qt, qc, cnt))
										cls = "panic"
									case len(rw.msgs) == 0:
										k := "no-reply"
										if cnt == 0 {
											k = "no-reply/empty-question-section"
										}
										rep.Violate(k, fmt.Sprintf("query got no reply at all (handler crashed inside the worker?) name=%q qtype=%d qclass=%d questions=%d", qname, qt, qc, cnt), desc(qname, qt, qc, cnt))
										cls = "no-reply"
									case len(rw.msgs) > 1:
										rep.Violate("multiple-replies", "more than one reply written", desc(qname, qt, qc, cnt))
									default:
										m := rw.msgs[0]
										if !expectAnswer {
											cls = "nxdomain"
											if m.Rcode != mdns.RcodeNameError || len(m.Answer) > 0 {
												rep.Violate(fmt.Sprintf("answered-but-must-refuse/%s", classOf(nc)), fmt.Sprintf("name=%q qtype=%d qclass=%d questions=%d got rcode=%d answers=%d; reference: name error (resolve=%v friend=%v mapping=%v)", qname, qt, qc, cnt, m.Rcode, len(m.Answer), hasResolve, hasFriend, mapping), desc(qname, qt, qc, cnt))
											}
										} else {
											ip, src := extract(m)
											if m.Rcode != mdns.RcodeSuccess || ip != want.ip || src != string(want.source) {
												rep.Violate(fmt.Sprintf("wrong-answer/%s", classOf(nc)), fmt.Sprintf("name=%q qtype=%d got rcode=%d ip=%v source=%q; reference ip=%v source=%q (resolve=%v friend=%v mapping=%v)", qname, qt, m.Rcode, ip, src, want.ip, want.source, hasResolve, hasFriend, mapping), desc(qname, qt, qc, cnt))
											}
										}
									}
									rep.Outcome(cls)
									if evals%40000 == 1 {
										rep.Sample(desc(qname, qt, qc, cnt))
									}
								}
							}
						}
					}
				}
			}
		}
	}
	runLookupSched(t, rep, env)
	rep.Add(evals, nontrivial, int64(len(states)), transitions+evals)
	if err := rep.Finish(env); err != nil {
		t.Fatal(err)
	}
}

func classOf(nc nameCase) string {
	switch {
	case nc.builtin:
		return "builtin-name"
	case nc.forbid:
		return "forbidden-name"
	case !nc.myco:
		return "non-myco"
	}
	return "ordinary-name"
}

func extract(m *mdns.Msg) (netip.Addr, string) {
	var ip netip.Addr
	src := ""
	for _, rr := range append(append([]mdns.RR{}, m.Answer...), m.Extra...) {
		switch v := rr.(type) {
		case *mdns.AAAA:
			if a, ok := netip.AddrFromSlice(v.AAAA); ok {
				ip = a
			}
		case *mdns.TXT:
			for _, s := range v.Txt {
				if strings.HasPrefix(s, "answer source: ") {
					src = strings.TrimPrefix(s, "answer source: ")
				}
			}
		}
	}
	return ip, src
}
