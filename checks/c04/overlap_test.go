// C04, overlapping connections of one peer: the same router connects twice (or
// both routers dial each other); the two link setups run in separate workers
// and share the peer's session (and its key-exchange state). Every interleaving
// of the message rounds of the two setups is enumerated, with one of the
// connections ending (end of stream at either end) at every position. Oracle at
// the end of every history: a link that is registered for a peer and not
// closing has agreed link keys - a frame handed to it never appears in clear on
// its connection - and, if its other end is registered too, the frame arrives
// there intact.
package c04

import (
	"bytes"
	"fmt"
	"testing"
	"testing/synctest"
	"time"

	"verif/kit"

	"github.com/mycoria/mycoria/config"
	"github.com/mycoria/mycoria/frame"
	"github.com/mycoria/mycoria/peering"
)

func overlappingSetups(t *testing.T, rep *kit.Report, env kit.Env) (evals, nontrivial int64) {
	const rounds = 5
	caseNo := 7000
	// all interleavings of the rounds of wire 0 and wire 1 (as bit strings), x cross (second wire dialled by the other router),
	// x one end-of-stream event (wire, side, position) or none.
	for cross := 0; cross < 2; cross++ {
		for mask := 0; mask < 1<<(2*rounds); mask++ {
			ones := 0
			for b := 0; b < 2*rounds; b++ {
				if mask&(1<<b) != 0 {
					ones++
				}
			}
			if ones != rounds {
				continue
			}
			for eof := -1; eof < 4*(2*rounds+1); eof++ {
				caseNo++
				if !env.Mine(caseNo) {
					continue
				}
				eofWire, eofSide, eofPos := -1, 0, -1
				if eof >= 0 {
					eofWire, eofSide, eofPos = eof%2, (eof/2)%2, eof/4
				}
				desc := fmt.Sprintf("cross=%d rounds=%010b eof=wire%d/side%d/at%d", cross, mask, eofWire, eofSide, eofPos)
				synctest.Test(t, func(t *testing.T) {
					a, err := kit.NewNode(kit.NodeOpts{Name: "A", ID: pool[0], Store: config.Store{}})
					if err != nil {
						panic(err)
					}
					b, err := kit.NewNode(kit.NodeOpts{Name: "B", ID: pool[1], Store: config.Store{}})
					if err != nil {
						panic(err)
					}
					pa, pb := kit.WatchPanics(a), kit.WatchPanics(b)
					w0 := kit.NewWire(a, b)
					w0.Start()
					time.Sleep(3 * time.Millisecond) // connections are never opened in the same millisecond
					var w1 *kit.Wire
					if cross == 0 {
						w1 = kit.NewWire(a, b)
					} else {
						w1 = kit.NewWire(b, a)
					}
					w1.Start()
					ws := []*kit.Wire{w0, w1}
					doEOF := func() {
						w := ws[eofWire]
						if eofSide == 0 {
							w.EA.FeedEOF()
						} else {
							w.EB.FeedEOF()
						}
						synctest.Wait()
					}
					for step := 0; step < 2*rounds; step++ {
						if step == eofPos {
							doEOF()
						}
						wi := 0
						if mask&(1<<step) != 0 {
							wi = 1
						}
						ws[wi].Pump(1)
					}
					if eofPos == 2*rounds {
						doEOF()
					}
					// let both setups run to their end.
					w0.Pump(6)
					w1.Pump(6)
					evals++
					nontrivial++
					for _, p := range append(pa(), pb()...) {
						rep.Violate("overlapping-setups/panic", fmt.Sprintf("link setup worker panicked: %s; %s", p, desc), desc)
					}
					// every registered, live link: hand it a frame, look at its connection.
					type end struct {
						n, peer *kit.Node
					}
					for _, e := range []end{{a, b}, {b, a}} {
						l := e.n.Peering().GetLink(e.peer.Identity().IP)
						if l == nil || l.IsClosing() {
							rep.Outcome("overlapping-setups/no-live-link-at-this-end")
							continue
						}
						// which connection does it write to?
						var out *kit.Endpoint
						for _, w := range ws {
							if w.LinkA == l {
								out = w.EA
							}
							if w.LinkB == l || w.AttemptB == l {
								out = w.EB
							}
						}
						if out == nil {
							rep.Outcome("overlapping-setups/link-of-unknown-connection")
							continue
						}
						before := len(out.Out)
						payload := []byte("OVERLAP-PAYLOAD-" + desc + "-0123456789abcdef")
						f, err := e.n.FrameBuilder().NewFrameV1(e.n.Identity().IP, e.peer.Identity().IP, frame.SessionData, nil, payload, nil)
						if err != nil {
							panic(err)
						}
						_ = l.Send(f)
						synctest.Wait()
						clear := false
						for _, msg := range out.Out[before:] {
							if bytes.Contains(msg, payload[:24]) {
								clear = true
							}
						}
						if clear || peering.VerifLinkEncSession(l) == nil {
							rep.Violate("overlapping-setups/registered-link-without-keys", fmt.Sprintf("a link registered for its peer has no agreed link keys: a frame handed to it crossed the connection in clear (clear=%v); %s", clear, desc), desc)
							rep.Outcome("overlapping-setups/plaintext-link!")
						} else {
							rep.Outcome("overlapping-setups/live-link-encrypts")
						}
					}
					w0.Shutdown()
					w1.Shutdown()
				})
			}
		}
	}
	return
}
