package c04

import (
	"crypto/ecdh"
	"crypto/ed25519"
	"crypto/rand"
	"fmt"
	"testing"
	"testing/synctest"
	"time"

	"github.com/fxamacker/cbor/v2"

	"verif/kit"

	"github.com/mycoria/mycoria/config"
	"github.com/mycoria/mycoria/frame"
	"github.com/mycoria/mycoria/m"
	"github.com/mycoria/mycoria/router"
)

// Active impostor: an adversary with its OWN key pair speaks the whole protocol
// as a client and claims to be router P (whose private key it does not have).
// Scenarios are sequences of connections against one long-lived honest router R.

type preq struct {
	RouterVersion string          `cbor:"v,omitempty"`
	Universe      string          `cbor:"u,omitempty"`
	LiteMode      bool            `cbor:"lm,omitempty"`
	Address       m.PublicAddress `cbor:"a,omitempty"`
	Challenge     []byte          `cbor:"c,omitempty"`
	LinkVersion   int             `cbor:"lv,omitempty"`
	TunMTU        int             `cbor:"tmtu,omitempty"`
}

type presp struct {
	Challenge       []byte `cbor:"c,omitempty"`
	UniverseAuth    []byte `cbor:"ua,omitempty"`
	KeyExchange     []byte `cbor:"kx,omitempty"`
	KeyExchangeType string `cbor:"kxt,omitempty"`
	Err             string `cbor:"err,omitempty"`
}

type pack struct {
	Ack             bool   `cbor:"ack,omitempty"`
	KeyExchange     []byte `cbor:"kx,omitempty"`
	KeyExchangeType string `cbor:"kxt,omitempty"`
	Err             string `cbor:"err,omitempty"`
}

// wireFrame builds a raw-signed handshake frame with the 2-byte length prefix.
func wireFrame(b *frame.Builder, src, dst m.PublicAddress, dstIsMulticast bool, msg []byte, key ed25519.PrivateKey, ts time.Time) []byte {
	b.SetFrameMargins(2, 0)
	d := dst.IP
	if dstIsMulticast {
		d = m.RouterAddress
	}
	f, err := b.NewFrameV1(src.IP, d, frame.RouterPing, nil, msg, nil)
	if err != nil {
		panic(err)
	}
	f.SetTTL(0)
	f.SetSequenceTime(ts)
	if err := f.SignRaw(key); err != nil {
		panic(err)
	}
	f.SetTTL(1)
	data, _ := f.FrameDataWithMargins(2, 0)
	m.PutUint16(data[:2], uint16(len(data)))
	out := append([]byte(nil), data...)
	f.ReturnToPool()
	return out
}

func msgOf(wire []byte) []byte {
	raw := wire[2:]
	sw := int(raw[48])
	ml := int(raw[49+sw])<<8 | int(raw[50+sw])
	return raw[51+sw : 51+sw+ml]
}

// impostorConnection runs one connection; presented is the address structure the
// attacker presents; it always signs with attKey. Returns whether R registered a link.
func impostorConnection(r *kit.Node, b *frame.Builder, presented m.PublicAddress, attKey ed25519.PrivateKey, universe string) (registered bool, panicked any) {
	ep := kit.NewEndpoint("impostor")
	done := false
	go func() {
		if _, v := kit.Accept(r, ep); v != nil {
			panicked = v
		}
		done = true
	}()
	synctest.Wait()
	out := ep.Take()
	if len(out) == 0 {
		return false, panicked
	}
	var rreq preq
	if err := cbor.Unmarshal(msgOf(out[0]), &rreq); err != nil {
		panic(err)
	}
	now := time.Now().Round(time.Millisecond)
	myChallenge := make([]byte, 32)
	req := preq{RouterVersion: "v", Universe: universe, Address: presented, Challenge: myChallenge, LinkVersion: 1}
	ep.Feed(wireFrame(b, presented, r.Identity().PublicAddress, true, kit.MustCBOR(&req), attKey, now.Add(-time.Millisecond)))
	synctest.Wait()
	out = ep.Take()
	if done || len(out) == 0 {
		ep.FeedEOF()
		synctest.Wait()
		return r.Peering().LinkCnt() > 0, panicked
	}
	kx, _ := ecdh.X25519().GenerateKey(rand.Reader)
	resp := presp{Challenge: rreq.Challenge, KeyExchange: kx.PublicKey().Bytes(), KeyExchangeType: "ECDH-X25519/BLAKE3"}
	ep.Feed(wireFrame(b, presented, r.Identity().PublicAddress, false, kit.MustCBOR(&resp), attKey, now.Add(time.Millisecond)))
	synctest.Wait()
	out = ep.Take()
	if !done && len(out) > 0 {
		ack := pack{Ack: true}
		ep.Feed(wireFrame(b, presented, r.Identity().PublicAddress, false, kit.MustCBOR(&ack), attKey, now.Add(2*time.Millisecond)))
		synctest.Wait()
	}
	registered = r.Peering().LinkCnt() > 0
	for _, l := range r.Peering().GetLinks() {
		l.Close(nil)
	}
	ep.FeedEOF()
	synctest.Wait()
	return registered, panicked
}

func impostorScenarios(t *testing.T, rep *kit.Report, env kit.Env, evals, nontrivial *int64) {
	att := pool[2] // the attacker's own, genuine identity (it owns this key)
	victim := pool[1]
	forged := victim.PublicAddress   // victim's address ...
	forged.PublicKey = att.PublicKey // ... with the attacker's key
	genuine := victim.PublicAddress
	type step struct {
		name string
		addr m.PublicAddress
	}
	steps := map[string]step{
		"forged":  {"victim's address with the attacker's key", forged},
		"genuine": {"victim's genuine public address, signed by the attacker", genuine},
	}
	seqs := [][]string{{"forged"}, {"genuine"}, {"forged", "genuine"}, {"genuine", "forged"}, {"forged", "forged", "genuine"}, {"forged", "genuine", "genuine"}}
	// prePing: before connecting, the attacker sends R a signed-class ping that claims the
	// victim's address but carries the attacker's key (R refuses it; nothing of it may
	// later help the attacker's handshake).
	prePings := []string{"", "ping-claiming-victim-with-attacker-identity", "ping-claiming-victim-hash-with-attacker-key"}
	for si, seq := range seqs {
		for _, known := range []bool{false, true} {
			for pi, prePing := range prePings {
				if !env.Mine(si*2 + 1 + pi*len(seqs)*2) {
					continue
				}
				synctest.Test(t, func(t *testing.T) {
					world := kit.NewWorld()
					rst := config.Store{}
					rst.Router.Universe = "u"
					r, err := world.AddNodeWith(kit.NodeOpts{Name: "R", ID: pool[0], Store: rst})
					if err != nil {
						panic(err)
					}
					if known {
						// R already knows the genuine victim (e.g. from gossip).
						if err := r.State().AddRouter(&victim.PublicAddress); err != nil {
							panic(err)
						}
					}
					helper := mkNode("X", 2, "u", "")
					if prePing != "" {
						signer := helper
						if prePing == "ping-claiming-victim-hash-with-attacker-key" {
							fid := &m.Address{PublicAddress: forged, PrivateKey: att.PrivateKey}
							fn, err := kit.NewNode(kit.NodeOpts{Name: "F", ID: fid, StateOnly: true})
							if err != nil {
								panic(err)
							}
							signer = fn
						}
						for _, pt := range []string{"hello", "pong"} {
							var body []byte
							if pt == "hello" {
								body = kit.MustCBOR(&router.HelloPingRequest{KeyExchange: make([]byte, 32), KeyExchangeType: "ECDH-X25519/BLAKE3", MTU: 1400})
							} else {
								body = kit.MustCBOR(map[string]string{"msg": "ping"})
							}
							raw, err := kit.BuildPing(signer, kit.PingSpec{Dst: r.Identity().IP, Src: victim.IP, MsgType: frame.RouterPing, PingType: pt, Code: 1, Body: body, RawSign: true})
							if err != nil {
								panic(err)
							}
							world.InjectVia(nil, r, raw)
							time.Sleep(2 * time.Millisecond)
						}
					}
					for ci, s := range seq {
						reg, pan := impostorConnection(r, helper.FrameBuilder(), steps[s].addr, att.PrivateKey, "u")
						*evals++
						*nontrivial++
						desc := fmt.Sprintf("connections=%v (at connection %d) victim-known-before=%v", seq, ci+1, known)
						if prePing != "" {
							desc += " preceded-by=" + prePing
						}
						if pan != nil {
							rep.Violate("impostor/panic", fmt.Sprintf("link setup panicked: %v; %s", pan, desc), desc)
						}
						if reg {
							rep.Violate("impostor/link-registered", fmt.Sprintf("an adversary without the victim's private key got a link registered for the victim's address: %s", desc), map[string]any{"connections": seq, "victim_known": known, "preceded_by": prePing})
							rep.Outcome("impostor/registered!")
						} else {
							rep.Outcome("impostor/refused")
						}
						time.Sleep(5 * time.Millisecond)
					}
					_ = r.Peering().Stop()
					synctest.Wait()
				})
			}
		}
	}
}

// ---------------------------------------------------------------------------
// Active attacks by a router M that holds its OWN valid identity.

// secretReflection: M knows the universe name but not the secret. It copies the
// victim's challenge into its own request and lifts the universe proof from the
// victim's response into its own response.
func secretReflection(t *testing.T, rep *kit.Report, evals, nontrivial *int64) {
	att := pool[2]
	for _, lift := range []bool{false, true} {
		for _, copyChallenge := range []bool{false, true} {
			synctest.Test(t, func(t *testing.T) {
				r := mkNode("R", 0, "u", "s")
				helper := mkNode("X", 2, "u", "")
				b := helper.FrameBuilder()
				ep := kit.NewEndpoint("attacker")
				var pv any
				done := false
				go func() {
					_, v := kit.Accept(r, ep)
					pv = v
					done = true
				}()
				synctest.Wait()
				out := ep.Take()
				var rreq preq
				if err := cbor.Unmarshal(msgOf(out[0]), &rreq); err != nil {
					panic(err)
				}
				now := time.Now().Round(time.Millisecond)
				ch := make([]byte, 32)
				ch[0] = 7
				if copyChallenge {
					ch = rreq.Challenge
				}
				req := preq{RouterVersion: "v", Universe: "u", Address: att.PublicAddress, Challenge: ch, LinkVersion: 1}
				ep.Feed(wireFrame(b, att.PublicAddress, r.Identity().PublicAddress, true, kit.MustCBOR(&req), att.PrivateKey, now.Add(-time.Millisecond)))
				synctest.Wait()
				out = ep.Take()
				if !done && len(out) > 0 {
					var rresp presp
					_ = cbor.Unmarshal(msgOf(out[0]), &rresp)
					kx, _ := ecdh.X25519().GenerateKey(rand.Reader)
					resp := presp{Challenge: rreq.Challenge, KeyExchange: kx.PublicKey().Bytes(), KeyExchangeType: "ECDH-X25519/BLAKE3"}
					if lift {
						resp.UniverseAuth = rresp.UniverseAuth
					}
					ep.Feed(wireFrame(b, att.PublicAddress, r.Identity().PublicAddress, false, kit.MustCBOR(&resp), att.PrivateKey, now.Add(time.Millisecond)))
					synctest.Wait()
					out = ep.Take()
					if !done && len(out) > 0 {
						ep.Feed(wireFrame(b, att.PublicAddress, r.Identity().PublicAddress, false, kit.MustCBOR(&pack{Ack: true}), att.PrivateKey, now.Add(2*time.Millisecond)))
						synctest.Wait()
					}
				}
				*evals++
				*nontrivial++
				desc := fmt.Sprintf("attacker without the universe secret: challenge copied from victim=%v, universe proof lifted from victim's response=%v", copyChallenge, lift)
				if pv != nil {
					rep.Violate("secret-reflection/panic", fmt.Sprintf("setup panicked: %v; %s", pv, desc), desc)
				}
				if r.Peering().LinkCnt() > 0 {
					rep.Violate("secret-reflection/link-registered", "a router that does not know the universe secret got a link registered at a router that requires it: "+desc, desc)
					rep.Outcome("secret-reflection/registered!")
				} else {
					rep.Outcome("secret-reflection/refused")
				}
				for _, l := range r.Peering().GetLinks() {
					l.Close(nil)
				}
				ep.FeedEOF()
				synctest.Wait()
				_ = r.Peering().Stop()
				synctest.Wait()
			})
		}
	}
}

// proofRelay: victim A dials what it believes is P; the attacker M (own identity)
// sits on that connection and at the same time peers with the real P under its
// own identity, using A's challenge as its own, and passes P's signed messages
// on to A. A must never register a link for P over this connection.
func proofRelay(t *testing.T, rep *kit.Report, evals, nontrivial *int64) {
	att := pool[2]
	for _, universe := range []string{"", "u"} {
		synctest.Test(t, func(t *testing.T) {
			a := mkNode("A", 0, universe, "")
			p := mkNode("P", 1, universe, "")
			helper := mkNode("X", 2, universe, "")
			b := helper.FrameBuilder()
			epA, epP := kit.NewEndpoint("A-conn"), kit.NewEndpoint("P-conn")
			var pa, pp any
			var errA error
			continued := false
			go func() { _, v := kit.Try(func() { _, errA = a.Peering().VerifSetupLink(epA, nil, true) }); pa = v }()
			go func() { _, v := kit.Accept(p, epP); pp = v }()
			synctest.Wait()
			oa, op := epA.Take(), epP.Take()
			if len(oa) == 0 || len(op) == 0 {
				panic("harness: no requests")
			}
			var reqA, reqP preq
			_ = cbor.Unmarshal(msgOf(oa[0]), &reqA)
			_ = cbor.Unmarshal(msgOf(op[0]), &reqP)
			now := time.Now().Round(time.Millisecond)
			// M -> P: own request with A's challenge. M -> A: P's request, untouched.
			reqM := preq{RouterVersion: "v", Universe: universe, Address: att.PublicAddress, Challenge: reqA.Challenge, LinkVersion: 1}
			epP.Feed(wireFrame(b, att.PublicAddress, p.Identity().PublicAddress, true, kit.MustCBOR(&reqM), att.PrivateKey, now.Add(-time.Millisecond)))
			epA.Feed(op[0])
			synctest.Wait()
			oa, op = epA.Take(), epP.Take()
			if len(oa) > 0 && len(op) > 0 {
				var respA presp
				_ = cbor.Unmarshal(msgOf(oa[0]), &respA)
				// M -> A: P's response (addressed to M). M -> P: own response carrying A's key-exchange key.
				epA.Feed(op[0])
				respM := presp{Challenge: reqP.Challenge, KeyExchange: respA.KeyExchange, KeyExchangeType: respA.KeyExchangeType}
				epP.Feed(wireFrame(b, att.PublicAddress, p.Identity().PublicAddress, false, kit.MustCBOR(&respM), att.PrivateKey, now.Add(time.Millisecond)))
				synctest.Wait()
				oa, op = epA.Take(), epP.Take()
				// the victim must abort on a response that P addressed to another router;
				// continuing (sending its ack) means the destination binding is gone.
				if len(oa) > 0 {
					var ackA pack
					if err := cbor.Unmarshal(msgOf(oa[0]), &ackA); err == nil && ackA.Err == "" && len(ackA.KeyExchange) == 0 && ackA.Ack || (err == nil && ackA.Err == "" && len(msgOf(oa[0])) < 8) {
						continued = true
					}
					var maybeErr presp
					if err := cbor.Unmarshal(msgOf(oa[0]), &maybeErr); err == nil && maybeErr.Err == "" {
						continued = true
					}
				}
				if len(op) > 0 {
					epA.Feed(op[0]) // P's ack (addressed to M)
				}
				epP.Feed(wireFrame(b, att.PublicAddress, p.Identity().PublicAddress, false, kit.MustCBOR(&pack{Ack: true}), att.PrivateKey, now.Add(2*time.Millisecond)))
				synctest.Wait()
			}
			*evals++
			*nontrivial++
			desc := fmt.Sprintf("three-party relay of P's key-possession proof through attacker M (universe %q)", universe)
			if pa != nil || pp != nil {
				rep.Violate("proof-relay/panic", fmt.Sprintf("setup panicked: %v / %v; %s", pa, pp, desc), desc)
			}
			if continued {
				rep.Violate("proof-relay/continued-after-foreign-response", "the victim continued the handshake after a response that P had addressed to a different router (the attacker): "+desc, desc)
			}
			if a.Peering().GetLink(p.Identity().IP) != nil || a.Peering().LinkCnt() > 0 {
				rep.Violate("proof-relay/link-registered", "the victim registered a link for P over a connection whose remote end is the attacker: "+desc, desc)
				rep.Outcome("proof-relay/registered!")
			} else {
				rep.Outcome(fmt.Sprintf("proof-relay/refused (%v)", errA))
			}
			for _, n := range []*kit.Node{a, p} {
				for _, l := range n.Peering().GetLinks() {
					l.Close(nil)
				}
			}
			epA.FeedEOF()
			epP.FeedEOF()
			synctest.Wait()
			_ = a.Peering().Stop()
			_ = p.Peering().Stop()
			synctest.Wait()
		})
	}
}
