package c04

import (
	"crypto/ecdh"
	"crypto/ed25519"
	"crypto/rand"
	"fmt"
	"testing"
	"testing/synctest"
	"time"

	"github.com/fxamacker/cbor/v2"

	"verif/kit"

	"github.com/mycoria/mycoria/frame"
	"github.com/mycoria/mycoria/m"
)

// Active impostor: an adversary with its OWN key pair speaks the whole protocol
// as a client and claims to be router P (whose private key it does not have).
// Scenarios are sequences of connections against one long-lived honest router R.

type preq struct {
	RouterVersion string          `cbor:"v,omitempty"`
	Universe      string          `cbor:"u,omitempty"`
	LiteMode      bool            `cbor:"lm,omitempty"`
	Address       m.PublicAddress `cbor:"a,omitempty"`
	Challenge     []byte          `cbor:"c,omitempty"`
	LinkVersion   int             `cbor:"lv,omitempty"`
	TunMTU        int             `cbor:"tmtu,omitempty"`
}

type presp struct {
	Challenge       []byte `cbor:"c,omitempty"`
	UniverseAuth    []byte `cbor:"ua,omitempty"`
	KeyExchange     []byte `cbor:"kx,omitempty"`
	KeyExchangeType string `cbor:"kxt,omitempty"`
	Err             string `cbor:"err,omitempty"`
}

type pack struct {
	Ack             bool   `cbor:"ack,omitempty"`
	KeyExchange     []byte `cbor:"kx,omitempty"`
	KeyExchangeType string `cbor:"kxt,omitempty"`
	Err             string `cbor:"err,omitempty"`
}

// wireFrame builds a raw-signed handshake frame with the 2-byte length prefix.
func wireFrame(b *frame.Builder, src, dst m.PublicAddress, dstIsMulticast bool, msg []byte, key ed25519.PrivateKey, ts time.Time) []byte {
	b.SetFrameMargins(2, 0)
	d := dst.IP
	if dstIsMulticast {
		d = m.RouterAddress
	}
	f, err := b.NewFrameV1(src.IP, d, frame.RouterPing, nil, msg, nil)
	if err != nil {
		panic(err)
	}
	f.SetTTL(0)
	f.SetSequenceTime(ts)
	if err := f.SignRaw(key); err != nil {
		panic(err)
	}
	f.SetTTL(1)
	data, _ := f.FrameDataWithMargins(2, 0)
	m.PutUint16(data[:2], uint16(len(data)))
	out := append([]byte(nil), data...)
	f.ReturnToPool()
	return out
}

func msgOf(wire []byte) []byte {
	raw := wire[2:]
	sw := int(raw[48])
	ml := int(raw[49+sw])<<8 | int(raw[50+sw])
	return raw[51+sw : 51+sw+ml]
}

// impostorConnection runs one connection; presented is the address structure the
// attacker presents; it always signs with attKey. Returns whether R registered a link.
func impostorConnection(r *kit.Node, b *frame.Builder, presented m.PublicAddress, attKey ed25519.PrivateKey, universe string) (registered bool, panicked any) {
	ep := kit.NewEndpoint("impostor")
	done := false
	go func() {
		p, v := kit.Try(func() { _, _ = r.Peering().VerifSetupLink(ep, nil, false) })
		if p {
			panicked = v
		}
		done = true
	}()
	synctest.Wait()
	out := ep.Take()
	if len(out) == 0 {
		return false, panicked
	}
	var rreq preq
	if err := cbor.Unmarshal(msgOf(out[0]), &rreq); err != nil {
		panic(err)
	}
	now := time.Now().Round(time.Millisecond)
	myChallenge := make([]byte, 32)
	req := preq{RouterVersion: "v", Universe: universe, Address: presented, Challenge: myChallenge, LinkVersion: 1}
	ep.Feed(wireFrame(b, presented, r.Identity().PublicAddress, true, kit.MustCBOR(&req), attKey, now.Add(-time.Millisecond)))
	synctest.Wait()
	out = ep.Take()
	if done || len(out) == 0 {
		ep.FeedEOF()
		synctest.Wait()
		return r.Peering().LinkCnt() > 0, panicked
	}
	kx, _ := ecdh.X25519().GenerateKey(rand.Reader)
	resp := presp{Challenge: rreq.Challenge, KeyExchange: kx.PublicKey().Bytes(), KeyExchangeType: "ECDH-X25519/BLAKE3"}
	ep.Feed(wireFrame(b, presented, r.Identity().PublicAddress, false, kit.MustCBOR(&resp), attKey, now.Add(time.Millisecond)))
	synctest.Wait()
	out = ep.Take()
	if !done && len(out) > 0 {
		ack := pack{Ack: true}
		ep.Feed(wireFrame(b, presented, r.Identity().PublicAddress, false, kit.MustCBOR(&ack), attKey, now.Add(2*time.Millisecond)))
		synctest.Wait()
	}
	registered = r.Peering().LinkCnt() > 0
	for _, l := range r.Peering().GetLinks() {
		l.Close(nil)
	}
	ep.FeedEOF()
	synctest.Wait()
	return registered, panicked
}

func impostorScenarios(t *testing.T, rep *kit.Report, env kit.Env, evals, nontrivial *int64) {
	att := pool[2] // the attacker's own, genuine identity (it owns this key)
	victim := pool[1]
	forged := victim.PublicAddress   // victim's address ...
	forged.PublicKey = att.PublicKey // ... with the attacker's key
	genuine := victim.PublicAddress
	type step struct {
		name string
		addr m.PublicAddress
	}
	steps := map[string]step{
		"forged":  {"victim's address with the attacker's key", forged},
		"genuine": {"victim's genuine public address, signed by the attacker", genuine},
	}
	seqs := [][]string{{"forged"}, {"genuine"}, {"forged", "genuine"}, {"genuine", "forged"}, {"forged", "forged", "genuine"}, {"forged", "genuine", "genuine"}}
	for si, seq := range seqs {
		for _, known := range []bool{false, true} {
			if !env.Mine(si*2 + 1) {
				continue
			}
			synctest.Test(t, func(t *testing.T) {
				r := mkNode("R", 0, "u", "")
				if known {
					// R already knows the genuine victim (e.g. from gossip).
					if err := r.State().AddRouter(&victim.PublicAddress); err != nil {
						panic(err)
					}
				}
				helper := mkNode("X", 2, "u", "")
				for ci, s := range seq {
					reg, pan := impostorConnection(r, helper.FrameBuilder(), steps[s].addr, att.PrivateKey, "u")
					*evals++
					*nontrivial++
					desc := fmt.Sprintf("connections=%v (at connection %d) victim-known-before=%v", seq, ci+1, known)
					if pan != nil {
						rep.Violate("impostor/panic", fmt.Sprintf("link setup panicked: %v; %s", pan, desc), desc)
					}
					if reg {
						rep.Violate("impostor/link-registered", fmt.Sprintf("an adversary without the victim's private key got a link registered for the victim's address: %s", desc), map[string]any{"connections": seq, "victim_known": known})
						rep.Outcome("impostor/registered!")
					} else {
						rep.Outcome("impostor/refused")
					}
					time.Sleep(5 * time.Millisecond)
				}
				_ = r.Peering().Stop()
				synctest.Wait()
			})
		}
	}
}
