// C04: peering handshake — key-possession proof, universe admission, key agreement.
//
// Two real Peering instances run the real link setup over an adversary-owned
// connection inside a synctest bubble. For every configuration of identities,
// universe and secret, and for every fault (bit flip of every bit of each of
// the six handshake messages, truncation to every length, drop, duplicate,
// replay of the same-position message of a previous complete session, reflection
// back to the sender) the outcome on both ends is observed.
package c04

import (
	"bytes"
	"fmt"
	"testing"
	"testing/synctest"
	"time"

	"github.com/fxamacker/cbor/v2"

	"verif/kit"

	"github.com/mycoria/mycoria/config"
	"github.com/mycoria/mycoria/frame"
	"github.com/mycoria/mycoria/m"
	"github.com/mycoria/mycoria/peering"
)

var pool = kit.RoutablePool("c04", 3)

type hsConfig struct {
	ia, ib     int
	uniA, uniB string
	secA, secB string
}

func (c hsConfig) String() string {
	return fmt.Sprintf("A=id%d(universe=%q secret=%q) B=id%d(universe=%q secret=%q)", c.ia, c.uniA, c.secA, c.ib, c.uniB, c.secB)
}

// admits reports whether router X (with peer P) may register a link according to the statement.
func admits(uniX, secX, uniP, secP string) bool {
	if uniX != uniP {
		return false
	}
	if secX == "" {
		return true
	}
	return secP == secX && uniX != ""
}

type faultKind int

const (
	fNone faultKind = iota
	fBitflip
	fTruncate
	fDrop
	fDup
	fReplayPrev
	fReflect
	fReflectAlso
)

type fault struct {
	kind faultKind
	msg  int
	pos  int
	bit  int
	// bFirst: B's messages of a round are delivered before A's. With this
	// ordering message numbers are: 0 B-req, 1 A-req, 2 B-resp, 3 A-resp, 4 B-ack, 5 A-ack.
	bFirst bool
	// thenHonest: after the faulted connection has ended, the same two
	// routers connect again without any fault.
	thenHonest bool
	// oldReplay: the previous session the replayed messages come from ended
	// two hours before the current connection.
	oldReplay bool
	// between: what happens to the two routers' per-peer sessions between the recorded
	// session and the connection that carries the replay ("" = nothing): the state calls
	// the router makes when the peer reports lost end-to-end keys, when an end-to-end key
	// setup completes, or when the peer announced that it goes down.
	between string
}

func (f fault) String() string {
	n := []string{"none", "bitflip", "truncate", "drop", "duplicate", "replay-previous-session", "reflect", "reflect-and-forward"}[f.kind]
	switch f.kind {
	case fNone:
		return n
	case fBitflip:
		return fmt.Sprintf("%s msg%d byte%d bit%d", n, f.msg, f.pos, f.bit)
	case fTruncate:
		return fmt.Sprintf("%s msg%d to %d bytes", n, f.msg, f.pos)
	}
	if f.oldReplay {
		n += " of a session that ended two hours and one connection ago"
	}
	if f.between != "" {
		n += " [between the recorded session and this connection: " + f.between + "]"
	}
	return fmt.Sprintf("%s msg%d (%s, b-first=%v)", n, f.msg, msgName(f), f.bFirst)
}

var msgNamesAFirst = []string{"A-request", "B-request", "A-response", "B-response", "A-ack", "B-ack"}
var msgNamesBFirst = []string{"B-request", "A-request", "B-response", "A-response", "B-ack", "A-ack"}

func msgName(f fault) string {
	if f.bFirst {
		return msgNamesBFirst[f.msg]
	}
	return msgNamesAFirst[f.msg]
}

type outcome struct {
	regA, regB     bool
	peerA, peerB   bool // registered link reports the true address
	traffic        bool
	trafficChecked bool
	panicA, panicB any
	sizes          []int
	rounds         int
	// second (honest) connection of a thenHonest case.
	// receiverContinued: the router that received the faulted message later
	// wrote another handshake message that is not an error notice.
	receiverContinued      string
	streamIntact           bool // the receiver's byte stream was not changed by the fault after all
	second                 bool
	reg2A, reg2B, traffic2 bool
	doneA, doneB           bool
}

func mkNode(name string, id int, uni, sec string) *kit.Node {
	st := config.Store{}
	st.Router.Universe = uni
	st.Router.UniverseSecret = sec
	n, err := kit.NewNode(kit.NodeOpts{Name: name, ID: pool[id], Store: st})
	if err != nil {
		panic(err)
	}
	return n
}

// session runs one link setup between a and b with the given message hook.
func session(a, b *kit.Node, hook func(idx int, fromA bool, msg []byte) (toB, toA [][]byte), bFirst bool) (*kit.Wire, int) {
	w := kit.NewWire(a, b)
	w.OnMsg = hook
	w.BFirst = bFirst
	w.Start()
	r := w.Pump(20)
	return w, r
}

func run(t *testing.T, c hsConfig, f fault) (o outcome) {
	synctest.Test(t, func(t *testing.T) {
		a := mkNode("A", c.ia, c.uniA, c.secA)
		b := mkNode("B", c.ib, c.uniB, c.secB)
		var prev []kit.WireMsg
		if f.kind == fReplayPrev {
			w1, _ := session(a, b, nil, f.bFirst)
			prev = w1.Seen
			if w1.LinkA != nil {
				w1.LinkA.Close(nil)
			}
			if w1.LinkB != nil {
				w1.LinkB.Close(nil)
			}
			w1.EA.FeedEOF()
			w1.EB.FeedEOF()
			synctest.Wait()
			if a.Peering().GetLink(b.Identity().IP) != nil || b.Peering().GetLink(a.Identity().IP) != nil {
				panic("harness: previous session's links still registered")
			}
			if f.oldReplay {
				// an intermediate, undisturbed connection an hour later, then another hour of silence.
				time.Sleep(time.Hour)
				w2, _ := session(a, b, nil, f.bFirst)
				for _, l := range append(a.Peering().GetLinks(), b.Peering().GetLinks()...) {
					l.Close(nil)
				}
				w2.EA.FeedEOF()
				w2.EB.FeedEOF()
				synctest.Wait()
				time.Sleep(time.Hour)
			}
			switch f.between {
			case "":
			case "reset-encryption":
				// what the error handler does when the peer reports "no encryption keys".
				_ = a.State().SetEncryptionSession(b.Identity().IP, nil)
				_ = b.State().SetEncryptionSession(a.Identity().IP, nil)
			case "key-setup":
				if err := kit.KeySessions(a, b); err != nil {
					panic(err)
				}
			case "marked-offline":
				_ = a.State().MarkRouterOffline(b.Identity().IP)
				_ = b.State().MarkRouterOffline(a.Identity().IP)
			default:
				panic("harness: unknown event " + f.between)
			}
			if f.between != "" {
				time.Sleep(time.Second)
			}
		}
		// byte streams each end was fed, and would have been fed by an honest network.
		var fedA, fedB, honestA, honestB []byte
		faultStart, faultLen := 0, 0
		var inner func(idx int, fromA bool, msg []byte) (toB, toA [][]byte)
		hook := func(idx int, fromA bool, msg []byte) (toB, toA [][]byte) {
			toB, toA = inner(idx, fromA, msg)
			for _, x := range toB {
				fedB = append(fedB, x...)
			}
			for _, x := range toA {
				fedA = append(fedA, x...)
			}
			if idx == f.msg {
				faultLen = len(msg)
				if fromA {
					faultStart = len(honestB)
				} else {
					faultStart = len(honestA)
				}
			}
			if fromA {
				honestB = append(honestB, msg...)
			} else {
				honestA = append(honestA, msg...)
			}
			return
		}
		inner = func(idx int, fromA bool, msg []byte) (toB, toA [][]byte) {
			if idx < 6 {
				o.sizes = append(o.sizes, len(msg))
			}
			if f.kind == fNone || idx != f.msg {
				return kit.Honest(fromA, msg)
			}
			mut := append([]byte(nil), msg...)
			switch f.kind {
			case fBitflip:
				if f.pos < len(mut) {
					mut[f.pos] ^= 1 << f.bit
				}
				return kit.Honest(fromA, mut)
			case fTruncate:
				if f.pos < len(mut) {
					mut = mut[:f.pos]
				}
				return kit.Honest(fromA, mut)
			case fDrop:
				return nil, nil
			case fDup:
				tb, ta := kit.Honest(fromA, msg)
				tb2, ta2 := kit.Honest(fromA, msg)
				return append(tb, tb2...), append(ta, ta2...)
			case fReplayPrev:
				if idx < len(prev) && prev[idx].FromA == fromA {
					return kit.Honest(fromA, prev[idx].Bytes)
				}
				return kit.Honest(fromA, msg)
			case fReflect:
				if fromA {
					return nil, [][]byte{msg}
				}
				return [][]byte{msg}, nil
			case fReflectAlso:
				return [][]byte{msg}, [][]byte{msg}
			}
			return kit.Honest(fromA, msg)
		}
		w, rounds := session(a, b, hook, f.bFirst)
		o.rounds = rounds
		// did the receiver of the faulted message go on with the handshake?
		if f.kind != fNone && f.msg < len(w.Seen) {
			fm := w.Seen[f.msg]
			recvIsA := !fm.FromA
			if f.kind == fReflect {
				recvIsA = fm.FromA
			}
			// a fault that leaves the receiver's byte stream identical to the honest
			// one (a truncated tail that the following bytes happen to restore) is no fault.
			fed, honest := fedB, honestB
			if recvIsA {
				fed, honest = fedA, honestA
			}
			// (the receiver reassembles the faulted message from the bytes at its position in the stream.)
			streamIntact := f.kind != fReflect && len(fed) >= faultStart+faultLen && len(honest) >= faultStart+faultLen &&
				bytes.Equal(fed[faultStart:faultStart+faultLen], honest[faultStart:faultStart+faultLen])
			o.streamIntact = streamIntact
			for _, sm := range w.Seen {
				if streamIntact || sm.Round <= fm.Round || sm.FromA != recvIsA {
					continue
				}
				if !isErrorNotice(sm.Bytes) {
					o.receiverContinued = fmt.Sprintf("message #%d (%d bytes) written in round %d", sm.Idx, len(sm.Bytes), sm.Round)
					break
				}
			}
		}
		o.doneA, o.doneB = w.DoneA, w.DoneB
		o.panicA, o.panicB = w.PanicA, w.PanicB
		la := a.Peering().GetLink(b.Identity().IP)
		lb := b.Peering().GetLink(a.Identity().IP)
		// any link registered under ANY peer address counts.
		for _, l := range a.Peering().GetLinks() {
			o.regA = true
			o.peerA = l.Peer() == b.Identity().IP && l == la
		}
		for _, l := range b.Peering().GetLinks() {
			o.regB = true
			o.peerB = l.Peer() == a.Identity().IP && l == lb
		}
		trafficOK := func(w *kit.Wire, la, lb peering.Link) bool {
			ok := true
			w.OnMsg = nil
			for dir := 0; dir < 2; dir++ {
				src, dst, l := a, b, la
				if dir == 1 {
					src, dst, l = b, a, lb
				}
				var want [][]byte
				for i := 0; i < 3; i++ {
					fr, err := src.FrameBuilder().NewFrameV1(src.Identity().IP, dst.Identity().IP, frame.SessionData, nil, []byte(fmt.Sprintf("traffic-%d-%d-0123456789", dir, i)), nil)
					if err != nil {
						panic(err)
					}
					d, _ := fr.FrameDataWithMargins(0, 0)
					want = append(want, append([]byte(nil), d...))
					_ = l.Send(fr)
				}
				w.Pump(10)
				for i := 0; i < 3; i++ {
					select {
					case got := <-dst.SwitchIn:
						d, _ := got.FrameDataWithMargins(0, 0)
						if !bytes.Equal(d, want[i]) {
							ok = false
						}
					default:
						ok = false
					}
				}
			}
			return ok
		}
		if o.regA && o.regB && la != nil && lb != nil {
			// traffic sealed by either link end must unseal at the other.
			o.trafficChecked = true
			o.traffic = trafficOK(w, la, lb)
		}
		if f.thenHonest {
			// end the first connection completely, then connect again.
			for _, l := range append(a.Peering().GetLinks(), b.Peering().GetLinks()...) {
				l.Close(nil)
			}
			w.EA.FeedEOF()
			w.EB.FeedEOF()
			synctest.Wait()
			_ = w.EA.Close()
			_ = w.EB.Close()
			synctest.Wait()
			time.Sleep(100 * time.Millisecond)
			w2, _ := session(a, b, nil, f.bFirst)
			o.second = true
			la2 := a.Peering().GetLink(b.Identity().IP)
			lb2 := b.Peering().GetLink(a.Identity().IP)
			o.reg2A, o.reg2B = la2 != nil, lb2 != nil
			if la2 != nil && lb2 != nil {
				o.traffic2 = trafficOK(w2, la2, lb2)
			}
			w2.Shutdown()
		}
		w.Shutdown()
	})
	return o
}

// isErrorNotice reports whether a handshake message on the wire is the error
// notice a router sends when it gives up (a CBOR map with a non-empty "err").
func isErrorNotice(wire []byte) bool {
	if len(wire) < 2+51 {
		return false
	}
	raw := wire[2:]
	sw := int(raw[48])
	if len(raw) < 51+sw {
		return false
	}
	ml := int(raw[49+sw])<<8 | int(raw[50+sw])
	if len(raw) < 51+sw+ml {
		return false
	}
	var v map[string]any
	if err := cbor.Unmarshal(raw[51+sw:51+sw+ml], &v); err != nil {
		return false
	}
	e, _ := v["err"].(string)
	return e != ""
}

func TestC04(t *testing.T) {
	env := kit.GetEnv()
	rep := kit.NewReport("C04", env)
	rep.Rule = "configurations: ordered identity pairs (incl. self-connection) x universe {same, different, both empty} x secret {same, different, only A, only B, none}; faults on each of the six handshake messages: every bit of every byte (one configuration; the others: header, first/last 16 body bytes and signature), truncation to every length (step 1 for the first 60 bytes, then every 7th), drop, duplicate, replay of the same-position message recorded from a previous complete session of the same pair (ended just before, or two hours and one further connection ago, or followed by one of the per-peer session events of a running router: end-to-end keys reset after the peer reported them lost, an end-to-end key setup, the peer marked offline), reflection to the sender (instead of / in addition to forwarding), under both dispatch orders of simultaneous messages; for a representative fault of every kind on every message: after the disturbed connection has ended the same two routers connect again undisturbed, and that connection must establish with working link keys; an active impostor with its own key pair that speaks the full protocol claiming another router's address, over connection sequences (forged key / genuine address, router known or unknown beforehand); an attacker with its own valid identity but without the universe secret that copies the victim's challenge and lifts the victim's universe proof; a three-party relay in which the attacker peers with the real P under its own identity using the victim's challenge and passes P's signed messages on to the victim; outcome on both ends after bubble quiescence, including whether the receiver of a faulted message wrote anything but an error notice afterwards; non-trivial = any fault other than none / harmless TTL-flow bits, or a configuration that must be refused; states = distinct (registered-at-A, registered-at-B, rounds) outcomes per (config, fault)"
	rep.Assumptions = []string{
		"both ends run the real handleSetup; the adversary only controls the byte stream (it holds no private key)",
		"blocked-forever handshakes are legal outcomes ('no link'), observed through bubble quiescence, never through a timeout",
		"length-prefix and TTL/flow-flag bits are not authenticated; for them only the safety oracle applies",
	}
	type cfgCase struct {
		c    hsConfig
		full bool
	}
	var cfgs []cfgCase
	unis := [][2]string{{"u", "u"}, {"u", "v"}, {"", ""}}
	secs := [][2]string{{"s", "s"}, {"s", "t"}, {"s", ""}, {"", "s"}, {"", ""}}
	for _, ids := range [][2]int{{0, 1}, {1, 0}, {0, 2}, {2, 1}, {0, 0}} {
		for _, u := range unis {
			for _, s := range secs {
				full := ids == [2]int{0, 1} && u == [2]string{"u", "u"} && s == [2]string{"s", "s"}
				if env.Thorough() && ids[0] != ids[1] && u[0] == u[1] && (s[0] == s[1] || s == [2]string{"", ""}) {
					full = true // thorough: every bit of every message for every admissible configuration
				}
				if !env.Thorough() && ids != [2]int{0, 1} && !(u == [2]string{"u", "u"} && s[0] == s[1]) {
					continue
				}
				cfgs = append(cfgs, cfgCase{hsConfig{ids[0], ids[1], u[0], u[1], s[0], s[1]}, full})
			}
		}
	}
	rep.Bounds["configurations"] = len(cfgs)

	var evals, nontrivial, transitions int64
	states := map[string]bool{}
	caseNo := 0
	mine := func() bool { caseNo++; return env.Mine(caseNo) }

	judge := func(c hsConfig, f fault, o outcome) {
		evals++
		transitions += int64(o.rounds)
		states[fmt.Sprintf("%v/%v/%d", o.regA, o.regB, o.rounds)] = true
		desc := map[string]any{"config": c.String(), "fault": f.String()}
		self := c.ia == c.ib
		mayA := !self && admits(c.uniA, c.secA, c.uniB, c.secB)
		mayB := !self && admits(c.uniB, c.secB, c.uniA, c.secA)
		key := func(k string) string {
			if f.kind == fNone {
				return "no-fault/" + k
			}
			m := ""
			if f.msg < 6 {
				m = "/" + msgName(f)
			}
			return []string{"none", "bitflip", "truncate", "drop", "duplicate", "replay", "reflect", "reflect-also"}[f.kind] + m + "/" + k
		}
		if o.panicA != nil || o.panicB != nil {
			rep.Violate(key("panic"), fmt.Sprintf("link setup panicked (%v / %v): %s; %s", o.panicA, o.panicB, c, f), desc)
		}
		// (1) safety: a registered link names the true peer and the configuration admits it.
		if o.regA && (!o.peerA || !mayA) {
			rep.Violate(key("registered-without-admission@A"), fmt.Sprintf("A registered a link (true peer=%v) although the configuration does not admit it: %s; %s", o.peerA, c, f), desc)
		}
		if o.regB && (!o.peerB || !mayB) {
			rep.Violate(key("registered-without-admission@B"), fmt.Sprintf("B registered a link (true peer=%v) although the configuration does not admit it: %s; %s", o.peerB, c, f), desc)
		}
		if o.trafficChecked && !o.traffic {
			rep.Violate(key("keys-disagree"), fmt.Sprintf("both ends registered but traffic sealed by one end does not arrive intact at the other: %s; %s", c, f), desc)
		}
		// (4) a failed or disturbed connection must not poison the next one.
		if o.second && mayA && mayB {
			switch {
			case !(o.reg2A && o.reg2B):
				rep.Violate(key("next-connection-not-established"), fmt.Sprintf("after the faulted connection ended, an undisturbed connection of the same routers did not establish (A=%v B=%v): %s; %s", o.reg2A, o.reg2B, c, f), desc)
			case !o.traffic2:
				rep.Violate(key("next-connection-keys-disagree"), fmt.Sprintf("after the faulted connection ended, an undisturbed connection of the same routers established but its link traffic does not arrive intact: %s; %s", c, f), desc)
			default:
				rep.Outcome("fault/next-connection-fine")
			}
		}
		// (3) liveness without fault.
		if f.kind == fNone {
			if mayA && mayB && !(o.regA && o.regB) {
				rep.Violate("no-fault/not-established", fmt.Sprintf("honest handshake did not complete (A=%v B=%v): %s", o.regA, o.regB, c), desc)
			}
			if mayA && mayB {
				rep.Outcome("honest/established")
			} else {
				nontrivial++
				rep.Outcome("honest/refused")
			}
			return
		}
		nontrivial++
		// (2) the receiver of a faulted message must not register.
		harmless := f.kind == fBitflip && (f.pos == 3 || f.pos == 4 || f.pos < 2)
		mustAbortReceiver := f.kind == fBitflip && !harmless || f.kind == fTruncate || f.kind == fReplayPrev || f.kind == fReflect || f.kind == fDrop
		if o.streamIntact && (f.kind == fTruncate || f.kind == fBitflip) {
			mustAbortReceiver = false
			rep.Outcome("fault/no-effect-on-the-receiver's-byte-stream")
		}
		if mustAbortReceiver && f.msg < 6 {
			fromA := (f.msg%2 == 0) != f.bFirst
			recvIsB := fromA
			if f.kind == fReflect {
				recvIsB = !fromA // the reflected message is received by its sender
				// and the intended receiver never gets it (dropped): it must not register either.
				if (fromA && o.regB) || (!fromA && o.regA) {
					rep.Violate(key("registered-despite-missing-message"), fmt.Sprintf("the end that never received %s registered a link: %s", msgName(f), c), desc)
				}
				// the sender only "receives a handshake message" if the reflected copy
				// reaches it before the peer's genuine message of the same round, i.e.
				// when its own messages are dispatched first.
				if fromA == f.bFirst {
					mustAbortReceiver = false
				}
			}
			if !mustAbortReceiver {
				goto classify
			}
			if o.receiverContinued != "" && f.kind != fDrop {
				rep.Violate(key("receiver-continued"), fmt.Sprintf("the router receiving the faulted %s did not abort but went on with the handshake (%s): %s; %s", msgName(f), o.receiverContinued, c, f), desc)
				rep.Outcome("fault/receiver-continued!")
				return
			}
			if (recvIsB && o.regB) || (!recvIsB && o.regA) {
				rep.Violate(key("receiver-registered"), fmt.Sprintf("the router receiving the faulted %s registered a link (A=%v B=%v): %s; %s", msgName(f), o.regA, o.regB, c, f), desc)
				rep.Outcome("fault/receiver-registered!")
				return
			}
		}
	classify:
		switch {
		case o.regA && o.regB:
			rep.Outcome("fault/both-registered")
		case o.regA || o.regB:
			rep.Outcome("fault/one-registered")
		default:
			rep.Outcome("fault/none-registered")
		}
	}

	for _, cc := range cfgs {
		c := cc.c
		// honest run (also yields message sizes).
		base := run(t, c, fault{kind: fNone})
		if mine() {
			judge(c, fault{kind: fNone}, base)
			rep.Sample(map[string]any{"config": c.String(), "fault": "none", "registered": []bool{base.regA, base.regB}, "message_sizes": base.sizes})
		}
		for mi := 0; mi < len(base.sizes) && mi < 6; mi++ {
			size := base.sizes[mi]
			// structural faults.
			for _, k := range []faultKind{fDrop, fDup, fReplayPrev, fReflect, fReflectAlso} {
				for _, bf := range []bool{false, true} {
					if mine() {
						f := fault{kind: k, msg: mi, bFirst: bf}
						judge(c, f, run(t, c, f))
					}
					if k == fReplayPrev && mine() {
						f := fault{kind: k, msg: mi, bFirst: bf, oldReplay: true}
						judge(c, f, run(t, c, f))
					}
					if k == fReplayPrev && c.ia != c.ib {
						for _, ev := range []string{"reset-encryption", "key-setup", "marked-offline"} {
							if mine() {
								f := fault{kind: k, msg: mi, bFirst: bf, between: ev}
								judge(c, f, run(t, c, f))
							}
						}
					}
				}
			}
			// the same pair connects again after a disturbed connection.
			for _, bf := range []bool{false, true} {
				for _, f := range []fault{
					{kind: fDrop, msg: mi}, {kind: fDup, msg: mi}, {kind: fReflect, msg: mi}, {kind: fReplayPrev, msg: mi},
					{kind: fTruncate, msg: mi, pos: size / 2}, {kind: fTruncate, msg: mi, pos: size - 1},
					{kind: fBitflip, msg: mi, pos: size - 1, bit: 0}, {kind: fBitflip, msg: mi, pos: 60, bit: 3}, {kind: fBitflip, msg: mi, pos: size - 70, bit: 1},
				} {
					if bf && (f.kind == fTruncate || f.kind == fBitflip) {
						continue // positions are measured in the A-first message order
					}
					if !mine() {
						continue
					}
					f.bFirst, f.thenHonest = bf, true
					judge(c, f, run(t, c, f))
				}
			}
			// truncation.
			for l := 0; l < size; l++ {
				if l > 60 && l%7 != 0 && l != size-1 {
					continue
				}
				if !cc.full && l%5 != 0 {
					continue
				}
				if !mine() {
					continue
				}
				f := fault{kind: fTruncate, msg: mi, pos: l}
				judge(c, f, run(t, c, f))
			}
			// bit flips.
			for p := 0; p < size; p++ {
				allBits := cc.full && (env.Thorough() || p < 53 || p >= size-64 || p%3 == 0)
				if !cc.full && !(p < 53 || p >= size-66 && p%4 == 0 || p%16 == 0) {
					continue
				}
				for bit := 0; bit < 8; bit++ {
					if !allBits && bit != p%8 {
						continue
					}
					if !mine() {
						continue
					}
					f := fault{kind: fBitflip, msg: mi, pos: p, bit: bit}
					judge(c, f, run(t, c, f))
				}
			}
		}
	}
	impostorScenarios(t, rep, env, &evals, &nontrivial)
	if env.Mine(3) {
		secretReflection(t, rep, &evals, &nontrivial)
	}
	if env.Mine(5) {
		proofRelay(t, rep, &evals, &nontrivial)
	}

	{
		e, n := overlappingSetups(t, rep, env)
		evals += e
		nontrivial += n
	}
	rep.Add(evals, nontrivial, int64(len(states)), transitions)
	if err := rep.Finish(env); err != nil {
		t.Fatal(err)
	}
	_ = m.RouterAddress
}
