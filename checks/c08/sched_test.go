// C08, interleaving tier: announcements are handled by one frame handler per
// CPU, so a tampered announcement is verified WHILE another copy of it, the
// genuine announcement or an announcement of another origin is being verified.
// The router, state and m packages are compiled with their sync / sync/atomic
// imports rewritten to the controlled-scheduler shims; harness threads deliver
// the frames of the sequential part (honest chains produced by the real
// forwarding code, structurally tampered copies) CONCURRENTLY to the real
// handlers of R; ALL schedules up to a preemption bound are explored. Oracle:
// routing table and forwarded frames of every interleaving equal those of one of
// the orders in which the same frames are handled one after the other (where
// every tampered copy is rejected without effect).
package c08

import (
	"fmt"
	"strings"
	"testing"
	"testing/synctest"

	"verif/kit"
	"verif/schedx"
)

type annConc struct {
	name string
	k    int
	// frames delivered by the threads: "f1" honest (O, t1), "f2" honest (O, t2),
	// "g1" honest (O2), "v:<variant name>" a tampered copy of f1.
	threads [][]string
}

func (c annConc) build(thorough bool) *schedx.Instance {
	tw, caps := produce(c.k)
	vs := variants(tw, caps, thorough)
	tw.w.Intercept = nil
	frame := func(name string) ([]byte, *kit.Node) {
		switch name {
		case "f1":
			return caps.f1.raw, tw.lastH
		case "f2":
			return caps.f2.raw, tw.lastH
		case "g1":
			if c.k == 0 {
				return caps.g1.raw, tw.o2
			}
			return caps.g1.raw, tw.lastH
		}
		for _, v := range vs {
			if "v:"+v.name == name {
				return v.raw, v.via
			}
		}
		panic("harness: no frame " + name)
	}
	logStart := len(tw.w.Log)
	in := &schedx.Instance{}
	for _, th := range c.threads {
		var ops []schedx.Op
		for _, name := range th {
			raw, via := frame(name)
			ops = append(ops, schedx.Op{Name: "deliver(" + name + ")", Do: func() { tw.w.Inject(via, tw.r, raw) }})
		}
		in.Threads = append(in.Threads, ops)
	}
	in.Observe = func() string {
		var emitted []*kit.Flight
		for _, fl := range tw.w.Log[logStart:] {
			if fl.From == tw.r && (fl.Bytes[4] == 0 || fl.Bytes[4] == 3) {
				emitted = append(emitted, fl)
			}
		}
		// forwarded announcements are named by receiver, origin and the number of hop records they carry.
		var fw []string
		for _, fl := range emitted {
			p := parse(fl.Bytes)
			fw = append(fw, fmt.Sprintf("%s<-origin:%v/ts:%v/records:%d", fl.To.Name, p.src, p.ts, len(chainOf(p.appendix()))))
		}
		sortStrings(fw)
		return "table:\n" + kit.TableKey(tw.r) + "forwarded: " + strings.Join(fw, ", ")
	}
	in.Check = func(ex *schedx.Exec) {
		for _, p := range tw.w.Panics {
			ex.Bad("panic", "worker panic while announcements were handled concurrently: %s", p)
		}
	}
	return in
}

func sortStrings(s []string) {
	for i := 1; i < len(s); i++ {
		for j := i; j > 0 && s[j] < s[j-1]; j-- {
			s[j], s[j-1] = s[j-1], s[j]
		}
	}
}

// annConcs picks one tampered variant per structural class.
func annConcs(t *testing.T, deep bool) []annConc {
	var out []annConc
	for _, k := range []int{1, 2} {
		seen := map[string]bool{}
		var picked []string
		synctest.Test(t, func(t *testing.T) {
			tw, caps := produce(k)
			for _, v := range variants(tw, caps, false) {
				if v.expectAccept != -1 || v.afterGenuine || strings.Contains(v.name, "bit") {
					continue
				}
				cl := class(v.name)
				if seen[cl] {
					continue
				}
				seen[cl] = true
				picked = append(picked, v.name)
			}
		})
		max := 6
		if deep {
			max = 40
		}
		if len(picked) > max {
			picked = picked[:max]
		}
		for _, name := range picked {
			v := "v:" + name
			out = append(out, annConc{name: fmt.Sprintf("k%d/%s | same copy", k, name), k: k, threads: [][]string{{v}, {v}}})
			out = append(out, annConc{name: fmt.Sprintf("k%d/%s | honest announcement of another origin", k, name), k: k, threads: [][]string{{v}, {"g1"}}})
			out = append(out, annConc{name: fmt.Sprintf("k%d/%s | the genuine announcement", k, name), k: k, threads: [][]string{{v}, {"f1"}}})
		}
		out = append(out, annConc{name: fmt.Sprintf("k%d/genuine | its copy", k), k: k, threads: [][]string{{"f1"}, {"f1"}}})
		out = append(out, annConc{name: fmt.Sprintf("k%d/genuine | later announcement of the same origin", k), k: k, threads: [][]string{{"f1"}, {"f2"}}})
		out = append(out, annConc{name: fmt.Sprintf("k%d/genuine | announcement of another origin", k), k: k, threads: [][]string{{"f1"}, {"g1"}}})
	}
	return out
}

func (c annConc) conc(t *testing.T, bubble bool) schedx.Conc {
	cc := schedx.Conc{Name: "concurrent-announcements/" + c.name, Build: func() *schedx.Instance { return c.build(false) }, MaxPoints: 60000}
	if bubble {
		cc.Wrap = func(f func()) { synctest.Test(t, func(t *testing.T) { f() }) }
	} else {
		cc.Wrap = func(f func()) {
			t.Run("bubble", func(t *testing.T) { synctest.Test(t, func(t *testing.T) { f() }) })
		}
	}
	return cc
}

func runAnnounceSched(t *testing.T, rep *kit.Report, env kit.Env) {
	bound := 2
	rep.Bounds["sched_preemption_bound"] = bound
	top := 0
	for _, c := range annConcs(t, env.Deep()) {
		schedx.ExploreConc(rep, env, c.conc(t, true), bound, &top)
	}
}

// TestC08Race: the same deliveries on free-running goroutines under the race
// detector (supporting evidence next to the exhaustive pass; see schedx.FreeRun).
func TestC08Race(t *testing.T) {
	env := kit.GetEnv()
	rep := kit.NewReport("C08", env)
	defer func() { _ = rep.Finish(env) }()
	iters := 25
	if env.Deep() {
		iters = 300
	}
	var n int64
	var all []schedx.Conc
	for _, c := range annConcs(t, env.Deep()) {
		all = append(all, c.conc(t, false))
	}
	n = schedx.FreeRunAll(rep, env, all, true, iters)
	rep.Add(n, 0, 0, 0)
	rep.OutcomeN("free-running race-detector pass [iterations]", n)
}
