// C08: gossip routes name only routers that signed their hop; tampering is rejected.
//
// Honest chains O -> H1 -> ... -> Hk -> R are produced by the real forwarding
// code of real routers. Every announcement arriving at R's inbound link is then
// subjected to every single-bit flip and to structural operators on the nested
// hop-record chain (strip, reorder, duplicate, substitute from another origin or
// another time, re-attribute, wrap, re-sign by a malicious delivering peer,
// deliver over a different link). R's routing table and emissions are compared
// with the state before the delivery, and every accepted record is checked
// against the log of records honestly produced for that very announcement.
package c08

import (
	"bytes"
	"crypto/ed25519"
	"fmt"
	"net/netip"
	"strings"
	"testing"
	"testing/synctest"
	"time"

	"github.com/fxamacker/cbor/v2"

	"verif/kit"

	"github.com/mycoria/mycoria/config"
	"github.com/mycoria/mycoria/m"
	"github.com/mycoria/mycoria/router"
)

var pool = kit.RoutablePool("c08", 12)

type tworld struct {
	w      *kit.World
	o, o2  *kit.Node
	hs     []*kit.Node
	r      *kit.Node
	wn     *kit.Node // R's other peer (forwarding target)
	y      *kit.Node // another peer of R
	z      *kit.Node // unrelated router
	held   []*kit.Flight
	lastH  *kit.Node // delivering peer of R on the chain
	labels map[string]m.SwitchLabel
}

func must(err error) {
	if err != nil {
		panic(err)
	}
}

func build(k int) *tworld {
	w := kit.NewWorld()
	idx := 0
	mk := func(name string) *kit.Node {
		n, err := w.AddNode(name, pool[idx], config.Store{})
		must(err)
		idx++
		return n
	}
	tw := &tworld{w: w}
	tw.o, tw.o2, tw.r, tw.wn, tw.y, tw.z = mk("O"), mk("O2"), mk("R"), mk("W"), mk("Y"), mk("Z")
	for i := 0; i < k; i++ {
		tw.hs = append(tw.hs, mk(fmt.Sprintf("H%d", i+1)))
	}
	lbl := m.SwitchLabel(10)
	// link delays include zero (omitted from the encoded record) below a
	// non-zero outer delay and vice versa.
	delays := []uint16{0, 7, 3, 0, 9, 0, 4, 11, 0, 6, 2, 0}
	nconn := 0
	conn := func(a, b *kit.Node) {
		lbl += 2
		la, lb := lbl, lbl+1
		if lbl%3 == 0 {
			la += 300 // a 2-byte label now and then
		}
		_, _, err := w.Connect(a, b, la, lb, delays[nconn%len(delays)])
		nconn++
		must(err)
	}
	chain := append([]*kit.Node{}, tw.hs...)
	chain = append(chain, tw.r)
	conn(tw.o, chain[0])
	conn(tw.o2, chain[0])
	for i := 0; i+1 < len(chain); i++ {
		conn(chain[i], chain[i+1])
	}
	conn(tw.r, tw.wn)
	conn(tw.r, tw.y)
	conn(tw.z, tw.y)
	conn(tw.o, tw.z) // the origin has a second link (it announces once per link)
	if k >= 2 {
		// shortcut: the innermost hop is also a direct peer of R (its frames
		// to R are held back like all others, so the honest captures are the
		// ones that travelled the whole chain).
		conn(tw.hs[0], tw.r)
	}
	if k > 0 {
		tw.lastH = tw.hs[k-1]
	} else {
		tw.lastH = tw.o
	}
	// frames to R are held back; everything else flows.
	w.Intercept = func(fl *kit.Flight) bool {
		if fl.To == tw.r {
			tw.held = append(tw.held, fl)
			return false
		}
		return true
	}
	return tw
}

func (tw *tworld) settle() {
	for len(tw.w.InFlight) > 0 {
		tw.w.Deliver(0)
	}
}

type rec struct {
	att router.AnnouncePingAttachment
	raw []byte // cbor + signature (the appendix at this depth)
}

// chainOf decodes the nested hop records, outermost first.
func chainOf(apx []byte) []rec {
	var out []rec
	for len(apx) >= 65 {
		var a router.AnnouncePingAttachment
		if err := cbor.Unmarshal(apx[:len(apx)-64], &a); err != nil {
			break
		}
		out = append(out, rec{a, apx})
		apx = a.NextAttachment
	}
	return out
}

type parsed struct {
	raw      []byte
	apxStart int
	src      netip.Addr
	ts       uint64
	sig      []byte
}

func parse(raw []byte) parsed {
	sw := int(raw[48])
	ml := int(raw[49+sw])<<8 | int(raw[50+sw])
	as := 51 + sw + ml
	return parsed{raw: raw, apxStart: as + 64, src: netip.AddrFrom16([16]byte(raw[16:32])), ts: m.GetUint64(raw[8:16]), sig: raw[as : as+64]}
}

func (p parsed) context() []byte {
	ctx := make([]byte, 16+8+64)
	copy(ctx[:16], p.src.AsSlice())
	m.PutUint64(ctx[16:24], p.ts)
	copy(ctx[24:], p.sig)
	return ctx
}

func (p parsed) withAppendix(apx []byte) []byte {
	return append(append([]byte(nil), p.raw[:p.apxStart]...), apx...)
}

func (p parsed) appendix() []byte { return p.raw[p.apxStart:] }

// signRecord lets an (attacking) router produce a genuinely signed record of its own.
func signRecord(n *kit.Node, p parsed, delay uint16, fwd, ret m.SwitchLabel, next []byte) []byte {
	return signRecordAs(n, n, p, delay, fwd, ret, next)
}

// signRecordAs lets router n sign (with its own key) a record that names `named`.
func signRecordAs(n, named *kit.Node, p parsed, delay uint16, fwd, ret m.SwitchLabel, next []byte) []byte {
	att := router.AnnouncePingAttachment{Router: named.Identity().PublicAddress, Delay: delay, ForwardLabel: fwd, ReturnLabel: ret, NextAttachment: next}
	data := kit.MustCBOR(att)
	sig, err := n.Identity().PrivateKey.Sign(nil, data, &ed25519.Options{Context: string(p.context())})
	must(err)
	return append(data, sig...)
}

type variant struct {
	name string
	raw  []byte
	via  *kit.Node
	// attackerRecords are records the delivering attacker signed itself (legitimately its own).
	attackerOwn  [][]byte
	expectAccept int // 1 must accept, -1 must reject, 0 oracle decides
	// afterGenuine: the untouched announcement is delivered (and accepted) first.
	afterGenuine bool
}

func TestC08(t *testing.T) {
	env := kit.GetEnv()
	rep := kit.NewReport("C08", env)
	rep.Rule = "for chain lengths k = 0..K: a fresh world of real routers O, O2 (two origins) - H1..Hk - R - {W, Y}, announcements of O at two times and of O2 propagated by the real forwarding code up to R's inbound link; for the first announcement: (a) every bit of every byte of the frame (header, body, origin signature, all nested records and their signatures); (b) structural operators on the nested chain: strip outermost j, strip innermost, swap two records, duplicate a record, substitute each record / the whole inner chain by the one from the other origin or the other time, re-attribute a record to another known router, wrap with a record of a non-delivering router, deliver over a different peer's link - each both as-is and re-signed outermost by the (malicious) delivering peer; impersonation of a router R already knows with the attacker's key embedded; two-step histories: genuine announcement accepted first, then a tampered copy with the same origin timestamp (one bit per byte of body, signature and records; substituted appendix/body); non-trivial = case other than the untouched announcement and harmless TTL/flow bits; states = distinct (routing table of R) observed"
	rep.Assumptions = []string{
		"the delivering peer may be malicious and owns its key: records it signs itself for this announcement are its own; all other keys are honest",
		"rejection is observed as 'routing table of R unchanged and nothing emitted by R'",
	}
	maxK := 3
	if env.Thorough() {
		maxK = 5
	}
	rep.Bounds["max_chain_length"] = maxK
	var evals, nontrivial, transitions int64
	states := map[string]bool{}
	caseNo := 0

	for k := 0; k <= maxK; k++ {
		// enumerate variant names once (in a scratch world), then run each in a fresh world.
		var names []string
		synctest.Test(t, func(t *testing.T) {
			tw, caps := produce(k)
			for _, v := range variants(tw, caps, env.Thorough()) {
				names = append(names, v.name)
			}
		})
		for vi, name := range names {
			caseNo++
			if !env.Mine(caseNo) {
				continue
			}
			vi, name := vi, name
			synctest.Test(t, func(t *testing.T) {
				tw, caps := produce(k)
				v := variants(tw, caps, env.Thorough())[vi]
				if v.name != name {
					panic("harness: variant enumeration not deterministic")
				}
				tw.w.Intercept = nil
				if v.afterGenuine {
					tw.w.Inject(tw.lastH, tw.r, caps.f1.raw)
					tw.w.InFlight = nil
				}
				before := kit.TableKey(tw.r)
				logBefore := len(tw.w.Log)
				np := len(tw.w.Panics)
				tw.w.Inject(v.via, tw.r, v.raw)
				transitions++
				after := kit.TableKey(tw.r)
				emitted := 0
				for _, fl := range tw.w.Log[logBefore:] {
					// only announcements count: a frame whose type byte was
					// mutated into a unicast type is transit traffic, which
					// routers relay without authenticating (by design).
					if fl.From == tw.r && (fl.Bytes[4] == 0 || fl.Bytes[4] == 3) {
						emitted++
					}
				}
				evals++
				if v.expectAccept != 1 {
					nontrivial++
				}
				states[kit.Hash(after)] = true
				accepted := before != after || emitted > 0
				key := fmt.Sprintf("k%d/%s", k, class(name))
				switch {
				case len(tw.w.Panics) > np:
					rep.Outcome("handler-panic(reported-under-C13)")
				case v.expectAccept == 1 && !accepted:
					rep.Violate(key+"/honest-rejected", fmt.Sprintf("untouched honest announcement (k=%d) was not accepted: %s", k, name), name)
				case v.expectAccept == -1 && accepted:
					rep.Violate(key+"/tampered-accepted", fmt.Sprintf("tampered announcement accepted (k=%d): %s (table changed=%v emitted=%d)", k, name, before != after, emitted), map[string]any{"k": k, "variant": name})
					rep.Outcome("tampered-accepted!")
				case accepted:
					// generic oracle on acceptance.
					if msg := checkAccepted(tw, caps, v); msg != "" {
						rep.Violate(key+"/accepted-inconsistent", fmt.Sprintf("k=%d %s: %s", k, name, msg), map[string]any{"k": k, "variant": name})
					}
					rep.Outcome("accepted")
				default:
					rep.Outcome("rejected")
				}
				if evals%2000 == 1 {
					rep.Sample(map[string]any{"k": k, "variant": name, "accepted": accepted})
				}
			})
		}
	}
	runAnnounceSched(t, rep, env)
	rep.Add(evals, nontrivial, int64(len(states)), transitions)
	if err := rep.Finish(env); err != nil {
		t.Fatal(err)
	}
}

type captures struct {
	f1, f2, g1 parsed // O at t1, O at t2, O2 at t1
	// a1: O's announcement for its OTHER link, sent in the same millisecond as f1
	// (same origin, same timestamp, different body and origin signature).
	a1     parsed
	hasA1  bool
	honest map[string]bool
}

// produce builds the world and lets the honest announcements propagate to R's link.
func produce(k int) (*tworld, *captures) {
	tw := build(k)
	first := tw.r
	if k > 0 {
		first = tw.hs[0]
	}
	caps := &captures{honest: map[string]bool{}}
	grab := func() parsed {
		tw.settle()
		var got *kit.Flight
		for _, fl := range tw.held {
			if fl.From == tw.lastH {
				got = fl
			}
		}
		if got == nil {
			panic(fmt.Sprintf("harness: no announcement reached R's link for k=%d (dropped: %v)", k, tw.w.Dropped))
		}
		tw.held = nil
		return parse(got.Bytes)
	}
	must(tw.o.Router().AnnouncePing.Send(first.Identity().IP))
	if k == 0 {
		tw.lastH = tw.o
	}
	caps.f1 = grab()
	// the origin announces for its second link within the same millisecond.
	logLen := len(tw.w.Log)
	must(tw.o.Router().AnnouncePing.Send(tw.z.Identity().IP))
	tw.settle()
	for _, fl := range tw.w.Log[logLen:] {
		if fl.From == tw.o && fl.To == first {
			p := parse(fl.Bytes)
			if p.ts == caps.f1.ts && p.src == caps.f1.src && !bytes.Equal(p.sig, caps.f1.sig) {
				caps.a1, caps.hasA1 = p, true
			}
		}
	}
	tw.held = nil
	time.Sleep(3 * time.Millisecond)
	must(tw.o.Router().AnnouncePing.Send(first.Identity().IP))
	caps.f2 = grab()
	must(tw.o2.Router().AnnouncePing.Send(first.Identity().IP))
	if k == 0 {
		// for k=0 the second origin's frame arrives over its own link.
		tw.settle()
		for _, fl := range tw.held {
			if fl.From == tw.o2 {
				caps.g1 = parse(fl.Bytes)
			}
		}
		tw.held = nil
	} else {
		caps.g1 = grab()
	}
	// log of honestly produced records: every record of every frame that crossed a link.
	note := func(p parsed) {
		for _, r := range chainOf(p.appendix()) {
			caps.honest[string(p.context())+"|"+string(r.raw)] = true
		}
	}
	for _, fl := range tw.w.Log {
		note(parse(fl.Bytes))
	}
	note(caps.f1)
	note(caps.f2)
	note(caps.g1)
	return tw, caps
}

func variants(tw *tworld, caps *captures, thorough bool) []variant {
	p := caps.f1
	var vs []variant
	via := tw.lastH
	add := func(name string, raw []byte, via *kit.Node, expect int, own ...[]byte) {
		vs = append(vs, variant{name: name, raw: raw, via: via, expectAccept: expect, attackerOwn: own})
	}
	add("untouched", append([]byte(nil), p.raw...), via, 1)
	// (a) bit flips.
	for i := 0; i < len(p.raw); i++ {
		for b := 0; b < 8; b++ {
			if !thorough && i >= 51 && b != i%8 && !(i >= p.apxStart-64 && i < p.apxStart-60) {
				continue // quick: one bit per byte beyond the header, all bits of the first signature bytes
			}
			raw := append([]byte(nil), p.raw...)
			raw[i] ^= 1 << b
			exp := -1
			if i == 1 || i == 2 {
				exp = 0 // TTL / flow flags: unauthenticated by design
			}
			add(fmt.Sprintf("bitflip/%s/byte%d.bit%d", region(p, i), i, b), raw, via, exp)
		}
	}
	ch := chainOf(p.appendix())
	chT2 := chainOf(caps.f2.appendix())
	chO2 := chainOf(caps.g1.appendix())
	resign := func(name string, inner []byte, expect int) {
		// as-is (outer signatures now wrong or missing) and re-signed by the malicious delivering peer.
		add(name+"/as-is", p.withAppendix(inner), via, expect)
		if len(ch) > 0 {
			// a malicious delivering peer may sign whatever it wants as ITS OWN
			// record; whether the result may be accepted depends only on the inner
			// records being genuine for this announcement - the oracle decides.
			own := signRecord(via, p, ch[0].att.Delay, ch[0].att.ForwardLabel, ch[0].att.ReturnLabel, inner)
			add(name+"/resigned-by-delivering-peer", p.withAppendix(own), via, 0, own)
		}
	}
	if len(ch) > 0 {
		// strip outermost j.
		for j := 1; j <= len(ch); j++ {
			var inner []byte
			if j < len(ch) {
				inner = ch[j].raw
			}
			add(fmt.Sprintf("strip-outermost-%d", j), p.withAppendix(inner), via, -1)
		}
		// inner chain substituted by the one of the other time / other origin.
		if len(ch) > 1 {
			resign("inner-chain-from-other-time", chT2[1].raw, -1)
			resign("inner-chain-from-other-origin", chO2[1].raw, -1)
			// strip innermost: rebuild chain without the last record.
			resign("strip-innermost", rebuild(ch[1:len(ch)-1], nil), -1)
			// duplicate the second record.
			resign("duplicate-record", rebuild([]rec{ch[1], ch[1]}, ch[1].att.NextAttachment), -1)
		}
		if len(ch) > 2 {
			resign("swap-records", rebuild([]rec{ch[2], ch[1]}, ch[2].att.NextAttachment), -1)
		}
		// whole appendix from the other time / other origin under this announcement.
		add("appendix-from-other-time", p.withAppendix(caps.f2.appendix()), via, -1)
		add("appendix-from-other-origin", p.withAppendix(caps.g1.appendix()), via, -1)
		// body of the other time with this appendix (and vice versa).
		add("body-from-other-time", caps.f2.withAppendix(p.appendix()), via, -1)
		add("body-from-other-origin", caps.g1.withAppendix(p.appendix()), via, -1)
		// body and origin signature of the origin's other announcement of the SAME
		// millisecond under this announcement's hop records.
		if caps.hasA1 {
			add("body-from-same-time-announcement-for-other-link", caps.a1.withAppendix(p.appendix()), via, -1)
		} else {
			var dbg []string
			for _, fl := range tw.w.Log {
				q := parse(fl.Bytes)
				dbg = append(dbg, fmt.Sprintf("%s>%s ts=%d same-src=%v", fl.From.Name, fl.To.Name, q.ts, q.src == p.src))
			}
			panic(fmt.Sprintf("harness: no second announcement with the same timestamp captured (f1 ts=%d): %v", p.ts, dbg))
		}
		// re-attribute: rewrite Router of each record to another known identity.
		for i := range ch {
			for _, who := range []*kit.Node{tw.z, tw.y, tw.o2} {
				att := ch[i].att
				att.Router = who.Identity().PublicAddress
				data := kit.MustCBOR(att)
				forged := append(data, ch[i].raw[len(ch[i].raw)-64:]...)
				if i == 0 {
					add(fmt.Sprintf("reattribute-record%d-to-%s", i, who.Name), p.withAppendix(forged), via, -1)
				} else {
					resign(fmt.Sprintf("reattribute-record%d-to-%s", i, who.Name), rewrap(ch[:i], forged), -1)
				}
			}
		}
		// wrap with a record signed by a non-delivering router.
		wrap := signRecord(tw.z, p, 5, 3, 4, p.appendix())
		add("wrapped-by-non-delivering-router", p.withAppendix(wrap), via, -1)
		// delivering peer adds a SECOND own record (duplicate signer).
		own2 := signRecord(via, p, 5, 3, 4, p.appendix())
		add("delivering-peer-signs-twice", p.withAppendix(own2), via, 0, own2)
	} else {
		// k = 0: origin delivers directly. A peer other than the origin delivers it untouched.
		wrap := signRecord(tw.z, p, 5, 3, 4, nil)
		add("wrapped-by-non-delivering-router", p.withAppendix(wrap), via, -1)
		add("body-from-other-origin-over-this-link", append([]byte(nil), caps.g1.raw...), via, -1)
	}
	// impersonation of a router R already knows (its peers Y and W): the malicious
	// delivering peer invents an inner record naming the victim's address but
	// carrying and signed by the attacker's own key, and wraps it with its own record.
	if len(ch) > 0 {
		for _, victim := range []*kit.Node{tw.y, tw.wn} {
			att := router.AnnouncePingAttachment{Router: via.Identity().PublicAddress, Delay: 5, ForwardLabel: 3, ReturnLabel: 4}
			att.Router.IP = victim.Identity().IP
			if len(ch) > 1 {
				att.NextAttachment = ch[1].raw
			}
			data := kit.MustCBOR(att)
			sig, err := via.Identity().PrivateKey.Sign(nil, data, &ed25519.Options{Context: string(p.context())})
			must(err)
			forged := append(data, sig...)
			own := signRecord(via, p, ch[0].att.Delay, ch[0].att.ForwardLabel, ch[0].att.ReturnLabel, forged)
			add("impersonate-known-router-"+victim.Name+"/attacker-key-embedded", p.withAppendix(own), via, -1, own)
		}
	}
	// two-step histories: the genuine announcement is accepted first, then a
	// tampered copy carrying the same origin timestamp arrives.
	for i := 48; i < len(p.raw); i++ {
		raw := append([]byte(nil), p.raw...)
		raw[i] ^= 1 << (i % 8)
		vs = append(vs, variant{name: fmt.Sprintf("after-genuine/bitflip/%s/byte%d", region(p, i), i), raw: raw, via: via, expectAccept: -1, afterGenuine: true})
	}
	for _, i := range []int{3, 4, 5, 8, 15, 16, 31, 32, 47} {
		raw := append([]byte(nil), p.raw...)
		raw[i] ^= 1
		vs = append(vs, variant{name: fmt.Sprintf("after-genuine/bitflip/header/byte%d", i), raw: raw, via: via, expectAccept: -1, afterGenuine: true})
	}
	if len(ch) > 0 {
		vs = append(vs, variant{name: "after-genuine/appendix-from-other-time", raw: p.withAppendix(caps.f2.appendix()), via: via, expectAccept: -1, afterGenuine: true})
		vs = append(vs, variant{name: "after-genuine/body-from-other-time", raw: caps.f2.withAppendix(p.appendix()), via: via, expectAccept: -1, afterGenuine: true})
	}
	// histories in which the attacker took an honest part before: after the
	// genuine announcement of O (chain H1..Hk) was accepted, a malicious
	// router A that is a direct peer of R (the innermost hop H1 over its
	// shortcut link, or the delivering peer Hk) relays the OTHER origin's
	// announcement with an inner record that names router X - any router R
	// has heard of - but is signed with A's own key, wrapped in A's own record.
	if len(ch) > 1 {
		g := caps.g1
		everyone := append([]*kit.Node{tw.o, tw.o2, tw.wn, tw.y, tw.z}, tw.hs...)
		for _, a := range []*kit.Node{tw.hs[0], via} {
			for _, x := range everyone {
				if x == a {
					continue
				}
				for _, withInner := range []bool{false, true} {
					var inner []byte
					if withInner {
						inner = chO2[len(chO2)-1].raw // the genuine innermost record of O2's announcement
						if x == tw.hs[0] {
							continue
						}
					}
					forged := signRecordAs(a, x, g, 1, 41, 42, inner)
					own := signRecord(a, g, 1, 43, 44, forged)
					vs = append(vs, variant{name: fmt.Sprintf("after-genuine/record-naming-%s-signed-by-%s/inner=%v", x.Name, a.Name, withInner), raw: g.withAppendix(own), via: a, expectAccept: -1, afterGenuine: true, attackerOwn: [][]byte{own}})
				}
			}
		}
	}
	// a later announcement of the same origin over the same routers in which the
	// delivering peer signs different labels (same delay) for its own hop, after
	// the earlier one was accepted: the route must carry what was signed last.
	if len(ch) > 0 {
		for _, dl := range []m.SwitchLabel{2, 300} {
			own := signRecord(via, caps.f2, chT2[0].att.Delay, chT2[0].att.ForwardLabel+dl, chT2[0].att.ReturnLabel+dl, chT2[0].att.NextAttachment)
			vs = append(vs, variant{name: fmt.Sprintf("after-genuine/later-announcement-relabelled-by-delivering-peer(+%d)", dl), raw: caps.f2.withAppendix(own), via: via, expectAccept: 0, afterGenuine: true, attackerOwn: [][]byte{own}})
		}
		own := signRecord(via, caps.f2, chT2[0].att.Delay+3, chT2[0].att.ForwardLabel, chT2[0].att.ReturnLabel, chT2[0].att.NextAttachment)
		vs = append(vs, variant{name: "after-genuine/later-announcement-with-other-delay-of-delivering-peer", raw: caps.f2.withAppendix(own), via: via, expectAccept: 0, afterGenuine: true, attackerOwn: [][]byte{own}})
		vs = append(vs, variant{name: "after-genuine/later-announcement-untouched", raw: append([]byte(nil), caps.f2.raw...), via: via, expectAccept: 1, afterGenuine: true})
	}
	// deliver over a different peer's link.
	add("delivered-over-other-link-Y", append([]byte(nil), p.raw...), tw.y, -1)
	add("delivered-over-other-link-W", append([]byte(nil), p.raw...), tw.wn, -1)
	return vs
}

// rebuild re-encodes the given records (outermost first) around the innermost appendix,
// keeping each record's original signature (which is now over different bytes).
func rebuild(rs []rec, innermost []byte) []byte {
	next := innermost
	for i := len(rs) - 1; i >= 0; i-- {
		att := rs[i].att
		att.NextAttachment = next
		data := kit.MustCBOR(att)
		next = append(data, rs[i].raw[len(rs[i].raw)-64:]...)
	}
	return next
}

// rewrap re-encodes the outer records (outermost first, excluding index 0 which
// the caller re-signs) around a replaced inner record.
func rewrap(outer []rec, inner []byte) []byte {
	if len(outer) <= 1 {
		return inner
	}
	return rebuild(outer[1:], inner)
}

func region(p parsed, i int) string {
	switch {
	case i < 48:
		return "header"
	case i < p.apxStart-64:
		return "body"
	case i < p.apxStart:
		return "origin-signature"
	}
	return "hop-records"
}

func class(name string) string {
	if i := strings.Index(name, "/byte"); i > 0 {
		return name[:i]
	}
	if i := strings.Index(name, "impersonate-known-router"); i >= 0 {
		return "impersonate-known-router"
	}
	return name
}

// checkAccepted validates an accepted delivery against the statement.
func checkAccepted(tw *tworld, caps *captures, v variant) string {
	p := parse(v.raw)
	ch := chainOf(p.appendix())
	own := map[string]bool{}
	for _, o := range v.attackerOwn {
		own[string(o)] = true
	}
	for i, r := range ch {
		if caps.honest[string(p.context())+"|"+string(r.raw)] {
			continue
		}
		if i == 0 && own[string(r.raw)] && r.att.Router.IP == v.via.Identity().IP {
			continue
		}
		return fmt.Sprintf("accepted hop record %d (router %s) was never produced by its signer for this announcement", i, r.att.Router.IP)
	}
	// the route for the origin must list exactly the signers.
	var found *m.RoutingTableEntry
	es := tw.r.RoutingTable().VerifEntries()
	for i := range es {
		e := &es[i]
		if e.DstIP == p.src && e.NextHop == v.via.Identity().IP && len(e.Path.Hops) == len(ch)+2 {
			found = e
		}
	}
	if found == nil {
		return "accepted, but no route to the origin via the delivering peer with the signed hop count exists"
	}
	if found.Path.Hops[0].Router != tw.r.Identity().IP || found.Path.Hops[len(found.Path.Hops)-1].Router != p.src {
		return "route does not start at this router / end at the origin"
	}
	for i, r := range ch {
		h := found.Path.Hops[1+i]
		if h.Router != r.att.Router.IP || h.Delay != r.att.Delay || h.ForwardLabel != r.att.ForwardLabel || h.ReturnLabel != r.att.ReturnLabel {
			return fmt.Sprintf("route hop %d (%s d=%d f=%d b=%d) differs from signed record (%s d=%d f=%d b=%d)", i+1, h.Router, h.Delay, h.ForwardLabel, h.ReturnLabel, r.att.Router.IP, r.att.Delay, r.att.ForwardLabel, r.att.ReturnLabel)
		}
	}
	if len(ch) > 0 && ch[0].att.Router.IP != v.via.Identity().IP {
		return "outermost signer is not the delivering peer"
	}
	_ = bytes.Equal
	return ""
}
