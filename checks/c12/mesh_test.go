package c12

import (
	"bytes"
	"fmt"
	"net/netip"
	"testing"
	"testing/synctest"
	"time"

	"verif/kit"

	"github.com/mycoria/mycoria/config"
	"github.com/mycoria/mycoria/frame"
	"github.com/mycoria/mycoria/m"
)

var meshPool = kit.RoutablePool("c12", 8)

type meshGraph struct {
	name  string
	n     int
	edges [][2]int
}

// meshPart: routes learned by real gossip in small meshes of real routers are
// used as label-switched source routes through the real switches: the forward
// block is followed hop by hop by the routers' own switch code, a reply sent
// along the reversed block that arrived at the destination must arrive back at
// the origin with a
// block that reverses to the forward block. The end points are plain, lite and
// stub routers; labels of one and two bytes.
func meshPart(t *testing.T, rep *kit.Report, env kit.Env, evals, nontrivial *int64) {
	graphs := []meshGraph{
		{"line3", 3, [][2]int{{0, 1}, {1, 2}}},
		{"line4", 4, [][2]int{{0, 1}, {1, 2}, {2, 3}}},
		{"star4", 4, [][2]int{{0, 1}, {0, 2}, {0, 3}}},
		{"ring4", 4, [][2]int{{0, 1}, {1, 2}, {2, 3}, {3, 0}}},
	}
	if env.Thorough() {
		graphs = append(graphs, meshGraph{"line6", 6, [][2]int{{0, 1}, {1, 2}, {2, 3}, {3, 4}, {4, 5}}},
			meshGraph{"tree7", 7, [][2]int{{0, 1}, {0, 2}, {1, 3}, {1, 4}, {2, 5}, {2, 6}}})
	}
	caseNo := 1000
	for _, g := range graphs {
		for _, flavour := range []string{"plain", "stub-leaves", "lite-leaves"} {
			for _, two := range []bool{false, true} {
				caseNo++
				if !env.Mine(caseNo) {
					continue
				}
				synctest.Test(t, func(t *testing.T) {
					w := kit.NewWorld()
					deg := make([]int, g.n)
					for _, e := range g.edges {
						deg[e[0]]++
						deg[e[1]]++
					}
					var nodes []*kit.Node
					for i := 0; i < g.n; i++ {
						st := config.Store{}
						if deg[i] == 1 {
							st.Router.Stub = flavour == "stub-leaves"
							st.Router.Lite = flavour == "lite-leaves"
						}
						n, err := w.AddNode(fmt.Sprintf("N%d", i), meshPool[i], st)
						if err != nil {
							panic(err)
						}
						nodes = append(nodes, n)
					}
					next := make([]m.SwitchLabel, g.n)
					for i := range next {
						next[i] = 2
						if two {
							next[i] = 300
						}
					}
					for ei, e := range g.edges {
						la, lb := next[e[0]], next[e[1]]
						next[e[0]]++
						next[e[1]]++
						if _, _, err := w.Connect(nodes[e[0]], nodes[e[1]], la, lb, uint16(5+ei%3)); err != nil {
							panic(err)
						}
					}
					drain := func() {
						for i := 0; len(w.InFlight) > 0 && i < 200000; i++ {
							w.Deliver(0)
						}
					}
					for _, n := range nodes {
						for _, l := range n.Peering().GetLinks() {
							if err := n.Router().AnnouncePing.Send(l.Peer()); err != nil {
								panic(err)
							}
						}
						time.Sleep(time.Millisecond)
					}
					drain()

					type seen struct {
						at    *kit.Node
						block []byte
					}
					var caught []seen
					var marker []byte
					w.OnEscalate = func(n *kit.Node, f frame.Frame) {
						if bytes.Contains(f.MessageData(), marker) {
							caught = append(caught, seen{n, append([]byte(nil), f.SwitchBlock()...)})
						}
					}
					// send originates a label-switched frame at src along block (a full
					// forward or return block) and returns where it was escalated.
					send := func(src, dst *kit.Node, block []byte, tag string) ([]seen, error) {
						blk := append([]byte(nil), block...)
						first, err := m.NextRotateSwitchBlock(blk, 0)
						if err != nil {
							return nil, fmt.Errorf("origin rotation: %w", err)
						}
						marker = []byte("c12-mesh-" + tag)
						f, err := src.FrameBuilder().NewFrameV1(src.Identity().IP, dst.Identity().IP, frame.SessionData, blk, append(append([]byte(nil), marker...), make([]byte, 20)...), nil)
						if err != nil {
							return nil, err
						}
						caught = nil
						if err := src.Switch().ForwardByLabel(f, first); err != nil {
							return nil, fmt.Errorf("origin forward by label %d: %w", first, err)
						}
						drain()
						return caught, nil
					}
					for ai, a := range nodes {
						for bi, b := range nodes {
							if ai == bi {
								continue
							}
							var route *m.RoutingTableEntry
							es := a.RoutingTable().VerifEntries()
							for i := range es {
								e := &es[i]
								if e.DstIP == b.Identity().IP && len(e.Path.Hops) >= 2 && (route == nil || len(e.Path.Hops) < len(route.Path.Hops)) {
									route = e
								}
							}
							desc := fmt.Sprintf("%s leaves=%s two-byte-labels=%v %s->%s", g.name, flavour, two, a.Name, b.Name)
							if route == nil {
								continue // reach is C09's business
							}
							*evals++
							*nontrivial++
							got, err := send(a, b, route.Path.ForwardBlock, fmt.Sprintf("fwd-%d-%d", ai, bi))
							if err != nil || len(got) != 1 || got[0].at != b {
								rep.Violate("mesh/forward-not-delivered", fmt.Sprintf("a frame following the route's forward block did not reach the destination's router exactly once (err=%v, escalations=%d): %s", err, len(got), desc), desc)
								rep.Outcome("mesh/forward-failed")
								continue
							}
							back := append([]byte(nil), got[0].block...)
							m.TransformToReturnBlock(back)
							// The return labels in the block were written by the switches from
							// their real receive links. (The route's own return block may name
							// another label for the hop next to an announcing router, because
							// announcements are flooded per link with one link's return label -
							// an observation outside this property; it is recorded, not judged.)
							if !bytes.Equal(back, route.Path.ReturnBlock) {
								rep.Outcome("mesh/return-block-differs-from-gossiped-return-labels(recorded)")
							}
							got2, err := send(b, a, back, fmt.Sprintf("ret-%d-%d", ai, bi))
							if err != nil || len(got2) != 1 || got2[0].at != a {
								rep.Violate("mesh/return-not-delivered", fmt.Sprintf("a reply following the reversed block did not reach the origin's router exactly once (err=%v, escalations=%d): %s", err, len(got2), desc), desc)
								rep.Outcome("mesh/return-failed")
								continue
							}
							fwd := append([]byte(nil), got2[0].block...)
							m.TransformToReturnBlock(fwd)
							if !bytes.Equal(fwd, route.Path.ForwardBlock) {
								rep.Violate("mesh/forward-block-mismatch", fmt.Sprintf("the block left at the origin after the round trip reverses to %x, the route's forward block is %x: %s", fwd, route.Path.ForwardBlock, desc), desc)
								continue
							}
							rep.Outcome(fmt.Sprintf("mesh/round-trip-ok/hops=%d", len(route.Path.Hops)-1))
						}
					}
					if len(w.Panics) > 0 {
						rep.Violate("mesh/panic", w.Panics[0], g.name)
					}
				})
			}
		}
	}
}

// storedRoutes: what the routing table stores for a route - also after the same
// route (same routers) is announced again with other labels - are blocks built
// from exactly the labels of the latest announcement; an oversized
// re-announcement is refused with an error.
func storedRoutes(t *testing.T, rep *kit.Report, env kit.Env, evals, nontrivial *int64) {
	R := netip.MustParseAddr("fd10:1::1")
	mk := func(n int, fl, rl m.SwitchLabel) m.RoutingTableEntry {
		hops := []m.SwitchHop{{Router: R, Delay: 5, ForwardLabel: fl}}
		for i := 1; i < n; i++ {
			a := netip.MustParseAddr(fmt.Sprintf("fd10:%x::1", 0x100+i))
			hops = append(hops, m.SwitchHop{Router: a, Delay: 5, ForwardLabel: fl + m.SwitchLabel(i), ReturnLabel: rl + m.SwitchLabel(i)})
		}
		dst := netip.MustParseAddr("fd10:9::9")
		hops = append(hops, m.SwitchHop{Router: dst, ReturnLabel: rl})
		return m.RoutingTableEntry{DstIP: dst, NextHop: hops[1].Router, Path: m.SwitchPath{Hops: hops}, Source: m.RouteSourceGossip, Expires: time.Now().Add(time.Hour)}
	}
	labels := []m.SwitchLabel{2, 100, 130, 16000, 16500, 65000}
	caseNo := 5000
	for _, n := range []int{1, 2, 3, 40, 100} {
		for _, l1 := range labels {
			for _, l2 := range labels {
				caseNo++
				if !env.Mine(caseNo) {
					continue
				}
				*evals++
				*nontrivial++
				desc := fmt.Sprintf("%d relays, first announced with labels from %d, then with labels from %d", n, l1, l2)
				rt := m.NewRoutingTable(m.RoutingTableConfig{RouterIP: R})
				check := func(step string, e m.RoutingTableEntry, added bool, err error) {
					ref := m.SwitchPath{Hops: append([]m.SwitchHop(nil), e.Path.Hops...)}
					berr := ref.BuildBlocks()
					if berr != nil {
						if err == nil {
							rep.Violate("stored/oversize-accepted", fmt.Sprintf("%s: a route whose labels do not fit (%v) was accepted without error (added=%v): %s", step, berr, added, desc), desc)
						}
						return
					}
					if err != nil || !added {
						rep.Violate("stored/valid-route-refused", fmt.Sprintf("%s: valid route not added (added=%v err=%v): %s", step, added, err, desc), desc)
						return
					}
					var got *m.RoutingTableEntry
					es := rt.VerifEntries()
					for i := range es {
						if es[i].DstIP == e.DstIP {
							got = &es[i]
						}
					}
					if got == nil || len(es) != 1 {
						rep.Violate("stored/route-missing", fmt.Sprintf("%s: table holds %d entries: %s", step, len(es), desc), desc)
						return
					}
					if !bytes.Equal(got.Path.ForwardBlock, ref.ForwardBlock) || !bytes.Equal(got.Path.ReturnBlock, ref.ReturnBlock) {
						rep.Violate("stored/stale-or-wrong-blocks", fmt.Sprintf("%s: stored blocks %x / %x differ from the blocks of the announced labels %x / %x: %s", step, got.Path.ForwardBlock, got.Path.ReturnBlock, ref.ForwardBlock, ref.ReturnBlock, desc), desc)
						return
					}
					for i := range got.Path.Hops {
						if got.Path.Hops[i] != e.Path.Hops[i] {
							rep.Violate("stored/hops-differ", fmt.Sprintf("%s: stored hop %d differs from the announced one: %s", step, i, desc), desc)
							return
						}
					}
				}
				e1 := mk(n, l1, l1+7)
				p, pv := kit.Try(func() { added, err := rt.AddRoute(e1); check("first announcement", e1, added, err) })
				if p {
					rep.Violate("stored/panic", fmt.Sprintf("AddRoute panicked: %v: %s", pv, desc), desc)
					continue
				}
				e2 := mk(n, l2, l2+9)
				p, pv = kit.Try(func() { added, err := rt.AddRoute(e2); check("second announcement", e2, added, err) })
				if p {
					rep.Violate("stored/panic", fmt.Sprintf("AddRoute panicked: %v: %s", pv, desc), desc)
					continue
				}
				// a route derived from a copy of the stored entry (as code that looks a
				// route up and re-announces a variant of it would) must not disturb the
				// blocks of the entry it was copied from.
				es := rt.VerifEntries()
				if len(es) == 1 && len(es[0].Path.Hops) >= 2 {
					orig := es[0]
					wantF := append([]byte(nil), orig.Path.ForwardBlock...)
					wantR := append([]byte(nil), orig.Path.ReturnBlock...)
					derived := orig
					derived.DstIP = netip.MustParseAddr("fd10:a::a")
					derived.Path.Hops = append([]m.SwitchHop(nil), orig.Path.Hops...)
					derived.Path.Hops[len(derived.Path.Hops)-1].Router = derived.DstIP
					for i := range derived.Path.Hops {
						if i < len(derived.Path.Hops)-1 {
							derived.Path.Hops[i].ForwardLabel = 3
						}
						if i > 0 {
							derived.Path.Hops[i].ReturnLabel = 5
						}
					}
					if p, pv := kit.Try(func() { _, _ = rt.AddRoute(derived) }); p {
						rep.Violate("stored/panic", fmt.Sprintf("AddRoute of a derived route panicked: %v: %s", pv, desc), desc)
						continue
					}
					for _, e := range rt.VerifEntries() {
						if e.DstIP == orig.DstIP && (!bytes.Equal(e.Path.ForwardBlock, wantF) || !bytes.Equal(e.Path.ReturnBlock, wantR)) {
							rep.Violate("stored/blocks-changed-by-other-route", fmt.Sprintf("adding a route derived from a copy of the stored entry changed the stored entry's blocks to %x / %x (were %x / %x): %s", e.Path.ForwardBlock, e.Path.ReturnBlock, wantF, wantR, desc), desc)
						}
					}
				}
				rep.Outcome("stored/ok")
			}
		}
	}
}
