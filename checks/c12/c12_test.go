// C12: switch-label source routes traverse forward and reverse exactly.
//
// Exhaustive enumeration of label vectors over size-class representatives and
// of long uniform / single-odd-one-out patterns; every path is driven through
// the real CalculateBlockSize / BuildBlocks / NextRotateSwitchBlock /
// TransformToReturnBlock and compared with a simulation on label lists.
package c12

import (
	"bytes"
	"fmt"
	"strings"
	"testing"

	"verif/kit"

	"github.com/mycoria/mycoria/m"
)

const guard = 8

func encSize(l int) int {
	switch {
	case l <= 127:
		return 1
	case l <= 16383:
		return 2
	default:
		return 3
	}
}

// refSize is the independent reference: the maximum, over all rotation states
// of a traversal, of the bytes that must be present in the block.
// fwd[0..n-2] are the forward labels of hops 0..n-2, ret[1..n-1] the return
// labels of hops 1..n-1 (ret[0] is unused / zero).
func refSize(fwd, ret []int) int {
	n := len(fwd) + 1
	best := 0
	// initial state: all forward labels.
	s := 0
	for _, f := range fwd {
		s += encSize(f)
	}
	best = s
	// state after hop i rotated.
	for i := 0; i <= n-1; i++ {
		s = 0
		for j := i + 1; j <= n-2; j++ {
			s += encSize(fwd[j])
		}
		if i < n-1 {
			s++ // destination marker
		}
		for j := 1; j <= i; j++ {
			s += encSize(ret[j])
		}
		if s > best {
			best = s
		}
	}
	return best
}

type result struct {
	class  string // outcome class
	key    string // violation key ("" = ok)
	detail string
}

func checkPath(fwd, ret []int) (res result) {
	n := len(fwd) + 1
	desc := func() string { return fmt.Sprintf("fwd=%v ret=%v", fwd, ret[1:]) }
	defer func() {
		if p := recover(); p != nil {
			want := refSize(fwd, ret)
			cls := "fits"
			if want > 255 {
				cls = "does-not-fit(>255 bytes)"
			}
			res = result{class: "panic", key: "panic/" + cls, detail: fmt.Sprintf("panic %v on %s path hops=%d refsize=%d %s", p, cls, n, want, short(desc()))}
		}
	}()

	hops := make([]m.SwitchHop, n)
	for i := 0; i < n; i++ {
		if i < n-1 {
			hops[i].ForwardLabel = m.SwitchLabel(fwd[i])
		}
		if i > 0 {
			hops[i].ReturnLabel = m.SwitchLabel(ret[i])
		}
	}
	sp := &m.SwitchPath{Hops: hops}
	want := refSize(fwd, ret)

	size, err := sp.CalculateBlockSize()
	if want > 255 {
		if err == nil {
			// BuildBlocks must refuse too.
			berr := sp.BuildBlocks()
			if berr == nil {
				return result{class: "too-big-accepted", key: "oversize-accepted", detail: fmt.Sprintf("path needing %d label bytes accepted (size=%d) hops=%d %s", want, size, n, short(desc()))}
			}
			return result{class: "too-big-size-ok-build-refused", key: "oversize-size-not-refused", detail: fmt.Sprintf("CalculateBlockSize returned %d without error for path needing %d bytes", size, want)}
		}
		if berr := sp.BuildBlocks(); berr == nil {
			return result{class: "too-big-build-accepted", key: "oversize-build-accepted", detail: "BuildBlocks accepted oversize path " + short(desc())}
		}
		return result{class: "refused-oversize"}
	}
	if err != nil {
		return result{class: "valid-refused", key: "valid-refused", detail: fmt.Sprintf("valid path refused: %v %s", err, short(desc()))}
	}
	if size != want {
		k := "size-too-small"
		if size > want {
			k = "size-not-minimal"
		}
		return result{class: k, key: k, detail: fmt.Sprintf("block size %d, reference %d, %s", size, want, short(desc()))}
	}
	if err := sp.BuildBlocks(); err != nil {
		return result{class: "valid-refused", key: "valid-build-refused", detail: fmt.Sprintf("BuildBlocks: %v %s", err, short(desc()))}
	}
	if len(sp.ForwardBlock) != want || len(sp.ReturnBlock) != want {
		return result{class: "bad-block-len", key: "bad-block-len", detail: fmt.Sprintf("block lens %d/%d want %d %s", len(sp.ForwardBlock), len(sp.ReturnBlock), want, short(desc()))}
	}

	// Rebuilding a path object that already carries blocks of other (longer)
	// labels must give exactly the blocks of a fresh build.
	for _, prior := range []int{65535, 300, 100} {
		pf := make([]int, len(fwd))
		pr := make([]int, len(ret))
		for i := range pf {
			pf[i] = prior
		}
		for i := 1; i < len(pr); i++ {
			pr[i] = prior
		}
		if refSize(pf, pr) > 255 {
			continue
		}
		ph := make([]m.SwitchHop, n)
		for i := 0; i < n; i++ {
			if i < n-1 {
				ph[i].ForwardLabel = m.SwitchLabel(prior)
			}
			if i > 0 {
				ph[i].ReturnLabel = m.SwitchLabel(prior)
			}
		}
		sp2 := &m.SwitchPath{Hops: ph}
		if err := sp2.BuildBlocks(); err != nil {
			break
		}
		sp2.Hops = append([]m.SwitchHop(nil), hops...)
		if err := sp2.BuildBlocks(); err != nil {
			return result{class: "rebuild-refused", key: "rebuild-refused", detail: fmt.Sprintf("BuildBlocks on a path object that already had blocks: %v %s", err, short(desc()))}
		}
		if !bytes.Equal(sp2.ForwardBlock, sp.ForwardBlock) || !bytes.Equal(sp2.ReturnBlock, sp.ReturnBlock) {
			return result{class: "rebuild-differs", key: "rebuild-differs-from-fresh-build", detail: fmt.Sprintf("blocks rebuilt on a path object that carried blocks of labels %d are %x / %x, a fresh build gives %x / %x %s", prior, sp2.ForwardBlock, sp2.ReturnBlock, sp.ForwardBlock, sp.ReturnBlock, short(desc()))}
		}
		break
	}

	// Traverse inside a guarded buffer. The block slice keeps its capacity into
	// the trailing guard so that an out-of-block write is observed, not masked.
	buf := make([]byte, guard+want+guard)
	for i := range buf {
		buf[i] = 0xA5
	}
	block := buf[guard : guard+want]
	copy(block, sp.ForwardBlock)
	guardsOK := func() bool {
		for i := 0; i < guard; i++ {
			if buf[i] != 0xA5 || buf[guard+want+i] != 0xA5 {
				return false
			}
		}
		return true
	}

	for i := 0; i < n; i++ {
		next, err := m.NextRotateSwitchBlock(block, hops[i].ReturnLabel)
		if err != nil {
			return result{class: "fwd-rotate-error", key: "fwd-rotate-error", detail: fmt.Sprintf("hop %d: %v %s", i, err, short(desc()))}
		}
		exp := 0
		if i < n-1 {
			exp = fwd[i]
		}
		if int(next) != exp {
			return result{class: "fwd-wrong-label", key: "fwd-wrong-label", detail: fmt.Sprintf("hop %d: got label %d want %d %s", i, next, exp, short(desc()))}
		}
		if !guardsOK() {
			return result{class: "guard-touched", key: "guard-touched-fwd", detail: fmt.Sprintf("hop %d wrote outside the block %s", i, short(desc()))}
		}
	}
	m.TransformToReturnBlock(block)
	if !guardsOK() {
		return result{class: "guard-touched", key: "guard-touched-transform", detail: short(desc())}
	}
	if !bytes.Equal(block, sp.ReturnBlock) {
		return result{class: "return-block-mismatch", key: "return-block-mismatch", detail: fmt.Sprintf("got %x want %x %s", block, sp.ReturnBlock, short(desc()))}
	}
	for i := n - 1; i >= 0; i-- {
		next, err := m.NextRotateSwitchBlock(block, hops[i].ForwardLabel)
		if err != nil {
			return result{class: "ret-rotate-error", key: "ret-rotate-error", detail: fmt.Sprintf("hop %d: %v %s", i, err, short(desc()))}
		}
		exp := 0
		if i > 0 {
			exp = ret[i]
		}
		if int(next) != exp {
			return result{class: "ret-wrong-label", key: "ret-wrong-label", detail: fmt.Sprintf("hop %d: got label %d want %d %s", i, next, exp, short(desc()))}
		}
		if !guardsOK() {
			return result{class: "guard-touched", key: "guard-touched-ret", detail: fmt.Sprintf("hop %d wrote outside the block %s", i, short(desc()))}
		}
	}
	m.TransformToReturnBlock(block)
	if !bytes.Equal(block, sp.ForwardBlock) {
		return result{class: "forward-block-mismatch", key: "forward-block-mismatch", detail: fmt.Sprintf("got %x want %x %s", block, sp.ForwardBlock, short(desc()))}
	}
	return result{class: fmt.Sprintf("ok/size%d", want/32*32)}
}

func short(s string) string {
	if len(s) > 300 {
		return s[:300] + "…"
	}
	return s
}

func TestC12(t *testing.T) {
	env := kit.GetEnv()
	rep := kit.NewReport("C12", env)
	rep.Rule = "every label vector over size-class representatives for hop counts 2..N (full cross product of forward and return labels), plus hop counts up to 131 with every uniform, single-odd-one-out and two-segment class pattern, plus every label value 1..65535 at every position of 3-hop paths; every valid path whose block is 190 bytes or longer and every 23rd other one is also carried forward and back in a real frame that is serialized and parsed afresh at every hop (labels in order, bytes outside the block unchanged); plus, through the real switches of small gossip-converged meshes (lines, star, ring; plain / stub / lite end points; 1- and 2-byte link labels): every learned route followed as a label-switched source route by the routers' own switch code, the block arriving at the destination reversed and a reply sent back along it; plus routes stored by the routing table for 1..100 relays x 6x6 label classes, announced and re-announced with other labels (blocks must be those of the latest labels, oversized re-announcements refused); a case is non-trivial when forward and return labels are not all in one size class or the path is at/over the 255-byte limit; distinct = distinct (hops, label vector)"
	rep.Assumptions = []string{
		"labels inside a size class behave like the class representatives {1,127 | 128,16383 | 16384,65535}",
		"label 0 only at the mandatory positions (a zero forward label in the middle is not a valid path)",
	}

	reps := []int{1, 127, 128, 16383, 16384, 65535}
	small := []int{1, 128, 16384}
	maxFull, maxSmall := 4, 6
	if env.Thorough() {
		maxFull, maxSmall = 5, 7
	}
	rep.Bounds["full_representatives_up_to_hops"] = maxFull
	rep.Bounds["boundary_representatives_up_to_hops"] = maxSmall
	rep.Bounds["long_patterns_up_to_hops"] = 131

	var evals, nontrivial int64
	caseIdx := 0
	run := func(fwd, ret []int, nt bool) {
		r := checkPath(fwd, ret)
		evals++
		if nt {
			nontrivial++
		}
		rep.Outcome(r.class)
		if r.key != "" {
			rep.Violate(r.key, r.detail, map[string]any{"fwd": fwd, "ret": ret[1:]})
		} else if strings.HasPrefix(r.class, "ok/") && (refSize(fwd, ret) >= 190 || evals%23 == 0) {
			// the same path with its block carried by a real frame that is parsed at every hop.
			if k, d := checkWire(fwd, ret); k != "" {
				rep.Violate(k, d+" "+short(fmt.Sprintf("fwd=%v ret=%v", fwd, ret[1:])), map[string]any{"fwd": fwd, "ret": ret[1:]})
			}
			rep.Outcome("wire/carried")
		}
		if evals%200000 == 1 {
			rep.Sample(map[string]any{"hops": len(fwd) + 1, "fwd": fwd, "ret": ret[1:], "outcome": r.class})
		}
	}

	// (1) exhaustive cross products.
	enumerate := func(n int, alphabet []int) {
		k := 2 * (n - 1)
		idx := make([]int, k)
		fwd := make([]int, n-1)
		ret := make([]int, n)
		for {
			// shard on the first two digits.
			top := idx[0]*len(alphabet) + idx[1]
			if env.Mine(top + caseIdx) {
				mixed := false
				for i := 0; i < k; i++ {
					if encSize(alphabet[idx[i]]) != encSize(alphabet[idx[0]]) {
						mixed = true
					}
				}
				for i := 0; i < n-1; i++ {
					fwd[i] = alphabet[idx[i]]
					ret[i+1] = alphabet[idx[n-1+i]]
				}
				run(append([]int(nil), fwd...), append([]int(nil), ret...), mixed)
			}
			// increment
			p := k - 1
			for p >= 0 {
				idx[p]++
				if idx[p] < len(alphabet) {
					break
				}
				idx[p] = 0
				p--
			}
			if p < 0 {
				break
			}
		}
		caseIdx += 7
	}
	for n := 2; n <= maxFull; n++ {
		enumerate(n, reps)
	}
	for n := maxFull + 1; n <= maxSmall; n++ {
		enumerate(n, small)
	}

	// (2) long paths: uniform and single-odd-one-out class patterns.
	classes := []int{100, 9000, 40000}
	for n := 7; n <= 131; n++ {
		if !env.Mine(n) {
			continue
		}
		for _, cf := range classes {
			for _, cr := range classes {
				mk := func() ([]int, []int) {
					fwd := make([]int, n-1)
					ret := make([]int, n)
					for i := range fwd {
						fwd[i] = cf
						ret[i+1] = cr
					}
					return fwd, ret
				}
				fwd, ret := mk()
				total := refSize(fwd, ret)
				run(fwd, ret, cf != cr || total >= 250)
				for pos := 0; pos < n-1; pos++ {
					for _, odd := range classes {
						if odd != cf {
							fwd, ret := mk()
							fwd[pos] = odd
							run(fwd, ret, true)
						}
						if odd != cr {
							fwd, ret := mk()
							ret[pos+1] = odd
							run(fwd, ret, true)
						}
					}
				}
			}
		}
	}

	// (3) two-segment patterns: forward labels switch class at a split point,
	// return labels switch class at the same point (covers paths whose
	// mid-route block is larger than both the forward and the return block).
	for n := 7; n <= 131; n++ {
		if !env.Mine(n + 3) {
			continue
		}
		step := 1
		if !env.Thorough() && n > 40 {
			step = 3
		}
		for split := 1; split < n-1; split += step {
			for _, f1 := range classes {
				for _, f2 := range classes {
					for _, r1 := range classes {
						for _, r2 := range classes {
							if f1 == f2 && r1 == r2 {
								continue
							}
							fwd := make([]int, n-1)
							ret := make([]int, n)
							for i := range fwd {
								if i < split {
									fwd[i], ret[i+1] = f1, r1
								} else {
									fwd[i], ret[i+1] = f2, r2
								}
							}
							run(fwd, ret, true)
						}
					}
				}
			}
		}
	}
	rep.Bounds["two_segment_patterns_up_to_hops"] = 131

	// (4) single-label sweep: every label value 1..65535 at every position of
	// 3-hop paths, the other labels at class representatives.
	for pos := 0; pos < 4; pos++ {
		for _, other := range small {
			for v := 1; v <= 65535; v++ {
				if !env.Mine(v) {
					continue
				}
				fwd := []int{other, other}
				ret := []int{0, other, other}
				if pos < 2 {
					fwd[pos] = v
				} else {
					ret[pos-1] = v
				}
				run(fwd, ret, encSize(v) != encSize(other))
			}
		}
	}
	rep.Bounds["single_label_sweep"] = "all 65535 values x 4 positions x 3 contexts on 3-hop paths"

	meshPart(t, rep, env, &evals, &nontrivial)
	storedRoutes(t, rep, env, &evals, &nontrivial)
	runC12Sched(t, rep, env)

	rep.Add(evals, nontrivial, 0, 0)
	if err := rep.Finish(env); err != nil {
		t.Fatal(err)
	}
}
