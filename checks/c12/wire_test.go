package c12

import (
	"bytes"
	"fmt"
	"net/netip"

	"github.com/mycoria/mycoria/frame"
	"github.com/mycoria/mycoria/m"
)

var (
	wireBuilder = func() *frame.Builder {
		b := frame.NewFrameBuilder()
		b.SetFrameMargins(12, 16)
		return b
	}()
	wireSrc = netip.MustParseAddr("fd10:1::1")
	wireDst = netip.MustParseAddr("fd10:2::2")
)

// checkWire carries the path's forward block in a real frame: at every hop the
// serialized frame is parsed afresh (as a link reader does), the block the frame
// exposes is rotated, and the frame is serialized again; the destination
// reverses the block in place, turns the received frame into a reply along it
// (Reply on the frame's own block), and a frame with a copy of the reversed
// block travels back the same way. Oracles: labels in order, zero at both ends, every byte of the
// frame outside the block unchanged at every hop.
func checkWire(fwd, ret []int) (key, detail string) {
	n := len(fwd) + 1
	defer func() {
		if p := recover(); p != nil {
			key, detail = "wire/panic", fmt.Sprintf("panic %v carrying a %d-hop path in a frame (fwd=%v)", p, n, short(fmt.Sprint(fwd)))
		}
	}()
	hops := make([]m.SwitchHop, n)
	for i := 0; i < n; i++ {
		if i < n-1 {
			hops[i].ForwardLabel = m.SwitchLabel(fwd[i])
		}
		if i > 0 {
			hops[i].ReturnLabel = m.SwitchLabel(ret[i])
		}
	}
	sp := &m.SwitchPath{Hops: hops}
	if err := sp.BuildBlocks(); err != nil {
		return "", ""
	}
	payload := []byte("label-switched payload 0123456789")
	travel := func(block []byte, labels func(i int) (expect int, rotateWith m.SwitchLabel), dir string) (final []byte, k, d string) {
		f, err := wireBuilder.NewFrameV1(wireSrc, wireDst, frame.NetworkTraffic, block, payload, nil)
		if err != nil {
			return nil, "wire/build-refused", fmt.Sprintf("%s: a frame with a valid %d-byte switch block cannot be built: %v", dir, len(block), err)
		}
		d0, _ := f.FrameDataWithMargins(0, 0)
		cur := append([]byte(nil), d0...)
		f.ReturnToPool()
		for i := 0; i < n; i++ {
			// as the link reader does: into a pooled buffer, at the link offset.
			ps := wireBuilder.GetPooledSlice(len(cur) + 12 + 16)
			if ps == nil {
				return nil, "", ""
			}
			nn := copy(ps[12:], cur)
			g, err := wireBuilder.ParseFrame(ps[12:12+nn], ps[:cap(ps)], 12)
			if err != nil {
				return nil, "wire/parse-refused", fmt.Sprintf("%s hop %d: frame with a %d-byte switch block does not parse: %v", dir, i, len(block), err)
			}
			sb := g.SwitchBlock()
			if len(sb) != len(block) {
				return nil, "wire/block-length-changed", fmt.Sprintf("%s hop %d: the frame exposes a %d-byte block, sent %d", dir, i, len(sb), len(block))
			}
			exp, rot := labels(i)
			next, err := m.NextRotateSwitchBlock(sb, rot)
			if err != nil {
				return nil, "wire/rotate-error", fmt.Sprintf("%s hop %d: %v", dir, i, err)
			}
			if int(next) != exp {
				return nil, "wire/wrong-label", fmt.Sprintf("%s hop %d: got label %d want %d", dir, i, next, exp)
			}
			d1, derr := g.FrameDataWithMargins(0, 0)
			if derr != nil {
				return nil, "wire/frame-data-unavailable", fmt.Sprintf("%s hop %d: %v", dir, i, derr)
			}
			if len(d1) != len(cur) || !bytes.Equal(d1[:49], cur[:49]) || !bytes.Equal(d1[49+len(block):], cur[49+len(block):]) {
				return nil, "wire/byte-outside-block-changed", fmt.Sprintf("%s hop %d of %d: rotating the block changed frame bytes outside the block (block %d bytes)", dir, i, n, len(block))
			}
			if !bytes.Equal(g.MessageData(), payload) {
				return nil, "wire/payload-changed", fmt.Sprintf("%s hop %d: payload differs", dir, i)
			}
			cur = append(cur[:0], d1...)
			if i == n-1 {
				final = append([]byte(nil), sb...)
				if dir == "forward" {
					// the destination turns the received frame into its reply: block reversed
					// in place and handed to Reply (the frame's own block is the only source
					// of return labels a responder has).
					m.TransformToReturnBlock(sb)
					want := append([]byte(nil), sb...)
					if err := g.Reply(g.SwitchBlock(), []byte("reply payload"), nil); err != nil {
						return nil, "wire/reply-refused", fmt.Sprintf("turning the received frame into a reply along its reversed block failed: %v", err)
					}
					if !bytes.Equal(g.SwitchBlock(), want) {
						return nil, "wire/reply-in-place-lost-block", fmt.Sprintf("the reply built on the received frame carries block %x, the reversed block was %x", g.SwitchBlock(), want)
					}
				}
			}
			g.ReturnToPool()
		}
		return final, "", ""
	}
	arrived, k, d := travel(sp.ForwardBlock, func(i int) (int, m.SwitchLabel) {
		exp := 0
		if i < n-1 {
			exp = fwd[i]
		}
		return exp, hops[i].ReturnLabel
	}, "forward")
	if k != "" {
		return k, d
	}
	m.TransformToReturnBlock(arrived)
	if !bytes.Equal(arrived, sp.ReturnBlock) {
		return "wire/return-block-mismatch", fmt.Sprintf("block reversed at the destination is %x, the path's return block %x", arrived, sp.ReturnBlock)
	}
	back, k, d := travel(arrived, func(i int) (int, m.SwitchLabel) {
		j := n - 1 - i
		exp := 0
		if j > 0 {
			exp = ret[j]
		}
		return exp, hops[j].ForwardLabel
	}, "return")
	if k != "" {
		return k, d
	}
	m.TransformToReturnBlock(back)
	if !bytes.Equal(back, sp.ForwardBlock) {
		return "wire/forward-block-mismatch", fmt.Sprintf("block after the round trip reverses to %x, the forward block is %x", back, sp.ForwardBlock)
	}
	return "", ""
}
