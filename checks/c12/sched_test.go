// C12, interleaving tier: the switch runs one handler per CPU, so two
// label-switched frames are rotated AT THE SAME TIME at one relay, and a
// forwarder walks the blocks of a route it looked up while the announce handler
// refreshes that very route. The switchr, peering and m packages are compiled
// with their sync / sync/atomic imports rewritten to the controlled-scheduler
// shims; ALL schedules up to a preemption bound are explored. Oracles: every
// frame leaves the relay over the link its own block names, carrying its own
// block rotated by one hop (= the outcome of one of the serial orders); a route
// entry handed out by a look-up never changes afterwards, and its blocks are
// the blocks of its hop list.
package c12

import (
	"bytes"
	"fmt"
	"sort"
	"strings"
	"testing"
	"testing/synctest"
	"time"

	"verif/kit"
	"verif/schedx"

	"github.com/mycoria/mycoria/config"
	"github.com/mycoria/mycoria/frame"
	"github.com/mycoria/mycoria/m"
)

// relayConc: star with relay X in the middle; frames enter X over different
// links with different blocks and are switched concurrently.
func relayConc(t *testing.T, name string, frames [][3]int, bubble bool) schedx.Conc {
	// frames: (entering over link of leaf i, leaving to leaf j, extra hop labels behind j)
	build := func() *schedx.Instance {
		w := kit.NewWorld()
		x, err := w.AddNode("X", meshPool[0], config.Store{})
		if err != nil {
			panic(err)
		}
		var leaves []*kit.Node
		labelAtX := []m.SwitchLabel{7, 300, 9, 20000}
		for i := 0; i < 4; i++ {
			n, err := w.AddNode(fmt.Sprintf("L%d", i), meshPool[1+i], config.Store{})
			if err != nil {
				panic(err)
			}
			if _, _, err := w.Connect(x, n, labelAtX[i], m.SwitchLabel(40+i), 5); err != nil {
				panic(err)
			}
			leaves = append(leaves, n)
		}
		in := &schedx.Instance{}
		for fi, fr := range frames {
			from, to := leaves[fr[0]], leaves[fr[1]]
			// the block as it arrives at X: next label = X's label of the link to `to`,
			// then fr[2] further hops, then the terminator; return labels collected so far: one.
			hops := []m.SwitchHop{{ForwardLabel: m.SwitchLabel(40 + fr[0])}, {ForwardLabel: labelAtX[fr[1]], ReturnLabel: labelAtX[fr[0]]}}
			for k := 0; k < fr[2]; k++ {
				hops = append(hops, m.SwitchHop{ForwardLabel: m.SwitchLabel(500 + 7*k + fi), ReturnLabel: m.SwitchLabel(60 + k)})
			}
			hops = append(hops, m.SwitchHop{ReturnLabel: 77})
			sp := &m.SwitchPath{Hops: hops}
			if err := sp.BuildBlocks(); err != nil {
				panic(err)
			}
			blk := append([]byte(nil), sp.ForwardBlock...)
			// the origin's own rotation (first hop).
			if _, err := m.NextRotateSwitchBlock(blk, 0); err != nil {
				panic(err)
			}
			f, err := from.FrameBuilder().NewFrameV1(from.Identity().IP, to.Identity().IP, frame.SessionData, blk, []byte(fmt.Sprintf("c12-concurrent-frame-%d-%s", fi, strings.Repeat("p", 10+fi))), nil)
			if err != nil {
				panic(err)
			}
			d, _ := f.FrameDataWithMargins(0, 0)
			raw := append([]byte(nil), d...)
			f.ReturnToPool()
			in.Threads = append(in.Threads, []schedx.Op{{Name: fmt.Sprintf("switch(frame %d: L%d->L%d)", fi, fr[0], fr[1]), Do: func() { w.Inject(from, x, raw) }}})
		}
		in.Observe = func() string {
			var out []string
			for _, fl := range w.Log {
				if fl.From == x {
					sw := int(fl.Bytes[48])
					out = append(out, fmt.Sprintf("%s<-block:%x payload:%s", fl.To.Name, fl.Bytes[49:49+sw], kit.Hash(fl.Bytes[49+sw:])))
				}
			}
			sort.Strings(out)
			return strings.Join(out, "\n")
		}
		in.Check = func(ex *schedx.Exec) {
			for _, p := range w.Panics {
				ex.Bad("panic", "switch worker panic: %s", p)
			}
		}
		return in
	}
	return wrapConc(t, schedx.Conc{Name: "relay/" + name, Build: build}, bubble)
}

func wrapConc(t *testing.T, c schedx.Conc, bubble bool) schedx.Conc {
	if bubble {
		c.Wrap = func(f func()) { synctest.Test(t, func(t *testing.T) { f() }) }
	} else {
		c.Wrap = func(f func()) {
			t.Run("bubble", func(t *testing.T) { synctest.Test(t, func(t *testing.T) { f() }) })
		}
	}
	return c
}

func describeRoute(e *m.RoutingTableEntry) string {
	var b strings.Builder
	fmt.Fprintf(&b, "%s via %s hops[", e.DstIP, e.NextHop)
	for _, h := range e.Path.Hops {
		fmt.Fprintf(&b, "%s/%d/%d/%d,", h.Router, h.Delay, h.ForwardLabel, h.ReturnLabel)
	}
	fmt.Fprintf(&b, "] fwd:%x ret:%x", e.Path.ForwardBlock, e.Path.ReturnBlock)
	return b.String()
}

// heldRouteConc: a forwarder looks a route up and walks its forward block while
// the same route is announced again with other labels.
func heldRouteConc(t *testing.T, bubble bool) schedx.Conc {
	build := func() *schedx.Instance {
		r, p1, d1 := meshPool[0].IP, meshPool[1].IP, meshPool[2].IP
		rt := m.NewRoutingTable(m.RoutingTableConfig{RouterIP: r, RoutablePrefixes: []m.RoutablePrefix{{BasePrefix: m.BaseNetPrefix, RoutingBits: 12, EntryTTL: 3 * time.Hour, EntriesPerPrefix: 32}}})
		mk := func(l1, l2 m.SwitchLabel) m.RoutingTableEntry {
			sp := m.SwitchPath{Hops: []m.SwitchHop{
				{Router: r, Delay: 5, ForwardLabel: l1},
				{Router: p1, Delay: 5, ForwardLabel: l2, ReturnLabel: 4},
				{Router: d1, ReturnLabel: 9},
			}}
			sp.CalculateTotals()
			return m.RoutingTableEntry{DstIP: d1, NextHop: p1, Path: sp, Source: m.RouteSourceGossip, Expires: time.Now().Add(time.Hour)}
		}
		if _, err := rt.AddRoute(mk(11, 21)); err != nil {
			panic(err)
		}
		var first, second string
		var walkErr error
		in := &schedx.Instance{}
		in.Threads = [][]schedx.Op{
			{{Name: "forwarder: look up, walk the block", Do: func() {
				e, _ := rt.LookupNearest(d1)
				if e == nil {
					return
				}
				first = describeRoute(e)
				// other look-ups in between (every forwarded frame does them).
				_, _ = rt.LookupNearest(p1)
				blk := append([]byte(nil), e.Path.ForwardBlock...)
				for i := 0; i < len(e.Path.Hops); i++ {
					lbl, err := m.NextRotateSwitchBlock(blk, e.Path.Hops[i].ReturnLabel)
					if err != nil {
						walkErr = fmt.Errorf("hop %d: %w", i, err)
						break
					}
					if lbl != e.Path.Hops[i].ForwardLabel {
						walkErr = fmt.Errorf("hop %d: the block yields label %d, the held route's hop list says %d", i, lbl, e.Path.Hops[i].ForwardLabel)
						break
					}
					_, _ = rt.LookupNearest(p1)
				}
				second = describeRoute(e)
			}}},
			{{Name: "announce handler: same route again, other labels", Do: func() { _, _ = rt.AddRoute(mk(300, 20000)) }}},
		}
		in.Observe = func() string {
			e, _ := rt.LookupNearest(d1)
			if e == nil {
				return "no route"
			}
			return "held:" + first + "\nfinal:" + describeRoute(e)
		}
		in.Check = func(ex *schedx.Exec) {
			if first != second {
				ex.Bad("held-route-changed", "a route entry handed out by a look-up changed while its holder was using it: %s -> %s", first, second)
			}
			if walkErr != nil {
				ex.Bad("held-route-walk", "walking the forward block of a held route failed: %v", walkErr)
			}
			if e, _ := rt.LookupNearest(d1); e != nil {
				sp := m.SwitchPath{Hops: append([]m.SwitchHop(nil), e.Path.Hops...)}
				if err := sp.BuildBlocks(); err == nil && (!bytes.Equal(sp.ForwardBlock, e.Path.ForwardBlock) || !bytes.Equal(sp.ReturnBlock, e.Path.ReturnBlock)) {
					ex.Bad("blocks-differ-from-hops", "the stored route's blocks are not the blocks of its hop list: %s", describeRoute(e))
				}
			}
		}
		return in
	}
	return wrapConc(t, schedx.Conc{Name: "held route | same route announced again", Build: build}, bubble)
}

func c12Concs(t *testing.T, bubble bool, deep bool) []schedx.Conc {
	out := []schedx.Conc{
		relayConc(t, "two frames, different links out", [][3]int{{0, 1, 1}, {2, 3, 2}}, bubble),
		relayConc(t, "two frames, same link out", [][3]int{{0, 1, 1}, {2, 1, 3}}, bubble),
		relayConc(t, "two frames crossing", [][3]int{{0, 1, 0}, {1, 0, 4}}, bubble),
		heldRouteConc(t, bubble),
	}
	if deep {
		out = append(out, relayConc(t, "three frames", [][3]int{{0, 1, 1}, {2, 3, 2}, {1, 2, 5}}, bubble))
	}
	return out
}

func runC12Sched(t *testing.T, rep *kit.Report, env kit.Env) {
	bound := 2
	if env.Deep() {
		bound = 3
	}
	rep.Bounds["sched_preemption_bound"] = bound
	top := 0
	for _, c := range c12Concs(t, true, env.Deep()) {
		schedx.ExploreConc(rep, env, c, bound, &top)
	}
}

// TestC12Race: the same operations on free-running goroutines under the race
// detector (supporting evidence next to the exhaustive pass; see schedx.FreeRun).
func TestC12Race(t *testing.T) {
	env := kit.GetEnv()
	rep := kit.NewReport("C12", env)
	defer func() { _ = rep.Finish(env) }()
	iters := 150
	if env.Deep() {
		iters = 1500
	}
	var n int64
	n = schedx.FreeRunAll(rep, env, c12Concs(t, false, env.Deep()), true, iters)
	rep.Add(n, 0, 0, 0)
	rep.OutcomeN("free-running race-detector pass [iterations]", n)
}
