package c03

import (
	"fmt"
	"testing"

	"verif/kit"

	"github.com/mycoria/mycoria/frame"
	"github.com/mycoria/mycoria/state"
)

// (c) duplex: both routers send. Every sequence of length L over {A sends
// regular, A sends priority, B sends regular, B sends priority}, each frame
// delivered at once, with A's regular counter preset so that the wrap falls at
// every position of the run. The session of a router serves both directions,
// so what one direction's key switch resets must not disturb the other.
func runDuplexTier(t *testing.T, rep *kit.Report, env kit.Env) {
	L := 5
	if env.Thorough() {
		L = 7
	}
	rep.Bounds["duplex_length"] = L
	var evals, nontrivial, transitions int64
	caseNo := 0
	total := 1
	for i := 0; i < L; i++ {
		total *= 4
	}
	for _, role := range []bool{false, true} {
		for k := 0; k <= L; k++ { // number of A's regular frames still fitting before the wrap
			for code := 0; code < 2*total; code++ {
				// keys set up the way a link handshake does (both ends discard their temporary
				// keys) or the way the hello exchange does (only the initiator does).
				helloStyle := code >= total
				code := code % total
				caseNo++
				if !env.Mine(caseNo) {
					continue
				}
				a, err := kit.NewNode(kit.NodeOpts{Name: "A", ID: pool[0], StateOnly: true})
				if err != nil {
					panic(err)
				}
				b, err := kit.NewNode(kit.NodeOpts{Name: "B", ID: pool[1], StateOnly: true})
				if err != nil {
					panic(err)
				}
				switch {
				case role && helloStyle:
					err = kit.KeySessionsHello(b, a)
				case role:
					err = kit.KeySessions(b, a)
				case helloStyle:
					err = kit.KeySessionsHello(a, b)
				default:
					err = kit.KeySessions(a, b)
				}
				if err != nil {
					panic(err)
				}
				sa := a.State().GetSession(pool[1].IP)
				sb := b.State().GetSession(pool[0].IP)
				ha := &state.EncryptionSessionTestHelper{EncryptionSession: sa.Encryption()}
				hb := &state.EncryptionSessionTestHelper{EncryptionSession: sb.Encryption()}
				// A has sent 2^32-1-k regular and 300 priority frames, all received by B;
				// B has sent 40 regular and 20 priority frames, all received by A.
				regl := uint32(0xFFFFFFFF - uint32(k))
				ha.ReglSetOut(regl)
				ha.PrioSetOut(300)
				_ = hb.ReglSeq().Check(regl)
				_ = hb.PrioSeq().Check(300)
				hb.ReglSetOut(40)
				hb.PrioSetOut(20)
				_ = ha.ReglSeq().Check(40)
				_ = ha.PrioSeq().Check(20)

				type rec struct {
					from byte
					kind byte
					seq  uint32
					key  string
					wire []byte
				}
				var hist []rec
				seen := map[string]int{}
				var evs []string
				crossed := false
				c := code
				for i := 0; i < L; i++ {
					ev := c % 4
					c /= 4
					from, kind := byte('A'), byte('R')
					if ev >= 2 {
						from = 'B'
					}
					if ev%2 == 1 {
						kind = 'P'
					}
					evs = append(evs, string([]byte{from, kind}))
				}
				desc := fmt.Sprintf("A's regular counter preset to %#x (B: regular 40, priority 20), events %v, A was key-exchange client=%v, hello-style key setup (only the initiator discards temporary keys)=%v", regl, evs, !role, helloStyle)
				for i, e := range evs {
					src, dst, ss, ds, hs := a, b, sa, sb, ha
					sip, dip := pool[0].IP, pool[1].IP
					if e[0] == 'B' {
						src, dst, ss, ds, hs = b, a, sb, sa, hb
						sip, dip = dip, sip
					}
					mt := frame.NetworkTraffic
					if e[1] == 'P' {
						mt = frame.RouterCtrl
					}
					f, err := src.FrameBuilder().NewFrameV1(sip, dip, mt, nil, []byte(fmt.Sprintf("duplex-%d", i)), nil)
					if err != nil {
						panic(err)
					}
					key0 := kit.Hash(hs.OutKey())
					if err := f.Seal(ss); err != nil {
						rep.Violate("duplex/seal-failed", fmt.Sprintf("event %d (%s): Seal failed: %v; %s", i, e, err, desc), map[string]any{"k": k, "events": evs, "role": role})
						f.ReturnToPool()
						break
					}
					key := kit.Hash(hs.OutKey())
					if key != key0 {
						crossed = true
					}
					d, _ := f.FrameDataWithMargins(0, 0)
					r := rec{from: e[0], kind: e[1], seq: f.SequenceNum(), key: key, wire: append([]byte(nil), d...)}
					f.ReturnToPool()
					transitions++
					id := fmt.Sprintf("%c/%c/%s/%d", r.from, r.kind, r.key, r.seq)
					if j, dup := seen[id]; dup {
						rep.Violate("duplex/sequence-number-reused", fmt.Sprintf("event %d (%s) reuses sequence number %d of event %d under the same key and class; %s", i, e, r.seq, j, desc), map[string]any{"k": k, "events": evs, "role": role})
					}
					seen[id] = i
					// numbers handed out before the run started count too.
					pre := uint32(20)
					if r.from == 'A' {
						pre = 300
					}
					if r.kind == 'P' && r.seq <= pre && !(r.from == 'A' && crossed) {
						rep.Violate("duplex/sequence-number-reused", fmt.Sprintf("event %d (%s) got priority sequence number %d although %d numbers were already used under the same key; %s", i, e, r.seq, pre, desc), map[string]any{"k": k, "events": evs, "role": role})
					}
					if r.kind == 'R' && r.from == 'B' && r.seq <= 40 {
						rep.Violate("duplex/sequence-number-reused", fmt.Sprintf("event %d (%s) got regular sequence number %d although 40 numbers were already used under the same key; %s", i, e, r.seq, desc), map[string]any{"k": k, "events": evs, "role": role})
					}
					// the adversary goes first: the frame reflected to its own sender, and copies of
					// it with the sequence number rewritten to 1, 200 and 2^32-1 at the receiver -
					// none may unseal, and none may disturb what follows.
					if err := unsealAt(src, ss, r.wire); err == nil {
						rep.Violate("duplex/reflected-frame-accepted", fmt.Sprintf("event %d (%s, seq %d) unseals at its own sender; %s", i, e, r.seq, desc), map[string]any{"k": k, "events": evs, "role": role})
					}
					for _, fs := range []uint32{1, 200, 0xFFFFFFFF} {
						if fs == r.seq {
							continue
						}
						g, err := dst.FrameBuilder().ParseFrame(append([]byte(nil), r.wire...), nil, 0)
						if err != nil {
							panic(err)
						}
						g.(*frame.FrameV1).SetSequenceNum(fs)
						if err := g.Unseal(ds); err == nil {
							rep.Violate("duplex/forged-frame-accepted", fmt.Sprintf("a copy of event %d (%s) with its sequence number rewritten from %d to %d unseals; %s", i, e, r.seq, fs, desc), map[string]any{"k": k, "events": evs, "role": role})
						}
					}
					if err := unsealAt(dst, ds, r.wire); err != nil {
						rep.Violate("duplex/in-order-rejected", fmt.Sprintf("event %d (%s, seq %d) delivered at once does not unseal: %v; %s", i, e, r.seq, err, desc), map[string]any{"k": k, "events": evs, "role": role})
					}
					hist = append(hist, r)
					// every frame delivered so far is now a replay, whatever happened since.
					for j, old := range hist {
						od, os := b, sb
						if old.from == 'B' {
							od, os = a, sa
						}
						if err := unsealAt(od, os, old.wire); err == nil {
							rep.Violate("duplex/replay-accepted", fmt.Sprintf("frame of event %d (%c%c seq %d) accepted a second time after event %d; %s", j, old.from, old.kind, old.seq, i, desc), map[string]any{"k": k, "events": evs, "role": role})
						}
					}
				}
				evals++
				if crossed {
					nontrivial++
				}
				rep.Outcome(fmt.Sprintf("duplex/crossed-wrap=%v", crossed))
			}
		}
	}
	rep.Add(evals, nontrivial, 0, transitions)
}

// (e) failed key setups on a live session: a key exchange that fails (a
// key-exchange answer nobody asked for, a low-order public key) must leave keys
// AND counters as they are - otherwise numbers repeat under the old key.
func runFailedSetupTier(t *testing.T, rep *kit.Report, env kit.Env) {
	L := 4
	if env.Thorough() {
		L = 5
	}
	events := []string{"AR", "AP", "BR", "BP", "A:answer-nobody-asked-for", "A:low-order-key-as-server", "B:low-order-key-as-server", "A:wrong-kx-type"}
	total := 1
	for i := 0; i < L; i++ {
		total *= len(events)
	}
	var evals, nontrivial, transitions int64
	caseNo := 0
	for _, role := range []bool{false, true} {
		for code := 0; code < total; code++ {
			caseNo++
			if !env.Mine(caseNo) {
				continue
			}
			a, _ := kit.NewNode(kit.NodeOpts{Name: "A", ID: pool[0], StateOnly: true})
			b, _ := kit.NewNode(kit.NodeOpts{Name: "B", ID: pool[1], StateOnly: true})
			var err error
			if role {
				err = kit.KeySessions(b, a)
			} else {
				err = kit.KeySessions(a, b)
			}
			if err != nil {
				panic(err)
			}
			sa := a.State().GetSession(pool[1].IP)
			sb := b.State().GetSession(pool[0].IP)
			ha := &state.EncryptionSessionTestHelper{EncryptionSession: sa.Encryption()}
			hb := &state.EncryptionSessionTestHelper{EncryptionSession: sb.Encryption()}
			var evs []string
			c := code
			hasFail := false
			for i := 0; i < L; i++ {
				e := events[c%len(events)]
				c /= len(events)
				evs = append(evs, e)
				if len(e) > 2 {
					hasFail = true
				}
			}
			desc := fmt.Sprintf("events %v, A was key-exchange client=%v", evs, !role)
			seen := map[string]int{}
			good := make([]byte, 32)
			good[0] = 9
			for i, e := range evs {
				transitions++
				if len(e) > 2 {
					enc := sa.Encryption()
					if e[0] == 'B' {
						enc = sb.Encryption()
					}
					var ferr error
					switch e[2:] {
					case "answer-nobody-asked-for":
						// a late duplicate of a key-exchange answer: the exchange it belonged to
						// was completed and cleaned up (as every completed setup does).
						enc.InitCleanup()
						ferr = enc.InitKeyClientComplete(good, "ECDH-X25519/BLAKE3")
					case "low-order-key-as-server":
						_, _, ferr = enc.InitKeyServer(make([]byte, 32), "ECDH-X25519/BLAKE3")
					case "wrong-kx-type":
						_, _, ferr = enc.InitKeyServer(good, "nope")
					}
					if ferr == nil {
						rep.Outcome("failed-setup/unexpectedly-succeeded:" + e[2:])
					}
					continue
				}
				src, dst, ss, ds, hs := a, b, sa, sb, ha
				sip, dip := pool[0].IP, pool[1].IP
				if e[0] == 'B' {
					src, dst, ss, ds, hs = b, a, sb, sa, hb
					sip, dip = dip, sip
				}
				mt := frame.NetworkTraffic
				if e[1] == 'P' {
					mt = frame.RouterCtrl
				}
				f, err := src.FrameBuilder().NewFrameV1(sip, dip, mt, nil, []byte(fmt.Sprintf("fs-%d", i)), nil)
				if err != nil {
					panic(err)
				}
				if err := f.Seal(ss); err != nil {
					rep.Violate("failed-setup/seal-failed", fmt.Sprintf("event %d (%s): Seal failed: %v; %s", i, e, err, desc), map[string]any{"events": evs, "role": role})
					f.ReturnToPool()
					break
				}
				id := fmt.Sprintf("%c/%c/%s/%d", e[0], e[1], kit.Hash(hs.OutKey()), f.SequenceNum())
				if j, dup := seen[id]; dup {
					rep.Violate("failed-setup/sequence-number-reused", fmt.Sprintf("event %d (%s) reuses sequence number %d of event %d under the same key and class; %s", i, e, f.SequenceNum(), j, desc), map[string]any{"events": evs, "role": role})
				}
				seen[id] = i
				d, _ := f.FrameDataWithMargins(0, 0)
				wire := append([]byte(nil), d...)
				f.ReturnToPool()
				if err := unsealAt(dst, ds, wire); err != nil {
					rep.Violate("failed-setup/in-order-rejected", fmt.Sprintf("event %d (%s) delivered at once does not unseal: %v; %s", i, e, err, desc), map[string]any{"events": evs, "role": role})
				}
			}
			evals++
			if hasFail {
				nontrivial++
			}
		}
	}
	rep.Add(evals, nontrivial, 0, transitions)
	rep.Outcome("failed-setup/done")
}
