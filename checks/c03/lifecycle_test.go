package c03

import (
	"fmt"
	"sort"
	"strings"
	"testing"
	"testing/synctest"
	"time"

	"verif/kit"

	"github.com/mycoria/mycoria/frame"
	"github.com/mycoria/mycoria/state"
)

// Signed frames across the life of the receiving session: deliveries of three
// signed frames (timestamps t0 < t1 < t2) interleaved with the events that
// touch the session that holds the replay state: the "no encryption keys"
// reaction (encryption session cleared), a fresh end-to-end key setup, and the
// periodic session cleaner after 61 s and after 61 min of virtual time.
func signedLifecycle(t *testing.T, rep *kit.Report, env kit.Env) {
	depth := 4
	if env.Thorough() {
		depth = 5
	}
	rep.Bounds["signed_lifecycle_depth"] = depth
	alphabet := []string{"d0", "d1", "d2", "reset-encryption", "key-setup", "idle-61s+cleaner", "idle-61min+cleaner", "marked-offline"}
	k := len(alphabet)
	word := make([]int, depth)
	var evals, nontrivial, transitions int64
	states := map[string]bool{}
	n := 0
	for {
		n++
		if env.Mine(n) {
			var names []string
			for _, w := range word {
				names = append(names, alphabet[w])
			}
			synctest.Test(t, func(t *testing.T) {
				a, _ := kit.NewNode(kit.NodeOpts{Name: "A", ID: pool[0], StateOnly: true})
				b, _ := kit.NewNode(kit.NodeOpts{Name: "B", ID: pool[1], StateOnly: true})
				if err := kit.Introduce(a, b); err != nil {
					panic(err)
				}
				sa := a.State().GetSession(b.Identity().IP)
				var frames [3][]byte
				for i := range frames {
					// the three signed message types.
					mt := []frame.MessageType{frame.RouterPing, frame.RouterHopPing, frame.RouterHopPingDeprecated}[i]
					f, err := a.FrameBuilder().NewFrameV1(a.Identity().IP, b.Identity().IP, mt, nil, []byte(fmt.Sprintf("signed-%d", i)), nil)
					if err != nil {
						panic(err)
					}
					if err := f.Seal(sa); err != nil {
						panic(err)
					}
					d, _ := f.FrameDataWithMargins(0, 0)
					frames[i] = append([]byte(nil), d...)
					f.ReturnToPool()
					time.Sleep(5 * time.Millisecond)
				}
				latest := -1
				var since []string // session events since the acceptance that set latest
				expired := false   // the cleaner dropped the session since then
				nt := false
				for step, w := range word {
					ev := alphabet[w]
					transitions++
					switch ev {
					case "reset-encryption":
						_ = b.State().SetEncryptionSession(a.Identity().IP, nil)
						since = append(since, ev)
					case "key-setup":
						if err := kit.KeySessions(a, b); err != nil {
							panic(err)
						}
						since = append(since, ev)
					case "marked-offline":
						// what the disconnect handler does when the sender announces it is going down.
						_ = b.State().MarkRouterOffline(a.Identity().IP)
						since = append(since, ev)
					case "idle-61s+cleaner", "idle-61min+cleaner":
						before := b.State().GetSession(a.Identity().IP)
						if ev == "idle-61s+cleaner" {
							time.Sleep(61 * time.Second)
						} else {
							time.Sleep(61 * time.Minute)
						}
						b.State().VerifCleanSessions()
						since = append(since, ev)
						if b.State().GetSession(a.Identity().IP) != before {
							expired = true
						}
					default:
						i := int(ev[1] - '0')
						sb := b.State().GetSession(a.Identity().IP)
						fr, err := b.FrameBuilder().ParseFrame(append([]byte(nil), frames[i]...), nil, 0)
						if err != nil {
							panic(err)
						}
						got := sb != nil && fr.Unseal(sb) == nil
						want := i > latest
						if !want {
							nt = true
						}
						if got != want {
							kind := "stale-accepted"
							if want {
								kind = "newer-rejected"
							}
							cause := "no-session-event"
							if expired {
								cause = "after-session-expiry"
							} else if len(since) > 0 {
								u := map[string]bool{}
								for _, s := range since {
									u[s] = true
								}
								var l []string
								for s := range u {
									l = append(l, s)
								}
								sort.Strings(l)
								cause = "after:" + strings.Join(l, "+")
							}
							rep.Violate("signed-session/"+kind+"/"+cause, fmt.Sprintf("signed frame with timestamp index %d (latest accepted %d) accepted=%v; history=%v", i, latest, got, names[:step+1]),
								map[string]any{"layer": "signed-session", "history": names[:step+1]})
						}
						if got && i >= latest {
							if i > latest {
								since, expired = nil, false
							}
							latest = i
						}
					}
					states[fmt.Sprintf("%d/%v/%v", latest, expired, len(since) > 0)] = true
				}
				evals++
				if nt {
					nontrivial++
				}
			})
		}
		p := depth - 1
		for p >= 0 {
			word[p]++
			if word[p] < k {
				break
			}
			word[p] = 0
			p--
		}
		if p < 0 {
			break
		}
	}
	rep.Add(evals, nontrivial, int64(len(states)), transitions)
	rep.Outcome(fmt.Sprintf("signed-session: %d histories", evals))
}

// Encrypted end-to-end frames across events on the receiving session that must
// not reopen the replay window while the keys stay the same: the start of a new
// key exchange on the live session (as the link setup of a peer does), the
// session cleaner, and clearing the encryption session (after which nothing may
// be accepted any more).
func encryptedLifecycle(t *testing.T, rep *kit.Report, env kit.Env) {
	depth := 4
	if env.Thorough() {
		depth = 5
	}
	alphabet := []string{"r0", "r1", "p0", "p1", "kx-client-start", "idle-61s+cleaner", "reset-encryption",
		// key exchanges on the live session that FAIL half way (the keys stay, so the windows must stay):
		// a peer offering a low-order X25519 point (accepted as a key, refused by the ECDH step),
		// an unknown exchange type, a short key; as server and as client completing its own request.
		"kx-server-fails(low-order-point)", "kx-server-fails(unknown-type)", "kx-server-fails(short-key)", "kx-client-complete-fails(low-order-point)"}
	k := len(alphabet)
	word := make([]int, depth)
	var evals, nontrivial, transitions int64
	n := 0
	for {
		n++
		if env.Mine(n) {
			var names []string
			for _, w := range word {
				names = append(names, alphabet[w])
			}
			synctest.Test(t, func(t *testing.T) {
				a, _ := kit.NewNode(kit.NodeOpts{Name: "A", ID: pool[0], StateOnly: true})
				b, _ := kit.NewNode(kit.NodeOpts{Name: "B", ID: pool[1], StateOnly: true})
				if err := kit.KeySessions(a, b); err != nil {
					panic(err)
				}
				sa := a.State().GetSession(b.Identity().IP)
				frames := map[string][]byte{}
				for _, name := range []string{"r0", "r1", "p0", "p1"} {
					mt := frame.NetworkTraffic
					if name[0] == 'p' {
						mt = frame.RouterCtrl
					}
					f, err := a.FrameBuilder().NewFrameV1(a.Identity().IP, b.Identity().IP, mt, nil, []byte("enc-"+name), nil)
					if err != nil {
						panic(err)
					}
					if err := f.Seal(sa); err != nil {
						panic(err)
					}
					d, _ := f.FrameDataWithMargins(0, 0)
					frames[name] = append([]byte(nil), d...)
					f.ReturnToPool()
				}
				accepted := map[string]bool{}
				keysGone := false
				var since []string
				nt := false
				for step, w := range word {
					ev := alphabet[w]
					transitions++
					switch ev {
					case "kx-client-start":
						if sb := b.State().GetSession(a.Identity().IP); sb != nil && sb.Encryption() != nil {
							_, _, _ = sb.Encryption().InitKeyClientStart()
						}
						since = append(since, ev)
					case "kx-server-fails(low-order-point)", "kx-server-fails(unknown-type)", "kx-server-fails(short-key)", "kx-client-complete-fails(low-order-point)":
						if sb := b.State().GetSession(a.Identity().IP); sb != nil && sb.Encryption() != nil {
							// a genuine offer gives the type name; the key is replaced.
							_, kxType, _ := state.NewEncryptionSession().InitKeyClientStart()
							var err error
							switch ev {
							case "kx-server-fails(low-order-point)":
								_, _, err = sb.Encryption().InitKeyServer(make([]byte, 32), kxType)
							case "kx-server-fails(unknown-type)":
								_, _, err = sb.Encryption().InitKeyServer(make([]byte, 32), kxType+"-x")
							case "kx-server-fails(short-key)":
								_, _, err = sb.Encryption().InitKeyServer(make([]byte, 31), kxType)
							default:
								_, _, _ = sb.Encryption().InitKeyClientStart()
								err = sb.Encryption().InitKeyClientComplete(make([]byte, 32), kxType)
							}
							if err == nil {
								panic("harness: key exchange with a degenerate offer succeeded: " + ev)
							}
						}
						since = append(since, ev)
					case "idle-61s+cleaner":
						time.Sleep(61 * time.Second)
						b.State().VerifCleanSessions()
						since = append(since, ev)
					case "reset-encryption":
						_ = b.State().SetEncryptionSession(a.Identity().IP, nil)
						keysGone = true
						since = append(since, ev)
					default:
						sb := b.State().GetSession(a.Identity().IP)
						fr, err := b.FrameBuilder().ParseFrame(append([]byte(nil), frames[ev]...), nil, 0)
						if err != nil {
							panic(err)
						}
						got := sb != nil && fr.Unseal(sb) == nil
						if accepted[ev] {
							nt = true
						}
						switch {
						case got && accepted[ev]:
							u := map[string]bool{}
							for _, s := range since {
								u[s] = true
							}
							var l []string
							for s := range u {
								l = append(l, s)
							}
							sort.Strings(l)
							rep.Violate("encrypted-session/accepted-twice/after:"+strings.Join(l, "+"), fmt.Sprintf("encrypted frame %s accepted a second time; history=%v", ev, names[:step+1]), map[string]any{"layer": "encrypted-session", "history": names[:step+1]})
						case got && keysGone:
							rep.Violate("encrypted-session/accepted-without-keys", fmt.Sprintf("encrypted frame %s accepted after the encryption session was cleared; history=%v", ev, names[:step+1]), names[:step+1])
						case !got && !accepted[ev] && !keysGone:
							rep.Violate("encrypted-session/fresh-frame-rejected", fmt.Sprintf("encrypted frame %s rejected on first delivery although the keys are in place; history=%v", ev, names[:step+1]), names[:step+1])
						}
						if got {
							accepted[ev] = true
						}
					}
				}
				evals++
				if nt {
					nontrivial++
				}
			})
		}
		p := depth - 1
		for p >= 0 {
			word[p]++
			if word[p] < k {
				break
			}
			word[p] = 0
			p--
		}
		if p < 0 {
			break
		}
	}
	rep.Add(evals, nontrivial, 0, transitions)
	rep.Outcome(fmt.Sprintf("encrypted-session: %d histories", evals))
}
