// C03: replay protection — every authenticated frame is accepted at most once.
//
// All delivery histories (words) of bounded length over small alphabets of
// sequence numbers are run against (1) the bare SequenceHandler, (2) real
// end-to-end frames sealed by A and unsealed at B, (3) real link frames, and
// for the signed class against TimeSequenceHandler and signed frames. A
// boring reference model (set of accepted numbers + maximum) decides each step.
package c03

import (
	"fmt"
	"testing"
	"testing/synctest"
	"time"

	"verif/kit"

	"github.com/mycoria/mycoria/frame"
	"github.com/mycoria/mycoria/peering"
	"github.com/mycoria/mycoria/state"
)

// refModel is the reference receiver.
type refModel struct {
	accepted map[uint32]bool
	max      uint32
	any      bool
}

// step returns (mustAccept, mustReject): if neither is set the statement leaves
// the outcome open (older than 64 behind: the statement does not require
// acceptance; at-most-once still applies).
func (r *refModel) step(n uint32) (mustAccept, mustReject bool) {
	if r.accepted[n] {
		return false, true
	}
	if !r.any || n > r.max || r.max-n <= 64 {
		return true, false
	}
	return false, false
}

func (r *refModel) commit(n uint32, acceptedNow bool) {
	if !acceptedNow {
		return
	}
	r.accepted[n] = true
	if !r.any || n > r.max {
		r.max = n
	}
	r.any = true
}

func (r *refModel) key() string {
	s := fmt.Sprintf("%d|", r.max)
	for n := range r.accepted {
		_ = n
	}
	// order independent digest
	var x uint64
	for n := range r.accepted {
		x ^= uint64(n)*0x9E3779B97F4A7C15 + 1
	}
	return fmt.Sprintf("%s%d/%d", s, len(r.accepted), x)
}

type receiver interface {
	// deliver delivers the frame with the given sequence number; true = accepted.
	deliver(n uint32) bool
}

// layer builds a fresh receiver able to receive exactly the numbers in alphabet.
type layer struct {
	name string
	mk   func(alphabet []uint32) receiver
}

// ---- layer 1: bare handler

type bareRecv struct{ sh *state.SequenceHandler }

func (b *bareRecv) deliver(n uint32) bool { return b.sh.Check(n) == nil }

// ---- layer 2: end-to-end frames

type frameRecv struct {
	b      *kit.Node
	sess   *state.Session
	frames map[uint32][]byte
}

func (f *frameRecv) deliver(n uint32) bool {
	raw := append([]byte(nil), f.frames[n]...)
	fr, err := f.b.FrameBuilder().ParseFrame(raw, nil, 0)
	if err != nil {
		panic("harness: parse of own frame failed: " + err.Error())
	}
	return fr.Unseal(f.sess) == nil
}

var pool = kit.RoutablePool("c03", 2)

func mkFrameRecv(msgType frame.MessageType) func(alphabet []uint32) receiver {
	return func(alphabet []uint32) receiver {
		a, err := kit.NewNode(kit.NodeOpts{Name: "A", ID: pool[0], StateOnly: true})
		if err != nil {
			panic(err)
		}
		b, err := kit.NewNode(kit.NodeOpts{Name: "B", ID: pool[1], StateOnly: true})
		if err != nil {
			panic(err)
		}
		if err := kit.KeySessions(a, b); err != nil {
			panic(err)
		}
		sa := a.State().GetSession(b.Identity().IP)
		sb := b.State().GetSession(a.Identity().IP)
		h := &state.EncryptionSessionTestHelper{EncryptionSession: sa.Encryption()}
		fr := &frameRecv{b: b, sess: sb, frames: map[uint32][]byte{}}
		for _, n := range alphabet {
			if msgType.IsPriority() {
				h.PrioSetOut(n - 1)
			} else {
				h.ReglSetOut(n - 1)
			}
			f, err := a.FrameBuilder().NewFrameV1(a.Identity().IP, b.Identity().IP, msgType, nil, []byte(fmt.Sprintf("payload-%d", n)), nil)
			if err != nil {
				panic(err)
			}
			if err := f.Seal(sa); err != nil {
				panic(err)
			}
			if f.SequenceNum() != n {
				panic(fmt.Sprintf("harness: wanted seq %d got %d", n, f.SequenceNum()))
			}
			data, _ := f.FrameDataWithMargins(0, 0)
			fr.frames[n] = append([]byte(nil), data...)
		}
		return fr
	}
}

// ---- layer 3: link frames

type linkRecv struct {
	in     *state.EncryptionSession
	frames map[uint32][]byte
}

func (l *linkRecv) deliver(n uint32) bool {
	raw := append([]byte(nil), l.frames[n]...)
	return peering.LinkFrame(raw).Unseal(l.in) == nil
}

func mkLinkRecv(alphabet []uint32) receiver {
	out, in := state.NewEncryptionSession(), state.NewEncryptionSession()
	if err := kit.KeyPair(out, in); err != nil {
		panic(err)
	}
	h := &state.EncryptionSessionTestHelper{EncryptionSession: out}
	lr := &linkRecv{in: in, frames: map[uint32][]byte{}}
	for _, n := range alphabet {
		h.ReglSetOut(n - 1)
		buf := make([]byte, peering.FrameOffset+40+peering.FrameOverhead)
		copy(buf[peering.FrameOffset:], fmt.Sprintf("link-payload-%d", n))
		if err := peering.LinkFrame(buf).Seal(out); err != nil {
			panic(err)
		}
		if peering.LinkFrame(buf).SequenceNum() != n {
			panic("harness: link seq mismatch")
		}
		lr.frames[n] = buf
	}
	return lr
}

func explore(rep *kit.Report, env kit.Env, lay layer, alphabet []uint32, depth int, shardBase int) {
	k := len(alphabet)
	word := make([]int, depth)
	states := map[string]bool{}
	var evals, nontrivial, transitions int64
	for {
		top := word[0]*k + word[1]
		if env.Mine(top + shardBase) {
			recv := lay.mk(alphabet)
			ref := &refModel{accepted: map[uint32]bool{}}
			dupOrOld := false
			for step, idx := range word {
				n := alphabet[idx]
				mustAcc, mustRej := ref.step(n)
				got := recv.deliver(n)
				transitions++
				if mustRej || !mustAcc {
					dupOrOld = true
				}
				if got && mustRej {
					rep.Violate(fmt.Sprintf("%s/accepted-twice", lay.name),
						fmt.Sprintf("layer %s: sequence number %d accepted a second time; history=%v step=%d", lay.name, n, wordNums(alphabet, word[:step+1]), step),
						map[string]any{"layer": lay.name, "alphabet": alphabet, "history": wordNums(alphabet, word[:step+1])})
				}
				if !got && mustAcc {
					rep.Violate(fmt.Sprintf("%s/fresh-rejected", lay.name),
						fmt.Sprintf("layer %s: fresh in-window sequence number %d rejected; history=%v step=%d", lay.name, n, wordNums(alphabet, word[:step+1]), step),
						map[string]any{"layer": lay.name, "alphabet": alphabet, "history": wordNums(alphabet, word[:step+1])})
				}
				ref.commit(n, got)
				states[ref.key()] = true
			}
			evals++
			if dupOrOld {
				nontrivial++
			}
			if evals%9973 == 1 {
				rep.Sample(map[string]any{"layer": lay.name, "history": wordNums(alphabet, word)})
			}
		}
		p := depth - 1
		for p >= 0 {
			word[p]++
			if word[p] < k {
				break
			}
			word[p] = 0
			p--
		}
		if p < 0 {
			break
		}
	}
	rep.Add(evals, nontrivial, int64(len(states)), transitions)
	rep.Outcome(fmt.Sprintf("%s: %d histories", lay.name, evals))
}

func wordNums(alphabet []uint32, word []int) []uint32 {
	out := make([]uint32, len(word))
	for i, w := range word {
		out[i] = alphabet[w]
	}
	return out
}

func TestC03(t *testing.T) {
	env := kit.GetEnv()
	rep := kit.NewReport("C03", env)
	rep.Rule = "all delivery histories (words incl. repeats = duplication, omissions = loss, any order) of length D over 6-number alphabets of sender sequence numbers, per layer (bare handler, end-to-end encrypted regular, end-to-end encrypted priority, link frame; signed: timestamps 1 ms to 3 h apart); signed frames across the life of the receiving session: all words of length L over {deliver t0/t1/t2, encryption session cleared (the reaction to a no-keys error), fresh end-to-end key setup, sender marked offline (the reaction to its going-down notice), 61 s idle + session cleaner, 61 min idle + session cleaner}; encrypted frames of both classes across {start of a new key exchange on the live session, session cleaner, encryption session cleared}; every prefix is checked step by step against the reference set model; non-trivial = history contains at least one duplicate or out-of-window delivery; states = distinct reference-model states (accepted set, max) reached"
	rep.Assumptions = []string{
		"sequence numbers outside the enumerated alphabets behave like those inside (alphabets: contiguous low, straddling the 64 window edge, high near 2^32 but below the key-rollover zone which C15 covers)",
		"AEAD/Ed25519 primitives are correct",
	}
	depth := 6
	if env.Thorough() {
		depth = 7
	}
	rep.Bounds["history_length"] = depth
	alphabets := [][]uint32{
		{1, 2, 3, 4, 5, 6},
		{1, 2, 64, 65, 66, 130},
		{3, 67, 68, 131, 132, 196},
		{0xFFFFFE00, 0xFFFFFE01, 0xFFFFFE40, 0xFFFFFE41, 0xFFFFFE42, 0xFFFFFEFF},
	}
	rep.Bounds["alphabets"] = alphabets
	layers := []layer{
		{"bare-handler", func(a []uint32) receiver { return &bareRecv{sh: new(state.SequenceHandler)} }},
		{"bare-handler-new", func(a []uint32) receiver { return &bareRecv{sh: state.NewSequenceHandler()} }},
		{"e2e-regular", mkFrameRecv(frame.NetworkTraffic)},
		{"e2e-priority", mkFrameRecv(frame.RouterCtrl)},
		{"link-frame", mkLinkRecv},
	}
	base := 0
	for _, lay := range layers {
		for _, al := range alphabets {
			explore(rep, env, lay, al, depth, base)
			base += 5
		}
	}
	signed(t, rep, env, depth)
	signedLifecycle(t, rep, env)
	encryptedLifecycle(t, rep, env)
	runRecvSched(t, rep, env)
	// near-wrap tiers (shared with the C15 check, see wrap_util_test.go).
	runEpochTier(t, rep, env)
	runDuplexTier(t, rep, env)
	if err := rep.Finish(env); err != nil {
		t.Fatal(err)
	}
}

// signed explores the signed class: all words over 5 timestamps.
func signed(t *testing.T, rep *kit.Report, env kit.Env, depth int) {
	if depth > 6 {
		depth = 6
	}
	const k = 5
	type mkfn func() func(i int) bool
	// bare TimeSequenceHandler.
	base := time.Date(2024, 1, 1, 0, 0, 0, 0, time.UTC)
	// timestamps 1 ms, 10 min, 61 min and 3 h apart: replay rules must not depend on the gap size.
	offsets := []time.Duration{0, time.Millisecond, 10 * time.Minute, 71 * time.Minute, 4 * time.Hour}
	mkBare := func() func(i int) bool {
		h := state.NewTimeSequenceHandler(0)
		return func(i int) bool { return h.Check(base.Add(offsets[i])) == nil }
	}
	// real signed frames (virtual clock so the sealing timestamps are reproducible).
	var frames [k][]byte
	var bnode *kit.Node
	synctest.Test(t, func(t *testing.T) {
		a, _ := kit.NewNode(kit.NodeOpts{Name: "A", ID: pool[0], StateOnly: true})
		b, _ := kit.NewNode(kit.NodeOpts{Name: "B", ID: pool[1], StateOnly: true})
		if err := kit.Introduce(a, b); err != nil {
			panic(err)
		}
		sa := a.State().GetSession(b.Identity().IP)
		var last time.Time
		for i := 0; i < k; i++ {
			f, err := a.FrameBuilder().NewFrameV1(a.Identity().IP, b.Identity().IP, frame.RouterPing, nil, []byte(fmt.Sprintf("signed-%d", i)), nil)
			if err != nil {
				panic(err)
			}
			if err := f.Seal(sa); err != nil {
				panic(err)
			}
			if !f.SequenceTime().After(last) {
				panic("harness: sealing timestamps not strictly increasing")
			}
			last = f.SequenceTime()
			d, _ := f.FrameDataWithMargins(0, 0)
			frames[i] = append([]byte(nil), d...)
			// virtual time: gaps of 1 ms, 10 min, 61 min and 3 h between the sealed frames.
			time.Sleep(offsets[(i+1)%k] - offsets[i] + time.Duration(i)*time.Microsecond)
		}
		bnode = b
	})
	mkFrames := func() func(i int) bool {
		b, _ := kit.NewNode(kit.NodeOpts{Name: "B", ID: pool[1], StateOnly: true})
		if err := b.State().AddRouter(&pool[0].PublicAddress); err != nil {
			panic(err)
		}
		sb := b.State().GetSession(pool[0].IP)
		return func(i int) bool {
			raw := append([]byte(nil), frames[i]...)
			fr, err := b.FrameBuilder().ParseFrame(raw, nil, 0)
			if err != nil {
				panic(err)
			}
			return fr.Unseal(sb) == nil
		}
	}
	_ = bnode
	for li, l := range []struct {
		name string
		mk   mkfn
	}{{"signed-bare", mkBare}, {"signed-frames", mkFrames}} {
		word := make([]int, depth)
		var evals, nontrivial, transitions int64
		states := map[string]bool{}
		for {
			if env.Mine(word[0]*k + word[1] + li) {
				deliver := l.mk()
				latest := -1
				nt := false
				for step, i := range word {
					want := i > latest
					got := deliver(i)
					transitions++
					if !want {
						nt = true
					}
					if got != want {
						kind := "stale-accepted"
						if want {
							kind = "newer-rejected"
						}
						rep.Violate(l.name+"/"+kind, fmt.Sprintf("layer %s: timestamp index %d after latest %d: accepted=%v; history=%v", l.name, i, latest, got, word[:step+1]),
							map[string]any{"layer": l.name, "history": append([]int(nil), word[:step+1]...)})
					}
					if got && i > latest {
						latest = i
					}
					states[fmt.Sprint(latest)] = true
				}
				evals++
				if nt {
					nontrivial++
				}
				if evals%2000 == 1 {
					rep.Sample(map[string]any{"layer": l.name, "timestamp_index_history": append([]int(nil), word...)})
				}
			}
			p := depth - 1
			for p >= 0 {
				word[p]++
				if word[p] < k {
					break
				}
				word[p] = 0
				p--
			}
			if p < 0 {
				break
			}
		}
		rep.Add(evals, nontrivial, int64(len(states)), transitions)
		rep.Outcome(fmt.Sprintf("%s: %d histories", l.name, evals))
	}
}
