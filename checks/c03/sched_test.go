// C03, interleaving tier: the router runs one frame handler per CPU and each
// link has its own reader, so copies of one frame (duplicates from the wire, the
// same announcement over two links) are unsealed CONCURRENTLY on one session.
// The state and frame packages are compiled with their sync / sync/atomic
// imports rewritten to the controlled-scheduler shims; harness threads unseal
// copies of really sealed frames on the shared receiving session; ALL schedules
// up to a preemption bound are explored and "accepted at most once / accepted if
// fresh and inside the window" is judged on every one.
package c03

import (
	"fmt"
	"sort"
	"strings"
	"sync"
	"testing"

	"verif/kit"
	"verif/schedx"

	"github.com/mycoria/mycoria/frame"
	"github.com/mycoria/mycoria/peering"
	"github.com/mycoria/mycoria/state"
	"github.com/mycoria/mycoria/zz_verif/sched"
)

type recvScenario struct {
	name  string
	layer string   // regular, priority, link, signed, bare
	nums  []uint32 // sequence numbers sealed by the sender (signed: indexes of timestamps)
	pre   []uint32 // delivered sequentially before the threads start
	// threads: per thread the list of numbers it delivers (copies).
	threads [][]uint32
}

// build returns a deliver function (true = accepted, payload right) on fresh objects.
func (sc recvScenario) build() func(n uint32) bool {
	switch sc.layer {
	case "bare":
		sh := state.NewSequenceHandler()
		return func(n uint32) bool { return sh.Check(n) == nil }
	case "link":
		r := mkLinkRecv(sc.nums).(*linkRecv)
		return func(n uint32) bool {
			raw := append([]byte(nil), r.frames[n]...)
			if err := peering.LinkFrame(raw).Unseal(r.in); err != nil {
				return false
			}
			return strings.HasPrefix(string(raw[peering.FrameOffset:]), fmt.Sprintf("link-payload-%d", n))
		}
	case "signed":
		a, _ := kit.NewNode(kit.NodeOpts{Name: "A", ID: pool[0], StateOnly: true})
		b, _ := kit.NewNode(kit.NodeOpts{Name: "B", ID: pool[1], StateOnly: true})
		if err := kit.Introduce(a, b); err != nil {
			panic(err)
		}
		sa := a.State().GetSession(b.Identity().IP)
		sb := b.State().GetSession(a.Identity().IP)
		frames := map[uint32][]byte{}
		// sealed in ascending order: the sender's time sequence is strictly increasing.
		for _, n := range sc.nums {
			f, err := a.FrameBuilder().NewFrameV1(a.Identity().IP, b.Identity().IP, frame.RouterPing, nil, []byte(fmt.Sprintf("signed-%d", n)), nil)
			if err != nil {
				panic(err)
			}
			if err := f.Seal(sa); err != nil {
				panic(err)
			}
			d, _ := f.FrameDataWithMargins(0, 0)
			frames[n] = append([]byte(nil), d...)
			f.ReturnToPool()
		}
		return func(n uint32) bool {
			raw := append([]byte(nil), frames[n]...)
			fr, err := b.FrameBuilder().ParseFrame(raw, nil, 0)
			if err != nil {
				panic("harness: parse of own frame failed: " + err.Error())
			}
			ok := fr.Unseal(sb) == nil && string(fr.MessageData()) == fmt.Sprintf("signed-%d", n)
			fr.ReturnToPool()
			return ok
		}
	default:
		mt := frame.NetworkTraffic
		if sc.layer == "priority" {
			mt = frame.RouterCtrl
		}
		r := mkFrameRecv(mt)(sc.nums).(*frameRecv)
		return func(n uint32) bool {
			raw := append([]byte(nil), r.frames[n]...)
			fr, err := r.b.FrameBuilder().ParseFrame(raw, nil, 0)
			if err != nil {
				panic("harness: parse of own frame failed: " + err.Error())
			}
			ok := fr.Unseal(r.sess) == nil && string(fr.MessageData()) == fmt.Sprintf("payload-%d", n)
			fr.ReturnToPool()
			return ok
		}
	}
}

// prepare builds fresh objects, delivers the sequential prefix and returns the
// thread bodies plus the oracle to apply when they are done.
func (sc recvScenario) prepare() (bodies []func(), eval func(ex *schedx.Exec)) {
	deliver := sc.build()
	accepted := map[uint32]int{}
	delivered := map[uint32]int{}
	var preMax uint32
	for _, n := range sc.pre {
		if deliver(n) {
			accepted[n]++
		}
		delivered[n]++
		if n > preMax {
			preMax = n
		}
	}
	type obs struct {
		th int
		n  uint32
		ok bool
	}
	var log []obs
	var logMu sync.Mutex // harness bookkeeping only (real mutex, never a scheduling point)
	for ti, ns := range sc.threads {
		ti, ns := ti, ns
		bodies = append(bodies, func() {
			for _, n := range ns {
				ok := deliver(n)
				logMu.Lock()
				log = append(log, obs{ti, n, ok})
				logMu.Unlock()
			}
		})
	}
	eval = func(ex *schedx.Exec) {
		max := preMax
		for _, o := range log {
			delivered[o.n]++
			if o.ok {
				accepted[o.n]++
			}
			if o.n > max {
				max = o.n
			}
		}
		var sig []string
		for _, o := range log {
			sig = append(sig, fmt.Sprintf("t%d:%d=%v", o.th, o.n, o.ok))
		}
		sort.Strings(sig)
		ex.Sig = strings.Join(sig, " ")
		for n, c := range accepted {
			if c > 1 {
				ex.Bad("accepted-twice", "frame %d of the %s class was accepted %d times when its copies were unsealed concurrently", n, sc.layer, c)
			}
		}
		if ex.Res.Deadlock || len(ex.Res.Panics) > 0 {
			return
		}
		for n := range delivered {
			if accepted[n] > 0 {
				continue
			}
			switch sc.layer {
			case "signed":
				// the newest timestamp is strictly greater than everything accepted before its first delivery.
				if n == max {
					ex.Bad("fresh-rejected", "the signed frame with the newest timestamp (%d) was never accepted although it was delivered %d times", n, delivered[n])
				}
			default:
				// every enumerated number is fresh once and at most 64 behind the newest number in play.
				if max-n <= 64 {
					ex.Bad("fresh-rejected", "frame %d (%s class) is not a duplicate on its first delivery and at most 64 behind the newest frame, but none of its %d deliveries was accepted", n, sc.layer, delivered[n])
				}
			}
		}
	}
	return bodies, eval
}

func (sc recvScenario) run(choices []int) *schedx.Exec {
	bodies, eval := sc.prepare()
	ex := &schedx.Exec{}
	ex.Res = sched.Run(bodies, choices, 6000)
	eval(ex)
	return ex
}

func recvScenarios(thorough bool) []recvScenario {
	var out []recvScenario
	for _, layer := range []string{"regular", "priority", "link", "signed", "bare"} {
		nums := []uint32{1, 2, 3, 4, 70}
		add := func(name string, pre []uint32, th ...[]uint32) {
			out = append(out, recvScenario{name: layer + "/" + name, layer: layer, nums: nums, pre: pre, threads: th})
		}
		add("dup|dup", nil, []uint32{1}, []uint32{1})
		add("dup|dup/after-newer", []uint32{1, 3}, []uint32{2}, []uint32{2})
		add("12|21", nil, []uint32{1, 2}, []uint32{2, 1})
		add("3|1|3", []uint32{2}, []uint32{3}, []uint32{1}, []uint32{3})
		if layer != "signed" {
			// the frame 64 behind (edge of the window) and a jump past it.
			add("edge: 4|4 after 1,2", []uint32{1, 2}, []uint32{4}, []uint32{4})
			add("jump: 70|3|70", []uint32{1, 2}, []uint32{70}, []uint32{3}, []uint32{70})
		}
		if thorough {
			add("123|321", nil, []uint32{1, 2, 3}, []uint32{3, 2, 1})
			add("1|1|1", nil, []uint32{1}, []uint32{1}, []uint32{1})
			add("12|12|21", nil, []uint32{1, 2}, []uint32{1, 2}, []uint32{2, 1})
		}
	}
	return out
}

func runRecvSched(t *testing.T, rep *kit.Report, env kit.Env) {
	bound := 2
	if env.Thorough() {
		bound = 3
	}
	rep.Bounds["sched_preemption_bound"] = bound
	top := 0
	var gate int64
	for _, sc := range recvScenarios(env.Thorough()) {
		s := schedx.Scenario{Name: "concurrent-receive/" + sc.name, Run: sc.run, Replay: map[string]any{"pre": sc.pre, "threads": sc.threads}}
		st := schedx.Explore(rep, env, s, bound, &top)
		schedx.Record(rep, s, st)
		gate += st.GateRuns
	}
	rep.Bounds["sched_determinism_gate_double_runs"] = gate
}

// TestC03Race is the free-running companion pass (built with -race): the same
// thread bodies on real parallel goroutines, many times, same oracle. It is
// supporting evidence (sampling of schedules) next to the exhaustive pass above:
// the cooperative scheduler cannot show the race detector unsynchronised
// accesses, and a lock that was removed is no scheduling point any more.
func TestC03Race(t *testing.T) {
	env := kit.GetEnv()
	rep := kit.NewReport("C03", env)
	iters := 60
	if env.Thorough() {
		iters = 600
	}
	var n int64
	for _, sc := range recvScenarios(env.Thorough()) {
		for i := 0; i < iters && !env.Expired(); i++ {
			bodies, eval := sc.prepare()
			ex := &schedx.Exec{}
			ex.Res.Panics = schedx.FreeRun(bodies)
			eval(ex)
			n++
			for _, p := range ex.Res.Panics {
				rep.Violate("free-running/"+sc.name+"/panic", p, nil)
			}
			for _, v := range ex.Viol {
				rep.Violate("free-running/"+sc.name+"/"+v[0], v[1], nil)
			}
		}
	}
	rep.Add(n, 0, 0, 0)
	rep.OutcomeN("free-running race-detector pass [iterations]", n)
	if err := rep.Finish(env); err != nil {
		t.Fatal(err)
	}
}
