// C14: end-to-end key setup never ends in a silent key mismatch.
//
// Two real routers A and B (both address orders; directly linked or via a
// relay). Events: a local packet at A / at B (starts a hello through the real
// tun handler when the session is not set up), clock +6 s / +31 s, and for every
// in-flight frame: deliver, drop, duplicate. All interleavings are explored by
// BFS with canonical-state deduplication; every state is reached by replaying
// its event path on a fresh world. In every state without a key-setup message
// in flight the mutual-decrypt oracle is evaluated.
package c14

import (
	"fmt"
	"net/netip"
	"reflect"
	"sort"
	"strings"
	"testing"
	"testing/synctest"
	"time"

	"github.com/fxamacker/cbor/v2"

	"verif/kit"

	"github.com/mycoria/mycoria/config"
	"github.com/mycoria/mycoria/frame"
	"github.com/mycoria/mycoria/m"
	"github.com/mycoria/mycoria/router"
	"github.com/mycoria/mycoria/state"
)

var pool = sortedPool()

func sortedPool() []*m.Address {
	p := kit.RoutablePool("c14", 3)
	sort.Slice(p, func(i, j int) bool { return p[i].IP.Compare(p[j].IP) < 0 })
	return p
}

type scenario struct {
	name     string
	aLower   bool // A has the lower address
	relay    bool
	maxTun   int // local packets per side (at A, if maxTunB is set)
	maxFault int
	maxClock int
	maxTunB  int // local packets at B; 0 = maxTun, -1 = none
	// skew: the clock of router "A" or "B" runs 48 hours ahead of the other's: every
	// signed frame it originates carries a sequence time 48 h later (re-signed with
	// its own key, as its own clock would have made it).
	skew string
}

func (sc scenario) tunB() int {
	if sc.maxTunB < 0 {
		return 0
	}
	if sc.maxTunB > 0 {
		return sc.maxTunB
	}
	return sc.maxTun
}

type tworld struct {
	w    *kit.World
	a, b *kit.Node
	// ordinal names of ping ids in order of first appearance
	ids map[uint64]string
	// cause tracking: how each side installed its current keys.
	install     map[string]string
	outstanding map[string]bool // side has sent a hello request that it has not completed
	skewed      map[*kit.Flight]bool
	sc          scenario
}

// applySkew rewrites the signed frames the router with the fast clock has just emitted.
func (tw *tworld) applySkew() {
	if tw.sc.skew == "" {
		return
	}
	h := tw.a
	if tw.sc.skew == "B" {
		h = tw.b
	}
	for _, fl := range tw.w.InFlight {
		if tw.skewed[fl] || fl.From != h {
			continue
		}
		tw.skewed[fl] = true
		if netip.AddrFrom16([16]byte(fl.Bytes[16:32])) != h.Identity().IP || frame.MessageType(fl.Bytes[4]).Class() != frame.MessageClassSigned {
			continue
		}
		ps := h.FrameBuilder().GetPooledSlice(len(fl.Bytes) + 28)
		nn := copy(ps[12:], fl.Bytes)
		f, err := h.FrameBuilder().ParseFrame(ps[12:12+nn], ps[:cap(ps)], 12)
		must(err)
		v1 := f.(*frame.FrameV1)
		ttl, fc := v1.TTL(), v1.FlowControl()
		v1.SetTTL(0)
		v1.SetFlowControl(0)
		v1.SetSequenceTime(v1.SequenceTime().Add(48 * time.Hour))
		must(v1.SignRaw(h.Identity().PrivateKey))
		v1.SetTTL(ttl)
		v1.SetFlowControl(fc)
		d, derr := v1.FrameDataWithMargins(0, 0)
		must(derr)
		fl.Bytes = append([]byte(nil), d...)
		f.ReturnToPool()
	}
}

func must(err error) {
	if err != nil {
		panic(err)
	}
}

func build(sc scenario) *tworld {
	w := kit.NewWorld()
	ia, ib := 0, 2
	if !sc.aLower {
		ia, ib = 2, 0
	}
	st := config.Store{ServiceConfigs: []config.ServiceConfig{{Name: "web", URL: "tcp://web.myco:80", Public: true}}}
	a, err := w.AddNode("A", pool[ia], st)
	must(err)
	b, err := w.AddNode("B", pool[ib], st)
	must(err)
	if sc.relay {
		r, err := w.AddNode("M", pool[1], config.Store{})
		must(err)
		_, _, err = w.Connect(a, r, 11, 12, 5)
		must(err)
		_, _, err = w.Connect(r, b, 13, 14, 5)
		must(err)
		// routes as gossip would install them.
		addRoute(a, r, b)
		addRoute(b, r, a)
		must(kit.Introduce(a, b))
	} else {
		_, _, err = w.Connect(a, b, 11, 12, 5)
		must(err)
	}
	return &tworld{w: w, a: a, b: b, ids: map[uint64]string{}, install: map[string]string{}, outstanding: map[string]bool{}, skewed: map[*kit.Flight]bool{}, sc: sc}
}

func addRoute(from, via, to *kit.Node) {
	sp := m.SwitchPath{Hops: []m.SwitchHop{
		{Router: from.Identity().IP, Delay: 5, ForwardLabel: 11},
		{Router: via.Identity().IP, Delay: 5, ForwardLabel: 13, ReturnLabel: 12},
		{Router: to.Identity().IP, ReturnLabel: 14},
	}}
	sp.CalculateTotals()
	_, err := from.RoutingTable().AddRoute(m.RoutingTableEntry{DstIP: to.Identity().IP, NextHop: via.Identity().IP, Path: sp, Source: m.RouteSourceGossip, Expires: time.Now().Add(24 * time.Hour)})
	must(err)
}

func packet(src, dst netip.Addr, sport uint16) []byte {
	b := make([]byte, 60)
	b[0], b[5], b[6], b[7] = 0x60, 20, 6, 64
	s, d := src.As16(), dst.As16()
	copy(b[8:24], s[:])
	copy(b[24:40], d[:])
	b[40], b[41] = byte(sport>>8), byte(sport)
	b[43] = 80
	return b
}

// describe gives a canonical, randomness-free description of an in-flight frame.
func (tw *tworld) describe(fl *kit.Flight) (desc string, setup bool) {
	raw := fl.Bytes
	src := "A"
	if netip.AddrFrom16([16]byte(raw[16:32])) == tw.b.Identity().IP {
		src = "B"
	} else if netip.AddrFrom16([16]byte(raw[16:32])) != tw.a.Identity().IP {
		src = "M"
	}
	hop := fl.From.Name + ">" + fl.To.Name
	mt := frame.MessageType(raw[4])
	switch mt {
	case frame.NetworkTraffic:
		return hop + ":traffic-from-" + src, false
	case frame.RouterPing:
		sw := int(raw[48])
		ml := int(raw[49+sw])<<8 | int(raw[50+sw])
		msg := raw[51+sw : 51+sw+ml]
		if len(msg) < 3 || int(msg[1])+2 > len(msg) {
			return hop + ":ping?", false
		}
		var h router.PingHeader
		if err := cbor.Unmarshal(msg[2:2+int(msg[1])], &h); err != nil {
			return hop + ":ping?", false
		}
		name, ok := tw.ids[h.PingID]
		if !ok {
			name = fmt.Sprintf("%s#%d", src, len(tw.ids)+1)
			tw.ids[h.PingID] = name
		}
		switch h.PingType {
		case "hello":
			if h.FollowUp {
				return hop + ":hello-resp(" + name + ")", true
			}
			return hop + ":hello-req(" + name + ")", true
		case "error":
			return fmt.Sprintf("%s:error%d-from-%s", hop, h.PingCode, src), h.PingCode == 2
		}
		return hop + ":ping-" + h.PingType, false
	}
	return fmt.Sprintf("%s:type%d-from-%s", hop, mt, src), false
}

type event struct {
	kind string // tunA tunB clock6 clock31 deliver drop dup
	arg  string // canonical frame description
}

func (e event) String() string {
	if e.arg != "" {
		return e.kind + "(" + e.arg + ")"
	}
	return e.kind
}

func (tw *tworld) find(desc string) int {
	for i, fl := range tw.w.InFlight {
		if d, _ := tw.describe(fl); d == desc {
			return i
		}
	}
	return -1
}

func (tw *tworld) apply(e event, n *int) {
	switch e.kind {
	case "tunA", "tunB":
		src, dst := tw.a, tw.b
		if e.kind == "tunB" {
			src, dst = tw.b, tw.a
		}
		*n++
		pk := packet(src.Identity().IP, dst.Identity().IP, uint16(40000+*n))
		ps := src.FrameBuilder().GetPooledSlice(len(pk))
		copy(ps, pk)
		before := len(tw.w.Log)
		_ = tw.w.TunPacket(src, ps[:len(pk)])
		for _, fl := range tw.w.Log[before:] {
			if d, _ := tw.describe(fl); strings.Contains(d, "hello-req") {
				tw.outstanding[strings.TrimPrefix(e.kind, "tun")] = true
			}
		}
	case "clock6":
		time.Sleep(6 * time.Second)
		tw.clean()
	case "clock31":
		time.Sleep(31 * time.Second)
		tw.clean()
	case "deliver":
		i := tw.find(e.arg)
		if i < 0 {
			panic("harness: replay diverged at " + e.String())
		}
		fl := tw.w.InFlight[i]
		// cause tracking for end-point deliveries of hello messages.
		var side string
		var node, peer *kit.Node
		switch fl.To {
		case tw.a:
			side, node, peer = "A", tw.a, tw.b
		case tw.b:
			side, node, peer = "B", tw.b, tw.a
		}
		var before string
		var pendBefore bool
		if node != nil {
			_, before, _ = encOf(node, peer.Identity().IP)
			pendBefore = node.Router().VerifHelloPending(peer.Identity().IP)
		}
		tw.w.Deliver(i)
		if node != nil {
			_, after, _ := encOf(node, peer.Identity().IP)
			if after != before {
				switch {
				case strings.Contains(e.arg, "hello-req"):
					how := "server(no-own-request)"
					if tw.outstanding[side] {
						how = "server(own-request-pending)"
						if !pendBefore {
							how = "server(own-request-forgotten-after-30s)"
						}
					}
					tw.install[side] = how
				case strings.Contains(e.arg, "hello-resp"):
					tw.install[side] = "client"
					tw.outstanding[side] = false
				default:
					tw.install[side] = "reset"
				}
			}
		}
	case "drop":
		i := tw.find(e.arg)
		if i < 0 {
			panic("harness: replay diverged at " + e.String())
		}
		tw.w.Drop(i)
	case "dup":
		i := tw.find(e.arg)
		if i < 0 {
			panic("harness: replay diverged at " + e.String())
		}
		fl := tw.w.InFlight[i]
		cp := *fl
		cp.Bytes = append([]byte(nil), fl.Bytes...)
		tw.w.InFlight = append(tw.w.InFlight, &cp)
		tw.skewed[&cp] = true
	}
	tw.applySkew()
	// describe everything in flight now so that ping ids get their ordinal names in a deterministic order.
	for _, fl := range tw.w.InFlight {
		tw.describe(fl)
	}
	tw.drainTun()
}

func (tw *tworld) clean() {
	// what the periodic cleaners do (ping handler state expiry).
	_ = tw.a.Router().VerifClean()
	_ = tw.b.Router().VerifClean()
}

func (tw *tworld) drainTun() {
	for _, n := range []*kit.Node{tw.a, tw.b} {
		for {
			select {
			case f := <-n.TunDevice().SendFrame:
				f.ReturnToPool()
				continue
			case <-n.TunDevice().SendRaw:
				continue
			default:
			}
			break
		}
	}
}

func encOf(n *kit.Node, peer netip.Addr) (setup bool, in, out string) {
	s := n.State().GetSession(peer)
	if s == nil {
		return false, "", ""
	}
	e := s.Encryption()
	h := &state.EncryptionSessionTestHelper{EncryptionSession: e}
	return e.IsSetUp(), kit.Hash(h.InKey()), kit.Hash(h.OutKey())
}

// seqOf digests the replay-window and outgoing-counter state of n's session for peer.
func seqOf(n *kit.Node, peer netip.Addr) string {
	s := n.State().GetSession(peer)
	if s == nil {
		return "-"
	}
	h := &state.EncryptionSessionTestHelper{EncryptionSession: s.Encryption()}
	one := func(sh *state.SequenceHandler) string {
		v := reflect.ValueOf(sh).Elem()
		// outSeq is an atomic.Uint32 (or its scheduler shim wrapping one): descend to the number.
		out := v.FieldByName("outSeq")
		for out.Kind() == reflect.Struct {
			out = out.Field(out.NumField() - 1)
		}
		return fmt.Sprintf("%x/%d/%d", v.FieldByName("bitMap").Uint(), v.FieldByName("highest").Uint(), out.Uint())
	}
	return one(h.PrioSeq()) + "," + one(h.ReglSeq())
}

// stateKey is the canonical state: set-up flags, key relation, pending hellos, in-flight multiset, clock bucket.
func (tw *tworld) stateKey(tuns [2]int, faults, clocks int) (string, bool) {
	sa, ia, oa := encOf(tw.a, tw.b.Identity().IP)
	sb, ib, ob := encOf(tw.b, tw.a.Identity().IP)
	rel := fmt.Sprintf("a->b:%v b->a:%v", oa == ib && oa != "", ob == ia && ob != "")
	var fls []string
	anySetup := false
	for _, fl := range tw.w.InFlight {
		d, su := tw.describe(fl)
		fls = append(fls, d)
		if su {
			anySetup = true
		}
	}
	sort.Strings(fls)
	pend := fmt.Sprintf("pendA=%v pendB=%v", tw.a.Router().VerifHelloPending(tw.b.Identity().IP), tw.b.Router().VerifHelloPending(tw.a.Identity().IP))
	seq := "seqA=" + seqOf(tw.a, tw.b.Identity().IP) + " seqB=" + seqOf(tw.b, tw.a.Identity().IP)
	return fmt.Sprintf("A=%v B=%v %s %s %s tuns=%v faults=%d clocks=%d | %s", sa, sb, rel, pend, seq, tuns, faults, clocks, strings.Join(fls, ",")), anySetup
}

// probe: mutual decrypt with real frames (destructive, done at the end of a replay).
func (tw *tworld) probe() (aToB, bToA bool) {
	// several frames in a row: all of them must unseal (a stale replay window
	// rejects only some sequence numbers).
	one := func(src, dst *kit.Node) bool {
		for i := 0; i < 4; i++ {
			if !single(src, dst) {
				return false
			}
		}
		return true
	}
	return one(tw.a, tw.b), one(tw.b, tw.a)
}

func single(src, dst *kit.Node) bool {
	{
		ss := src.State().GetSession(dst.Identity().IP)
		ds := dst.State().GetSession(src.Identity().IP)
		if ss == nil || ds == nil {
			return false
		}
		f, err := src.FrameBuilder().NewFrameV1(src.Identity().IP, dst.Identity().IP, frame.NetworkTraffic, nil, []byte("probe-payload"), nil)
		if err != nil {
			return false
		}
		if err := f.Seal(ss); err != nil {
			return false
		}
		d, _ := f.FrameDataWithMargins(0, 0)
		raw := append([]byte(nil), d...)
		g, err := dst.FrameBuilder().ParseFrame(raw, nil, 0)
		if err != nil {
			return false
		}
		return g.Unseal(ds) == nil && string(g.MessageData()) == "probe-payload"
	}
}

func explore(t *testing.T, rep *kit.Report, env kit.Env, sc scenario, maxStates int) {
	type node struct {
		path   []event
		tuns   [2]int
		faults int
		clocks int
	}
	seen := map[string]bool{}
	frontier := []node{{}}
	var transitions, evals, nontrivial int64
	capped := false
	level := 0
	for len(frontier) > 0 && !capped {
		var next []node
		for ni, nd := range frontier {
			if level == 1 && !env.Mine(ni) {
				continue
			}
			if env.Expired() || len(seen) >= maxStates {
				capped = true
				break
			}
			var key string
			var anySetup bool
			var choices []string
			var sa, sb, ab, ba bool
			var panics []string
			var cause string
			synctest.Test(t, func(t *testing.T) {
				tw := build(sc)
				n := 0
				for _, e := range nd.path {
					tw.apply(e, &n)
					transitions++
				}
				key, anySetup = tw.stateKey(nd.tuns, nd.faults, nd.clocks)
				dedup := map[string]bool{}
				for _, fl := range tw.w.InFlight {
					d, _ := tw.describe(fl)
					if !dedup[d] {
						dedup[d] = true
						choices = append(choices, d)
					}
				}
				sort.Strings(choices)
				sa, _, _ = encOf(tw.a, tw.b.Identity().IP)
				sb, _, _ = encOf(tw.b, tw.a.Identity().IP)
				panics = tw.w.Panics
				cause = "A:" + tw.install["A"] + " B:" + tw.install["B"]
				if !anySetup {
					ab, ba = tw.probe()
				}
			})
			evals++
			names := make([]string, len(nd.path))
			for i, e := range nd.path {
				names[i] = e.String()
			}
			for _, p := range panics {
				rep.Violate(sc.name+"/panic", p+fmt.Sprintf(" — events %v", names), names)
			}
			if !anySetup {
				nontrivial++
				if sa && sb && !(ab && ba) {
					rep.Violate("silent-key-mismatch/"+cause, fmt.Sprintf("both routers consider encryption established but cannot decrypt each other (A->B ok=%v, B->A ok=%v) with no setup message in flight; keys installed as %s — scenario %s events %v", ab, ba, cause, sc.name, names), map[string]any{"scenario": sc.name, "events": names, "cause": cause})
					rep.Outcome("MISMATCH")
				} else if sa && sb {
					rep.Outcome("both-established-and-working")
				} else {
					rep.Outcome("at-least-one-not-established")
				}
			}
			if seen[key] {
				continue
			}
			seen[key] = true
			if len(seen)%2000 == 1 {
				rep.Sample(map[string]any{"scenario": sc.name, "events": names, "state": key})
			}
			add := func(e event, f func(n *node)) {
				c := node{path: append(append([]event(nil), nd.path...), e), tuns: nd.tuns, faults: nd.faults, clocks: nd.clocks}
				f(&c)
				next = append(next, c)
			}
			if nd.tuns[0] < sc.maxTun {
				add(event{kind: "tunA"}, func(n *node) { n.tuns[0]++ })
			}
			if nd.tuns[1] < sc.tunB() {
				add(event{kind: "tunB"}, func(n *node) { n.tuns[1]++ })
			}
			if nd.clocks < sc.maxClock {
				add(event{kind: "clock6"}, func(n *node) { n.clocks++ })
				add(event{kind: "clock31"}, func(n *node) { n.clocks++ })
			}
			for _, c := range choices {
				add(event{"deliver", c}, func(n *node) {})
				if nd.faults < sc.maxFault {
					add(event{"drop", c}, func(n *node) { n.faults++ })
					add(event{"dup", c}, func(n *node) { n.faults++ })
				}
			}
		}
		frontier = next
		level++
	}
	if capped {
		rep.Cap(fmt.Sprintf("%s: state cap %d / time budget reached at BFS level %d", sc.name, maxStates, level))
	}
	rep.Add(evals, nontrivial, int64(len(seen)), transitions)
	rep.Bounds[sc.name] = map[string]any{"local_packets_A": sc.maxTun, "local_packets_B": sc.tunB(), "faults": sc.maxFault, "clock_events": sc.maxClock, "state_cap": maxStates, "bfs_levels": level}
}

func TestC14(t *testing.T) {
	env := kit.GetEnv()
	rep := kit.NewReport("C14", env)
	rep.Rule = "explicit-state BFS over all event interleavings: events = local packet at A / at B (<= N per side; starts a hello through the real tun handler when the session is not set up, otherwise sends traffic), clock +6 s / +31 s (with the periodic ping-state cleaner), and for every distinct in-flight frame deliver / drop / duplicate (<= F faults); both address orders of the two routers; direct link and one relay; dedup on (set-up flags, key relation, pending hellos, replay-window and outgoing-counter state of both sessions, canonical nonce-free in-flight multiset, event budgets); each state = replay of its event path on a fresh world of real routers in virtual time; in every state without a hello / no-keys message in flight: not (both set up and one of four consecutive real sealed frames of either side fails to unseal at the other); non-trivial = states where the oracle applies; states = distinct canonical states"
	rep.Assumptions = []string{
		"a local packet waits 200 ms (virtual) for the hello to finish, as the real tun handler does; deliveries are atomic handler invocations",
		"duplicates are byte-level copies, so the signed-frame replay filter is part of the system under test",
	}
	scs := []scenario{
		{"direct/A-lower/1-initiation/1-fault", true, false, 1, 1, 0, 0, ""},
		{"direct/B-lower/1-initiation/1-fault", false, false, 1, 1, 0, 0, ""},
		{"direct/A-lower/2-initiations/0-faults/1-clock", true, false, 2, 0, 1, 0, ""},
		{"direct/B-lower/2-initiations/0-faults/1-clock", false, false, 2, 0, 1, 0, ""},
		{"relay/A-lower/1-initiation/0-faults", true, true, 1, 0, 0, 0, ""},
		// one initiator behind a relay with one fault (the duplicate / loss can hit either hop).
		{"relay/A-lower/1-initiation-at-A/1-fault", true, true, 1, 1, 0, -1, ""},
		{"relay/B-lower/1-initiation-at-A/1-fault", false, true, 1, 1, 0, -1, ""},
		// setup, traffic, late error, second setup on a used session.
		// the clock of one router runs two days ahead of the other's.
		{"direct/A-lower/2-initiations/0-faults/clock-of-B-48h-ahead", true, false, 1, 0, 0, 0, "B"},
		{"direct/B-lower/2-initiations/0-faults/clock-of-A-48h-ahead", false, false, 1, 0, 0, 0, "A"},
		{"direct/A-lower/2-initiations/0-faults/clock-of-A-48h-ahead", true, false, 1, 0, 0, 0, "A"},
		{"direct/A-lower/1-initiation/1-fault/clock-of-B-48h-ahead", true, false, 1, 1, 0, 0, "B"},
		{"direct/A-lower/3-packets-at-A,1-at-B/0-faults", true, false, 3, 0, 0, 1, ""},
		{"direct/B-lower/3-packets-at-A,1-at-B/0-faults", false, false, 3, 0, 0, 1, ""},
	}
	cap1 := 6000
	if env.Thorough() {
		cap1 = 300000
		scs = append(scs,
			scenario{"direct/A-lower/2-initiations/1-fault/1-clock", true, false, 2, 1, 1, 0, ""},
			scenario{"direct/B-lower/2-initiations/1-fault/1-clock", false, false, 2, 1, 1, 0, ""},
			scenario{"direct/A-lower/2-initiations/2-faults/2-clocks", true, false, 2, 2, 2, 0, ""},
			scenario{"relay/B-lower/2-initiations/1-fault/1-clock", false, true, 2, 1, 1, 0, ""},
		)
	}
	runHelloSched(t, rep, env)
	for _, sc := range scs {
		explore(t, rep, env, sc, cap1)
	}
	if err := rep.Finish(env); err != nil {
		t.Fatal(err)
	}
}
