// C14, interleaving tier: key-setup messages and local packets are handled by
// one frame handler and one tun handler per CPU, so two of them touch the hello
// state of one peer AT THE SAME TIME. The router and state packages are
// compiled with their sync / sync/atomic imports rewritten to the
// controlled-scheduler shims. A sequential prefix of events brings two real
// routers into a state with two pending stimuli for one router (two local
// packets; a local packet and an arriving hello request; a hello response and a
// hello request; a request and its duplicate ...); harness threads then run the
// real handlers for both CONCURRENTLY; ALL schedules up to a preemption bound
// are explored; afterwards the network is drained in FIFO order and the
// statement's invariant is evaluated: never both "established" while a frame
// sealed by one does not unseal at the other.
package c14

import (
	"fmt"
	"os"
	"strconv"
	"strings"
	"testing"
	"testing/synctest"

	"verif/kit"
	"verif/schedx"
)

type helloConc struct {
	name   string
	aLower bool
	prefix []event // applied one after the other; deliver events name frames by description
	// stimuli handled concurrently: "tunA", "tunB", "cleanA", "cleanB" or "deliver:<description>".
	threads [][]string
	// drain: how the network is emptied afterwards: "fifo", "lifo", or "drop<k>" = FIFO
	// with the k-th key-setup frame that comes up for delivery lost.
	drain string
}

func (c helloConc) build() *schedx.Instance {
	tw := build(scenario{name: c.name, aLower: c.aLower})
	n := 0
	for _, e := range c.prefix {
		tw.apply(e, &n)
	}
	in := &schedx.Instance{}
	type taken struct {
		from, to *kit.Node
		bytes    []byte
	}
	took := map[string]taken{}
	for _, th := range c.threads {
		var ops []schedx.Op
		for _, st := range th {
			st := st
			switch {
			case st == "tunA" || st == "tunB":
				src, dst := tw.a, tw.b
				if st == "tunB" {
					src, dst = tw.b, tw.a
				}
				n++
				pk := packet(src.Identity().IP, dst.Identity().IP, uint16(41000+n))
				ops = append(ops, schedx.Op{Name: st, Do: func() {
					ps := src.FrameBuilder().GetPooledSlice(len(pk))
					copy(ps, pk)
					_ = tw.w.TunPacket(src, ps[:len(pk)])
				}})
			case st == "cleanA":
				// the hello handler's own cleaner (the router-wide cleaner walks a map of handlers: its lock order would differ from run to run).
				ops = append(ops, schedx.Op{Name: st, Do: func() { _ = tw.a.Router().HelloPing.Clean(nil) }})
			case st == "cleanB":
				ops = append(ops, schedx.Op{Name: st, Do: func() { _ = tw.b.Router().HelloPing.Clean(nil) }})
			default:
				desc := strings.TrimPrefix(st, "deliver:")
				if tk, ok := took[desc]; ok {
					// a byte-identical duplicate of a frame another thread delivers.
					ops = append(ops, schedx.Op{Name: st, Do: func() { tw.w.Inject(tk.from, tk.to, append([]byte(nil), tk.bytes...)) }})
					continue
				}
				i := tw.find(desc)
				if k := strings.Index(desc, "#*"); k >= 0 {
					// ordinal of the ping id left open: first in-flight frame of that kind.
					i = -1
					for j, fl := range tw.w.InFlight {
						if d, _ := tw.describe(fl); strings.HasPrefix(d, desc[:k]) {
							i = j
							break
						}
					}
				}
				if i < 0 {
					var have []string
					for _, fl := range tw.w.InFlight {
						d, _ := tw.describe(fl)
						have = append(have, d)
					}
					panic(fmt.Sprintf("harness: scenario %s: no in-flight frame %q (in flight: %v)", c.name, desc, have))
				}
				fl := tw.w.InFlight[i]
				// a copy is delivered; the original is taken out of flight when the threads start.
				bytes := append([]byte(nil), fl.Bytes...)
				from, to := fl.From, fl.To
				tw.w.Drop(i)
				took[desc] = taken{from, to, bytes}
				ops = append(ops, schedx.Op{Name: st, Do: func() { tw.w.Inject(from, to, bytes) }})
			}
		}
		in.Threads = append(in.Threads, ops)
	}
	in.Observe = func() string { return "" } // judged by the invariant below, not by serial outcomes
	in.Check = func(ex *schedx.Exec) {
		for _, p := range tw.w.Panics {
			ex.Bad("panic", "worker panic: %s", p)
		}
		// drain the network.
		var drainLog []string
		setupSeen := 0
		for steps := 0; len(tw.w.InFlight) > 0 && steps < 60; steps++ {
			i := 0
			if c.drain == "lifo" {
				i = len(tw.w.InFlight) - 1
			}
			if strings.HasPrefix(c.drain, "drop") {
				if d, setup := tw.describe(tw.w.InFlight[i]); setup {
					if fmt.Sprintf("drop%d", setupSeen) == c.drain {
						setupSeen++
						tw.w.Drop(i)
						drainLog = append(drainLog, "LOST "+d)
						continue
					}
					setupSeen++
				}
			}
			d, _ := tw.describe(tw.w.InFlight[i])
			drainLog = append(drainLog, d)
			tw.w.Deliver(i)
			tw.drainTun()
		}
		if len(tw.w.InFlight) > 0 {
			ex.Bad("no-quiescence", "frames keep flowing after 60 deliveries")
			return
		}
		sa, _, _ := encOf(tw.a, tw.b.Identity().IP)
		sb, _, _ := encOf(tw.b, tw.a.Identity().IP)
		ab, ba := false, false
		if sa && sb {
			ab, ba = tw.probe()
		}
		ex.Sig = fmt.Sprintf("A.established=%v B.established=%v A->B=%v B->A=%v", sa, sb, ab, ba)
		if sa && sb && !(ab && ba) {
			ex.Bad("silent-key-mismatch", "both routers consider encryption established but cannot decrypt each other (A->B ok=%v, B->A ok=%v) after the concurrent stimuli and the drain %v", ab, ba, drainLog)
		}
	}
	return in
}

func helloConcs(deep bool) []helloConc {
	var out []helloConc
	for _, aLower := range []bool{true, false} {
		tag := "A-lower"
		if !aLower {
			tag = "B-lower"
		}
		add := func(name string, prefix []event, th ...[]string) {
			for _, dr := range []string{"fifo", "lifo", "drop0", "drop1", "drop2", "drop3"} {
				out = append(out, helloConc{name: tag + "/" + name + " / drain:" + dr, aLower: aLower, prefix: prefix, threads: th, drain: dr})
			}
		}
		d := func(desc string) event { return event{"deliver", desc} }
		add("two local packets at A", nil, []string{"tunA"}, []string{"tunA"})
		add("local packet at A | hello request of B arrives", []event{{kind: "tunB"}}, []string{"tunA"}, []string{"deliver:B>A:hello-req(B#1)"})
		add("request of B arrives at A | its duplicate", []event{{kind: "tunB"}}, []string{"deliver:B>A:hello-req(B#1)"}, []string{"deliver:B>A:hello-req(B#1)"})
		add("both initiated: request of B arrives at A | ping-state cleaner of A", []event{{kind: "tunA"}, {kind: "tunB"}}, []string{"deliver:B>A:hello-req(B#*)"}, []string{"cleanA"})
		add("both initiated: request of B arrives at A | second local packet at A", []event{{kind: "tunA"}, {kind: "tunB"}}, []string{"deliver:B>A:hello-req(B#*)"}, []string{"tunA"})
		add("response arrives at A | second local packet at A", []event{{kind: "tunA"}, d("A>B:hello-req(A#1)")}, []string{"deliver:B>A:hello-resp(A#1)"}, []string{"tunA"})
		add("response arrives at A | its duplicate", []event{{kind: "tunA"}, d("A>B:hello-req(A#1)")}, []string{"deliver:B>A:hello-resp(A#1)"}, []string{"deliver:B>A:hello-resp(A#1)"})
		// B served A's request, sent traffic A could not read yet, was told so, and starts its own setup
		// while its response to A is still under way: response and request meet at A.
		add("late response of B and new request of B meet at A", []event{{kind: "tunA"}, d("A>B:hello-req(A#1)"), {kind: "tunB"}, d("B>A:traffic-from-B"), d("A>B:error2-from-A"), {kind: "tunB"}},
			[]string{"deliver:B>A:hello-resp(A#*)"}, []string{"deliver:B>A:hello-req(B#*)"})
		add("both initiated: both requests arrive", []event{{kind: "tunA"}, {kind: "tunB"}}, []string{"deliver:B>A:hello-req(B#*)"}, []string{"deliver:A>B:hello-req(A#*)"})
		if deep {
			add("three local packets at A", nil, []string{"tunA"}, []string{"tunA"}, []string{"tunA"})
			add("local packet at A | request of B | duplicate", []event{{kind: "tunB"}}, []string{"tunA"}, []string{"deliver:B>A:hello-req(B#1)"}, []string{"deliver:B>A:hello-req(B#1)"})
		}
	}
	return out
}

func (c helloConc) conc(t *testing.T, bubble bool) schedx.Conc {
	cc := schedx.Conc{Name: "concurrent-setup/" + c.name, Build: c.build, MaxPoints: 60000, InvariantOnly: true}
	if bubble {
		cc.Wrap = func(f func()) { synctest.Test(t, func(t *testing.T) { f() }) }
	} else {
		cc.Wrap = func(f func()) {
			t.Run("bubble", func(t *testing.T) { synctest.Test(t, func(t *testing.T) { f() }) })
		}
	}
	return cc
}

func runHelloSched(t *testing.T, rep *kit.Report, env kit.Env) {
	bound := 2
	if v := os.Getenv("VERIF_SCHED_BOUND"); v != "" {
		bound, _ = strconv.Atoi(v)
	}
	rep.Bounds["sched_preemption_bound"] = bound
	top := 0
	for _, c := range helloConcs(env.Deep()) {
		b := bound
		if strings.HasPrefix(c.drain, "drop") && !env.Deep() && os.Getenv("VERIF_SCHED_BOUND") == "" {
			b = 1 // quick tier: the lossy drains with one preemption
		}
		schedx.ExploreConc(rep, env, c.conc(t, true), b, &top)
	}
}

// TestC14Race: the same stimuli on free-running goroutines under the race
// detector (supporting evidence next to the exhaustive pass; see schedx.FreeRun).
func TestC14Race(t *testing.T) {
	env := kit.GetEnv()
	rep := kit.NewReport("C14", env)
	defer func() { _ = rep.Finish(env) }()
	iters := 40
	if env.Deep() {
		iters = 400
	}
	var n int64
	var all []schedx.Conc
	for _, c := range helloConcs(env.Deep()) {
		all = append(all, c.conc(t, false))
	}
	n = schedx.FreeRunAll(rep, env, all, false, iters)
	rep.Add(n, 0, 0, 0)
	rep.OutcomeN("free-running race-detector pass [iterations]", n)
}
