// C18: stored router and mapping state survives crashes and round-trips exactly.
//
// The storage package is built with its "os" import rewritten to an in-memory
// file system (vos) that logs every step and can kill the process before any
// step or at any byte offset of any write. For a family of states, the real
// Stop() is run over every previous-file situation and EVERY crash point; the
// real NewJSONFileStorage must then load either the complete previous state or
// the complete new state.
package c18

import (
	"encoding/json"
	"fmt"
	"net/netip"
	"sort"
	"strings"
	"testing"
	"time"

	"verif/kit"

	"github.com/mycoria/mycoria/m"
	"github.com/mycoria/mycoria/storage"
	"github.com/mycoria/mycoria/zz_verif/vos"
)

const path = "/state/mycoria-state.json"

var pool = kit.RoutablePool("c18", 6)

type spec struct {
	name     string
	routers  int
	mappings int
	flavour  int // selects field values
}

func strFlavour(f, i int) string {
	switch (f + i) % 5 {
	case 0:
		return ""
	case 1:
		return "plain"
	case 2:
		return "ünï©ødé-✓-日本語"
	case 3:
		return strings.Repeat("L", 4096)
	}
	return "quote\"back\\slash\n\ttab<>& "
}

// fakeAddr makes distinct (not self-certifying) public addresses for bulk states;
// the storage layer does not verify them.
func fakeAddr(i int) *m.PublicAddress {
	base := pool[i%len(pool)]
	ip := base.IP.As16()
	ip[14], ip[15] = byte(i>>8), byte(i)
	return &m.PublicAddress{IP: netip.AddrFrom16(ip), Hash: base.Hash, Type: base.Type, PublicKey: base.PublicKey, Easing: uint64(i % 3)}
}

// populate fills a storage with the state described by sp.
func populate(s *storage.JSONFileStorage, sp spec) {
	for i := 0; i < sp.routers; i++ {
		r := &storage.StoredRouter{Address: fakeAddr(i + sp.flavour*1000), Universe: strFlavour(sp.flavour, i), Offline: (i+sp.flavour)%2 == 0,
			CreatedAt: time.Date(2020+i%5, 1, 2, 3, 4, 5, 678000000+i, time.UTC)}
		if (i+sp.flavour)%3 != 0 {
			r.PublicInfo = &m.RouterInfo{Version: strFlavour(sp.flavour, i+1), Listeners: []string{"tcp:47369", strFlavour(sp.flavour, i+2)},
				IANA: []string{strFlavour(sp.flavour, i+3)}, PublicServices: []m.RouterService{{Name: strFlavour(sp.flavour, i+4), Domain: "x.myco", URL: "http://x.myco"}}}
		}
		switch (i + sp.flavour) % 5 {
		case 3:
			r.UsedAt = &time.Time{} // used-at present but holding the zero time
		case 4:
			r.CreatedAt = time.Time{} // zero creation time
		}
		if err := s.SaveRouter(r); err != nil {
			panic(err)
		}
		if i%2 == 0 && r.UsedAt == nil {
			_, _ = s.GetRouter(r.Address.IP) // sets UsedAt
		}
	}
	for i := 0; i < sp.mappings; i++ {
		d := fmt.Sprintf("name%d-%s.myco", i, strFlavour(sp.flavour, i))
		if len(d) > 300 {
			d = d[:300]
		}
		if err := s.SaveMapping(d, fakeAddr(i+7).IP); err != nil {
			panic(err)
		}
	}
}

// contentOf extracts everything the statement says must be preserved.
func contentOf(s *storage.JSONFileStorage) string {
	var rs []string
	q := storage.NewRouterQuery(func(a *storage.StoredRouter) bool {
		used := "nil"
		if a.UsedAt != nil {
			used = a.UsedAt.UTC().Format(time.RFC3339Nano)
		}
		info, _ := json.Marshal(a.PublicInfo)
		addr, _ := json.Marshal(a.Address)
		rs = append(rs, fmt.Sprintf("%s|%s|%q|%v|%s|%s|%s", addr, info, a.Universe, a.Offline,
			a.CreatedAt.UTC().Format(time.RFC3339Nano), a.UpdatedAt.UTC().Format(time.RFC3339Nano), used))
		return false
	}, nil, 1)
	_ = s.QueryRouters(q)
	sort.Strings(rs)
	ms, _ := s.QueryMappings("")
	var mp []string
	for _, x := range ms {
		mp = append(mp, fmt.Sprintf("%q=%s@%s", x.Domain, x.Router, x.Created.UTC().Format(time.RFC3339Nano)))
	}
	sort.Strings(mp)
	return strings.Join(rs, "\n") + "\n--\n" + strings.Join(mp, "\n")
}

func load() (*storage.JSONFileStorage, error) { return storage.NewJSONFileStorage(path) }

// staleTmp is a 60 kB prefix of a valid larger state file, as a killed writer leaves it.
var staleTmp = func() []byte {
	b := []byte(`{"routers":{`)
	for len(b) < 60000 {
		b = append(b, []byte(`"fd00::1":{"address":{"ip":"fd00::1"},"universe":"stale"},`)...)
	}
	return b
}()

func TestC18(t *testing.T) {
	env := kit.GetEnv()
	rep := kit.NewReport("C18", env)
	rep.Rule = "states: {0,1,2,5} routers x {0,1,2,5} mappings x 3 field-value flavours (empty, unicode, 4 kB, JSON-hostile strings; nil/present public info; offline flag; used / unused / used-at present but zero; zero creation time) plus 50 and 200 entries; previous file: absent, or the complete file of another state, optionally with a long partially written temporary file left by an earlier crashed shutdown; for each (previous, new) pair the real Stop() is run once to log its file-system steps, then re-run for EVERY crash point: before every step and at every byte offset of every write (states of 50/200 entries, and in the quick tier all writes above 6 kB: every offset in the first and last 1 kB of each write and every 97th in between); after each crash the real NewJSONFileStorage loads the image; plus save->load round trip of every state; plus restarted sessions: load an existing file, every sequence of <= 2 operations out of 14 (look-ups of known/unknown routers, save/delete of routers and mappings, deletion of everything the state holds, queries, prune, nothing), shutdown, load - content equal to the content before shutdown; non-trivial = crash points strictly inside a write or between steps of the save; distinct = distinct (previous, new, crash point)"
	rep.Assumptions = []string{
		"crash model = process kill: completed file-system steps persist, an in-progress write persists an arbitrary prefix (the statement's model); power-loss reordering is out of scope",
		"the storage package is compiled with its os import rewritten to the vos shim; if it uses an os API the shim lacks, the harness fails to build (exit 2) instead of passing",
	}
	var specs []spec
	for _, r := range []int{0, 1, 2, 5} {
		for _, mp := range []int{0, 1, 2, 5} {
			for f := 0; f < 3; f++ {
				if !env.Thorough() && f > 0 && (r == 5 || mp == 5) {
					continue
				}
				specs = append(specs, spec{fmt.Sprintf("r%d-m%d-f%d", r, mp, f), r, mp, f})
			}
		}
	}
	bulk := []spec{{"r50-m20-f1", 50, 20, 1}}
	if env.Thorough() {
		bulk = append(bulk, spec{"r200-m200-f2", 200, 200, 2})
	}

	var evals, nontrivial int64
	caseNo := 0

	// previous-state provider: nil = no file.
	type prev struct {
		name string
		sp   *spec
		// staleTmp: a long, partially written "<state>.tmp" left behind by an
		// earlier crashed shutdown is present next to the state file.
		staleTmp bool
	}
	prevs := []prev{{"no-file", nil, false}, {"prev-r1-m1", &spec{"p", 1, 1, 2}, false}, {"prev-r5-m2", &spec{"p", 5, 2, 1}, false}, {"prev-r1-m1+stale-tmp", &spec{"p", 1, 1, 2}, true}}

	run := func(sp spec, pv prev, sparse bool) {
		caseNo++
		if !env.Mine(caseNo) {
			return
		}
		// build the previous file and remember its content.
		vos.Reset()
		prevContent := "\n--\n"
		var prevBytes []byte
		if pv.sp != nil {
			s0, err := load()
			if err != nil {
				t.Fatal(err)
			}
			populate(s0, *pv.sp)
			if err := s0.Stop(); err != nil {
				t.Fatal(err)
			}
			prevBytes, _ = vos.GetFile(path)
			sl, err := load()
			if err != nil {
				rep.Violate("roundtrip/load-failed", fmt.Sprintf("state %s saved by Stop() does not load: %v", pv.name, err), pv.name)
				return
			}
			prevContent = contentOf(sl)
		}
		// the new state starts from the previous file (as a restarted router would).
		mk := func() *storage.JSONFileStorage {
			vos.Reset()
			if prevBytes != nil {
				vos.SetFile(path, prevBytes)
			}
			if pv.staleTmp {
				vos.SetFile(path+".tmp", staleTmp)
				vos.SetFile(path+".new", staleTmp)
				vos.SetFile(path+"~", staleTmp)
			}
			s, err := load()
			if err != nil {
				t.Fatal(err)
			}
			populate(s, sp)
			vos.ClearLog()
			return s
		}
		s := mk()
		newContent := contentOf(s)
		if err := s.Stop(); err != nil {
			rep.Violate("save-failed", err.Error(), sp.name)
			return
		}
		steps := vos.Log()
		// round trip.
		evals++
		re, err := load()
		if err != nil {
			rep.Violate("roundtrip/load-failed", fmt.Sprintf("state %s saved by Stop() does not load: %v", sp.name, err), sp.name)
		} else if got := contentOf(re); got != newContent {
			rep.Violate("roundtrip/content-differs", fmt.Sprintf("state %s differs after save+load (first difference near %q)", sp.name, firstDiff(got, newContent)), sp.name)
		} else {
			rep.Outcome("roundtrip/ok")
		}
		// crash points.
		for si, st := range steps {
			offsets := []int{0}
			if st.Kind == "write" {
				offsets = nil
				for o := 0; o <= st.Size; o++ {
					if (sparse || (!env.Thorough() && st.Size > 6000)) && o > 1024 && o < st.Size-1024 && o%97 != 0 {
						continue
					}
					offsets = append(offsets, o)
				}
			}
			for _, off := range offsets {
				s := mk()
				newContent := contentOf(s) // timestamps differ per instance
				vos.CrashAt(si, off)
				crashed := false
				func() {
					defer func() {
						if p := recover(); p != nil {
							if _, ok := p.(vos.Crash); ok {
								crashed = true
								return
							}
							panic(p)
						}
					}()
					_ = s.Stop()
				}()
				vos.Disarm()
				if !crashed {
					t.Fatalf("harness: crash plan step %d did not fire", si)
				}
				evals++
				nontrivial++
				point := fmt.Sprintf("step %d (%s %s) offset %d/%d", si, st.Kind, st.Name, off, st.Size)
				ld, err := load()
				switch {
				case err != nil:
					rep.Violate("crash/refuses-to-start/"+st.Kind, fmt.Sprintf("after a crash at %s the state file does not load: %v; previous=%s new=%s", point, err, pv.name, sp.name), map[string]any{"previous": pv.name, "new": sp.name, "step": si, "kind": st.Kind, "offset": off})
					rep.Outcome("crash/load-error")
				default:
					got := contentOf(ld)
					switch got {
					case newContent:
						rep.Outcome("crash/new-state")
					case prevContent:
						rep.Outcome("crash/previous-state")
					default:
						rep.Violate("crash/partial-state/"+st.Kind, fmt.Sprintf("after a crash at %s the loaded state is neither the previous nor the new state; previous=%s new=%s", point, pv.name, sp.name), map[string]any{"previous": pv.name, "new": sp.name, "step": si, "offset": off})
						rep.Outcome("crash/partial")
					}
				}
				if evals%20000 == 1 {
					rep.Sample(map[string]any{"previous": pv.name, "new": sp.name, "crash_point": point})
				}
			}
		}
	}
	for _, sp := range specs {
		for _, pv := range prevs {
			run(sp, pv, false)
		}
	}
	for _, sp := range bulk {
		for _, pv := range prevs[:2] {
			run(sp, pv, true)
		}
	}
	// round trips of restarted sessions: a router loads an existing state file,
	// performs up to two storage operations (including pure look-ups, which stamp
	// the use time, and nothing at all), shuts down, and starts again.
	type sop struct {
		name string
		do   func(s *storage.JSONFileStorage)
	}
	sops := []sop{
		{"GetRouter(known)", func(s *storage.JSONFileStorage) { _, _ = s.GetRouter(fakeAddr(1 + 1000).IP) }},
		{"GetRouter(all)", func(s *storage.JSONFileStorage) {
			for i := 0; i < 5; i++ {
				_, _ = s.GetRouter(fakeAddr(i + 1000).IP)
			}
		}},
		{"GetRouter(unknown)", func(s *storage.JSONFileStorage) { _, _ = s.GetRouter(fakeAddr(777).IP) }},
		{"SaveRouter(new)", func(s *storage.JSONFileStorage) {
			_ = s.SaveRouter(&storage.StoredRouter{Address: fakeAddr(4242), Universe: "u", CreatedAt: time.Date(2021, 1, 2, 3, 4, 5, 6000, time.UTC)})
		}},
		{"SaveRouter(known)", func(s *storage.JSONFileStorage) {
			_ = s.SaveRouter(&storage.StoredRouter{Address: fakeAddr(2 + 1000), Universe: "changed", Offline: true, CreatedAt: time.Date(2022, 1, 2, 3, 4, 5, 6000, time.UTC)})
		}},
		{"DeleteRouter(known)", func(s *storage.JSONFileStorage) { _ = s.DeleteRouter(fakeAddr(3 + 1000).IP) }},
		{"SaveMapping(new)", func(s *storage.JSONFileStorage) { _ = s.SaveMapping("fresh.myco", fakeAddr(9).IP) }},
		{"SaveMapping(known)", func(s *storage.JSONFileStorage) {
			_ = s.SaveMapping("name0-"+strFlavour(1, 0)+".myco", fakeAddr(99).IP)
		}},
		{"DeleteMapping(known)", func(s *storage.JSONFileStorage) { _ = s.DeleteMapping("name1-" + strFlavour(1, 1) + ".myco") }},
		{"QueryMappings", func(s *storage.JSONFileStorage) { _, _ = s.QueryMappings("name") }},
		{"Prune(2)", func(s *storage.JSONFileStorage) { s.Prune(2) }},
		// everything the loaded state holds is deleted: the EMPTY state must replace the file's content.
		{"DeleteEverything", func(s *storage.JSONFileStorage) {
			for i := 0; i < 5; i++ {
				_ = s.DeleteRouter(fakeAddr(i + 1000).IP)
			}
			ms, _ := s.QueryMappings("")
			for _, mp := range ms {
				_ = s.DeleteMapping(mp.Domain)
			}
		}},
		{"Size", func(s *storage.JSONFileStorage) { _ = s.Size() }},
		{"nothing", func(s *storage.JSONFileStorage) {}},
	}
	var seqs [][]int
	seqs = append(seqs, nil)
	for i := range sops {
		seqs = append(seqs, []int{i})
		for j := range sops {
			seqs = append(seqs, []int{i, j})
		}
	}
	for _, sq := range seqs {
		caseNo++
		if !env.Mine(caseNo) {
			continue
		}
		vos.Reset()
		s0, err := load()
		if err != nil {
			t.Fatal(err)
		}
		populate(s0, spec{"p", 5, 2, 1})
		if err := s0.Stop(); err != nil {
			t.Fatal(err)
		}
		s1, err := load()
		if err != nil {
			t.Fatal(err)
		}
		var names []string
		for _, oi := range sq {
			sops[oi].do(s1)
			names = append(names, sops[oi].name)
		}
		want := contentOf(s1)
		evals++
		nontrivial++
		if err := s1.Stop(); err != nil {
			rep.Violate("session/save-failed", fmt.Sprintf("%v after %v", err, names), names)
			continue
		}
		s2, err := load()
		switch {
		case err != nil:
			rep.Violate("session/load-failed", fmt.Sprintf("state does not load after a session with operations %v: %v", names, err), names)
		case contentOf(s2) != want:
			rep.Violate("session/content-differs", fmt.Sprintf("state differs after load, operations %v, shutdown, load (first difference near %q)", names, firstDiff(contentOf(s2), want)), names)
		default:
			rep.Outcome("session-roundtrip/ok")
		}
	}
	rep.Bounds["states"] = len(specs) + len(bulk)
	rep.Bounds["previous_file_situations"] = len(prevs)
	{
		e := shutdownWindow(t, rep, env)
		evals += e
		nontrivial += e
	}
	rep.Add(evals, nontrivial, 0, 0)
	if err := rep.Finish(env); err != nil {
		t.Fatal(err)
	}
}

func firstDiff(a, b string) string {
	for i := 0; i < len(a) && i < len(b); i++ {
		if a[i] != b[i] {
			lo := i - 20
			if lo < 0 {
				lo = 0
			}
			hi := i + 20
			if hi > len(a) {
				hi = len(a)
			}
			return a[lo:hi]
		}
	}
	return "(length)"
}
