// C18, shutdown window: state that a worker of the running router stores
// successfully while the shutdown is under way - after Stop was called, before
// the worker's own module has ended - must be in the state file the next start
// reads. A real relay-only instance with a JSON state file (on the in-memory
// file system of this check) is started; workers registered on the managers of
// its state, peering, switch and router modules wait for their module's
// shutdown signal and then store a router record and a domain mapping, the way
// a frame handler that is finishing its last frame does. Every module x
// {router record, mapping, both} is one case.
package c18

import (
	"fmt"
	"net/netip"
	"testing"
	"time"

	"verif/kit"

	"github.com/mycoria/mycoria"
	"github.com/mycoria/mycoria/config"
	"github.com/mycoria/mycoria/mgr"
	"github.com/mycoria/mycoria/storage"
)

func shutdownWindow(t *testing.T, rep *kit.Report, env kit.Env) (evals int64) {
	ids := kit.RoutablePool("c18-inst", 1)
	for mi, module := range []string{"state", "peering", "switch", "router"} {
		for wi, what := range []string{"router-record", "mapping", "both"} {
			if !env.Mine(9000 + mi*3 + wi) {
				continue
			}
			statePath := fmt.Sprintf("/c18-shutdown/state-%s-%s.json", module, what)
			st := config.Store{}
			st.Router.Address = ids[0].Store()
			st.System.DisableTun = true
			st.System.StatePath = statePath
			st.Router.Connect = []string{"tcp://127.0.0.1:9"} // nobody answers there; the router just runs
			cfg, err := st.Parse()
			if err != nil {
				rep.Violate("shutdown-window/config", err.Error(), nil)
				continue
			}
			var inst *mycoria.Instance
			if pan, pv := kit.Try(func() { inst, err = mycoria.New("verif", cfg) }); pan || err != nil {
				rep.Violate("shutdown-window/new-failed", fmt.Sprintf("constructing a relay-only router with a json state file failed: %v %v", pv, err), nil)
				continue
			}
			if err := inst.Start(); err != nil {
				rep.Violate("shutdown-window/start-failed", err.Error(), nil)
				continue
			}
			var mg *mgr.Manager
			switch module {
			case "state":
				mg = inst.State().Manager()
			case "peering":
				mg = inst.Peering().Manager()
			case "switch":
				mg = inst.Switch().Manager()
			default:
				mg = inst.Router().Manager()
			}
			late := fakeAddr(4000 + mi*10 + wi)
			lateIP := late.IP
			domain := fmt.Sprintf("late-%s-%s.myco", module, what)
			mapIP := netip.MustParseAddr("fd10:aaaa::77")
			stored := make(chan error, 1)
			running := make(chan struct{})
			mg.Go("finishing its last frame", func(w *mgr.WorkerCtx) error {
				close(running) // the manager counts this worker from here on: Stop waits for it
				<-w.Done()
				var err error
				if what != "mapping" {
					err = inst.Storage().SaveRouter(&storage.StoredRouter{Address: late, CreatedAt: time.Now()})
				}
				if err == nil && what != "router-record" {
					err = inst.Storage().SaveMapping(domain, mapIP)
				}
				stored <- err
				return nil
			})
			select {
			case <-running:
			case <-time.After(120 * time.Second):
				rep.Violate("shutdown-window/worker-never-started", "a worker registered on the "+module+" module's manager did not start within two minutes", nil)
				continue
			}
			stoppedOK := inst.Stop()
			evals++
			var serr error
			select {
			case serr = <-stored:
			case <-time.After(60 * time.Second):
				rep.Violate("shutdown-window/worker-never-signalled", "a worker of the "+module+" module never saw its shutdown signal", nil)
				continue
			}
			if !stoppedOK || serr != nil {
				// the store was refused or the stop failed: nothing was promised.
				rep.Outcome(fmt.Sprintf("shutdown-window/not-stored(stop=%v,err=%v)", stoppedOK, serr))
				continue
			}
			re, err := storage.NewJSONFileStorage(statePath)
			if err != nil {
				rep.Violate("shutdown-window/reload-failed", fmt.Sprintf("state file written at shutdown does not load: %v", err), nil)
				continue
			}
			if what != "mapping" {
				if r, err := re.GetRouter(lateIP); err != nil || r == nil {
					rep.Violate("shutdown-window/router-record-lost/"+module, fmt.Sprintf("a router record stored successfully by a worker of the %s module while the shutdown was under way is missing from the state file the next start reads", module), map[string]any{"module": module, "what": what})
					rep.Outcome("shutdown-window/lost!")
					continue
				}
			}
			if what != "router-record" {
				if ip, err := re.GetMapping(domain); err != nil || ip != mapIP {
					rep.Violate("shutdown-window/mapping-lost/"+module, fmt.Sprintf("a domain mapping stored successfully by a worker of the %s module while the shutdown was under way is missing from the state file the next start reads", module), map[string]any{"module": module, "what": what})
					rep.Outcome("shutdown-window/lost!")
					continue
				}
			}
			rep.Outcome("shutdown-window/persisted")
		}
	}
	return evals
}
