package c15

import (
	"fmt"
	"testing"

	"verif/kit"

	"github.com/mycoria/mycoria/peering"
	"github.com/mycoria/mycoria/state"
)

// (d) link frames around the wrap: N frames sealed in order by one link end
// with the regular counter preset so that the wrap falls at every position,
// delivered in order and under every permutation with displacement <= D,
// against a reference receiver with an explicit key epoch; afterwards a fresh
// frame must still unseal (both ends on the same next key).
func runLinkTier(t *testing.T, rep *kit.Report, env kit.Env) {
	n, maxDisp := 6, 2
	if env.Thorough() {
		n, maxDisp = 7, 4
	}
	rep.Bounds["link_frames"] = n
	rep.Bounds["link_max_displacement"] = maxDisp
	perms := permutations(n, maxDisp)
	var evals, nontrivial, transitions int64
	caseNo := 0
	for k := -2; k <= n+1; k++ { // frames still fitting before the wrap
		for pi, perm := range perms {
			caseNo++
			if !env.Mine(caseNo) {
				continue
			}
			lout, lin := state.NewEncryptionSession(), state.NewEncryptionSession()
			if err := kit.KeyPair(lout, lin); err != nil {
				panic(err)
			}
			regl := uint32(int64(0xFFFFFFFF) - int64(k))
			lh := &state.EncryptionSessionTestHelper{EncryptionSession: lout}
			lh.ReglSetOut(regl)
			_ = (&state.EncryptionSessionTestHelper{EncryptionSession: lin}).ReglSeq().Check(regl)
			key0 := kit.Hash(lh.OutKey())
			type lf struct {
				seq   uint32
				epoch int
				wire  []byte
			}
			seal := func(tag string) (lf, error) {
				buf := make([]byte, peering.FrameOffset+30+peering.FrameOverhead)
				copy(buf[peering.FrameOffset:], tag)
				if err := peering.LinkFrame(buf).Seal(lout); err != nil {
					return lf{}, err
				}
				f := lf{seq: peering.LinkFrame(buf).SequenceNum(), wire: buf}
				if kit.Hash(lh.OutKey()) != key0 {
					f.epoch = 1
				}
				return f, nil
			}
			desc := fmt.Sprintf("link frames, regular counter preset to %#x, delivery order %v", regl, perm)
			var frames []lf
			crossed := false
			failed := false
			for i := 0; i < n; i++ {
				f, err := seal(fmt.Sprintf("link-%d", i))
				if err != nil {
					rep.Violate("link/seal-failed", fmt.Sprintf("Seal of link frame %d failed: %v; %s", i, err, desc), desc)
					failed = true
					break
				}
				if f.epoch == 1 {
					crossed = true
				}
				frames = append(frames, f)
			}
			if failed {
				continue
			}
			evals++
			if crossed || pi > 0 {
				nontrivial++
			}
			epochNow := 0
			accepted := map[int]bool{}
			for _, idx := range perm {
				f := frames[idx]
				err := peering.LinkFrame(append([]byte(nil), f.wire...)).Unseal(lin)
				transitions++
				if f.epoch == 1 {
					epochNow = 1
				}
				must := f.epoch == epochNow && !accepted[idx]
				switch {
				case err == nil && accepted[idx]:
					rep.Violate("link/reorder/accepted-twice", fmt.Sprintf("link frame %d accepted twice; %s", idx, desc), desc)
				case err == nil && f.epoch != epochNow:
					rep.Violate("link/reorder/wrong-epoch-accepted", fmt.Sprintf("link frame %d of key epoch %d accepted while the receiver is in epoch %d; %s", idx, f.epoch, epochNow, desc), desc)
				case err != nil && must:
					rep.Violate("link/reorder/in-window-rejected", fmt.Sprintf("link frame %d (seq %d epoch %d) rejected (%v) although in the receiver's epoch and window; %s", idx, f.seq, f.epoch, err, desc), map[string]any{"regl": regl, "perm": perm})
				}
				if err == nil {
					accepted[idx] = true
				}
			}
			// both ends still on the same key: two more frames in order.
			for i := 0; i < 2; i++ {
				f, err := seal(fmt.Sprintf("after-%d", i))
				if err != nil {
					rep.Violate("link/seal-failed", fmt.Sprintf("Seal after the run failed: %v; %s", err, desc), desc)
					break
				}
				if f.epoch == 1 {
					epochNow = 1
				}
				if err := peering.LinkFrame(append([]byte(nil), f.wire...)).Unseal(lin); err != nil && f.epoch == epochNow {
					rep.Violate("link/keys-out-of-sync", fmt.Sprintf("a link frame sealed after the run (seq %d) does not unseal: %v; %s", f.seq, err, desc), map[string]any{"regl": regl, "perm": perm})
				}
			}
			rep.Outcome(fmt.Sprintf("link/crossed-wrap=%v", crossed))
		}
	}
	rep.Add(evals, nontrivial, 0, transitions)
}

// (d2) both directions of one link session pair around their wraps: every
// sequence of length L over {A seals, B seals} with both regular counters preset
// so that A's wrap falls after ka and B's after kb frames. Every frame must
// unseal at the other end at once, and must NOT unseal at the end that sealed
// it (the two directions never share a key, before or after any rollover).
func runLinkDuplexTier(t *testing.T, rep *kit.Report, env kit.Env) {
	L := 6
	if env.Thorough() {
		L = 8
	}
	rep.Bounds["link_duplex_length"] = L
	var evals, nontrivial, transitions int64
	caseNo := 0
	for ka := 0; ka <= 3; ka++ {
		for kb := 0; kb <= 3; kb++ {
			for code := 0; code < 1<<L; code++ {
				caseNo++
				if !env.Mine(caseNo) {
					continue
				}
				la, lb := state.NewEncryptionSession(), state.NewEncryptionSession()
				if err := kit.KeyPair(la, lb); err != nil {
					panic(err)
				}
				ha := &state.EncryptionSessionTestHelper{EncryptionSession: la}
				hb := &state.EncryptionSessionTestHelper{EncryptionSession: lb}
				ra := uint32(int64(0xFFFFFFFF) - int64(ka))
				rb := uint32(int64(0xFFFFFFFF) - int64(kb))
				ha.ReglSetOut(ra)
				_ = hb.ReglSeq().Check(ra)
				hb.ReglSetOut(rb)
				_ = ha.ReglSeq().Check(rb)
				var evs []string
				for i := 0; i < L; i++ {
					from, to, name := la, lb, "A"
					if code>>i&1 == 1 {
						from, to, name = lb, la, "B"
					}
					evs = append(evs, name)
					desc := fmt.Sprintf("link session pair, A's regular counter preset to %#x, B's to %#x, seal order %v", ra, rb, evs)
					buf := make([]byte, peering.FrameOffset+30+peering.FrameOverhead)
					copy(buf[peering.FrameOffset:], fmt.Sprintf("duplex-%d", i))
					if err := peering.LinkFrame(buf).Seal(from); err != nil {
						rep.Violate("link-duplex/seal-failed", fmt.Sprintf("Seal of frame %d failed: %v; %s", i, err, desc), desc)
						break
					}
					transitions++
					if err := peering.LinkFrame(append([]byte(nil), buf...)).Unseal(from); err == nil {
						rep.Violate("link-duplex/reflected-frame-accepted", fmt.Sprintf("frame %d (seq %d) sealed by %s unseals at %s itself: the two directions share a key; %s", i, peering.LinkFrame(buf).SequenceNum(), name, name, desc), desc)
						rep.Outcome("link-duplex/reflection-accepted!")
					}
					if err := peering.LinkFrame(append([]byte(nil), buf...)).Unseal(to); err != nil {
						rep.Violate("link-duplex/in-order-rejected", fmt.Sprintf("frame %d (seq %d) sealed by %s and delivered at once does not unseal: %v; %s", i, peering.LinkFrame(buf).SequenceNum(), name, err, desc), desc)
						break
					}
				}
				evals++
				nontrivial++
				rep.Outcome("link-duplex/ok")
			}
		}
	}
	rep.Add(evals, nontrivial, 0, transitions)
}
