// C15: sequence numbers never repeat under one key; key rollover stays in sync.
//
// (a) schedx: controlled-scheduler exploration of concurrent Seal calls (see
// sched_test.go). (b) seqx: sender offsets around the 32-bit wrap, all mixes of
// regular / priority frames, all bounded reorderings, against a reference
// receiver with an explicit key epoch.
package c15

import (
	"fmt"
	"testing"

	"verif/kit"

	"github.com/mycoria/mycoria/frame"
	"github.com/mycoria/mycoria/state"
)

type sent struct {
	kind  byte // 'R' or 'P'
	seq   uint32
	epoch int
	wire  []byte
	err   error
}

// sendRun seals the mix starting from the preset counter and returns the frames.
// senderIsKXServer selects which side of the key exchange the sending router was.
var senderIsKXServer bool

func sendRun(regl uint32, mix string) (frames []sent, b *kit.Node, sb *state.Session, sa *state.Session) {
	a, err := kit.NewNode(kit.NodeOpts{Name: "A", ID: pool[0], StateOnly: true})
	if err != nil {
		panic(err)
	}
	b, err = kit.NewNode(kit.NodeOpts{Name: "B", ID: pool[1], StateOnly: true})
	if err != nil {
		panic(err)
	}
	if senderIsKXServer {
		err = kit.KeySessions(b, a)
	} else {
		err = kit.KeySessions(a, b)
	}
	if err != nil {
		panic(err)
	}
	sa = a.State().GetSession(pool[1].IP)
	sb = b.State().GetSession(pool[0].IP)
	h := &state.EncryptionSessionTestHelper{EncryptionSession: sa.Encryption()}
	h.ReglSetOut(regl)
	h.PrioSetOut(300)
	hb := &state.EncryptionSessionTestHelper{EncryptionSession: sb.Encryption()}
	if regl > 0 {
		_ = hb.ReglSeq().Check(regl)
	}
	_ = hb.PrioSeq().Check(300)
	key0 := kit.Hash(h.OutKey())
	for i := 0; i < len(mix); i++ {
		mt := frame.NetworkTraffic
		if mix[i] == 'P' {
			mt = frame.RouterCtrl
		}
		f, err := a.FrameBuilder().NewFrameV1(pool[0].IP, pool[1].IP, mt, nil, []byte(fmt.Sprintf("frame-%d-%c", i, mix[i])), nil)
		if err != nil {
			panic(err)
		}
		s := sent{kind: mix[i]}
		s.err = f.Seal(sa)
		if s.err == nil {
			s.seq = f.SequenceNum()
			d, _ := f.FrameDataWithMargins(0, 0)
			s.wire = append([]byte(nil), d...)
			if kit.Hash(h.OutKey()) != key0 {
				s.epoch = 1
			}
		}
		f.ReturnToPool()
		frames = append(frames, s)
	}
	return
}

func unsealAt(b *kit.Node, sb *state.Session, wire []byte) error {
	g, err := b.FrameBuilder().ParseFrame(append([]byte(nil), wire...), nil, 0)
	if err != nil {
		return err
	}
	return g.Unseal(sb)
}

func runSeqTier(t *testing.T, rep *kit.Report, env kit.Env) {
	span := 40
	mixLen := 5
	maxDisp := 3
	if env.Thorough() {
		span, mixLen, maxDisp = 300, 6, 8
	}
	rep.Bounds["wrap_offsets"] = fmt.Sprintf("2^32 - %d .. 2^32 + %d", span, span)
	rep.Bounds["mix_length"] = mixLen
	rep.Bounds["max_displacement"] = maxDisp
	// all mixes over {R,P}^mixLen.
	var mixes []string
	for m := 0; m < 1<<mixLen; m++ {
		b := make([]byte, mixLen)
		for i := range b {
			b[i] = 'R'
			if m&(1<<i) != 0 {
				b[i] = 'P'
			}
		}
		mixes = append(mixes, string(b))
	}
	var evals, nontrivial, transitions int64
	states := map[string]bool{}
	caseNo := 0
	for _, role := range []bool{false, true} {
		senderIsKXServer = role
		for off := -span; off <= span; off++ {
			regl := uint32(int64(0xFFFFFFFF) + int64(off) - int64(mixLen/2))
			for _, mix := range mixes {
				caseNo++
				if !env.Mine(caseNo) {
					continue
				}
				// ---- in-order delivery.
				frames, b, sb, sa := sendRun(regl, mix)
				evals++
				desc := fmt.Sprintf("regular counter preset to %#x, mix %s, sender was key-exchange server=%v", regl, mix, senderIsKXServer)
				seen := map[string]bool{}
				crossed := false
				for i, f := range frames {
					if f.err != nil {
						rep.Violate("seq/seal-failed", fmt.Sprintf("Seal failed: %v; %s", f.err, desc), desc)
						continue
					}
					if f.epoch == 1 {
						crossed = true
					}
					k := fmt.Sprintf("%d/%c/%d", f.epoch, f.kind, f.seq)
					if seen[k] {
						rep.Violate("seq/sequence-number-reused", fmt.Sprintf("frame %d reuses sequence number %d of class %c under one key; %s", i, f.seq, f.kind, desc), desc)
					}
					seen[k] = true
					if f.seq == 0 {
						rep.Violate("seq/zero-sequence-number", "a frame was sealed with sequence number 0; "+desc, desc)
					}
					if err := unsealAt(b, sb, f.wire); err != nil {
						rep.Violate("seq/in-order-rejected", fmt.Sprintf("frame %d (%c seq %d epoch %d) delivered in order does not unseal: %v; %s", i, f.kind, f.seq, f.epoch, err, desc), map[string]any{"regl": regl, "mix": mix, "frame": i})
					}
					transitions++
					// replay must be rejected.
					if err := unsealAt(b, sb, f.wire); err == nil {
						rep.Violate("seq/replay-accepted", fmt.Sprintf("frame %d accepted twice; %s", i, desc), desc)
					}
				}
				if crossed {
					nontrivial++
					ha := &state.EncryptionSessionTestHelper{EncryptionSession: sa.Encryption()}
					hb := &state.EncryptionSessionTestHelper{EncryptionSession: sb.Encryption()}
					if string(ha.OutKey()) != string(hb.InKey()) {
						rep.Violate("seq/keys-out-of-sync", "after the wrap the sender's out key differs from the receiver's in key; "+desc, desc)
					}
					// priority sequence restarted on both sides: a fresh priority frame must unseal.
					post, _, _, _ := sendRunContinue(sa, b, sb)
					if post != nil {
						rep.Violate("seq/post-wrap-priority-rejected", fmt.Sprintf("a priority frame sealed after the wrap does not unseal: %v; %s", post, desc), desc)
					}
					// frames of the previous key must no longer unseal.
					for i, f := range frames {
						if f.epoch == 0 && f.err == nil {
							if err := unsealAt(b, sb, f.wire); err == nil {
								rep.Violate("seq/old-key-frame-accepted", fmt.Sprintf("frame %d sealed under the previous key unsealed after the switch; %s", i, desc), desc)
							}
						}
					}
				}
				states[fmt.Sprintf("%v/%d", crossed, len(seen))] = true
				rep.Outcome(fmt.Sprintf("in-order/crossed-wrap=%v", crossed))

				// ---- bounded reorderings (only for regular-only and alternating mixes to keep the product finite).
				if mix != mixes[0] && mix != "RPRPRP"[:mixLen] && mix != "RRPRR"+"R"[:mixLen-5] {
					continue
				}
				perms := permutations(len(frames), maxDisp)
				for _, perm := range perms {
					frames, b, sb, _ := sendRun(regl, mix)
					evals++
					nontrivial++
					epochNow := 0
					accepted := map[int]bool{}
					for _, idx := range perm {
						f := frames[idx]
						if f.err != nil {
							continue
						}
						err := unsealAt(b, sb, f.wire)
						transitions++
						// reference receiver with explicit epoch.
						if f.kind == 'R' && f.epoch == 1 {
							epochNow = 1
						}
						must := f.epoch == epochNow && !accepted[idx]
						if f.kind == 'P' && f.epoch == 1 && epochNow == 0 {
							must = false
						}
						switch {
						case err == nil && accepted[idx]:
							rep.Violate("seq/reorder/accepted-twice", fmt.Sprintf("frame %d accepted twice under permutation %v; %s", idx, perm, desc), desc)
						case err == nil && f.epoch != epochNow:
							rep.Violate("seq/reorder/wrong-epoch-accepted", fmt.Sprintf("frame %d of key epoch %d accepted while the receiver is in epoch %d; permutation %v; %s", idx, f.epoch, epochNow, perm, desc), desc)
						case err != nil && must && withinWindow(frames, perm, idx):
							rep.Violate("seq/reorder/in-window-rejected", fmt.Sprintf("frame %d (%c seq %d epoch %d) rejected (%v) although in the receiver's epoch and window; permutation %v; %s", idx, f.kind, f.seq, f.epoch, err, perm, desc), map[string]any{"regl": regl, "mix": mix, "perm": perm})
						}
						if err == nil {
							accepted[idx] = true
						}
					}
				}
				rep.Outcome("reordered")
			}
		}
	}
	rep.Add(evals, nontrivial, int64(len(states)), transitions)
}

// withinWindow: with displacement <= 8 every frame is within 64 of the newest one.
func withinWindow(frames []sent, perm []int, idx int) bool { return true }

// sendRunContinue seals one more priority and one more regular frame on the same sessions.
func sendRunContinue(sa *state.Session, b *kit.Node, sb *state.Session) (error, int, int, int) {
	a, err := kit.NewNode(kit.NodeOpts{Name: "A2", ID: pool[0], StateOnly: true})
	if err != nil {
		panic(err)
	}
	for _, mt := range []frame.MessageType{frame.RouterCtrl, frame.NetworkTraffic} {
		f, err := a.FrameBuilder().NewFrameV1(pool[0].IP, pool[1].IP, mt, nil, []byte("post-wrap"), nil)
		if err != nil {
			panic(err)
		}
		if err := f.Seal(sa); err != nil {
			return err, 0, 0, 0
		}
		d, _ := f.FrameDataWithMargins(0, 0)
		if err := unsealAt(b, sb, d); err != nil {
			return err, 0, 0, 0
		}
	}
	return nil, 0, 0, 0
}

// permutations returns all permutations of 0..n-1 in which no element is
// displaced by more than d positions.
func permutations(n, d int) [][]int {
	var out [][]int
	used := make([]bool, n)
	cur := make([]int, 0, n)
	var rec func()
	rec = func() {
		if len(cur) == n {
			out = append(out, append([]int(nil), cur...))
			return
		}
		pos := len(cur)
		for v := 0; v < n; v++ {
			if used[v] || v-pos > d || pos-v > d {
				continue
			}
			used[v] = true
			cur = append(cur, v)
			rec()
			cur = cur[:len(cur)-1]
			used[v] = false
		}
	}
	rec()
	return out
}

func TestC15(t *testing.T) {
	env := kit.GetEnv()
	rep := kit.NewReport("C15", env)
	rep.Rule = "(a) controlled scheduler: 2-3 threads x 1-2 real Seal calls (regular / priority end-to-end frames, link frames) on ONE shared session with the out counters preset to {5, 2^32-3, 2^32-2, 2^32-1}; scheduling points at every Mutex, atomic and Pool operation of the state and frame packages (imports rewritten to shims); ALL schedules with at most B preemptions (iterative preemption bounding); per execution: no two frames of a class share (key, sequence number), every frame unseals at the receiver when delivered in (epoch, sequence) order, no deadlock/panic; (b) sequential, for both key-exchange roles of the sender: regular counter presets 2^32-S..2^32+S x all {R,P} mixes of length L sealed by the real sender and delivered in order (all must unseal, replays rejected, after the wrap keys in sync, fresh priority frame unseals, old-key frames rejected) and under every permutation with displacement <= D for selected mixes, against a reference receiver with an explicit key epoch; (e) every sequence of length L over {A,B} x {regular, priority} sends and FAILED key setups on the live sessions (an answer nobody asked for, a low-order key, a wrong exchange type): no number repeats under a key, every frame unseals; (d) link frames: N frames sealed in order with the wrap at every position, delivered under every permutation with displacement <= D against a reference receiver with an explicit key epoch, then two more frames in order (same next key on both ends); (c) duplex, both key-exchange roles: every sequence of length L over {A,B} x {regular, priority} sends, each delivered at once, with A's regular counter preset so that the wrap falls at every position (B's counters mid-life): no (sender, class, key, sequence number) repeats - counting the numbers used before the run -, every frame unseals, and every frame delivered earlier is rejected when replayed after each later event; (f) three whole key epochs in a row on one session (link frames and end-to-end regular frames, both key-exchange roles): frames around sequence number 255, then the counters 0..254 numbers before the wrap, replays of the frames recorded around 255 (refused, session undisturbed), then on across the wrap in order; link-session duplex tier: every seal order of length 6 (thorough 8) over both ends of one link session pair with both wraps 0..3 frames ahead - each frame unseals at the other end at once and never at its own sender; non-trivial = schedules (a) and wrap-crossing or reordered runs (b); states (a) = distinct assignments of sequence numbers to threads observed"
	rep.Assumptions = []string{
		"scheduling points are the synchronisation operations of the state and frame packages; unsynchronised accesses between them would need a separate free-running race-detector pass (supporting evidence only)",
		"the receiver is driven sequentially; delivery across the key switch is in (epoch, sequence) order because the statement does not promise cross-epoch reordering",
		"a priority class wrapping on its own is refused by the sender and outside the claim",
	}
	runSchedTier(t, rep, env)
	runSeqTier(t, rep, env)
	runDuplexTier(t, rep, env)
	runLinkTier(t, rep, env)
	runEpochTier(t, rep, env)
	runLinkDuplexTier(t, rep, env)
	runFailedSetupTier(t, rep, env)
	if err := rep.Finish(env); err != nil {
		t.Fatal(err)
	}
}
