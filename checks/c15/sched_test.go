// C15 part (a): all interleavings (up to a preemption bound) of concurrent Seal
// calls on one shared session, on the real state and frame packages compiled
// with their sync / sync/atomic imports rewritten to the controlled-scheduler
// shims.
package c15

import (
	"fmt"
	"sort"
	"strings"
	"sync"
	"testing"

	"verif/kit"
	"verif/schedx"

	"github.com/mycoria/mycoria/frame"
	"github.com/mycoria/mycoria/peering"
	"github.com/mycoria/mycoria/state"
	"github.com/mycoria/mycoria/zz_verif/sched"
)

var pool = kit.RoutablePool("c15", 2)

type sealOp struct {
	kind string // "R" regular e2e, "P" priority e2e, "L" link frame
}

type schedScenario struct {
	name    string
	threads [][]sealOp
	regl    uint32 // preset regular out counter
	prio    uint32
	// serverSends: the sending router was the server side of the key exchange.
	serverSends bool
}

type sealed struct {
	thread int
	kind   string
	seq    uint32
	key    string
	wire   []byte
	err    error
	order  int
}

type execution struct {
	frames   []sealed
	res      sched.Result
	a, b     *kit.Node
	sb       *state.Session
	linkIn   *state.EncryptionSession
	key0     string // fingerprint of the sender's out key before the run
	linkKey0 string
}

func runSchedule(sc schedScenario, choices []int) *execution {
	ex, bodies := prepareSchedule(sc)
	ex.res = sched.Run(bodies, choices, 4000)
	return ex
}

// prepareSchedule builds fresh sessions and the thread bodies.
func prepareSchedule(sc schedScenario) (*execution, []func()) {
	var hmu sync.Mutex // harness bookkeeping (real mutex, no scheduling point)
	a, err := kit.NewNode(kit.NodeOpts{Name: "A", ID: pool[0], StateOnly: true})
	if err != nil {
		panic(err)
	}
	b, err := kit.NewNode(kit.NodeOpts{Name: "B", ID: pool[1], StateOnly: true})
	if err != nil {
		panic(err)
	}
	if sc.serverSends {
		err = kit.KeySessions(b, a)
	} else {
		err = kit.KeySessions(a, b)
	}
	if err != nil {
		panic(err)
	}
	sa := a.State().GetSession(pool[1].IP)
	sb := b.State().GetSession(pool[0].IP)
	h := &state.EncryptionSessionTestHelper{EncryptionSession: sa.Encryption()}
	h.ReglSetOut(sc.regl)
	h.PrioSetOut(sc.prio)
	// the receiver has already seen everything up to the preset counters.
	hb := &state.EncryptionSessionTestHelper{EncryptionSession: sb.Encryption()}
	if sc.regl > 0 {
		_ = hb.ReglSeq().Check(sc.regl)
	}
	if sc.prio > 0 {
		_ = hb.PrioSeq().Check(sc.prio)
	}
	// link-layer session pair.
	lout, lin := state.NewEncryptionSession(), state.NewEncryptionSession()
	if err := kit.KeyPair(lout, lin); err != nil {
		panic(err)
	}
	lh := &state.EncryptionSessionTestHelper{EncryptionSession: lout}
	lh.ReglSetOut(sc.regl)
	if sc.regl > 0 {
		_ = (&state.EncryptionSessionTestHelper{EncryptionSession: lin}).ReglSeq().Check(sc.regl)
	}

	ex := &execution{a: a, b: b, sb: sb, linkIn: lin, key0: kit.Hash(h.OutKey()), linkKey0: kit.Hash(lh.OutKey())}
	order := 0
	var bodies []func()
	for ti, ops := range sc.threads {
		ti, ops := ti, ops
		bodies = append(bodies, func() {
			for _, op := range ops {
				s := sealed{thread: ti, kind: op.kind}
				switch op.kind {
				case "R", "P":
					mt := frame.NetworkTraffic
					if op.kind == "P" {
						mt = frame.RouterCtrl
					}
					f, err := a.FrameBuilder().NewFrameV1(pool[0].IP, pool[1].IP, mt, nil, []byte(fmt.Sprintf("payload-t%d-%s", ti, op.kind)), nil)
					if err != nil {
						panic(err)
					}
					s.err = f.Seal(sa)
					if s.err == nil {
						s.seq = f.SequenceNum()
						d, _ := f.FrameDataWithMargins(0, 0)
						s.wire = append([]byte(nil), d...)
					}
					f.ReturnToPool()
				case "L":
					buf := make([]byte, peering.FrameOffset+30+peering.FrameOverhead)
					copy(buf[peering.FrameOffset:], fmt.Sprintf("link-t%d", ti))
					s.err = peering.LinkFrame(buf).Seal(lout)
					if s.err == nil {
						s.seq = peering.LinkFrame(buf).SequenceNum()
						s.wire = buf
					}
				}
				hmu.Lock()
				s.order = order
				order++
				ex.frames = append(ex.frames, s)
				hmu.Unlock()
			}
		})
	}
	return ex, bodies
}

// epochOf determines the key epoch a frame was sealed in from its sequence
// number alone (reading the session's key after Seal returned would race with
// a rollover done by another thread): the counters are preset just below the
// wrap, so regular numbers above 2^31 and priority numbers above the preset
// belong to the old key, small ones to the next key.
func epochOf(sc schedScenario, f sealed) int {
	if sc.regl < 0x80000000 {
		return 0 // no wrap in this scenario
	}
	switch f.kind {
	case "P":
		if f.seq > sc.prio {
			return 0
		}
		return 1
	default:
		if f.seq >= 0x80000000 {
			return 0
		}
		return 1
	}
}

func classOf(k string) string {
	if k == "P" {
		return "prio"
	}
	return "regl"
}

func checkExecution(rep *kit.Report, sc schedScenario, ex *execution, choices []int) (signature string) {
	replay := map[string]any{"scenario": sc.name, "choices": choices}
	if ex.res.Deadlock {
		rep.Violate(sc.name+"/deadlock", fmt.Sprintf("deadlock under schedule %v", choices), replay)
	}
	for _, p := range ex.res.Panics {
		rep.Violate(sc.name+"/panic", fmt.Sprintf("panic %s under schedule %v", p, choices), replay)
	}
	// (1) no two frames of one class share (receiver-visible key epoch, sequence number).
	// The key epoch is established by delivery below; first the cheap necessary check
	// on the sender's own view:
	seen := map[string]int{}
	var sig []string
	for _, f := range ex.frames {
		if f.err != nil {
			sig = append(sig, fmt.Sprintf("t%d%s:err", f.thread, f.kind))
			continue
		}
		sig = append(sig, fmt.Sprintf("t%d%s:%d", f.thread, f.kind, f.seq))
		cls := classOf(f.kind)
		if f.kind == "L" {
			cls = "link"
		}
		k := fmt.Sprintf("epoch%d/%s/%d", epochOf(sc, f), cls, f.seq)
		seen[k]++
		if seen[k] == 2 {
			rep.Violate(sc.name+"/sequence-number-reused", fmt.Sprintf("two %s frames sealed under the same key carry sequence number %d (nonce reuse) under schedule %v", cls, f.seq, choices), replay)
		}
	}
	// (2) delivered in seal order every frame unseals at the receiver.
	// Deliver in seal order = (key epoch, sequence number); within the new epoch
	// regular frames first, because only a regular frame moves the receiver to
	// the next key (a limitation the statement accepts: cross-epoch reordering
	// is not promised).
	frames := append([]sealed(nil), ex.frames...)
	epoch := func(f sealed) int { return epochOf(sc, f) }
	rank := func(f sealed) int {
		if epoch(f) == 1 && f.kind == "P" {
			return 1
		}
		return 0
	}
	sort.SliceStable(frames, func(i, j int) bool {
		a, b := frames[i], frames[j]
		if epoch(a) != epoch(b) {
			return epoch(a) < epoch(b)
		}
		if rank(a) != rank(b) {
			return rank(a) < rank(b)
		}
		return a.seq < b.seq
	})
	for _, f := range frames {
		if f.err != nil {
			if strings.Contains(f.err.Error(), "prio sequence handler requested key rollover") {
				continue // outside the claim
			}
			rep.Violate(sc.name+"/seal-failed", fmt.Sprintf("Seal failed: %v under schedule %v", f.err, choices), replay)
			continue
		}
		var err error
		if f.kind == "L" {
			err = peering.LinkFrame(append([]byte(nil), f.wire...)).Unseal(ex.linkIn)
		} else {
			var g frame.Frame
			g, err = ex.b.FrameBuilder().ParseFrame(append([]byte(nil), f.wire...), nil, 0)
			if err == nil {
				err = g.Unseal(ex.sb)
			}
		}
		if err != nil {
			// completion order may differ from sequence order by the threads' overlap;
			// only out-of-window / wrong-key failures matter: a frame at most
			// (#threads) positions late is inside the 64 window.
			rep.Violate(sc.name+"/receiver-rejects", fmt.Sprintf("a frame sealed concurrently (thread %d, %s, seq %d) does not unseal at the receiver: %v; schedule %v", f.thread, f.kind, f.seq, err, choices), replay)
		}
	}
	return strings.Join(sig, " ")
}

// exploreSchedules is the iterative preemption-bounded DFS.
var gateRuns int64

func exploreSchedules(rep *kit.Report, env kit.Env, sc schedScenario, bound int, shardBase int) (execs, points int64, outcomes map[string]bool, capped bool) {
	outcomes = map[string]bool{}
	var rec func(prefix []int, depth int)
	top := 0
	rec = func(prefix []int, depth int) {
		if env.Expired() {
			capped = true
			return
		}
		ex := runSchedule(sc, prefix)
		execs++
		points += int64(len(ex.res.Points))
		if ex.res.Diverged != "" {
			rep.Violate(sc.name+"/harness-divergence", "replay of a schedule prefix diverged: "+ex.res.Diverged, prefix)
			return
		}
		sig := checkExecution(rep, sc, ex, prefix)
		outcomes[sig] = true
		// determinism gate: the same decision prefix must reproduce the same
		// observations (checked on 1 in 64 executions and on the first ones).
		if execs <= 3 || execs%64 == 0 {
			ex2 := runSchedule(sc, prefix)
			sig2 := ""
			for _, f := range ex2.frames {
				if f.err != nil {
					sig2 += fmt.Sprintf("t%d%s:err ", f.thread, f.kind)
				} else {
					sig2 += fmt.Sprintf("t%d%s:%d ", f.thread, f.kind, f.seq)
				}
			}
			if strings.TrimSpace(sig2) != sig || len(ex2.res.Points) != len(ex.res.Points) {
				rep.Violate(sc.name+"/harness-nondeterminism", fmt.Sprintf("replaying schedule %v gave different observations (%q vs %q): uncontrolled nondeterminism in the harness", prefix, sig, strings.TrimSpace(sig2)), prefix)
			}
			gateRuns++
		}
		if execs%20000 == 1 {
			rep.Sample(map[string]any{"scenario": sc.name, "choices": append([]int(nil), prefix...), "decision_points": len(ex.res.Points)})
		}
		pts := ex.res.Points
		// preemptions used before each point.
		cost := 0
		costs := make([]int, len(pts))
		for i, p := range pts {
			costs[i] = cost
			if p.Chosen != 0 && p.RunningEnabled {
				cost++
			}
		}
		for i := len(prefix); i < len(pts); i++ {
			p := pts[i]
			for alt := 1; alt < len(p.Enabled); alt++ {
				c := costs[i]
				if p.RunningEnabled {
					c++
				}
				if c > bound {
					continue
				}
				if depth == 0 {
					top++
					if !env.Mine(top + shardBase) {
						continue
					}
				}
				np := make([]int, i+1)
				for j := 0; j < i; j++ {
					np[j] = pts[j].Chosen
				}
				np[i] = alt
				rec(np, depth+1)
			}
		}
	}
	rec(nil, 0)
	return
}

func schedScenarios(thorough bool) []schedScenario {
	R, P, L := sealOp{"R"}, sealOp{"P"}, sealOp{"L"}
	var out []schedScenario
	add := func(name string, regl, prio uint32, th ...[]sealOp) {
		out = append(out, schedScenario{name: name, threads: th, regl: regl, prio: prio})
	}
	for _, preset := range []struct {
		n string
		r uint32
	}{{"low", 5}, {"wrap-3", 0xFFFFFFFD}, {"wrap-2", 0xFFFFFFFE}, {"wrap-1", 0xFFFFFFFF}} {
		add("2-threads/RR|RR/"+preset.n, preset.r, 300, []sealOp{R, R}, []sealOp{R, R})
		add("2-threads/RP|PR/"+preset.n, preset.r, 300, []sealOp{R, P}, []sealOp{P, R})
		add("3-threads/R|R|P/"+preset.n, preset.r, 300, []sealOp{R}, []sealOp{R}, []sealOp{P})
		add("2-threads/LL|LL/"+preset.n, preset.r, 300, []sealOp{L, L}, []sealOp{L, L})
		out = append(out, schedScenario{name: "2-threads/RP|PR/server-sends/" + preset.n, threads: [][]sealOp{{R, P}, {P, R}}, regl: preset.r, prio: 300, serverSends: true})
		if thorough {
			add("3-threads/RR|RP|PR/"+preset.n, preset.r, 300, []sealOp{R, R}, []sealOp{R, P}, []sealOp{P, R})
			add("3-threads/L|L|L/"+preset.n, preset.r, 300, []sealOp{L}, []sealOp{L}, []sealOp{L})
		}
	}
	return out
}

func runSchedTier(t *testing.T, rep *kit.Report, env kit.Env) {
	bound := 2
	if env.Thorough() {
		bound = 3
	}
	rep.Bounds["preemption_bound"] = bound
	base := 0
	for _, sc := range schedScenarios(env.Thorough()) {
		execs, points, outcomes, capped := exploreSchedules(rep, env, sc, bound, base)
		base += 3
		rep.Add(execs, execs, int64(len(outcomes)), points)
		if capped {
			rep.Cap(sc.name + ": time budget reached before all schedules within the preemption bound were explored")
		}
		rep.Outcome(fmt.Sprintf("%s: %d distinct sequence-number assignments", sc.name, len(outcomes)))
	}
	rep.Bounds["determinism_gate_double_runs"] = gateRuns
}

// TestC15Race: the concurrent Seal scenarios on free-running goroutines under
// the race detector (the statement quantifies over "all goroutine interleavings
// of concurrent Seal calls on one session (race-detector build)"); same oracles.
// Supporting evidence next to the exhaustive schedule enumeration.
func TestC15Race(t *testing.T) {
	env := kit.GetEnv()
	rep := kit.NewReport("C15", env)
	defer func() { _ = rep.Finish(env) }()
	iters := 150
	if env.Thorough() {
		iters = 2000
	}
	var n int64
	for _, sc := range schedScenarios(env.Thorough()) {
		for i := 0; i < iters && !env.Expired(); i++ {
			ex, bodies := prepareSchedule(sc)
			ex.res.Panics = schedx.FreeRun(bodies)
			sub := kit.NewReport("C15", env)
			checkExecution(sub, sc, ex, nil)
			for _, v := range sub.Violations {
				rep.Violate("free-running/"+v.Key, v.Detail, nil)
			}
			n++
		}
	}
	rep.Add(n, 0, 0, 0)
	rep.OutcomeN("free-running race-detector pass [iterations]", n)
}
