// C16, second engine: controlled-scheduler exploration of the link registry's
// critical sections. The peering and m packages are compiled with their sync /
// sync/atomic imports rewritten to the scheduler shims; harness threads call the
// real exported registry operations (AddLink, RemoveLink via Close, CloseLink,
// lookups) on virtual link objects; ALL schedules up to a preemption bound are
// explored and the registry invariant is evaluated when all threads are done.
package c16

import (
	"fmt"
	"net/netip"
	"sync"
	"testing"

	"verif/kit"
	"verif/schedx"

	"github.com/mycoria/mycoria/config"
	"github.com/mycoria/mycoria/m"
	"github.com/mycoria/mycoria/zz_verif/sched"
)

type regOp struct {
	kind string // add, close, mgrclose, lookup
	link int
	peer int
}

type regScenario struct {
	name  string
	links []struct {
		peer  int
		label m.SwitchLabel
	}
	threads [][]regOp
}

type regExec struct {
	res  sched.Result
	viol [][2]string
	sig  string
}

func runRegistry(sc regScenario, choices []int) *regExec {
	bodies, finish := prepareRegistry(sc)
	ex := &regExec{}
	ex.res = sched.Run(bodies, choices, 3000)
	finish(ex)
	return ex
}

// prepareRegistry builds a fresh router with its virtual links and returns the
// thread bodies plus the invariant check to run when they are done.
func prepareRegistry(sc regScenario) (bodies []func(), finish func(ex *regExec)) {
	var hmu sync.Mutex // harness bookkeeping (real mutex, no scheduling point)
	r, err := kit.NewNode(kit.NodeOpts{Name: "R", ID: pool[0], Store: config.Store{}})
	if err != nil {
		panic(err)
	}
	peers := []*kit.Node{}
	for i := 1; i <= 2; i++ {
		p, err := kit.NewNode(kit.NodeOpts{Name: fmt.Sprintf("P%d", i), ID: pool[i], Store: config.Store{}})
		if err != nil {
			panic(err)
		}
		peers = append(peers, p)
	}
	w := kit.NewWorld()
	var links []*kit.VLink
	added := make([]bool, len(sc.links))
	closed := make([]bool, len(sc.links))
	for _, ls := range sc.links {
		links = append(links, &kit.VLink{W: w, From: r, To: peers[ls.peer], Label: ls.label, Lat: 5})
	}
	for _, ops := range sc.threads {
		ops := ops
		bodies = append(bodies, func() {
			for _, op := range ops {
				switch op.kind {
				case "add":
					if err := r.Peering().AddLink(links[op.link]); err == nil {
						hmu.Lock()
						added[op.link] = true
						hmu.Unlock()
					}
				case "close":
					// like LinkBase.Close: mark closing, then unregister.
					hmu.Lock()
					closed[op.link] = true
					hmu.Unlock()
					links[op.link].Close(nil)
				case "mgrclose":
					ip := peers[op.peer].Identity().IP
					// the manager closes whatever link it finds for the peer.
					if l := r.Peering().GetLink(ip); l != nil {
						hmu.Lock()
						for i := range links {
							if links[i] == l {
								closed[i] = true
							}
						}
						hmu.Unlock()
					}
					r.Peering().CloseLink(ip)
				case "lookup":
					ip := peers[op.peer].Identity().IP
					_ = r.Peering().GetLink(ip)
					_ = r.Peering().GetLinkByLabel(sc.links[0].label)
					_ = r.Peering().GetLinks()
					_ = r.Peering().IsStub()
					_, _ = r.RoutingTable().LookupNearest(ip)
				}
			}
		})
	}
	finish = func(ex *regExec) {
		// invariant at the quiescent end.
		bad := func(k, f string, a ...any) { ex.viol = append(ex.viol, [2]string{k, fmt.Sprintf(f, a...)}) }
		livePeers := map[netip.Addr]bool{}
		for i, l := range links {
			live := added[i] && !closed[i] && !l.IsClosing()
			ip := l.Peer()
			ex.sig += fmt.Sprintf("l%d:%v/%v ", i, added[i], closed[i])
			if live {
				livePeers[ip] = true
				if got := r.Peering().GetLink(ip); got != l {
					bad("live-link-not-found-by-peer", "live link %d cannot be found by its peer address", i)
				}
				if got := r.Peering().GetLinkByLabel(l.Label); got != l {
					bad("live-link-not-found-by-label", "live link %d cannot be found by its label %d", i, l.Label)
				}
			} else {
				if got := r.Peering().GetLink(ip); got == l {
					bad("dead-link-found-by-peer", "closed / never registered link %d is found by peer address", i)
				}
				if got := r.Peering().GetLinkByLabel(l.Label); got == l {
					bad("dead-link-found-by-label", "closed / never registered link %d is found by its label", i)
				}
			}
		}
		peerRoutes := map[netip.Addr]bool{}
		for _, e := range r.RoutingTable().VerifEntries() {
			if e.Source == m.RouteSourcePeer {
				peerRoutes[e.DstIP] = true
			}
			if !livePeers[e.NextHop] {
				bad("route-via-dead-next-hop", "route to %s via %s which has no live link", e.DstIP, e.NextHop)
			}
		}
		for ip := range livePeers {
			if !peerRoutes[ip] {
				bad("live-link-without-peer-route", "live link to %s but no direct-peer route", ip)
			}
		}
		for ip := range peerRoutes {
			if !livePeers[ip] {
				bad("peer-route-without-live-link", "direct-peer route to %s but no live link", ip)
			}
		}
	}
	return bodies, finish
}

// TestC16Race: the registry scenarios on free-running goroutines under the race
// detector (supporting evidence next to the exhaustive pass; see schedx.FreeRun).
func TestC16Race(t *testing.T) {
	env := kit.GetEnv()
	rep := kit.NewReport("C16", env)
	defer func() { _ = rep.Finish(env) }()
	iters := 300
	if env.Thorough() {
		iters = 3000
	}
	var n int64
	for _, sc := range registryScenarios() {
		for i := 0; i < iters && !env.Expired(); i++ {
			bodies, finish := prepareRegistry(sc)
			ex := &regExec{}
			ex.res.Panics = schedx.FreeRun(bodies)
			finish(ex)
			n++
			for _, p := range ex.res.Panics {
				rep.Violate("free-running/registry-sched/"+sc.name+"/panic", p, nil)
			}
			for _, v := range ex.viol {
				rep.Violate("free-running/registry-sched/"+sc.name+"/"+v[0], v[1], nil)
			}
		}
	}
	rep.Add(n, 0, 0, 0)
	rep.OutcomeN("free-running race-detector pass [iterations]", n)
}

func registryScenarios() []regScenario {
	type ls = struct {
		peer  int
		label m.SwitchLabel
	}
	add := func(l int) regOp { return regOp{kind: "add", link: l} }
	cl := func(l int) regOp { return regOp{kind: "close", link: l} }
	mc := func(p int) regOp { return regOp{kind: "mgrclose", peer: p} }
	lk := func(p int) regOp { return regOp{kind: "lookup", peer: p} }
	return []regScenario{
		{"two-links-same-peer/add|add", []ls{{0, 5}, {0, 6}}, [][]regOp{{add(0)}, {add(1)}}},
		{"two-links-same-peer/add+close|add", []ls{{0, 5}, {0, 6}}, [][]regOp{{add(0), cl(0)}, {add(1)}}},
		{"two-links-same-peer/add+close|add+close", []ls{{0, 5}, {0, 6}}, [][]regOp{{add(0), cl(0)}, {add(1), cl(1)}}},
		{"two-links-same-peer/add|mgrclose|add", []ls{{0, 5}, {0, 6}}, [][]regOp{{add(0)}, {mc(0)}, {add(1)}}},
		{"same-label-different-peers/add+close|add", []ls{{0, 5}, {1, 5}}, [][]regOp{{add(0), cl(0)}, {add(1)}}},
		{"two-peers/add+close|add+close|lookup", []ls{{0, 5}, {1, 6}}, [][]regOp{{add(0), cl(0)}, {add(1), cl(1)}, {lk(0), lk(1)}}},
		{"re-add-after-close/add+close+add|mgrclose", []ls{{0, 5}, {0, 6}}, [][]regOp{{add(0), cl(0), add(1)}, {mc(0)}}},
	}
}

func runRegistrySched(t *testing.T, rep *kit.Report, env kit.Env) {
	bound := 2
	if env.Thorough() {
		bound = 3
	}
	rep.Bounds["registry_preemption_bound"] = bound
	for si, sc := range registryScenarios() {
		var execs, points int64
		outcomes := map[string]bool{}
		var rec func(prefix []int, depth int)
		top := 0
		rec = func(prefix []int, depth int) {
			ex := runRegistry(sc, prefix)
			execs++
			points += int64(len(ex.res.Points))
			key := "registry-sched/" + sc.name
			if ex.res.Diverged != "" {
				rep.Violate(key+"/harness-divergence", ex.res.Diverged, prefix)
				return
			}
			if ex.res.Deadlock {
				rep.Violate(key+"/deadlock", fmt.Sprintf("deadlock under schedule %v", prefix), prefix)
			}
			for _, p := range ex.res.Panics {
				rep.Violate(key+"/panic", fmt.Sprintf("%s under schedule %v", p, prefix), prefix)
			}
			for _, v := range ex.viol {
				rep.Violate(key+"/"+v[0], fmt.Sprintf("%s — schedule %v", v[1], prefix), map[string]any{"scenario": sc.name, "choices": prefix})
			}
			outcomes[ex.sig] = true
			pts := ex.res.Points
			cost := 0
			costs := make([]int, len(pts))
			for i, p := range pts {
				costs[i] = cost
				if p.Chosen != 0 && p.RunningEnabled {
					cost++
				}
			}
			for i := len(prefix); i < len(pts); i++ {
				p := pts[i]
				for alt := 1; alt < len(p.Enabled); alt++ {
					c := costs[i]
					if p.RunningEnabled {
						c++
					}
					if c > bound {
						continue
					}
					if depth == 0 {
						top++
						if !env.Mine(top + si) {
							continue
						}
					}
					np := make([]int, i+1)
					for j := 0; j < i; j++ {
						np[j] = pts[j].Chosen
					}
					np[i] = alt
					rec(np, depth+1)
				}
			}
		}
		rec(nil, 0)
		rep.Add(execs, execs, int64(len(outcomes)), points)
		rep.Outcome(fmt.Sprintf("registry-sched/%s: %d outcomes", sc.name, len(outcomes)))
		if execs > 0 && si == 1 {
			rep.Sample(map[string]any{"engine": "registry-sched", "scenario": sc.name, "schedules": execs})
		}
	}
}
