// C16, whole-instance tier on a virtual network: three real relay-only instances
// (mycoria.New, tun disabled: A listens, B dials A at once, C is started after 150
// virtual seconds and dials A) run on the in-memory network of /verif/vnet inside
// one synctest bubble, through the real TCP protocol code (dial, listener, setup
// worker, link workers, connect and listen managers on the virtual clock). EVERY
// network operation the fault-free run performs (each dial, Accept call, Read and
// Write of either end of each connection) fails once - an I/O failure at every
// point of link establishment and of the life of an established link -, and in
// the thorough tier every pair of the recovery's operations as well. At EVERY
// quiescent virtual second of every run the statement's invariant is evaluated on
// every running instance from what it exposes itself (registry, labels, routing
// table); at the end (three minute ticks after the last fault) both ends of every
// configured pair must agree that they have a link.
package c16

import (
	"fmt"
	"sort"
	"strings"
	"testing"
	"time"

	"verif/kit"
	"verif/vlife"

	mycoria "github.com/mycoria/mycoria"
	"github.com/mycoria/mycoria/config"
)

var vnetPool = kit.RoutablePool("c16-vnet", 3)

func vnetStores(lite, stub bool) []config.Store {
	mk := func(i int, listen int, connect int) config.Store {
		st := config.Store{}
		st.Router.Address = vnetPool[i].Store()
		st.Router.Lite = lite && i == 1
		st.Router.Stub = stub && i == 2
		st.System.DisableTun = true
		st.Router.Listen = []string{fmt.Sprintf("tcp://127.0.0.1:%d", listen)}
		if connect > 0 {
			st.Router.Connect = []string{fmt.Sprintf("tcp://127.0.0.1:%d", connect)}
		}
		return st
	}
	return []config.Store{mk(0, 4001, 0), mk(1, 4002, 4001), mk(2, 4003, 4001)}
}

// vnetRestartB > 0: B restarts (stop at that time, a new instance of the same configuration ten seconds later).
var vnetRestartB time.Duration

func vnetRun(t *testing.T, lite, stub bool, faults []string) vlife.Result {
	names := []string{"A", "B", "C"}
	if vnetRestartB > 0 {
		names = []string{"A", "B'", "C"} // after the restart the running list is A, B', C (before: A, B)
	}
	return vlife.Run(t, vnetStores(lite, stub), faults, vlife.Options{
		RestartB: vnetRestartB,
		Horizon:  330 * time.Second, LateStart: 150 * time.Second, ExpectPeering: true, ListenAddr: "127.0.0.1:4001",
		Sample: func(at time.Duration, running []*mycoria.Instance) (out []string) {
			for i, inst := range running {
				for _, p := range vlife.RegistryInvariant(names[i], inst) {
					kv := strings.SplitN(p, "|", 2)
					out = append(out, fmt.Sprintf("%s|at virtual second %d: %s", kv[0], int(at/time.Second), kv[1]))
				}
			}
			return out
		},
	})
}

func runVnet(t *testing.T, rep *kit.Report, env kit.Env) {
	var evals, nontrivial int64
	caseNo := 0
	// (lite B, stub C, restart of B): plain; plain with a restart of B after 60 s; lite + stub.
	type flavour = [2]bool
	flavours := []flavour{{false, false}, {false, false}, {true, true}}
	restarts := []time.Duration{0, 60 * time.Second, 0}
	defer func() { vnetRestartB = 0 }()
	report := func(fl [2]bool, faults []string, r vlife.Result) {
		seen := map[string]bool{}
		for _, p := range r.Problems {
			kv := strings.SplitN(p, "|", 2)
			if strings.HasPrefix(kv[0], "vnet/") && kv[0] != "vnet/not-peered" {
				// lifecycle problems (stop, goroutines) belong to C20's statement; a harness-level failure here is fatal.
				if kv[0] == "vnet/config-rejected" || kv[0] == "vnet/new-fails" || kv[0] == "vnet/start-fails" {
					panic("harness: " + p)
				}
				continue
			}
			var cls []string
			for _, f := range faults {
				if r.Fired[f] {
					cls = append(cls, vlife.OpClass(f))
				}
			}
			key := "vnet/" + strings.TrimPrefix(kv[0], "vnet/") + "/after-fault:" + strings.Join(cls, "+")
			if len(cls) == 0 {
				key = "vnet/" + strings.TrimPrefix(kv[0], "vnet/") + "/no-fault"
			}
			if seen[key] {
				continue
			}
			seen[key] = true
			rep.Violate(key, fmt.Sprintf("%s — real instances on the virtual network (A listens, B dials A at once, C after 150 s; lite B=%v stub C=%v); failed operations: %v; restart of B after: %v", kv[1], fl[0], fl[1], faults, vnetRestartB), map[string]any{"lite": fl[0], "stub": fl[1], "faults": faults, "restart_b_after": vnetRestartB.String()})
		}
	}
	for fi, fl := range flavours {
		vnetRestartB = restarts[fi]
		base := vnetRun(t, fl[0], fl[1], nil)
		if env.Mine(0) {
			evals++
			report(fl, nil, base)
			rep.Outcome(fmt.Sprintf("vnet/fault-free problems=%d", len(base.Problems)))
		}
		if len(base.Problems) > 0 {
			continue
		}
		rep.Bounds[fmt.Sprintf("vnet_fault_points_lite=%v_stub=%v_restartB=%v", fl[0], fl[1], vnetRestartB)] = len(base.Ops)
		baseSet := map[string]bool{}
		for _, o := range base.Ops {
			baseSet[o] = true
		}
		for _, f := range base.Ops {
			caseNo++
			if !env.Mine(caseNo) {
				continue
			}
			if env.Expired() {
				rep.Cap("vnet tier stopped by the time budget")
				rep.Add(evals, nontrivial, 0, 0)
				return
			}
			r := vnetRun(t, fl[0], fl[1], []string{f})
			evals++
			if r.Fired[f] {
				nontrivial++
			}
			report(fl, []string{f}, r)
			rep.Outcome(fmt.Sprintf("vnet/one-fault:%s fired=%v problems=%d", vlife.OpClass(f), r.Fired[f], len(r.Problems)))
			if !env.Deep() || !r.Fired[f] {
				continue
			}
			var second []string
			for _, o := range r.Ops {
				if o != f && (!baseSet[o] || strings.HasPrefix(o, "dial") || strings.HasPrefix(o, "accept")) {
					if i := strings.LastIndex(o, "#"); strings.HasPrefix(o, "conn") {
						var idx int
						fmt.Sscanf(o[i+1:], "%d", &idx)
						if idx > 12 {
							continue
						}
					}
					second = append(second, o)
				}
			}
			sort.Strings(second)
			for _, g := range second {
				if env.Expired() {
					rep.Cap("vnet tier (pairs) stopped by the time budget")
					rep.Add(evals, nontrivial, 0, 0)
					return
				}
				r2 := vnetRun(t, fl[0], fl[1], []string{f, g})
				evals++
				if r2.Fired[f] && r2.Fired[g] {
					nontrivial++
				}
				report(fl, []string{f, g}, r2)
				rep.Outcome(fmt.Sprintf("vnet/two-faults:%s+%s problems=%d", vlife.OpClass(f), vlife.OpClass(g), len(r2.Problems)))
			}
		}
	}
	rep.Add(evals, nontrivial, 0, 0)
}
