// C16: link registry, switch labels and peer routes stay consistent through churn.
//
// 2-3 real Peering instances with real LinkBase objects and their reader/writer
// workers run inside a synctest bubble over adversary-owned connections. Events:
// dial (decomposed into message-relay rounds, so concurrent setups - including
// both ends dialling each other - interleave at message granularity), local
// close, manager close, remote close (EOF), I/O failure. All event sequences are
// explored breadth-first with canonical-state deduplication; at every quiescent
// point the registry invariant is evaluated against the harness's own list of
// live link objects.
package c16

import (
	"fmt"
	"net/netip"
	"sort"
	"strings"
	"testing"
	"testing/synctest"
	"time"

	"verif/kit"

	"github.com/mycoria/mycoria/config"
	"github.com/mycoria/mycoria/m"
	"github.com/mycoria/mycoria/peering"
)

var pool = kit.RoutablePool("c16", 3)

// identities whose addresses derive the SAME switch label (last address byte
// equal modulo 128), and one that derives no label at all (last byte 0 mod 128):
// the label assignment has to fall back to random labels for them.
var (
	collidePool = kit.RoutableWhere("c16-collide", 2, func(a netip.Addr) bool { return a.As16()[15]&0x7f == 0x11 })
	zeroPool    = kit.RoutableWhere("c16-zero", 1, func(a netip.Addr) bool { return a.As16()[15]&0x7f == 0 })
)

type wire struct {
	w      *kit.Wire
	from   int
	to     int
	rounds int
	eofA   bool
	eofB   bool
	brkA   bool
	brkB   bool
}

type world struct {
	nodes []*kit.Node
	wires []*wire
}

type event struct {
	kind string // dial, pump, close, mgrclose, eof, break
	a, b int
}

func (e event) String() string { return fmt.Sprintf("%s(%d,%d)", e.kind, e.a, e.b) }

// build creates n routers; bit i of lite / stub makes router i a lite / stub router.
func build(n int, lite, stub int, ids string) *world {
	wd := &world{}
	for i := 0; i < n; i++ {
		st := config.Store{}
		st.Router.Lite = lite&(1<<i) != 0
		st.Router.Stub = stub&(1<<i) != 0
		id := pool[i]
		switch ids {
		case "colliding-labels": // N1 and N2 derive the same label
			if i > 0 {
				id = collidePool[i-1]
			}
		case "no-derived-label": // N1 derives no label
			if i == 1 {
				id = zeroPool[0]
			}
		}
		nd, err := kit.NewNode(kit.NodeOpts{Name: fmt.Sprintf("N%d", i), ID: id, Store: st})
		if err != nil {
			panic(err)
		}
		wd.nodes = append(wd.nodes, nd)
	}
	return wd
}

func (wd *world) apply(e event) {
	switch e.kind {
	case "dial":
		// real connections are never opened in the same millisecond of virtual time.
		time.Sleep(3 * time.Millisecond)
		w := kit.NewWire(wd.nodes[e.a], wd.nodes[e.b])
		w.Start()
		wd.wires = append(wd.wires, &wire{w: w, from: e.a, to: e.b})
	case "pump":
		wr := wd.wires[e.a]
		wr.w.Pump(1)
		wr.rounds++
	case "close": // local close of the link object at side b (0 = dialler, 1 = listener)
		wr := wd.wires[e.a]
		l := wr.w.LinkA
		if e.b == 1 {
			l = wr.w.LinkB
		}
		if l != nil {
			l.Close(nil)
		}
	case "mgrclose": // Peering.CloseLink(peer) at the dialler / listener node
		wr := wd.wires[e.a]
		if e.b == 0 {
			wd.nodes[wr.from].Peering().CloseLink(wd.nodes[wr.to].Identity().IP)
		} else {
			wd.nodes[wr.to].Peering().CloseLink(wd.nodes[wr.from].Identity().IP)
		}
	case "idleclean":
		time.Sleep(25 * time.Hour)
		for _, n := range wd.nodes {
			n.RoutingTable().Clean()
		}
	case "gossip":
		r, dst, via := wd.nodes[0], wd.nodes[1], wd.nodes[2]
		hops := []m.SwitchHop{
			{Router: r.Identity().IP, Delay: 5, ForwardLabel: 7},
			{Router: via.Identity().IP, Delay: 5, ForwardLabel: 8, ReturnLabel: 9},
			{Router: dst.Identity().IP, ReturnLabel: 10},
		}
		_, _ = r.RoutingTable().AddRoute(m.RoutingTableEntry{DstIP: dst.Identity().IP, NextHop: via.Identity().IP, Path: m.SwitchPath{Hops: hops}, Source: m.RouteSourceGossip, Expires: time.Now().Add(time.Hour)})
	case "eof":
		wr := wd.wires[e.a]
		if e.b == 0 {
			wr.w.EA.FeedEOF()
			wr.eofA = true
		} else {
			wr.w.EB.FeedEOF()
			wr.eofB = true
		}
	case "break":
		wr := wd.wires[e.a]
		if e.b == 0 {
			wr.w.EA.FailReads(kit.ErrBroken)
			wr.w.EA.FailWrites(kit.ErrBroken)
			wr.brkA = true
		} else {
			wr.w.EB.FailReads(kit.ErrBroken)
			wr.w.EB.FailWrites(kit.ErrBroken)
			wr.brkB = true
		}
	}
	synctest.Wait()
}

type liveLink struct {
	l    peering.Link
	node int
	peer int
	wire int
}

func (wd *world) links() (live, dead []liveLink) {
	for wi, wr := range wd.wires {
		// the accepting side's link object counts whether or not it got
		// registered: an established link that is not closing must be found.
		for side, l := range []peering.Link{wr.w.LinkA, wr.w.AttemptB} {
			if l == nil || (side == 1 && !wr.w.DoneB) {
				continue
			}
			ll := liveLink{l, wr.from, wr.to, wi}
			if side == 1 {
				ll.node, ll.peer = wr.to, wr.from
			}
			if l.IsClosing() {
				dead = append(dead, ll)
			} else {
				live = append(live, ll)
			}
		}
	}
	return
}

// invariant evaluates the statement's invariant; returns violation keys + details.
func (wd *world) invariant() [][2]string {
	var out [][2]string
	bad := func(k, format string, a ...any) { out = append(out, [2]string{k, fmt.Sprintf(format, a...)}) }
	live, dead := wd.links()
	for _, ll := range live {
		p := wd.nodes[ll.node].Peering()
		peerIP := wd.nodes[ll.peer].Identity().IP
		if ll.l.Peer() != peerIP {
			bad("wrong-peer", "link of wire %d at N%d reports peer %s", ll.wire, ll.node, ll.l.Peer())
		}
		if got := p.GetLink(peerIP); got != ll.l {
			bad("live-link-not-found-by-peer", "live link (wire %d) at N%d cannot be found by its peer address (found %v)", ll.wire, ll.node, describe(got))
		}
		lbl := ll.l.SwitchLabel()
		if lbl == 0 {
			bad("zero-label", "live link (wire %d) at N%d has switch label 0", ll.wire, ll.node)
		}
		if got := p.GetLinkByLabel(lbl); got != ll.l {
			bad("live-link-not-found-by-label", "live link (wire %d) at N%d cannot be found by its switch label %d (found %v)", ll.wire, ll.node, lbl, describe(got))
		}
	}
	// labels unique per node among live links.
	for ni := range wd.nodes {
		seen := map[m.SwitchLabel]int{}
		for _, ll := range live {
			if ll.node != ni {
				continue
			}
			seen[ll.l.SwitchLabel()]++
			if seen[ll.l.SwitchLabel()] == 2 {
				bad("duplicate-label", "two live links at N%d share switch label %d", ni, ll.l.SwitchLabel())
			}
		}
	}
	for _, ll := range dead {
		p := wd.nodes[ll.node].Peering()
		if got := p.GetLink(wd.nodes[ll.peer].Identity().IP); got == ll.l {
			bad("closing-link-found-by-peer", "closing link (wire %d) at N%d is still found by peer address", ll.wire, ll.node)
		}
		if got := p.GetLinkByLabel(ll.l.SwitchLabel()); got == ll.l {
			bad("closing-link-found-by-label", "closing link (wire %d) at N%d is still found by its label", ll.wire, ll.node)
		}
	}
	// registry must not contain anything the harness does not know as live.
	for ni, nd := range wd.nodes {
		for _, reg := range nd.Peering().GetLinks() {
			known := false
			for _, ll := range live {
				if ll.l == reg && ll.node == ni {
					known = true
				}
			}
			if !known {
				bad("registry-holds-dead-link", "registry of N%d holds a link (%s) that is closing or unknown", ni, describe(reg))
			}
		}
		// routing table: direct-peer routes <=> peers with a live link; no next hop without a live link.
		livePeers := map[string]bool{}
		for _, ll := range live {
			if ll.node == ni {
				livePeers[wd.nodes[ll.peer].Identity().IP.String()] = true
			}
		}
		peerRoutes := map[string]bool{}
		for _, e := range nd.RoutingTable().VerifEntries() {
			if e.Source == m.RouteSourcePeer {
				peerRoutes[e.DstIP.String()] = true
			}
			if !livePeers[e.NextHop.String()] {
				bad("route-via-dead-next-hop", "N%d holds a route to %s via %s which has no live link", ni, e.DstIP, e.NextHop)
			}
		}
		for p := range livePeers {
			if !peerRoutes[p] {
				bad("live-link-without-peer-route", "N%d has a live link to %s but no direct-peer route", ni, p)
			}
		}
		for p := range peerRoutes {
			if !livePeers[p] {
				bad("peer-route-without-live-link", "N%d holds a direct-peer route to %s but no live link", ni, p)
			}
		}
	}
	return out
}

func describe(l peering.Link) string {
	if l == nil {
		return "<nil>"
	}
	return fmt.Sprintf("link(peer=%s label=%d closing=%v)", l.Peer(), l.SwitchLabel(), l.IsClosing())
}

func (wd *world) stateKey() string {
	var parts []string
	for wi, wr := range wd.wires {
		st := func(l peering.Link) string {
			if l == nil {
				return "-"
			}
			if l.IsClosing() {
				return "closing"
			}
			return "up"
		}
		parts = append(parts, fmt.Sprintf("w%d[%d>%d r%d A=%s/%v B=%s/%v eof=%v%v brk=%v%v]", wi, wr.from, wr.to, wr.rounds, st(wr.w.LinkA), wr.w.DoneA, st(wr.w.LinkB), wr.w.DoneB, wr.eofA, wr.eofB, wr.brkA, wr.brkB))
	}
	for ni, nd := range wd.nodes {
		var regs []string
		for _, l := range nd.Peering().GetLinks() {
			owner := "?"
			for wi, wr := range wd.wires {
				if wr.w.LinkA == l {
					owner = fmt.Sprintf("w%dA", wi)
				}
				if wr.w.LinkB == l {
					owner = fmt.Sprintf("w%dB", wi)
				}
			}
			regs = append(regs, owner)
		}
		sort.Strings(regs)
		var routes []string
		for _, e := range nd.RoutingTable().VerifEntries() {
			routes = append(routes, e.DstIP.String())
		}
		parts = append(parts, fmt.Sprintf("N%d reg=%v routes=%v", ni, regs, routes))
	}
	return strings.Join(parts, " | ")
}

func (wd *world) shutdown() {
	for _, wr := range wd.wires {
		wr.w.EA.FeedEOF()
		wr.w.EB.FeedEOF()
	}
	synctest.Wait()
	for _, nd := range wd.nodes {
		_ = nd.Peering().Stop()
	}
	for _, wr := range wd.wires {
		_ = wr.w.EA.Close()
		_ = wr.w.EB.Close()
	}
	synctest.Wait()
}

type scenario struct {
	name      string
	nodes     int
	dials     [][2]int // allowed dial events (each at most once)
	depth     [2]int
	maxState  [2]int
	maxFaults [2]int // close / mgrclose / eof / break events per sequence
	lite      int    // bit mask of lite routers
	stub      int    // bit mask of stub routers
	ids       string // identity family ("" = generic)
	// extra one-off events: "idleclean" (25 h of idle time, then the routing-table
	// cleaner on every router), "gossip" (router 0 learns a gossip route to its
	// peer N1 via its peer N2, as the announce handler adds it in a triangle).
	extras []string
}

func explore(t *testing.T, rep *kit.Report, env kit.Env, sc scenario) {
	ti := 0
	if env.Thorough() {
		ti = 1
	}
	depth, maxStates := sc.depth[ti], sc.maxState[ti]
	type node struct{ path []event }
	seen := map[string]bool{}
	frontier := []node{{}}
	var evals, nontrivial, transitions int64
	capped := false
	for level := 0; len(frontier) > 0 && level <= depth && !capped; level++ {
		var next []node
		for ni, nd := range frontier {
			if level == 2 && !env.Mine(ni) {
				continue
			}
			if env.Expired() || len(seen) >= maxStates {
				capped = true
				break
			}
			var key string
			var viol [][2]string
			var nextEvents []event
			var panics []string
			synctest.Test(t, func(t *testing.T) {
				wd := build(sc.nodes, sc.lite, sc.stub, sc.ids)
				var watchers []func() []string
				for _, n := range wd.nodes {
					watchers = append(watchers, kit.WatchPanics(n))
				}
				for _, e := range nd.path {
					wd.apply(e)
					transitions++
				}
				viol = wd.invariant()
				key = wd.stateKey()
				for _, w := range watchers {
					panics = append(panics, w()...)
				}
				for _, wr := range wd.wires {
					if wr.w.PanicA != nil {
						panics = append(panics, fmt.Sprint(wr.w.PanicA))
					}
					if wr.w.PanicB != nil {
						panics = append(panics, fmt.Sprint(wr.w.PanicB))
					}
				}
				// enabled events.
				dialled := map[[2]int]bool{}
				for _, wr := range wd.wires {
					dialled[[2]int{wr.from, wr.to}] = true
				}
				for _, d := range sc.dials {
					if !dialled[d] {
						nextEvents = append(nextEvents, event{"dial", d[0], d[1]})
					}
				}
				faults := 0
				done := map[string]bool{}
				for _, e := range nd.path {
					if e.kind != "dial" && e.kind != "pump" {
						faults++
					}
					done[e.kind] = true
				}
				for _, x := range sc.extras {
					if done[x] {
						continue
					}
					switch x {
					case "idleclean":
						nextEvents = append(nextEvents, event{"idleclean", 0, 0})
					case "gossip":
						// only once router 0 has live links to both N1 and N2.
						if l1, l2 := wd.nodes[0].Peering().GetLink(wd.nodes[1].Identity().IP), wd.nodes[0].Peering().GetLink(wd.nodes[2].Identity().IP); l1 != nil && l2 != nil {
							nextEvents = append(nextEvents, event{"gossip", 0, 0})
						}
					}
				}
				for wi, wr := range wd.wires {
					if wr.rounds < 5 && (len(wr.w.EA.Out) > wr.w.EA.Taken || len(wr.w.EB.Out) > wr.w.EB.Taken) {
						nextEvents = append(nextEvents, event{"pump", wi, 0})
					}
					if faults >= sc.maxFaults[ti] {
						continue
					}
					for side := 0; side < 2; side++ {
						l := wr.w.LinkA
						eof, brk := wr.eofA, wr.brkA
						if side == 1 {
							l = wr.w.LinkB
							eof, brk = wr.eofB, wr.brkB
						}
						if l != nil && !l.IsClosing() {
							nextEvents = append(nextEvents, event{"close", wi, side}, event{"mgrclose", wi, side})
						}
						if !eof && !brk {
							nextEvents = append(nextEvents, event{"eof", wi, side}, event{"break", wi, side})
						}
					}
				}
				wd.shutdown()
			})
			evals++
			names := make([]string, len(nd.path))
			for i, e := range nd.path {
				names[i] = e.String()
			}
			if len(nd.path) > 3 {
				nontrivial++
			}
			for _, v := range viol {
				rep.Violate(sc.name+"/"+v[0], fmt.Sprintf("%s — after events %v", v[1], names), map[string]any{"scenario": sc.name, "events": names})
			}
			for _, p := range panics {
				rep.Violate(sc.name+"/panic", fmt.Sprintf("%s — after events %v", p, names), names)
			}
			if len(viol) > 0 {
				rep.Outcome("violating-state")
			}
			if seen[key] {
				continue
			}
			seen[key] = true
			if len(seen)%500 == 1 {
				rep.Sample(map[string]any{"scenario": sc.name, "events": names, "state": key})
			}
			if level < depth {
				for _, e := range nextEvents {
					next = append(next, node{append(append([]event(nil), nd.path...), e)})
				}
			}
		}
		frontier = next
	}
	if capped {
		rep.Cap(fmt.Sprintf("%s: state cap %d / time budget hit", sc.name, maxStates))
	}
	rep.Add(evals, nontrivial, int64(len(seen)), transitions)
	rep.Outcome(fmt.Sprintf("%s: %d states", sc.name, len(seen)))
	rep.Bounds[sc.name] = map[string]any{"depth": depth, "state_cap": maxStates, "max_fault_events": sc.maxFaults[ti]}
}

func TestC16(t *testing.T) {
	env := kit.GetEnv()
	rep := kit.NewReport("C16", env)
	rep.Rule = "explicit-state BFS over event sequences on 2-3 real Peering instances (plain, lite and stub routers) with real link objects and running reader/writer workers (synctest bubble): dial(a,b) starts both real setup sides; pump(w) relays the pending handshake/link messages of one connection by one round (so two concurrent setups - incl. both ends dialling each other - interleave at message granularity); close (link.Close), mgrclose (Peering.CloseLink), eof (remote close) and break (I/O error on read and write) on either end; in some scenarios once: 25 h of idle time followed by the routing-table cleaner on every router, and a gossip route to one peer via another peer added to the table (as the announce handler does in a triangle); after every event the bubble is quiescent and the invariant is evaluated against the harness's own list of live link objects; states deduplicated on (per-connection progress and link states, registry content by link identity, peer routes); non-trivial = sequences longer than 3 events; second engine (registry-sched): 7 scenarios of 2-3 threads calling the real AddLink / Close->RemoveLink / CloseLink / lookups on virtual links to the same or different peers and labels, with the peering and m packages' sync operations as scheduling points, ALL schedules with <= 2 (thorough 3) preemptions, invariant when all threads are done"
	rep.Assumptions = []string{
		"BFS engine: goroutine scheduling inside one event is resolved by bubble quiescence, events are atomic from the harness's point of view; finer interleavings of the registry's critical sections are explored by the second (controlled-scheduler) engine on virtual links",
		"random fallback switch labels are abstracted in the state key (link identity is used instead of the label value)",
	}
	scs := []scenario{
		{"two-routers/single-dial", 2, [][2]int{{0, 1}}, [2]int{9, 11}, [2]int{3000, 40000}, [2]int{3, 4}, 0, 0, "", []string{"idleclean"}},
		{"two-routers/cross-connect", 2, [][2]int{{0, 1}, {1, 0}}, [2]int{11, 13}, [2]int{6000, 100000}, [2]int{2, 3}, 0, 0, "", nil},
		{"three-routers/chain-and-cross", 3, [][2]int{{0, 1}, {1, 2}, {2, 1}}, [2]int{11, 13}, [2]int{6000, 100000}, [2]int{1, 2}, 0, 0, "", nil},
		// rarely used router flavours: a lite dialler / a lite listener, a stub router.
		{"two-routers/single-dial/lite-listener", 2, [][2]int{{0, 1}}, [2]int{9, 11}, [2]int{3000, 40000}, [2]int{3, 4}, 2, 0, "", []string{"idleclean"}},
		{"two-routers/single-dial/lite-dialler+stub-listener", 2, [][2]int{{0, 1}}, [2]int{9, 11}, [2]int{3000, 40000}, [2]int{3, 4}, 1, 2, "", nil},
		// label assignment fallbacks: two peers of N0 that derive the same switch label; a peer that derives none.
		{"three-routers/star/colliding-derived-labels", 3, [][2]int{{1, 0}, {2, 0}}, [2]int{11, 13}, [2]int{6000, 100000}, [2]int{1, 2}, 0, 0, "colliding-labels", nil},
		{"three-routers/star/gossip-route-to-a-peer", 3, [][2]int{{1, 0}, {2, 0}}, [2]int{11, 13}, [2]int{6000, 100000}, [2]int{1, 2}, 0, 0, "", []string{"gossip"}},
		{"two-routers/cross-connect/no-derived-label", 2, [][2]int{{0, 1}, {1, 0}}, [2]int{11, 13}, [2]int{6000, 100000}, [2]int{1, 2}, 0, 0, "no-derived-label", nil},
	}
	for _, sc := range scs {
		explore(t, rep, env, sc)
	}
	runRegistrySched(t, rep, env)
	runVnet(t, rep, env)
	if err := rep.Finish(env); err != nil {
		t.Fatal(err)
	}
}
