// C01, interleaving tier: identities are verified by several goroutines at once
// (one frame handler per CPU, link setup workers, the API). The m, state and
// router packages are compiled with their sync / sync/atomic imports rewritten to
// the controlled-scheduler shims; harness threads present genuine and forged
// identities CONCURRENTLY at the pure verification entry point and in the headers
// of first-contact pings at one long-lived router. ALL schedules up to a
// preemption bound are explored; on every one each verdict must equal the
// reference predicate, and every record / session that results must be bound to
// the key its address is derived from.
package c01

import (
	"fmt"
	"sort"
	"strings"
	"sync"
	"testing"
	"testing/synctest"

	"verif/kit"
	"verif/schedx"

	"github.com/mycoria/mycoria/zz_verif/sched"
)

type verifyScenario struct {
	name    string
	entry   string    // "verify" or "ping-header"
	threads [][]ident // identities each thread presents, in order
}

// forgedFor returns X's address with the key of another real identity.
func forgedFor(x, attacker ident) ident {
	f := attacker
	f.ip = x.ip
	f.note = "address of a known router with a foreign key"
	return f
}

func (sc verifyScenario) prepare() (bodies []func(), eval func(ex *schedx.Exec)) {
	type obs struct {
		th, i int
		id    ident
		v     verdict
	}
	var log []obs
	var mu sync.Mutex
	var tw *tworld
	if sc.entry == "ping-header" {
		tw = newTWorld()
	}
	for ti, ids := range sc.threads {
		ti, ids := ti, ids
		bodies = append(bodies, func() {
			for i, id := range ids {
				var v verdict
				if sc.entry == "verify" {
					v = epVerifyAddress(id)
				} else {
					v = tw.epPingHeader(id)
				}
				mu.Lock()
				log = append(log, obs{ti, i, id, v})
				mu.Unlock()
			}
		})
	}
	eval = func(ex *schedx.Exec) {
		var sig []string
		for _, o := range log {
			sig = append(sig, fmt.Sprintf("t%d.%d=%v", o.th, o.i, o.v.accepted))
			if o.v.panicked {
				ex.Bad("panic", "verification of %s panicked while another identity was verified concurrently: %s", o.id, o.v.detail)
			}
			if sc.entry == "verify" {
				if want := refAccept(o.id); o.v.accepted != want {
					ex.Bad(fmt.Sprintf("verdict-differs/accepted=%v", o.v.accepted), "concurrent verification gave accepted=%v for %s (reference: %v)", o.v.accepted, o.id, want)
				}
			}
		}
		if tw != nil {
			// binding: whatever is stored / in session for an address carries the key that address is derived from.
			genuine := map[string]ident{}
			for _, ids := range sc.threads {
				for _, id := range ids {
					if refAccept(id) {
						genuine[id.ip.String()] = id
					}
				}
			}
			for _, ids := range sc.threads {
				for _, id := range ids {
					k := tw.storedKey(id.ip)
					if k == nil {
						continue
					}
					g, ok := genuine[id.ip.String()]
					if !ok || string(k) != string(g.key) {
						ex.Bad("record-bound-to-foreign-key", "after concurrent first-contact pings the stored record of %v carries a key its address is not derived from", id.ip)
					}
					if s := tw.r.State().GetSession(id.ip); s != nil && ok {
						if string(s.Address().PublicKey) != string(g.key) {
							ex.Bad("session-bound-to-foreign-key", "after concurrent first-contact pings the session of %v verifies with a key its address is not derived from", id.ip)
						}
					}
					sig = append(sig, fmt.Sprintf("stored:%s", kit.Hash(k)))
				}
			}
			for _, id := range genuine {
				presented := false
				for _, o := range log {
					if o.id.ip == id.ip && refAccept(o.id) {
						presented = true
					}
				}
				if presented && tw.storedKey(id.ip) == nil {
					ex.Bad("genuine-first-contact-lost", "the genuine first-contact ping of %v left no record when a forged one for the same address was handled concurrently", id.ip)
				}
			}
			if len(tw.w.Panics) > 0 {
				ex.Bad("panic", "worker panic: %s", tw.w.Panics[0])
			}
		}
		sort.Strings(sig)
		ex.Sig = strings.Join(sig, " ")
	}
	return
}

// run executes one schedule in a fresh bubble of virtual time (the pings carry
// timestamps: with the real clock two runs of one schedule could differ).
func (sc verifyScenario) run(t *testing.T, choices []int) *schedx.Exec {
	ex := &schedx.Exec{}
	synctest.Test(t, func(t *testing.T) {
		bodies, eval := sc.prepare()
		ex.Res = sched.Run(bodies, choices, 20000)
		eval(ex)
	})
	return ex
}

func verifyScenarios() []verifyScenario {
	x, y, z := baseIdent(pool[0]), baseIdent(pool[1]), baseIdent(pool[2])
	x.note, y.note, z.note = "valid", "valid", "valid"
	fx, fy := forgedFor(x, z), forgedFor(y, z)
	var out []verifyScenario
	for _, entry := range []string{"verify", "ping-header"} {
		add := func(name string, th ...[]ident) {
			out = append(out, verifyScenario{name: entry + "/" + name, entry: entry, threads: th})
		}
		add("forged(X)|genuine(X)", []ident{fx}, []ident{x})
		add("genuine(X)|forged(X)|genuine(Y)", []ident{x}, []ident{fx}, []ident{y})
		add("forged(X),forged(Y)|genuine(Y),genuine(X)", []ident{fx, fy}, []ident{y, x})
		add("genuine(X)|genuine(X)", []ident{x}, []ident{x})
	}
	return out
}

func runVerifySched(t *testing.T, rep *kit.Report, env kit.Env) {
	bound := 2
	rep.Bounds["sched_preemption_bound"] = bound
	top := 0
	for _, sc := range verifyScenarios() {
		sc := sc
		s := schedx.Scenario{Name: "concurrent-verify/" + sc.name, Run: func(c []int) *schedx.Exec { return sc.run(t, c) }}
		st := schedx.Explore(rep, env, s, bound, &top)
		schedx.Record(rep, s, st)
	}
}

// TestC01Race: the same thread bodies on free-running goroutines under the race
// detector (supporting evidence next to the exhaustive pass; see schedx.FreeRun).
func TestC01Race(t *testing.T) {
	env := kit.GetEnv()
	rep := kit.NewReport("C01", env)
	iters := 150
	if env.Thorough() {
		iters = 1500
	}
	var n int64
	for _, sc := range verifyScenarios() {
		for i := 0; i < iters && !env.Expired(); i++ {
			// real time here: a race report fails a bubble's sub-test and would end the pass early.
			ex := &schedx.Exec{}
			bodies, eval := sc.prepare()
			ex.Res.Panics = schedx.FreeRun(bodies)
			eval(ex)
			n++
			for _, p := range ex.Res.Panics {
				rep.Violate("free-running/"+sc.name+"/panic", p, nil)
			}
			for _, v := range ex.Viol {
				rep.Violate("free-running/"+sc.name+"/"+v[0], v[1], nil)
			}
		}
	}
	rep.Add(n, 0, 0, 0)
	rep.OutcomeN("free-running race-detector pass [iterations]", n)
	if err := rep.Finish(env); err != nil {
		t.Fatal(err)
	}
}
