// C01: self-certifying addresses — an identity is accepted only if address = hash(key).
//
// Valid identities and all single (and, at the pure entry points, all pairs of)
// field deviations, plus self-consistent forgeries (address recomputed to match
// a malformed identity), are presented at every entry point: VerifyAddress,
// AddressFromStorage, AddressFromKeyPair, a first-contact ping header at a real
// router, a peering request on a real link setup, and a gossip hop record. The
// oracle is an independently computed reference predicate. The generator is
// run over all subsets of small acceptable / ignore prefix alphabets.
package c01

import (
	"context"
	"crypto/ed25519"
	"encoding/hex"
	"errors"
	"fmt"
	"net/netip"
	"strings"
	"testing"
	"testing/synctest"
	"time"

	"github.com/fxamacker/cbor/v2"

	"verif/kit"

	"github.com/mycoria/crop"
	"github.com/mycoria/mycoria/config"
	"github.com/mycoria/mycoria/frame"
	"github.com/mycoria/mycoria/m"
	"github.com/mycoria/mycoria/router"
	"github.com/mycoria/mycoria/storage"
)

type ident struct {
	ip     netip.Addr
	hash   crop.Hash
	typ    crop.KeyPairType
	key    []byte
	easing uint64
	priv   ed25519.PrivateKey // private key belonging to key, if key is a real Ed25519 key we generated
	note   string
}

func (id ident) pub() *m.PublicAddress {
	return &m.PublicAddress{IP: id.ip, Hash: id.hash, Type: id.typ, PublicKey: ed25519.PublicKey(id.key), Easing: id.easing}
}

func (id ident) String() string {
	h, t := string(id.hash), string(id.typ)
	if len(h) > 20 {
		h = h[:20] + "…"
	}
	if len(t) > 20 {
		t = t[:20] + "…"
	}
	return fmt.Sprintf("ip=%v hash=%q type=%q keylen=%d easing=%d (%s)", id.ip, h, t, len(id.key), id.easing, id.note)
}

// refDigest computes the address digest independently of m/address.go.
func refDigest(id ident) []byte {
	h := id.hash.New()
	if h == nil || len(id.typ) > 0xFF || len(id.key) > 0xFFFF {
		return nil
	}
	buf := []byte{1, byte(len(id.typ)), byte(len(id.key) >> 8), byte(len(id.key))}
	buf = append(buf, []byte(id.typ)...)
	buf = append(buf, id.key...)
	_, _ = h.Write(buf)
	if id.easing > 0 {
		var e [8]byte
		for i := 0; i < 8; i++ {
			e[i] = byte(id.easing >> (56 - 8*i))
		}
		_, _ = h.Write(e[:])
	}
	return h.Sum(nil)
}

// refAccept is the reference predicate of the statement.
func refAccept(id ident) bool {
	if !id.ip.IsValid() || !id.ip.Is6() || id.ip.Zone() != "" {
		return false
	}
	b := id.ip.As16()
	if b[0] != 0xfd {
		return false
	}
	if id.typ != "Ed25519" || len(id.key) != 32 {
		return false
	}
	d := refDigest(id)
	if len(d) < 16 {
		return false
	}
	return [16]byte(d[:16]) == b
}

var pool = kit.RoutablePool("c01", 5)

func baseIdent(a *m.Address) ident {
	return ident{ip: a.IP, hash: a.Hash, typ: a.Type, key: append([]byte(nil), a.PublicKey...), easing: a.Easing, priv: a.PrivateKey, note: "valid"}
}

type deviation struct {
	field string
	name  string
	apply func(id *ident)
}

func deviations() []deviation {
	var ds []deviation
	add := func(field, name string, f func(id *ident)) { ds = append(ds, deviation{field, name, f}) }
	for bit := 0; bit < 128; bit++ {
		bit := bit
		add("ip", fmt.Sprintf("ip-bit%d", bit), func(id *ident) {
			b := id.ip.As16()
			b[bit/8] ^= 1 << (7 - bit%8)
			id.ip = netip.AddrFrom16(b)
		})
	}
	for _, s := range []string{"fe80::1", "::", "fc00::1", "fd00::1234", "10.1.2.3", "::ffff:10.0.0.1"} {
		s := s
		add("ip", "ip="+s, func(id *ident) { id.ip = netip.MustParseAddr(s) })
	}
	add("ip", "ip=invalid", func(id *ident) { id.ip = netip.Addr{} })
	// the right 16 bytes with an IPv6 zone attached: not an address of fd00::/8, and as a
	// key of sessions and stored records different from the zone-less address.
	for _, z := range []string{"eth0", "1"} {
		z := z
		add("ip", "ip-with-zone-"+z, func(id *ident) { id.ip = id.ip.WithZone(z) })
	}
	for _, h := range []crop.Hash{crop.SHA2_224, crop.SHA2_256, crop.SHA2_384, crop.SHA2_512, crop.SHA2_512_224, crop.SHA2_512_256,
		crop.SHA3_224, crop.SHA3_256, crop.SHA3_384, crop.SHA3_512, crop.BLAKE2s_256, crop.BLAKE2b_256, crop.BLAKE2b_384, crop.BLAKE2b_512,
		"", "blake3", "XYZ", crop.Hash(strings.Repeat("H", 300))} {
		h := h
		n := string(h)
		if len(n) > 12 {
			n = n[:12]
		}
		add("hash", "hash="+n, func(id *ident) { id.hash = h })
	}
	for _, t := range []crop.KeyPairType{"", "ed25519", "RSA", "Ed25519 ", crop.KeyPairType(strings.Repeat("T", 256))} {
		t := t
		n := string(t)
		if len(n) > 12 {
			n = n[:12]
		}
		add("type", "type="+n, func(id *ident) { id.typ = t })
	}
	for bit := 0; bit < 256; bit++ {
		bit := bit
		add("key", fmt.Sprintf("key-bit%d", bit), func(id *ident) {
			k := append([]byte(nil), id.key...)
			k[bit/8] ^= 1 << (bit % 8)
			id.key, id.priv = k, nil
		})
	}
	for _, l := range []int{0, 1, 31, 33, 64} {
		l := l
		add("key", fmt.Sprintf("keylen=%d", l), func(id *ident) {
			k := make([]byte, l)
			copy(k, id.key)
			for i := 32; i < l; i++ {
				k[i] = byte(i)
			}
			id.key, id.priv = k, nil
		})
	}
	add("key", "key=zero", func(id *ident) { id.key, id.priv = make([]byte, 32), nil })
	for _, e := range []uint64{1, 2, 1 << 63} {
		e := e
		add("easing", fmt.Sprintf("easing=%d", e), func(id *ident) { id.easing = e })
	}
	return ds
}

// forgeries returns self-consistent identities: the address IS the digest of
// the (possibly malformed) identity and lies in fd00::/8.
func forgeries() []ident {
	d := kit.NewDRBG("c01-forgeries", 3)
	var out []ident
	hashes := []crop.Hash{crop.BLAKE3, crop.SHA2_256, crop.SHA3_512, crop.BLAKE2s_256, crop.SHA2_224}
	types := []crop.KeyPairType{"Ed25519", "RSA", "ed25519", "X", crop.KeyPairType(strings.Repeat("T", 255))}
	sizes := []int{32, 31, 33, 64, 1, 16}
	easings := []uint64{0, 1, 7}
	for _, h := range hashes {
		for _, t := range types {
			for _, sz := range sizes {
				for _, e := range easings {
					// keep the list moderate: vary easing only for the well-formed shape.
					if e != 0 && !(t == "Ed25519" && sz == 32) {
						continue
					}
					for tries := 0; tries < 200000; tries++ {
						var key []byte
						var priv ed25519.PrivateKey
						if sz == 32 {
							pub, pr, _ := ed25519.GenerateKey(d)
							key, priv = pub, pr
						} else {
							key = make([]byte, sz)
							_, _ = d.Read(key)
						}
						id := ident{hash: h, typ: t, key: key, easing: e, priv: priv}
						dg := refDigest(id)
						if len(dg) < 16 || dg[0] != 0xfd {
							continue
						}
						id.ip = netip.AddrFrom16([16]byte(dg[:16]))
						if m.InternalPrefix.Contains(id.ip) {
							continue
						}
						tn := string(t)
						if len(tn) > 8 {
							tn = tn[:8]
						}
						id.note = fmt.Sprintf("self-consistent forgery hash=%s type=%s keylen=%d easing=%d", h, tn, sz, e)
						out = append(out, id)
						break
					}
				}
			}
		}
	}
	// well-formed identities whose (correct!) digest lies OUTSIDE fd00::/8:
	// address == digest, but not a Mycoria address.
	for _, first := range []byte{0xfc, 0xfe, 0xfd ^ 0x80, 0x20, 0x00, 0xff} {
		for tries := 0; tries < 200000; tries++ {
			pub, pr, _ := ed25519.GenerateKey(d)
			id := ident{hash: crop.BLAKE3, typ: "Ed25519", key: pub, priv: pr}
			dg := refDigest(id)
			if dg[0] != first {
				continue
			}
			id.ip = netip.AddrFrom16([16]byte(dg[:16]))
			id.note = fmt.Sprintf("self-consistent identity outside fd00::/8 (first byte %#x)", first)
			out = append(out, id)
			break
		}
	}
	return out
}

// ---------------------------------------------------------------------------
// entry points

type verdict struct {
	accepted bool
	panicked bool
	detail   string
	leftover string // session / stored record found after a rejection
	na       bool   // case cannot be expressed at this entry point
	silent   bool   // neither an identity nor an error was returned
}

func epVerifyAddress(id ident) (v verdict) {
	p, pv := kit.Try(func() { v.accepted = id.pub().VerifyAddress() == nil })
	if p {
		v.panicked, v.detail = true, fmt.Sprint(pv)
	}
	return
}

func epFromStorage(id ident, privHex string) (v verdict) {
	if !id.ip.IsValid() {
		return verdict{na: true}
	}
	st := m.AddressStorage{IP: id.ip.String(), Hash: id.hash, Type: id.typ, PublicKey: hex.EncodeToString(id.key), PrivateKey: privHex, Easing: id.easing}
	p, pv := kit.Try(func() {
		a, err := m.AddressFromStorage(st)
		v.accepted = err == nil && a != nil
		v.silent = err == nil && a == nil
		if err != nil {
			v.detail = err.Error()
		}
	})
	if p {
		v.panicked, v.detail = true, fmt.Sprint(pv)
	}
	return
}

func epFromKeyPair(id ident) (v verdict) {
	if id.priv == nil || id.typ != "Ed25519" || len(id.key) != 32 {
		return verdict{na: true}
	}
	p, pv := kit.Try(func() {
		kp := crop.MakeEd25519KeyPair(id.priv, ed25519.PublicKey(id.key))
		a, err := m.AddressFromKeyPair(kp, id.ip, id.hash, id.easing)
		v.accepted = err == nil && a != nil
		v.silent = err == nil && a == nil
	})
	if p {
		v.panicked, v.detail = true, fmt.Sprint(pv)
	}
	return
}

// world with router R and an honest peer X linked to it.
type tworld struct {
	w    *kit.World
	r, x *kit.Node
}

func newTWorld() *tworld {
	w := kit.NewWorld()
	r, err := w.AddNode("R", pool[3], config.Store{})
	if err != nil {
		panic(err)
	}
	x, err := w.AddNode("X", pool[4], config.Store{})
	if err != nil {
		panic(err)
	}
	if _, _, err := w.Connect(r, x, 11, 12, 5); err != nil {
		panic(err)
	}
	return &tworld{w, r, x}
}

func (tw *tworld) leftover(ip netip.Addr) string {
	if !ip.IsValid() {
		return ""
	}
	var out []string
	if rec, err := tw.r.Store.GetRouter(ip); err == nil && rec != nil {
		out = append(out, "stored router record")
	} else if err != nil && !errors.Is(err, storage.ErrNotFound) {
		out = append(out, "storage error "+err.Error())
	}
	if s := tw.r.State().GetSession(ip); s != nil {
		out = append(out, "session")
	}
	return strings.Join(out, "+")
}

func (tw *tworld) storedKey(ip netip.Addr) []byte {
	rec, err := tw.r.Store.GetRouter(ip)
	if err != nil || rec == nil || rec.Address == nil {
		return nil
	}
	return rec.Address.PublicKey
}

func pingMsg(hdr router.PingHeader, body []byte) ([]byte, bool) {
	hd, err := cbor.Marshal(&hdr)
	if err != nil || len(hd) > 255 {
		return nil, false
	}
	msg := append([]byte{1, byte(len(hd))}, hd...)
	return append(msg, body...), true
}

func signRaw(f frame.Frame, fv1 *frame.FrameV1, priv ed25519.PrivateKey, d *kit.DRBG) {
	f.SetTTL(0)
	f.SetSequenceTime(time.Now().Round(time.Millisecond).Add(-time.Millisecond))
	if len(priv) == ed25519.PrivateKeySize {
		if err := fv1.SignRaw(priv); err != nil {
			panic(err)
		}
	} else {
		_, _ = d.Read(f.AuthData())
	}
	f.SetTTL(32)
}

var sigDRBG = kit.NewDRBG("c01-sig", 9)

// epPingHeader presents the identity in the header of a first-contact ping.
func (tw *tworld) epPingHeader(id ident) (v verdict) {
	if !id.ip.IsValid() || !id.ip.Is6() || id.easing != 0 {
		return verdict{na: true} // header carries no easing; frame needs a v6 source
	}
	body, _ := cbor.Marshal(map[string]string{"msg": "ping"})
	msg, ok := pingMsg(router.PingHeader{PingID: 42, PingType: "pong", AddrHash: id.hash, KeyType: id.typ, PublicKey: ed25519.PublicKey(id.key)}, body)
	if !ok {
		return verdict{na: true}
	}
	f, err := tw.x.FrameBuilder().NewFrameV1(id.ip, tw.r.Identity().IP, frame.RouterPing, nil, msg, nil)
	if err != nil {
		return verdict{na: true}
	}
	signRaw(f, f, id.priv, sigDRBG)
	raw, _ := f.FrameDataWithMargins(0, 0)
	raw = append([]byte(nil), raw...)
	f.ReturnToPool()
	npan := len(tw.w.Panics)
	errs := tw.w.Inject(tw.x, tw.r, raw)
	if len(tw.w.Panics) > npan {
		v.panicked, v.detail = true, tw.w.Panics[len(tw.w.Panics)-1]
	}
	// accepted identity <=> a record for it exists afterwards.
	v.leftover = tw.leftover(id.ip)
	v.accepted = v.leftover != ""
	if len(errs) > 0 && v.detail == "" {
		v.detail = errs[0].Error()
	}
	return
}

type hopRecord = router.AnnouncePingAttachment

// epHopRecord presents the identity as the signer of a gossip hop record on an
// announcement that the honest peer X forwards.
func (tw *tworld) epHopRecord(id ident) (v verdict) {
	if !id.ip.IsValid() || !id.ip.Is6() {
		return verdict{na: true}
	}
	// origin announcement: signed by X's key as a hop-less announcement of X itself,
	// then one forged hop record is attached and the frame is delivered by X's link.
	// The delivering peer must be the outermost signer for acceptance of the route, which
	// is not the case here - but the identity check happens before that.
	info := &m.RouterInfo{Version: "v"}
	body, _ := cbor.Marshal(&router.AnnouncePingMsg{Info: info, ReturnLabel: 12, Expires: time.Now().Add(10 * time.Minute)})
	xid := tw.x.Identity()
	msg, ok := pingMsg(router.PingHeader{PingID: 43, PingType: "announce", AddrHash: xid.Hash, KeyType: xid.Type, PublicKey: xid.PublicKey}, body)
	if !ok {
		panic("header")
	}
	f, err := tw.x.FrameBuilder().NewFrameV1(xid.IP, m.RouterAddress, frame.RouterHopPingDeprecated, nil, msg, nil)
	if err != nil {
		panic(err)
	}
	signRaw(f, f, xid.PrivateKey, sigDRBG)
	// signing context = origin ip + timestamp + origin signature.
	ctx := make([]byte, 16+8+64)
	copy(ctx[:16], xid.IP.AsSlice())
	m.PutUint64(ctx[16:24], uint64(f.SequenceTime().UnixMilli()))
	copy(ctx[24:], f.AuthData())
	att := hopRecord{Router: *id.pub(), Delay: 5, ForwardLabel: 3, ReturnLabel: 4}
	attData, err := cbor.Marshal(att)
	if err != nil {
		f.ReturnToPool()
		return verdict{na: true}
	}
	var sig []byte
	if len(id.priv) == ed25519.PrivateKeySize {
		sig, _ = id.priv.Sign(nil, attData, &ed25519.Options{Context: string(ctx)})
	} else {
		sig = make([]byte, 64)
		_, _ = sigDRBG.Read(sig)
	}
	if err := f.SetAppendixData(append(attData, sig...)); err != nil {
		f.ReturnToPool()
		return verdict{na: true}
	}
	raw, _ := f.FrameDataWithMargins(0, 0)
	raw = append([]byte(nil), raw...)
	f.ReturnToPool()
	npan := len(tw.w.Panics)
	errs := tw.w.Inject(tw.x, tw.r, raw)
	if len(tw.w.Panics) > npan {
		v.panicked, v.detail = true, tw.w.Panics[len(tw.w.Panics)-1]
	}
	v.leftover = tw.leftover(id.ip)
	v.accepted = v.leftover != ""
	if len(errs) > 0 && v.detail == "" {
		v.detail = errs[0].Error()
	}
	return
}

// epHopRecordChain attaches a chain of nested, correctly signed hop records of
// routers R has never heard of (outermost first) to an announcement of X and
// returns, per chain member, what R afterwards holds under that member's
// address: every stored record and session must be bound to the member's own
// address and key (never to another member's).
func (tw *tworld) epHopRecordChain(members []*m.Address) (misbound []string, panicked string) {
	info := &m.RouterInfo{Version: "v"}
	body, _ := cbor.Marshal(&router.AnnouncePingMsg{Info: info, ReturnLabel: 12, Expires: time.Now().Add(10 * time.Minute)})
	xid := tw.x.Identity()
	msg, _ := pingMsg(router.PingHeader{PingID: 45, PingType: "announce", AddrHash: xid.Hash, KeyType: xid.Type, PublicKey: xid.PublicKey}, body)
	f, err := tw.x.FrameBuilder().NewFrameV1(xid.IP, m.RouterAddress, frame.RouterHopPingDeprecated, nil, msg, nil)
	if err != nil {
		panic(err)
	}
	signRaw(f, f, xid.PrivateKey, sigDRBG)
	ctx := make([]byte, 16+8+64)
	copy(ctx[:16], xid.IP.AsSlice())
	m.PutUint64(ctx[16:24], uint64(f.SequenceTime().UnixMilli()))
	copy(ctx[24:], f.AuthData())
	var apx []byte
	for i := len(members) - 1; i >= 0; i-- {
		att := hopRecord{Router: members[i].PublicAddress, Delay: uint16(5 + i), ForwardLabel: m.SwitchLabel(3 + i), ReturnLabel: m.SwitchLabel(40 + i), NextAttachment: apx}
		data, err := cbor.Marshal(att)
		if err != nil {
			panic(err)
		}
		sig, _ := members[i].PrivateKey.Sign(nil, data, &ed25519.Options{Context: string(ctx)})
		apx = append(data, sig...)
	}
	if err := f.SetAppendixData(apx); err != nil {
		panic(err)
	}
	raw, _ := f.FrameDataWithMargins(0, 0)
	raw = append([]byte(nil), raw...)
	f.ReturnToPool()
	npan := len(tw.w.Panics)
	tw.w.Inject(tw.x, tw.r, raw)
	if len(tw.w.Panics) > npan {
		panicked = tw.w.Panics[len(tw.w.Panics)-1]
	}
	for i, mb := range members {
		if rec, err := tw.r.Store.GetRouter(mb.IP); err == nil && rec != nil && rec.Address != nil {
			if rec.Address.IP != mb.IP || string(rec.Address.PublicKey) != string(mb.PublicKey) {
				misbound = append(misbound, fmt.Sprintf("stored record of chain member %d (%s) holds address %s and another member's key", i, mb.IP, rec.Address.IP))
			} else if rec.Address.VerifyAddress() != nil {
				misbound = append(misbound, fmt.Sprintf("stored record of chain member %d does not verify", i))
			}
		}
		if se := tw.r.State().GetSession(mb.IP); se != nil && se.Address() != nil {
			if se.Address().IP != mb.IP || string(se.Address().PublicKey) != string(mb.PublicKey) {
				misbound = append(misbound, fmt.Sprintf("session of chain member %d (%s) is bound to address %s and another member's key", i, mb.IP, se.Address().IP))
			}
		}
	}
	return
}

// epHopRecordKnownRouter presents, as a hop record, the address of a router R
// already knows (its peer X) together with a FOREIGN key that also signs the
// record. Acceptance is observed as "the announcement was processed" (no handler
// error / routing table changed), since a record for X exists anyway.
func (tw *tworld) epHopRecordKnownRouter(foreign *m.Address) (v verdict) {
	info := &m.RouterInfo{Version: "v"}
	body, _ := cbor.Marshal(&router.AnnouncePingMsg{Info: info, ReturnLabel: 12, Expires: time.Now().Add(10 * time.Minute)})
	xid := tw.x.Identity()
	msg, _ := pingMsg(router.PingHeader{PingID: 44, PingType: "announce", AddrHash: xid.Hash, KeyType: xid.Type, PublicKey: xid.PublicKey}, body)
	f, err := tw.x.FrameBuilder().NewFrameV1(xid.IP, m.RouterAddress, frame.RouterHopPingDeprecated, nil, msg, nil)
	if err != nil {
		panic(err)
	}
	signRaw(f, f, xid.PrivateKey, sigDRBG)
	ctx := make([]byte, 16+8+64)
	copy(ctx[:16], xid.IP.AsSlice())
	m.PutUint64(ctx[16:24], uint64(f.SequenceTime().UnixMilli()))
	copy(ctx[24:], f.AuthData())
	forged := foreign.PublicAddress
	forged.IP = xid.IP // the known router's address, the attacker's key
	att := hopRecord{Router: forged, Delay: 5, ForwardLabel: 3, ReturnLabel: 4}
	attData, _ := cbor.Marshal(att)
	sig, _ := foreign.PrivateKey.Sign(nil, attData, &ed25519.Options{Context: string(ctx)})
	if err := f.SetAppendixData(append(attData, sig...)); err != nil {
		panic(err)
	}
	raw, _ := f.FrameDataWithMargins(0, 0)
	raw = append([]byte(nil), raw...)
	f.ReturnToPool()
	before := kit.TableKey(tw.r)
	npan := len(tw.w.Panics)
	errs := tw.w.Inject(tw.x, tw.r, raw)
	if len(tw.w.Panics) > npan {
		v.panicked, v.detail = true, tw.w.Panics[len(tw.w.Panics)-1]
	}
	v.accepted = len(errs) == 0 || kit.TableKey(tw.r) != before
	if k := tw.storedKey(xid.IP); string(k) != string(xid.PublicKey) {
		v.accepted = true
		v.leftover = "stored key of the known router was replaced"
	}
	if len(errs) > 0 {
		v.detail = errs[0].Error()
	}
	return
}

type peeringRequest struct {
	RouterVersion string          `cbor:"v,omitempty"`
	Universe      string          `cbor:"u,omitempty"`
	LiteMode      bool            `cbor:"lm,omitempty"`
	Address       m.PublicAddress `cbor:"a,omitempty"`
	Challenge     []byte          `cbor:"c,omitempty"`
	LinkVersion   int             `cbor:"lv,omitempty"`
	TunMTU        int             `cbor:"tmtu,omitempty"`
}

// peeringRequestWire builds the signed first handshake message carrying the identity.
func peeringRequestWire(tw *tworld, id ident) ([]byte, bool) {
	req := peeringRequest{RouterVersion: "v", Address: *id.pub(), Challenge: make([]byte, 32), LinkVersion: 1}
	msg, err := cbor.Marshal(&req)
	if err != nil {
		return nil, false
	}
	b := tw.x.FrameBuilder()
	b.SetFrameMargins(2, 0)
	f, err := b.NewFrameV1(id.ip, m.RouterAddress, frame.RouterPing, nil, msg, nil)
	if err != nil {
		return nil, false
	}
	signRaw(f, f, id.priv, sigDRBG)
	f.SetTTL(1)
	data, _ := f.FrameDataWithMargins(2, 0)
	m.PutUint16(data[:2], uint16(len(data)))
	wire := append([]byte(nil), data...)
	f.ReturnToPool()
	return wire, true
}

// isSetupErrorNotice reports whether a handshake message on the wire is the error
// notice a router sends when it gives up (a CBOR map with a non-empty "err").
func isSetupErrorNotice(wire []byte) bool {
	if len(wire) < 2+51 {
		return false
	}
	raw := wire[2:]
	sw := int(raw[48])
	if len(raw) < 51+sw {
		return false
	}
	ml := int(raw[49+sw])<<8 | int(raw[50+sw])
	if len(raw) < 51+sw+ml {
		return false
	}
	var v map[string]any
	if err := cbor.Unmarshal(raw[51+sw:51+sw+ml], &v); err != nil {
		return false
	}
	e, _ := v["err"].(string)
	return e != ""
}

// epPeeringRequest presents the identity in a peering request on a real link setup.
// With known != nil the router has met that (valid) identity on an earlier connection
// - it holds a stored record and a session for the address - and acceptance is
// observed on the wire: the router answers the request with anything but an error notice.
func epPeeringRequest(t *testing.T, id ident, known *ident) (v verdict) {
	if !id.ip.IsValid() || !id.ip.Is6() {
		return verdict{na: true}
	}
	synctest.Test(t, func(t *testing.T) {
		tw := newTWorld()
		present := func(wire []byte) (replies [][]byte, done bool) {
			ep := kit.NewEndpoint("adv")
			go func() {
				if _, pv := kit.Accept(tw.r, ep); pv != nil {
					v.panicked, v.detail = true, fmt.Sprint(pv)
				}
				done = true
			}()
			synctest.Wait()
			ep.Take() // R's own request
			ep.Feed(wire)
			synctest.Wait()
			replies = ep.Take()
			ep.FeedEOF()
			synctest.Wait()
			return replies, done
		}
		if known != nil {
			w0, ok := peeringRequestWire(tw, *known)
			if !ok {
				v.na = true
				return
			}
			replies, _ := present(w0)
			if tw.leftover(known.ip) == "" || len(replies) == 0 {
				panic("harness: the valid identity was not accepted on the first connection")
			}
			time.Sleep(3 * time.Second)
		}
		wire, ok := peeringRequestWire(tw, id)
		if !ok {
			v.na = true
			return
		}
		replies, done := present(wire)
		if !done {
			v.detail = "setup did not return"
		}
		if known != nil {
			for _, r := range replies {
				if !isSetupErrorNotice(r) {
					v.accepted = true
					v.leftover = "the router went on with the handshake (it answered the request with a peering response)"
				}
			}
			if string(tw.storedKey(id.ip)) != string(known.key) {
				v.accepted = true
				v.leftover += " stored key of the known router changed"
			}
		} else {
			v.leftover = tw.leftover(id.ip)
			v.accepted = v.leftover != ""
		}
		_ = tw.r.Peering().Stop()
		synctest.Wait()
	})
	return
}

// ---------------------------------------------------------------------------

func TestC01(t *testing.T) {
	env := kit.GetEnv()
	rep := kit.NewReport("C01", env)
	rep.Rule = "per base identity: the valid identity, every single field deviation (128 address bit flips + 7 foreign/invalid addresses, 14 other known + 4 unknown hash names incl. empty and 300-byte, 5 key-type names incl. empty/256-byte, 256 key bit flips + 5 odd key sizes + zero key, 3 easing values; plus an identity that really uses easing with 14 other easing values incl. ones differing only in a high-order byte) at all six entry points; every PAIR of deviations of different fields at the pure entry points; ~50 self-consistent forgeries (address recomputed as the digest of a malformed identity: 5 hashes x 5 key-type names x 6 key sizes) and 6 well-formed identities whose matching digest lies outside fd00::/8, at all entry points; the address of an already known router presented with a foreign key (hop record, ping header); every deviation that keeps the address presented in a peering request by a router that is ALREADY KNOWN under its valid identity (learned on an earlier connection; request signed with the router's real key), where acceptance is observed on the wire (the router answers with anything but an error notice) and in the stored key; presentation sequences bad->good and good->bad on one long-lived router; announcements with chains of 2 and 3 nested hop records of unknown routers (every resulting record and session bound to its own address and key); generator over all subsets of a 5-prefix acceptable alphabet x all subsets of a 4-prefix ignore alphabet x maxEasing {0,3} (satisfiable ones + cheap unsatisfiable ones), each call sharing its ignore list with an earlier call for another acceptable set; non-trivial = case deviates from the valid identity; distinct = distinct (identity, entry point)"
	rep.Assumptions = []string{
		"the reference predicate uses crop's hash primitives (not m/address.go) to recompute digests",
		"key material inside the generator comes from the process RNG: the prefix-configuration space is exhaustive, the key space cannot be",
		"acceptance at a network entry point is observed as 'a stored record / session for the presented address exists afterwards'",
	}
	nBase := 1
	if env.Thorough() {
		nBase = 3
	}
	rep.Bounds["base_identities"] = nBase
	devs := deviations()
	forg := forgeries()
	rep.Bounds["single_deviations"] = len(devs)
	rep.Bounds["forgeries"] = len(forg)

	var evals, nontrivial int64
	judge := func(ep string, id ident, v verdict, extraReject bool) {
		if v.na {
			return
		}
		evals++
		if id.note != "valid" {
			nontrivial++
		}
		want := refAccept(id) && !extraReject
		cls := fieldClass(id)
		switch {
		case v.panicked:
			rep.Violate(fmt.Sprintf("%s/panic/%s", ep, cls), fmt.Sprintf("entry point %s panicked on %s: %s", ep, id, v.detail), map[string]any{"entry": ep, "identity": id.String()})
			rep.Outcome(ep + "/panic")
		case v.silent:
			rep.Violate(fmt.Sprintf("%s/rejected-without-error/%s", ep, cls), fmt.Sprintf("entry point %s returned neither an identity nor an error for %s", ep, id), map[string]any{"entry": ep, "identity": id.String()})
			rep.Outcome(ep + "/rejected-without-error")
		case v.accepted && !want:
			rep.Violate(fmt.Sprintf("%s/accepted-invalid/%s", ep, cls), fmt.Sprintf("entry point %s accepted %s (left: %s)", ep, id, v.leftover), map[string]any{"entry": ep, "identity": id.String()})
			rep.Outcome(ep + "/accepted-invalid")
		case !v.accepted && want:
			rep.Violate(fmt.Sprintf("%s/rejected-valid/%s", ep, cls), fmt.Sprintf("entry point %s rejected %s: %s", ep, id, v.detail), map[string]any{"entry": ep, "identity": id.String()})
			rep.Outcome(ep + "/rejected-valid")
		case v.accepted:
			rep.Outcome(ep + "/accepted")
		default:
			rep.Outcome(ep + "/rejected")
		}
		if evals%20000 == 1 {
			rep.Sample(map[string]any{"entry": ep, "identity": id.String(), "accepted": v.accepted})
		}
	}

	caseNo := 0
	mine := func() bool { caseNo++; return env.Mine(caseNo) }

	for bi := 0; bi < nBase; bi++ {
		base := baseIdent(pool[bi])
		privHex := hex.EncodeToString(base.priv)

		var cases []ident
		cases = append(cases, base)
		for _, d := range devs {
			id := base
			id.key = append([]byte(nil), base.key...)
			d.apply(&id)
			id.note = d.name
			cases = append(cases, id)
		}
		cases = append(cases, forg...)

		// all entry points, singles + forgeries.
		for _, id := range cases {
			if !mine() {
				continue
			}
			judge("VerifyAddress", id, epVerifyAddress(id), false)
			ph := privHex
			if id.priv != nil {
				ph = hex.EncodeToString(id.priv)
			}
			// storage: private key must also match the public key.
			privOK := id.priv != nil
			judge("AddressFromStorage", id, epFromStorage(id, ph), !privOK)
			judge("AddressFromKeyPair", id, epFromKeyPair(id), false)
			tw := newTWorld()
			judge("ping-header", id, tw.epPingHeader(id), false)
			tw = newTWorld()
			judge("hop-record", id, tw.epHopRecord(id), false)
			judge("peering-request", id, epPeeringRequest(t, id, nil), false)
			// the same identity presented by a router that is already known under its valid
			// identity (same address, request signed with the real key).
			if id.ip == base.ip && base.priv != nil {
				kid := id
				kid.priv = base.priv
				judge("peering-request/known-router", kid, epPeeringRequest(t, kid, &base), false)
			}
		}

		// the address of a router that is already known, presented with a foreign key.
		if mine() {
			tw := newTWorld()
			id := ident{ip: pool[4].IP, hash: pool[2].Hash, typ: pool[2].Type, key: pool[2].PublicKey, priv: pool[2].PrivateKey, note: "known router's address with a foreign key"}
			judge("hop-record/known-router", id, tw.epHopRecordKnownRouter(pool[2]), false)
			tw = newTWorld()
			judge("ping-header/known-router", id, func() verdict {
				before := kit.TableKey(tw.r)
				v := tw.epPingHeader(id)
				// a record for X exists anyway: acceptance = the stored key changed or the ping was handled.
				v.accepted = string(tw.storedKey(id.ip)) != string(pool[4].PublicKey) || kit.TableKey(tw.r) != before
				return v
			}(), false)
		}

		// an identity that really uses easing (address = digest incl. easing value 3):
		// every other easing value, in particular one that differs only in its
		// high-order bytes, must be refused at every pure entry point.
		if bi == 0 && mine() {
			d := kit.NewDRBG("c01-easing", 1)
			var eased ident
			for tries := 0; ; tries++ {
				if tries > 200000 {
					panic("harness: no eased identity found")
				}
				pub, priv, _ := ed25519.GenerateKey(d)
				ip, err := m.DigestToAddress(crop.BLAKE3, crop.KeyPairTypeEd25519, pub, 3)
				if err == nil && ip.As16()[0] == 0xfd && m.RoutingAddressPrefix.Contains(ip) && !m.InternalPrefix.Contains(ip) {
					eased = ident{ip: ip, hash: crop.BLAKE3, typ: crop.KeyPairTypeEd25519, key: pub, priv: priv, easing: 3, note: "valid"}
					break
				}
			}
			cases := []ident{eased}
			for _, e := range []uint64{0, 2, 4, 3 | 1<<56, 3 | 1<<48, 3 | 1<<40, 3 | 1<<32, 3 | 1<<24, 3 | 1<<16, 3 | 1<<8, 3 | 1<<63, 3 | 0xFF<<56, 3 << 8, 3 << 56} {
				id := eased
				id.easing = e
				id.note = fmt.Sprintf("easing=%#x instead of 3", e)
				cases = append(cases, id)
			}
			for _, id := range cases {
				judge("VerifyAddress", id, epVerifyAddress(id), false)
				judge("AddressFromStorage", id, epFromStorage(id, hex.EncodeToString(id.priv)), false)
				judge("AddressFromKeyPair", id, epFromKeyPair(id), false)
			}
		}

		// chains of two and three hop records of routers unknown so far: every
		// record and session that results is bound to its own address and key.
		if mine() {
			for n := 2; n <= 3; n++ {
				tw := newTWorld()
				members := []*m.Address{chainPool[(bi*3)%len(chainPool)], chainPool[(bi*3+1)%len(chainPool)], chainPool[(bi*3+2)%len(chainPool)]}[:n]
				mis, pan := tw.epHopRecordChain(members)
				evals++
				nontrivial++
				switch {
				case pan != "":
					rep.Violate("hop-record-chain/panic", fmt.Sprintf("announcement with %d nested hop records of unknown routers panicked: %s", n, pan), n)
				case len(mis) > 0:
					rep.Violate("hop-record-chain/record-or-session-bound-to-foreign-key", fmt.Sprintf("announcement with %d nested hop records of unknown routers: %s", n, strings.Join(mis, "; ")), n)
					rep.Outcome("hop-record-chain/misbound")
				default:
					rep.Outcome("hop-record-chain/ok")
				}
			}
		}

		// private key corruptions at the storage entry point.
		if mine() {
			for _, pc := range []struct {
				name string
				hex  string
			}{
				{"priv-bitflip", flipHex(privHex, 5)},
				{"priv-pubpart-bitflip", flipHex(privHex, 64+5)},
				{"priv-short", privHex[:126]},
				{"priv-long", privHex + "00"},
				{"priv-empty", ""},
				{"priv-of-other-identity", hex.EncodeToString(pool[(bi+1)%len(pool)].PrivateKey)},
				{"priv-not-hex", "zz" + privHex[2:]},
			} {
				id := base
				id.note = pc.name
				judge("AddressFromStorage", id, epFromStorage(id, pc.hex), true)
			}
		}

		// pairs of deviations in different fields, pure entry points.
		for i := 0; i < len(devs); i++ {
			if !mine() {
				continue
			}
			for j := i + 1; j < len(devs); j++ {
				if devs[i].field == devs[j].field {
					continue
				}
				id := base
				id.key = append([]byte(nil), base.key...)
				devs[i].apply(&id)
				devs[j].apply(&id)
				id.note = devs[i].name + "+" + devs[j].name
				judge("VerifyAddress", id, epVerifyAddress(id), false)
				judge("AddressFromStorage", id, epFromStorage(id, privHex), true)
			}
		}

		// sequences on one long-lived router.
		if mine() {
			for _, d := range devs {
				if d.field == "ip" { // same address must be presented twice
					continue
				}
				bad := base
				bad.key = append([]byte(nil), base.key...)
				d.apply(&bad)
				bad.note = d.name
				if refAccept(bad) {
					continue
				}
				// bad then good.
				tw := newTWorld()
				v1 := tw.epPingHeader(bad)
				judge("seq/bad-then-good/ping-header", bad, v1, false)
				v2 := tw.epPingHeader(base)
				judge("seq/bad-then-good/ping-header", base, v2, false)
				// good then bad: stored key must stay the valid one.
				tw = newTWorld()
				_ = tw.epPingHeader(base)
				_ = tw.epPingHeader(bad)
				evals++
				nontrivial++
				if k := tw.storedKey(base.ip); string(k) != string(base.key) {
					rep.Violate("seq/good-then-bad/record-changed", fmt.Sprintf("after a valid first contact, presenting %s changed the stored key", bad), nil)
				}
				if len(tw.w.Panics) > 0 {
					rep.Violate("seq/good-then-bad/panic", fmt.Sprintf("panic %s on %s after a valid first contact", tw.w.Panics[0], bad), nil)
				}
			}
		}
	}

	generator(rep, env, &evals, &nontrivial)
	runVerifySched(t, rep, env)

	rep.Add(evals, nontrivial, 0, 0)
	if err := rep.Finish(env); err != nil {
		t.Fatal(err)
	}
}

func fieldClass(id ident) string {
	n := id.note
	switch {
	case n == "valid":
		return "valid"
	case strings.HasPrefix(n, "known router"):
		return "known-address-foreign-key"
	case strings.HasPrefix(n, "self-consistent identity outside"):
		return "matching-digest-outside-fd00/8"
	case strings.HasPrefix(n, "self-consistent"):
		if id.typ != "Ed25519" {
			return "forgery-unknown-keytype"
		}
		if len(id.key) != 32 {
			return "forgery-odd-keysize"
		}
		return "forgery-wellformed"
	case strings.Contains(n, "+"):
		return "pair"
	case strings.HasPrefix(n, "hash="):
		if id.hash.New() == nil {
			return "unknown-hash"
		}
		return "other-hash"
	case strings.HasPrefix(n, "type="):
		return "keytype"
	case strings.HasPrefix(n, "keylen="):
		return "keysize"
	case strings.HasPrefix(n, "key"):
		return "key"
	case strings.HasPrefix(n, "ip"):
		return "address"
	case strings.HasPrefix(n, "easing"):
		return "easing"
	case strings.HasPrefix(n, "priv"):
		return "private-key"
	}
	return "other"
}

func flipHex(h string, nibble int) string {
	b := []byte(h)
	if b[nibble] == '0' {
		b[nibble] = '1'
	} else {
		b[nibble] = '0'
	}
	return string(b)
}

var chainPool = kit.RoutablePool("c01-chain", 9)

func generator(rep *kit.Report, env kit.Env, evals, nontrivial *int64) {
	accept := []netip.Prefix{
		netip.MustParsePrefix("fd00::/9"), netip.MustParsePrefix("fd80::/9"), netip.MustParsePrefix("fd10::/12"),
		netip.MustParsePrefix("fd00::/12"), netip.MustParsePrefix("fd28::/13"),
	}
	ignore := []netip.Prefix{
		netip.MustParsePrefix("fd00::/10"), netip.MustParsePrefix("fd10::/13"), netip.MustParsePrefix("fd00::/112"), netip.MustParsePrefix("fd80::/10"),
	}
	n := 0
	for am := 1; am < 1<<len(accept); am++ {
		for im := 0; im < 1<<len(ignore); im++ {
			for _, maxEasing := range []uint64{0, 3} {
				n++
				if !env.Mine(n) {
					continue
				}
				var acc, ign []netip.Prefix
				for i, p := range accept {
					if am&(1<<i) != 0 {
						acc = append(acc, p)
					}
				}
				for i, p := range ignore {
					if im&(1<<i) != 0 {
						ign = append(ign, p)
					}
				}
				// satisfiable iff some acceptable /13 block is not ignored (all
				// prefixes here are aligned to /13 or shorter, except the /112).
				sat := false
				for b := 0; b < 32; b++ { // /13 blocks of fd00::/8
					blk := netip.PrefixFrom(netip.AddrFrom16([16]byte{0xfd, byte(b << 3)}), 13)
					in := false
					for _, p := range acc {
						if p.Overlaps(blk) && p.Bits() <= 13 {
							in = true
						}
					}
					for _, p := range ign {
						if p.Bits() <= 13 && p.Overlaps(blk) {
							in = false
						}
					}
					if in {
						sat = true
					}
				}
				if !sat && !(len(acc) == 1 && acc[0].Bits() == 9) {
					continue // expensive unsatisfiable search, skipped (stated in the rule)
				}
				*evals++
				*nontrivial++
				var a *m.Address
				var err error
				// the caller's lists are shared with an earlier call that used another
				// acceptable set (as the command line tool does with its package-level
				// ignore list); the generator must leave them as they are.
				ignArg := append([]netip.Prefix(nil), ign...)
				accArg := append([]netip.Prefix(nil), acc...)
				if len(ignArg) > 0 {
					other := []netip.Prefix{accept[n%2]} // one of the two /9 halves: satisfiable under every ignore subset
					kit.Try(func() { _, _, _ = m.GenerateRoutableAddress(context.Background(), other, ignArg, 0) })
				}
				pan, pv := kit.Try(func() { a, _, err = m.GenerateRoutableAddress(context.Background(), accArg, ignArg, maxEasing) })
				desc := fmt.Sprintf("acceptable=%v ignore=%v maxEasing=%d (ignore list shared with an earlier call)", acc, ign, maxEasing)
				if fmt.Sprint(ignArg) != fmt.Sprint(ign) || fmt.Sprint(accArg) != fmt.Sprint(acc) {
					rep.Violate("generator/caller-lists-modified", fmt.Sprintf("the generator modified the caller's prefix lists: ignore %v -> %v, acceptable %v -> %v", ign, ignArg, acc, accArg), desc)
				}
				switch {
				case pan:
					rep.Violate("generator/panic", fmt.Sprintf("generator panicked: %v; %s", pv, desc), desc)
				case err != nil:
					if sat {
						// allowed (max tries) but should practically not happen; record as outcome only.
						rep.Outcome("generator/gave-up-on-satisfiable")
					} else {
						rep.Outcome("generator/unsatisfiable-error")
					}
				default:
					rep.Outcome(fmt.Sprintf("generator/identity(easing=%d of max %d)", a.Easing, maxEasing))
					bad := ""
					inAcc := false
					for _, p := range acc {
						if p.Contains(a.IP) {
							inAcc = true
						}
					}
					for _, p := range ign {
						if p.Contains(a.IP) {
							bad = "address in ignored prefix " + p.String()
						}
					}
					switch {
					case a.VerifyAddress() != nil:
						bad = "generated identity fails VerifyAddress"
					case !refAccept(ident{ip: a.IP, hash: a.Hash, typ: a.Type, key: a.PublicKey, easing: a.Easing}):
						bad = "generated identity fails the reference predicate"
					case !inAcc:
						bad = "address outside every requested prefix"
					case m.InternalPrefix.Contains(a.IP):
						bad = "address in internal range"
					case a.Easing > maxEasing:
						bad = "easing above maximum"
					}
					if bad == "" {
						re, err := m.AddressFromStorage(a.Store())
						if err != nil {
							bad = "stored form does not reload: " + err.Error()
						} else if re.IP != a.IP || re.Hash != a.Hash || re.Type != a.Type || string(re.PublicKey) != string(a.PublicKey) || re.Easing != a.Easing || string(re.PrivateKey) != string(a.PrivateKey) {
							bad = "reloaded identity differs"
						}
					}
					if bad != "" {
						rep.Violate("generator/"+strings.SplitN(bad, " ", 3)[1], fmt.Sprintf("%s: %v; %s", bad, a.IP, desc), desc)
					}
				}
			}
		}
	}
}
