package c09

import (
	"encoding/json"
	"fmt"
	"os"
	"net/netip"
	"sync"
	"testing"
	"testing/synctest"
	"time"

	"verif/kit"

	"github.com/mycoria/mycoria/m"
	"github.com/mycoria/mycoria/storage"
)

var (
	specialOnce sync.Once
	specialIDs  map[string][]*m.Address
	specialList = []struct {
		name   string
		prefix netip.Prefix
	}{
		{"roaming", m.RoamingPrefix},
		{"organization", m.OrganizationPrefix},
		{"nexus-pool", m.NexusPoolPrefix},
		{"nexus-org", m.NexusOrgPrefix},
		{"anycast", m.AnycastPrefix},
		{"experiments", m.ExperimentsPrefix},
	}
)

// specials returns three identities per special range. Finding a key whose address
// falls into a /16 takes tens of thousands of key generations, so the identities
// (deterministic: DRBG per range) are kept in testdata/special_ids.json; every entry
// is loaded through the real m.AddressFromStorage and checked against its range,
// and a missing or unusable file is regenerated.
func specials() map[string][]*m.Address {
	specialOnce.Do(func() {
		specialIDs = map[string][]*m.Address{}
		const file = "testdata/special_ids.json"
		var stored map[string][]m.AddressStorage
		if b, err := os.ReadFile(file); err == nil {
			_ = json.Unmarshal(b, &stored)
		}
		ok := stored != nil
		for _, sp := range specialList {
			if !ok || len(stored[sp.name]) != 3 {
				ok = false
				break
			}
			for _, as := range stored[sp.name] {
				a, err := m.AddressFromStorage(as)
				if err != nil || !sp.prefix.Contains(a.IP) || a.PrivateKey == nil {
					ok = false
					break
				}
				specialIDs[sp.name] = append(specialIDs[sp.name], a)
			}
		}
		if ok {
			return
		}
		specialIDs = map[string][]*m.Address{}
		stored = map[string][]m.AddressStorage{}
		for _, sp := range specialList {
			d := kit.NewDRBG("ids/c09-special/"+sp.name, 1)
			for i := 0; i < 3; i++ {
				a := kit.GenIdentity(d, sp.prefix)
				specialIDs[sp.name] = append(specialIDs[sp.name], a)
				stored[sp.name] = append(stored[sp.name], a.Store())
			}
		}
		if b, err := json.MarshalIndent(stored, "", " "); err == nil {
			_ = os.MkdirAll("testdata", 0o755)
			tmp := fmt.Sprintf("%s.%d", file, os.Getpid())
			if os.WriteFile(tmp, b, 0o644) == nil {
				_ = os.Rename(tmp, file)
			}
		}
	})
	return specialIDs
}

func (ms *mesh) settle() int {
	steps := 0
	for len(ms.w.InFlight) > 0 && steps < 200000 {
		ms.w.Deliver(0)
		steps++
	}
	return steps
}

// addressTypes: the reach claim for routers whose addresses lie in the special
// ranges (roaming, organization, nexus, anycast, experiments): several routers
// of one range, and of different ranges, around ordinary (geo-marked) routers.
func addressTypes(t *testing.T, rep *kit.Report, env kit.Env, evals, nontrivial *int64, mine func() bool) {
	type layout struct {
		name string
		g    graph
		// role per node: -1 ordinary router (pool), k>=0: k-th identity of the range
		role []int
	}
	layouts := []layout{
		{"special-ordinary-special", line(3), []int{0, -1, 1}},
		{"ordinary-hub-three-special-leaves", star(4), []int{-1, 0, 1, 2}},
		{"special-hub-ordinary-leaves", star(4), []int{0, -1, -1, -1}},
		{"special-special-ordinary-special", line(4), []int{0, 1, -1, 2}},
		{"ring-two-special-two-ordinary", ring(4), []int{0, -1, 1, -1}},
	}
	for _, sp := range specialList {
		for _, lay := range layouts {
			if !mine() {
				continue
			}
			ids := specials()
			synctest.Test(t, func(t *testing.T) {
				var use []*m.Address
				for i, r := range lay.role {
					if r < 0 {
						use = append(use, pool[i])
					} else {
						use = append(use, ids[sp.name][r])
					}
				}
				p := params{g: lay.g, origins: allOrigins(lay.g.n), oneSend: -1, tick: time.Millisecond, ids: use}
				ms := build(p)
				ms.start()
				steps := ms.settle()
				*evals += int64(steps)
				*nontrivial += int64(steps)
				desc := fmt.Sprintf("%s, special range %s (%s)", lay.name, sp.name, sp.prefix)
				for _, v := range ms.reachViolations(p.origins) {
					rep.Violate("address-types/"+sp.name+"/"+firstWord(v), fmt.Sprintf("%s — %s", v, desc), desc)
				}
				for _, pn := range ms.w.Panics {
					rep.Violate("address-types/"+sp.name+"/panic", pn+" "+desc, desc)
				}
				rep.Outcome("address-types/converged")
			})
		}
	}
	// routers of different special ranges around one ordinary router.
	if mine() {
		ids := specials()
		synctest.Test(t, func(t *testing.T) {
			use := []*m.Address{pool[0]}
			g := star(len(specialList) + 1)
			for _, sp := range specialList {
				use = append(use, ids[sp.name][0])
			}
			p := params{g: g, origins: allOrigins(g.n), oneSend: -1, tick: time.Millisecond, ids: use}
			ms := build(p)
			ms.start()
			steps := ms.settle()
			*evals += int64(steps)
			*nontrivial += int64(steps)
			for _, v := range ms.reachViolations(p.origins) {
				rep.Violate("address-types/mixed/"+firstWord(v), v+" — ordinary hub with one leaf of every special range", "mixed")
			}
			rep.Outcome("address-types/converged")
		})
	}
}

// restarts: the mesh converges, then routers are stopped and started again with
// the state they had stored (router entries learned before), under the same or
// a different universe name, links come up again and everybody announces: the
// reach claim holds for the new incarnation as for a fresh mesh.
func restarts(t *testing.T, rep *kit.Report, env kit.Env, evals, nontrivial *int64, mine func() bool) {
	for _, g := range []graph{line(3), ring(3), star(4), line(4)} {
		for _, mig := range [][2]string{{"lab", "lab"}, {"lab", "prod"}, {"lab", ""}, {"", "prod"}} {
			for _, who := range []string{"all", "all-but-first", "first-only"} {
				if !mine() {
					continue
				}
				synctest.Test(t, func(t *testing.T) {
					desc := fmt.Sprintf("%s, universe %q then %q, restarted: %s", g.name, mig[0], mig[1], who)
					p := params{g: g, origins: allOrigins(g.n), oneSend: -1, tick: time.Millisecond, universe: mig[0]}
					ms := build(p)
					ms.start()
					steps := ms.settle()
					for _, v := range ms.reachViolations(p.origins) {
						rep.Violate("restarts/"+firstWord(v)+"-before-restart", fmt.Sprintf("%s — %s", v, desc), desc)
					}
					time.Sleep(7 * time.Minute)
					// second incarnation (one universe name for the whole mesh): routers that
					// restart keep what they stored, the others come back as fresh installs.
					var stores []*storage.MemStorage
					for i, n := range ms.nodes {
						keep := who == "all" || (who == "all-but-first" && i > 0) || (who == "first-only" && i == 0)
						if keep {
							stores = append(stores, n.Store)
						} else {
							stores = append(stores, nil)
						}
					}
					p2 := p
					p2.universe = mig[1]
					p2.storages = stores
					ms2 := build(p2)
					ms2.start()
					steps += ms2.settle()
					*evals += int64(steps)
					*nontrivial += int64(steps)
					for _, v := range ms2.reachViolations(p2.origins) {
						rep.Violate("restarts/"+firstWord(v), fmt.Sprintf("%s — %s", v, desc), desc)
					}
					for _, pn := range append(ms.w.Panics, ms2.w.Panics...) {
						rep.Violate("restarts/panic", pn+" "+desc, desc)
					}
					rep.Outcome("restarts/converged")
				})
			}
		}
	}
}
