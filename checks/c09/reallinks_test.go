package c09

import (
	"fmt"
	"testing"
	"testing/synctest"
	"time"

	"verif/kit"

	"github.com/mycoria/mycoria/config"
)

// realLinks: the same reach claim over REAL links (the repository's LinkBase:
// real handshake, link encryption, reader and writer workers) carried by
// harness-owned byte streams, so that what the link reader hands to the switch
// (frame bytes, receive link, buffer margins) is part of the system under test.
func realLinks(t *testing.T, rep *kit.Report, env kit.Env, evals, nontrivial *int64, mine func() bool) {
	gs := []graph{line(3), line(4), ring(3), star(4)}
	if env.Thorough() {
		gs = append(gs, line(6), ring(5), grid(2, 3))
	}
	for _, g := range gs {
		for _, info := range []int{0, 450, -450} {
			// negative: the same padding over a transport that hands data to the link reader in 300-byte segments.
			seg := 0
			if info < 0 {
				info, seg = -info, 300
			}
			if !mine() {
				continue
			}
			synctest.Test(t, func(t *testing.T) {
				w := kit.NewWorld()
				var nodes []*kit.Node
				for i := 0; i < g.n; i++ {
					st := config.Store{}
					if info > 0 {
						st.Router.Listen = []string{"tcp:47369"}
						st.ServiceConfigs = []config.ServiceConfig{{Name: fmt.Sprintf("%0*d", info/3, i), URL: "tcp://pad.myco:8080", Public: true, Advertise: true, Description: fmt.Sprintf("%0*d", info/3*2, i)}}
					}
					n, err := w.AddNode(fmt.Sprintf("N%d", i), pool[i], st)
					must(err)
					nodes = append(nodes, n)
				}
				var wires []*kit.Wire
				for _, e := range g.edges {
					time.Sleep(3 * time.Millisecond)
					wr := kit.NewWire(nodes[e[0]], nodes[e[1]])
					wr.EA.MaxRead, wr.EB.MaxRead = seg, seg
					wr.Start()
					wr.Pump(12)
					if wr.LinkA == nil || wr.LinkB == nil {
						panic(fmt.Sprintf("harness: real link %v did not come up (%v / %v)", e, wr.ErrA, wr.ErrB))
					}
					wires = append(wires, wr)
				}
				serve := func(n *kit.Node) bool {
					any := false
					for {
						select {
						case f := <-n.SwitchIn:
							any = true
							if err := n.Switch().VerifHandleFrame(f); err != nil {
								_ = err
							}
							w.DrainRouter(n)
							continue
						default:
						}
						return any
					}
				}
				settle := func() int {
					steps := 0
					for i := 0; i < 5000; i++ {
						moved := false
						for _, wr := range wires {
							if wr.Pump(1) > 0 {
								moved = true
							}
						}
						for _, n := range nodes {
							if serve(n) {
								moved = true
							}
						}
						if !moved {
							break
						}
						steps++
					}
					return steps
				}
				settle()
				for _, n := range nodes {
					for _, l := range n.Peering().GetLinks() {
						must(n.Router().AnnouncePing.Send(l.Peer()))
					}
					time.Sleep(time.Millisecond)
				}
				steps := settle()
				*evals += int64(steps)
				*nontrivial += int64(steps)
				ms := &mesh{w: w, nodes: nodes}
				desc := fmt.Sprintf("%s over real links, router-info padding %d, transport segments %d", g.name, info, seg)
				for _, v := range ms.reachViolations(allOrigins(g.n)) {
					rep.Violate("real-links/"+g.name+"/"+firstWord(v), fmt.Sprintf("%s — %s", v, desc), desc)
				}
				for _, pn := range w.Panics {
					rep.Violate("real-links/"+g.name+"/panic", pn+" "+desc, desc)
				}
				rep.Outcome("real-links/converged")
				for _, wr := range wires {
					wr.Shutdown()
				}
			})
		}
	}
}

func firstWord(s string) string {
	for i, c := range s {
		if c == ':' {
			return s[:i]
		}
	}
	return s
}

// overTime: the reach claim while time passes - every router re-announces every
// five minutes (the real announce interval), the routing-table cleaner runs
// every ten minutes, for half an hour: after every round every router still
// holds an exact route to every other router.
func overTime(t *testing.T, rep *kit.Report, env kit.Env, evals, nontrivial *int64, mine func() bool) {
	gs := []graph{line(4), ring(4), star(4)}
	if env.Thorough() {
		gs = append(gs, grid(2, 3), line(6), tree(7))
	}
	for _, g := range gs {
		if !mine() {
			continue
		}
		synctest.Test(t, func(t *testing.T) {
			p := params{g: g, origins: allOrigins(g.n), oneSend: -1, tick: time.Millisecond}
			ms := build(p)
			start := time.Now()
			nextClean := 10 * time.Minute
			for round := 0; round <= 6; round++ {
				ms.start()
				steps := 0
				for len(ms.w.InFlight) > 0 && steps < 200000 {
					ms.w.Deliver(0)
					steps++
				}
				*evals += int64(steps)
				*nontrivial += int64(steps)
				at := time.Since(start).Round(time.Second)
				for _, v := range ms.reachViolations(p.origins) {
					rep.Violate("over-time/"+g.name+"/"+firstWord(v), fmt.Sprintf("%s — %s, %v after the first announcements (announcement round %d, cleaner every 10 min)", v, g.name, at, round+1), map[string]any{"graph": g.name, "round": round})
				}
				for _, pn := range ms.w.Panics {
					rep.Violate("over-time/"+g.name+"/panic", pn, g.name)
				}
				ms.w.Panics = nil
				// five minutes until the next round; the cleaner runs when its ten minutes are up.
				for slept := time.Duration(0); slept < 5*time.Minute; slept += 20 * time.Second {
					time.Sleep(20 * time.Second)
					if time.Since(start) >= nextClean {
						for _, n := range ms.nodes {
							n.RoutingTable().Clean()
						}
						nextClean += 10 * time.Minute
						for _, v := range ms.reachViolations(p.origins) {
							rep.Violate("over-time/"+g.name+"/"+firstWord(v)+"-after-cleaner", fmt.Sprintf("%s — %s, right after the cleaner at %v", v, g.name, time.Since(start).Round(time.Second)), map[string]any{"graph": g.name, "round": round})
						}
					}
				}
			}
			rep.Outcome("over-time/30-minutes")
		})
	}
}
