// C09, interleaving tier: in a converged honest mesh a link is replaced (the
// old link object is torn down by its own worker while the setup worker of the
// replacement registers), and the periodic table cleaner runs while an
// announcement is handled. The peering, m, router and state packages are
// compiled with their sync / sync/atomic imports rewritten to the
// controlled-scheduler shims; ALL schedules up to a preemption bound are
// explored. Oracle: the outcome equals that of one of the serial orders, and at
// the end a router with a live link to a neighbour holds the exact route to it;
// after the next round of announcements every router reaches every other.
package c09

import (
	"testing"
	"testing/synctest"

	"verif/kit"
	"verif/schedx"

	"github.com/mycoria/mycoria/config"
	"github.com/mycoria/mycoria/m"
)

func reachJudge(rw *schedx.ReconnectWorld, ex *schedx.Exec) {
	a, b := rw.A, rw.B
	if l := a.Peering().GetLink(b.Identity().IP); l != nil && !l.IsClosing() {
		e, isDst := a.RoutingTable().LookupNearest(b.Identity().IP)
		if e == nil || !isDst || e.NextHop != b.Identity().IP {
			ex.Bad("live-link-without-route", "A has a live registered link to its neighbour B but no exact route to B after the old link was torn down while the replacement registered")
		}
		// the next round of announcements restores full reach.
		rw.AnnounceAll()
		for _, x := range rw.W.Nodes {
			for _, y := range rw.W.Nodes {
				if x == y {
					continue
				}
				if e, isDst := x.RoutingTable().LookupNearest(y.Identity().IP); e == nil || !isDst {
					ex.Bad("no-reach-after-reannouncement", "%s holds no exact route to %s after the link replacement and a full round of announcements", x.Name, y.Name)
				}
			}
		}
	}
}

// cleanerConc: the table cleaner of A runs while A handles a fresh announcement of C.
func cleanerConc(t *testing.T, bubble bool) schedx.Conc {
	build := func() *schedx.Instance {
		rw := schedx.NewReconnectWorld(pool[:3])
		// C announces again; B forwards; the frame for A is held.
		_ = rw.C.Router().AnnouncePing.Send(rw.B.Identity().IP)
		var held *kit.Flight
		for steps := 0; steps < 50 && len(rw.W.InFlight) > 0; steps++ {
			if rw.W.InFlight[0].To == rw.A {
				held = rw.W.Drop(0)
				continue
			}
			rw.W.Deliver(0)
		}
		if held == nil {
			panic("harness: no announcement of C reached A's link")
		}
		in := &schedx.Instance{}
		in.Threads = [][]schedx.Op{
			{{Name: "table cleaner", Do: func() { rw.A.RoutingTable().Clean() }}},
			{{Name: "announcement of C arrives", Do: func() { rw.W.Inject(held.From, held.To, held.Bytes) }}},
		}
		in.Observe = func() string { return kit.TableKey(rw.A) }
		in.Check = func(ex *schedx.Exec) {
			for _, p := range rw.W.Panics {
				ex.Bad("panic", "worker panic: %s", p)
			}
			for _, y := range []*kit.Node{rw.B, rw.C} {
				if e, isDst := rw.A.RoutingTable().LookupNearest(y.Identity().IP); e == nil || !isDst {
					ex.Bad("route-lost", "A holds no exact route to %s after its table cleaner ran while an announcement was handled", y.Name)
				}
			}
		}
		return in
	}
	c := schedx.Conc{Name: "table cleaner | announcement handled", Build: build}
	if bubble {
		c.Wrap = func(f func()) { synctest.Test(t, func(t *testing.T) { f() }) }
	} else {
		c.Wrap = func(f func()) {
			t.Run("bubble", func(t *testing.T) { synctest.Test(t, func(t *testing.T) { f() }) })
		}
	}
	return c
}

// relayConc: a relay handles the announcements of two different origins at the
// same time (one frame handler each); both must be flooded on and accepted.
func relayConc(t *testing.T, bubble bool) schedx.Conc {
	build := func() *schedx.Instance {
		w := kit.NewWorld()
		mk := func(name string, i int) *kit.Node {
			n, err := w.AddNode(name, pool[i], config.Store{})
			if err != nil {
				panic(err)
			}
			return n
		}
		r, d1, d2, x, y := mk("R", 0), mk("D1", 1), mk("D2", 2), mk("X", 3), mk("Y", 4)
		for i, n := range []*kit.Node{d1, d2, x} {
			if _, _, err := w.Connect(r, n, m.SwitchLabel(11+i), m.SwitchLabel(21+i), 5); err != nil {
				panic(err)
			}
		}
		if _, _, err := w.Connect(x, y, 31, 32, 5); err != nil {
			panic(err)
		}
		_ = d1.Router().AnnouncePing.Send(r.Identity().IP)
		_ = d2.Router().AnnouncePing.Send(r.Identity().IP)
		held := append([]*kit.Flight(nil), w.InFlight...)
		w.InFlight = nil
		if len(held) != 2 {
			panic("harness: expected two announcements in flight")
		}
		in := &schedx.Instance{}
		for _, fl := range held {
			fl := fl
			in.Threads = append(in.Threads, []schedx.Op{{Name: "relay handles announcement of " + fl.From.Name, Do: func() { w.Inject(fl.From, fl.To, fl.Bytes) }}})
		}
		in.Observe = func() string {
			w.Run(kit.FIFO, 500)
			return kit.TableKey(r) + "\n" + kit.TableKey(x) + "\n" + kit.TableKey(y)
		}
		in.Check = func(ex *schedx.Exec) {
			for _, p := range w.Panics {
				ex.Bad("panic", "worker panic: %s", p)
			}
			for _, at := range []*kit.Node{x, y, d1, d2} {
				for _, o := range []*kit.Node{d1, d2} {
					if at == o {
						continue
					}
					if e, isDst := at.RoutingTable().LookupNearest(o.Identity().IP); e == nil || !isDst {
						ex.Bad("announcement-not-flooded", "%s holds no exact route to %s after the relay handled the announcements of two origins at the same time and the network drained", at.Name, o.Name)
					}
				}
			}
		}
		return in
	}
	c := schedx.Conc{Name: "relay handles two announcements at once", Build: build, MaxPoints: 60000}
	if bubble {
		c.Wrap = func(f func()) { synctest.Test(t, func(t *testing.T) { f() }) }
	} else {
		c.Wrap = func(f func()) {
			t.Run("bubble", func(t *testing.T) { synctest.Test(t, func(t *testing.T) { f() }) })
		}
	}
	return c
}

func schedConcs(t *testing.T, bubble bool) []schedx.Conc {
	return []schedx.Conc{
		relayConc(t, bubble),
		schedx.Flap(t, "link replaced: close(old) | register(new)", pool[:3], false, bubble, reachJudge),
		schedx.Flap(t, "link replaced: close(old) | register(new) | reader", pool[:3], true, bubble, reachJudge),
		cleanerConc(t, bubble),
	}
}

func runFlapSched(t *testing.T, rep *kit.Report, env kit.Env) {
	bound := 2
	if env.Deep() {
		bound = 3
	}
	rep.Bounds["sched_preemption_bound"] = bound
	top := 0
	for _, c := range schedConcs(t, true) {
		schedx.ExploreConc(rep, env, c, bound, &top)
	}
}

// TestC09Race: the same operations on free-running goroutines under the race
// detector (supporting evidence next to the exhaustive pass; see schedx.FreeRun).
func TestC09Race(t *testing.T) {
	env := kit.GetEnv()
	rep := kit.NewReport("C09", env)
	defer func() { _ = rep.Finish(env) }()
	iters := 150
	if env.Deep() {
		iters = 1500
	}
	var n int64
	n = schedx.FreeRunAll(rep, env, schedConcs(t, false), true, iters)
	rep.Add(n, 0, 0, 0)
	rep.OutcomeN("free-running race-detector pass [iterations]", n)
}
