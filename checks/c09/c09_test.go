// C09: gossip reach and termination in honest meshes.
//
// (i) Exhaustive tier: for tiny meshes (all connected labelled graphs on 2-4
// routers) ALL delivery orders of in-flight announcement frames are explored by
// breadth-first search with canonical-state deduplication; every world is built
// from real routers and every transition is one real handler invocation.
// (ii) Large tier: lines, rings, stars, trees, grids and fixed pseudo-random
// graphs up to 16 routers under four deterministic delivery disciplines.
package c09

import (
	"fmt"
	"github.com/mycoria/mycoria/storage"
	"net/netip"
	"sort"
	"strings"
	"testing"
	"testing/synctest"
	"time"

	"github.com/fxamacker/cbor/v2"

	"verif/kit"

	"github.com/mycoria/mycoria/config"
	"github.com/mycoria/mycoria/m"
	"github.com/mycoria/mycoria/router"
)

var pool = kit.RoutablePool("c09", 16)

type graph struct {
	name  string
	n     int
	edges [][2]int
}

type params struct {
	g         graph
	labelBits int // bit i: label class of link end i (0 = 1-byte, 1 = 2-byte)
	infoSize  int
	tick      time.Duration
	origins   []int // routers that announce
	oneSend   int   // >= 0: only this Send call of the (single) origin
	// ids overrides the identities (default: pool); universe and storages configure
	// restarts with persisted state.
	ids      []*m.Address
	universe string
	storages []*storage.MemStorage
}

func (p params) String() string {
	return fmt.Sprintf("%s labels=%b info=%d tick=%v origins=%v send=%d", p.g.name, p.labelBits, p.infoSize, p.tick, p.origins, p.oneSend)
}

type mesh struct {
	w     *kit.World
	nodes []*kit.Node
	p     params
}

func must(err error) {
	if err != nil {
		panic(err)
	}
}

func build(p params) *mesh {
	w := kit.NewWorld()
	ms := &mesh{w: w, p: p}
	for i := 0; i < p.g.n; i++ {
		st := config.Store{}
		if p.infoSize > 0 {
			st.Router.IANA = []string{strings.Repeat("x", p.infoSize)}
		}
		st.Router.Universe = p.universe
		id := pool[i]
		if p.ids != nil {
			id = p.ids[i]
		}
		o := kit.NodeOpts{Name: fmt.Sprintf("N%d", i), ID: id, Store: st}
		if p.storages != nil {
			o.Storage = p.storages[i]
		}
		n, err := w.AddNodeWith(o)
		must(err)
		ms.nodes = append(ms.nodes, n)
	}
	used := map[int]map[m.SwitchLabel]bool{}
	pick := func(node int, endIdx int) m.SwitchLabel {
		if used[node] == nil {
			used[node] = map[m.SwitchLabel]bool{}
		}
		base := m.SwitchLabel(2 + 5*endIdx%100)
		if p.labelBits&(1<<uint(endIdx%30)) != 0 {
			base = m.SwitchLabel(200 + 37*endIdx)
		}
		for used[node][base] {
			base++
		}
		used[node][base] = true
		return base
	}
	for ei, e := range p.g.edges {
		_, _, err := w.Connect(ms.nodes[e[0]], ms.nodes[e[1]], pick(e[0], 2*ei), pick(e[1], 2*ei+1), uint16(5+ei%4))
		must(err)
	}
	return ms
}

// announce performs what router.announceRouter does for node i.
func (ms *mesh) announce(i int, onlySend int) {
	n := ms.nodes[i]
	for si, link := range n.Peering().GetLinks() {
		if onlySend >= 0 && si != onlySend {
			continue
		}
		must(n.Router().AnnouncePing.Send(link.Peer()))
	}
}

func (ms *mesh) start() {
	for k, o := range ms.p.origins {
		if k > 0 && ms.p.tick > 0 {
			time.Sleep(ms.p.tick)
		}
		ms.announce(o, ms.p.oneSend)
	}
}

// annInfo is the canonical, nonce-independent description of an announcement frame.
type annInfo struct {
	origin netip.Addr
	ts     uint64
	retLbl m.SwitchLabel
	hops   []netip.Addr // outermost first
	ok     bool
}

func describe(raw []byte) annInfo {
	if len(raw) < 60 || (raw[4] != 0 && raw[4] != 3) {
		return annInfo{}
	}
	sw := int(raw[48])
	ml := int(raw[49+sw])<<8 | int(raw[50+sw])
	ms := 51 + sw
	if ms+ml+64 > len(raw) || ml < 3 {
		return annInfo{}
	}
	msg := raw[ms : ms+ml]
	hl := int(msg[1])
	if 2+hl > len(msg) {
		return annInfo{}
	}
	var body router.AnnouncePingMsg
	if err := cbor.Unmarshal(msg[2+hl:], &body); err != nil {
		return annInfo{}
	}
	ai := annInfo{origin: netip.AddrFrom16([16]byte(raw[16:32])), ts: m.GetUint64(raw[8:16]), retLbl: body.ReturnLabel, ok: true}
	apx := raw[ms+ml+64:]
	for len(apx) >= 65 {
		var a router.AnnouncePingAttachment
		if err := cbor.Unmarshal(apx[:len(apx)-64], &a); err != nil {
			break
		}
		ai.hops = append(ai.hops, a.Router.IP)
		apx = a.NextAttachment
	}
	return ai
}

func (a annInfo) id() string { return fmt.Sprintf("%s@%d#%d", a.origin, a.ts, a.retLbl) }
func (a annInfo) path() string {
	var b strings.Builder
	for _, h := range a.hops {
		b.WriteString(h.String())
		b.WriteByte('<')
	}
	return b.String()
}

func flightKey(fl *kit.Flight) string {
	a := describe(fl.Bytes)
	return fl.From.Name + ">" + fl.To.Name + ":" + a.id() + ":" + a.path()
}

func (ms *mesh) stateKey() string {
	var b strings.Builder
	for _, n := range ms.nodes {
		b.WriteString(kit.TableKey(n))
		b.WriteString("--\n")
	}
	keys := make([]string, len(ms.w.InFlight))
	for i, fl := range ms.w.InFlight {
		keys[i] = flightKey(fl)
	}
	sort.Strings(keys)
	b.WriteString(strings.Join(keys, "\n"))
	return kit.Hash(b.String())
}

// floodingViolations inspects every frame emitted so far.
func (ms *mesh) floodingViolations() []string {
	var out []string
	seen := map[string]int{}
	byName := map[string]*kit.Node{}
	for _, n := range ms.nodes {
		byName[n.Name] = n
	}
	for _, fl := range ms.w.Log {
		a := describe(fl.Bytes)
		if !a.ok {
			continue
		}
		to := fl.To.Identity().IP
		k := a.id() + "|" + a.path() + "|" + fl.To.Name
		seen[k]++
		if seen[k] == 2 {
			out = append(out, fmt.Sprintf("path-traversed-twice: announcement %s sent twice along the same path to %s", a.id(), fl.To.Name))
		}
		if to == a.origin {
			out = append(out, fmt.Sprintf("sent-to-origin: announcement of %s sent to its origin by %s", a.origin, fl.From.Name))
		}
		for hi, h := range a.hops {
			if h == to {
				if hi == 1 || (hi == 0 && false) {
					out = append(out, fmt.Sprintf("sent-back-over-receive-link: %s forwarded announcement %s back to %s", fl.From.Name, a.id(), fl.To.Name))
				} else if hi > 0 {
					out = append(out, fmt.Sprintf("sent-to-router-in-hop-list: %s sent announcement %s to %s which is hop #%d of its list", fl.From.Name, a.id(), fl.To.Name, hi))
				}
			}
		}
		if len(a.hops) > 0 && a.hops[0] != fl.From.Identity().IP {
			out = append(out, "outermost-signer-not-sender")
		}
		// with one hop, the previous sender is the origin: sending back to the origin is covered above.
		dup := map[netip.Addr]bool{a.origin: true}
		for _, h := range a.hops {
			if dup[h] {
				out = append(out, fmt.Sprintf("looping-path: announcement %s carries a hop list with a repeated router", a.id()))
			}
			dup[h] = true
		}
	}
	return out
}

// reachViolations checks the quiescent-state oracle.
func (ms *mesh) reachViolations(origins []int) []string {
	var out []string
	isOrigin := map[int]bool{}
	for _, o := range origins {
		isOrigin[o] = true
	}
	for ai, a := range ms.nodes {
		for bi, b := range ms.nodes {
			if ai == bi || !isOrigin[bi] {
				continue
			}
			dst := b.Identity().IP
			rte, isDst := a.RoutingTable().LookupNearest(dst)
			if rte == nil || !isDst || rte.DstIP != dst {
				out = append(out, fmt.Sprintf("no-route: %s holds no exact route to %s", a.Name, b.Name))
				continue
			}
			// walk the forward labels over the real links.
			cur := a
			okWalk := true
			if len(rte.Path.Hops) == 0 {
				if l := cur.Peering().GetLink(rte.NextHop); l == nil || l.Peer() != dst {
					okWalk = false
				}
			} else {
				for hi := 0; hi < len(rte.Path.Hops)-1; hi++ {
					l := cur.Peering().GetLinkByLabel(rte.Path.Hops[hi].ForwardLabel)
					if l == nil {
						okWalk = false
						break
					}
					next := ms.w.ByIP[l.Peer()]
					if next == nil {
						okWalk = false
						break
					}
					cur = next
				}
				if cur != b {
					okWalk = false
				}
			}
			if !okWalk {
				out = append(out, fmt.Sprintf("labels-lead-astray: following %s's route to %s over the real links does not arrive there", a.Name, b.Name))
			}
		}
	}
	return out
}

// ---------------------------------------------------------------------------
// exhaustive exploration of all delivery orders.

type exploreResult struct {
	states, transitions int64
	quiescent           int64
	capped              bool
}

func exploreAll(t *testing.T, rep *kit.Report, env kit.Env, p params, maxStates int) exploreResult {
	var res exploreResult
	type node struct{ path []string }
	seen := map[string]bool{}
	frontier := []node{{nil}}
	report := func(kind, detail string, path []string) {
		key := p.g.name + "/" + strings.SplitN(kind, ":", 2)[0]
		rep.Violate(key, fmt.Sprintf("%s — %s; deliveries=%v", detail, p, path), map[string]any{"params": p.String(), "deliveries": path})
	}
	for len(frontier) > 0 {
		var next []node
		for _, nd := range frontier {
			if env.Expired() || len(seen) >= maxStates {
				res.capped = true
				break
			}
			// replay the path, then look at the state.
			var key string
			var choices []string
			var viol, rviol []string
			var panics []string
			synctest.Test(t, func(t *testing.T) {
				ms := build(p)
				ms.start()
				for _, c := range nd.path {
					idx := -1
					for i, fl := range ms.w.InFlight {
						if flightKey(fl) == c {
							idx = i
							break
						}
					}
					if idx < 0 {
						panic("harness: replay diverged, delivery " + c + " not in flight")
					}
					ms.w.Deliver(idx)
					res.transitions++
				}
				key = ms.stateKey()
				viol = ms.floodingViolations()
				panics = ms.w.Panics
				if len(ms.w.InFlight) == 0 {
					rviol = ms.reachViolations(p.origins)
					if len(ms.w.Dropped) > 0 {
						rviol = append(rviol, "frame-dropped-by-link-writer: "+ms.w.Dropped[0])
					}
				}
				dedup := map[string]bool{}
				for _, fl := range ms.w.InFlight {
					k := flightKey(fl)
					if !dedup[k] {
						dedup[k] = true
						choices = append(choices, k)
					}
				}
			})
			for _, v := range viol {
				report(v, v, nd.path)
			}
			for _, v := range rviol {
				report(v, v, nd.path)
			}
			for _, pn := range panics {
				report("panic", "handler panic "+pn, nd.path)
			}
			if seen[key] {
				continue
			}
			seen[key] = true
			if len(choices) == 0 {
				res.quiescent++
			}
			if len(nd.path) > 4*len(p.g.edges)*len(p.g.edges)*p.g.n*p.g.n+64 {
				report("non-termination", "exploration depth exceeds any bound derived from the number of simple paths", nd.path)
				continue
			}
			sort.Strings(choices)
			for _, c := range choices {
				next = append(next, node{append(append([]string(nil), nd.path...), c)})
			}
		}
		if res.capped {
			break
		}
		frontier = next
	}
	res.states = int64(len(seen))
	return res
}

// ---------------------------------------------------------------------------

func connectedGraphs(n int) []graph {
	var pairs [][2]int
	for i := 0; i < n; i++ {
		for j := i + 1; j < n; j++ {
			pairs = append(pairs, [2]int{i, j})
		}
	}
	var out []graph
	for mask := 1; mask < 1<<len(pairs); mask++ {
		var es [][2]int
		for i, pr := range pairs {
			if mask&(1<<i) != 0 {
				es = append(es, pr)
			}
		}
		if connected(n, es) {
			out = append(out, graph{fmt.Sprintf("n%d-g%d", n, mask), n, es})
		}
	}
	return out
}

func connected(n int, es [][2]int) bool {
	adj := make([][]int, n)
	for _, e := range es {
		adj[e[0]] = append(adj[e[0]], e[1])
		adj[e[1]] = append(adj[e[1]], e[0])
	}
	seen := make([]bool, n)
	st := []int{0}
	seen[0] = true
	cnt := 1
	for len(st) > 0 {
		x := st[len(st)-1]
		st = st[:len(st)-1]
		for _, y := range adj[x] {
			if !seen[y] {
				seen[y] = true
				cnt++
				st = append(st, y)
			}
		}
	}
	return cnt == n
}

func line(n int) graph {
	g := graph{fmt.Sprintf("line%d", n), n, nil}
	for i := 0; i+1 < n; i++ {
		g.edges = append(g.edges, [2]int{i, i + 1})
	}
	return g
}
func ring(n int) graph {
	g := line(n)
	g.name = fmt.Sprintf("ring%d", n)
	g.edges = append(g.edges, [2]int{n - 1, 0})
	return g
}
func star(n int) graph {
	g := graph{fmt.Sprintf("star%d", n), n, nil}
	for i := 1; i < n; i++ {
		g.edges = append(g.edges, [2]int{0, i})
	}
	return g
}
func tree(n int) graph {
	g := graph{fmt.Sprintf("bintree%d", n), n, nil}
	for i := 1; i < n; i++ {
		g.edges = append(g.edges, [2]int{(i - 1) / 2, i})
	}
	return g
}
func grid(a, b int) graph {
	g := graph{fmt.Sprintf("grid%dx%d", a, b), a * b, nil}
	for i := 0; i < a; i++ {
		for j := 0; j < b; j++ {
			if j+1 < b {
				g.edges = append(g.edges, [2]int{i*b + j, i*b + j + 1})
			}
			if i+1 < a {
				g.edges = append(g.edges, [2]int{i*b + j, (i+1)*b + j})
			}
		}
	}
	return g
}
func pseudoRandom(n, extra int, seed int64) graph {
	d := kit.NewDRBG("c09-graph", seed)
	g := graph{fmt.Sprintf("rand%d-%d", n, seed), n, nil}
	has := map[[2]int]bool{}
	for i := 1; i < n; i++ {
		j := d.Intn(i)
		g.edges = append(g.edges, [2]int{j, i})
		has[[2]int{j, i}] = true
	}
	for k := 0; k < extra; k++ {
		a, b := d.Intn(n), d.Intn(n)
		if a > b {
			a, b = b, a
		}
		if a == b || has[[2]int{a, b}] {
			continue
		}
		has[[2]int{a, b}] = true
		g.edges = append(g.edges, [2]int{a, b})
	}
	return g
}

func allOrigins(n int) []int {
	o := make([]int, n)
	for i := range o {
		o[i] = i
	}
	return o
}

func TestC09(t *testing.T) {
	env := kit.GetEnv()
	rep := kit.NewReport("C09", env)
	rep.Rule = "(t) the reach claim over half an hour of virtual time: every router re-announces every 5 minutes, the routing-table cleaner runs every 10 minutes, reach checked after every round and right after every cleaner run (line4, ring4, star4; thorough also grid, line6, tree7); (r) the reach claim over the repository's real links (handshake, link encryption, reader/writer workers over harness-owned byte streams) for lines, ring, star (thorough: also line6, ring5, grid) x router-info padding; (i) exhaustive: for every connected labelled graph on 2 and 3 routers x label-size assignments x router-info sizes {0, 450, 1300 B} x clock tick {0, 1 ms}, with every router announcing on every link exactly as announceRouter does, ALL delivery orders of in-flight frames by BFS with dedup on (all routing tables, canonical in-flight multiset); for 4-router graphs ALL delivery orders of every single announcement (each origin, each Send call); (ii) large: lines, rings, stars, binary trees, grids and fixed pseudo-random connected graphs up to 16 routers with all routers announcing, each under four deterministic delivery disciplines (FIFO, LIFO, per-receiver round robin, longest-path-first) - enumerated, not all orders; (iii) router-info size sweep byte by byte across the pooled-buffer tiers on lines of 3-4 (thorough 6) routers; (iv) the same over real links (LinkBase over harness-owned streams, also with a transport that hands data over in 300-byte segments) and over 30 minutes of re-announcements with the table cleaner; (v) routers with addresses of each special range (roaming, organization, nexus pool, nexus org, anycast, experiments) in five layouts around ordinary routers, and one leaf of every range around an ordinary hub; (vi) restarts: converge, then all / all but one / one router start again with the state they stored, under the same, a changed, a dropped or a newly set universe name, links come up and everybody announces; every emitted frame is checked for the flooding rules, every quiescent state for reach + label walk over the real links; non-trivial = worlds with at least one relay (n >= 3); states = distinct canonical world states"
	rep.Assumptions = []string{
		"in the sequential parts deliveries are atomic handler invocations; concurrency inside one router is explored by the interleaving tier for link replacement and cleaner-vs-announcement only",
		"a router only has to hold routes to routers that announced in the scenario (single-origin scenarios check reach of that origin only)",
		"the virtual link mirrors the real link writer: a frame lacking the link margins is dropped, which is reported",
	}
	thorough := env.Thorough()
	var evals, nontrivial int64
	runFlapSched(t, rep, env) // first: the exhaustive parts below may use up the time budget
	caseNo := 0
	mine := func() bool { caseNo++; return env.Mine(caseNo) }
	capStates := 4000
	if thorough {
		capStates = 250000
	}
	rep.Bounds["state_cap_per_scenario"] = capStates

	runExhaustive := func(p params) {
		if !mine() {
			return
		}
		r := exploreAll(t, rep, env, p, capStates)
		evals += r.transitions
		if p.g.n >= 3 {
			nontrivial += r.transitions
		}
		rep.Add(0, 0, r.states, r.transitions)
		if r.capped {
			rep.Cap(fmt.Sprintf("%s: state cap/time budget hit (states=%d)", p, r.states))
		}
		if r.quiescent == 0 && !r.capped {
			rep.Violate(p.g.name+"/no-quiescent-state", "exploration never reached a drained network: "+p.String(), p.String())
		}
		rep.Outcome(fmt.Sprintf("exhaustive:%s", p.g.name))
		rep.Sample(map[string]any{"scenario": p.String(), "states": r.states, "transitions": r.transitions, "quiescent_states": r.quiescent})
	}

	// ---- (i) n = 2, 3 : everything announces, all orders.
	infos := []int{0, 450, 1300}
	for _, g := range connectedGraphs(2) {
		for lb := 0; lb < 4; lb++ {
			for _, is := range infos {
				for _, tick := range []time.Duration{0, time.Millisecond} {
					runExhaustive(params{g: g, labelBits: lb, infoSize: is, tick: tick, origins: allOrigins(2), oneSend: -1})
				}
			}
		}
	}
	for _, g := range connectedGraphs(3) {
		labelSets := []int{0, 0b111111, 0b010101, 0b101010}
		if thorough {
			labelSets = nil
			for lb := 0; lb < 1<<(2*len(g.edges)); lb++ {
				labelSets = append(labelSets, lb)
			}
		}
		for _, lb := range labelSets {
			for _, is := range infos {
				if !thorough && is == 450 && lb != 0 {
					continue
				}
				if len(g.edges) == 2 {
					runExhaustive(params{g: g, labelBits: lb, infoSize: is, tick: time.Millisecond, origins: allOrigins(3), oneSend: -1})
				} else {
					// triangle: all announcing explodes; quick explores each origin alone, thorough also all together (capped).
					for o := 0; o < 3; o++ {
						runExhaustive(params{g: g, labelBits: lb, infoSize: is, origins: []int{o}, oneSend: -1})
					}
					if thorough && lb == 0 && is == 0 {
						runExhaustive(params{g: g, labelBits: lb, infoSize: is, tick: time.Millisecond, origins: allOrigins(3), oneSend: -1})
					}
				}
			}
		}
	}
	// ---- (i) n = 4 : every single announcement, all orders.
	g4 := connectedGraphs(4)
	for gi, g := range g4 {
		if !thorough && gi%5 != 0 && len(g.edges) != 6 && len(g.edges) != 4 {
			continue
		}
		for o := 0; o < 4; o++ {
			if !thorough && o > 1 {
				continue
			}
			deg := 0
			for _, e := range g.edges {
				if e[0] == o || e[1] == o {
					deg++
				}
			}
			for s := 0; s < deg; s++ {
				if !thorough && s > 0 {
					continue
				}
				runExhaustive(params{g: g, labelBits: 0b1001, infoSize: 0, origins: []int{o}, oneSend: s})
			}
		}
	}

	// ---- (ii) large tier under deterministic disciplines.
	large := []graph{line(5), line(8), ring(5), ring(8), star(6), tree(7), grid(2, 3), grid(3, 3), pseudoRandom(8, 4, 1), pseudoRandom(8, 6, 2)}
	if thorough {
		large = append(large, line(16), ring(12), ring(16), star(16), tree(15), grid(3, 4), grid(4, 4), pseudoRandom(12, 6, 3), pseudoRandom(12, 10, 4), pseudoRandom(16, 8, 5), pseudoRandom(16, 14, 6), pseudoRandom(16, 20, 7), pseudoRandom(10, 12, 8))
	}
	disciplines := []struct {
		name string
		pick func(ms *mesh, rr *int) int
	}{
		{"fifo", func(ms *mesh, rr *int) int { return 0 }},
		{"lifo", func(ms *mesh, rr *int) int { return len(ms.w.InFlight) - 1 }},
		{"round-robin-per-receiver", func(ms *mesh, rr *int) int {
			for k := 0; k < ms.p.g.n; k++ {
				*rr = (*rr + 1) % ms.p.g.n
				for i, fl := range ms.w.InFlight {
					if fl.To == ms.nodes[*rr] {
						return i
					}
				}
			}
			return 0
		}},
		{"longest-path-first", func(ms *mesh, rr *int) int {
			best, bl := 0, -1
			for i, fl := range ms.w.InFlight {
				if l := len(describe(fl.Bytes).hops); l > bl {
					best, bl = i, l
				}
			}
			return best
		}},
	}
	for _, g := range large {
		for _, is := range []int{0, 450} {
			for _, lb := range []int{0, 0x2AAAAAAA} {
				for _, d := range disciplines {
					if !mine() {
						continue
					}
					p := params{g: g, labelBits: lb, infoSize: is, tick: time.Millisecond, origins: allOrigins(g.n), oneSend: -1}
					synctest.Test(t, func(t *testing.T) {
						ms := build(p)
						ms.start()
						rr := 0
						steps := 0
						limit := 400000
						for len(ms.w.InFlight) > 0 && steps < limit {
							ms.w.Deliver(d.pick(ms, &rr))
							steps++
						}
						evals += int64(steps)
						nontrivial += int64(steps)
						rep.Add(0, 0, 1, int64(steps))
						key := g.name + "/" + d.name
						if steps >= limit {
							rep.Violate(g.name+"/non-termination", fmt.Sprintf("flooding did not drain within %d deliveries: %s discipline=%s", limit, p, d.name), p.String())
							return
						}
						for _, v := range ms.floodingViolations() {
							rep.Violate(g.name+"/"+strings.SplitN(v, ":", 2)[0], fmt.Sprintf("%s — %s discipline=%s", v, p, d.name), map[string]any{"params": p.String(), "discipline": d.name})
						}
						for _, v := range ms.reachViolations(p.origins) {
							rep.Violate(g.name+"/"+strings.SplitN(v, ":", 2)[0], fmt.Sprintf("%s — %s discipline=%s", v, p, d.name), map[string]any{"params": p.String(), "discipline": d.name})
						}
						if len(ms.w.Dropped) > 0 {
							rep.Violate(g.name+"/frame-dropped-by-link-writer", fmt.Sprintf("%s — %s discipline=%s", ms.w.Dropped[0], p, d.name), p.String())
						}
						for _, pn := range ms.w.Panics {
							rep.Violate(g.name+"/panic", pn, p.String())
						}
						rep.Outcome("large:" + key)
						if steps > 0 && lb == 0 && is == 0 {
							rep.Sample(map[string]any{"scenario": p.String(), "discipline": d.name, "deliveries": steps})
						}
					})
				}
			}
		}
	}
	// ---- (iii) router-info size sweep: every announcement size (byte by byte)
	// across the pooled-buffer tiers on short lines, FIFO delivery.
	sweepMax, sweepGraphs := 1700, []graph{line(3), line(4)}
	if thorough {
		sweepMax, sweepGraphs = 5400, []graph{line(3), line(4), line(6)}
	}
	rep.Bounds["info_size_sweep"] = fmt.Sprintf("0..%d step 1 on %d line graphs", sweepMax, len(sweepGraphs))
	for _, g := range sweepGraphs {
		for size := 0; size <= sweepMax; size++ {
			if !mine() {
				continue
			}
			p := params{g: g, labelBits: size % 4, infoSize: size, tick: time.Millisecond, origins: allOrigins(g.n), oneSend: -1}
			synctest.Test(t, func(t *testing.T) {
				ms := build(p)
				ms.start()
				steps := 0
				for len(ms.w.InFlight) > 0 && steps < 100000 {
					ms.w.Deliver(0)
					steps++
				}
				evals += int64(steps)
				nontrivial += int64(steps)
				rep.Add(0, 0, 1, int64(steps))
				for _, v := range ms.reachViolations(p.origins) {
					rep.Violate(g.name+"/sweep/"+strings.SplitN(v, ":", 2)[0], fmt.Sprintf("%s — %s", v, p), map[string]any{"params": p.String()})
				}
				if len(ms.w.Dropped) > 0 {
					rep.Violate(g.name+"/sweep/frame-dropped-by-link-writer", fmt.Sprintf("%s — %s", ms.w.Dropped[0], p), p.String())
				}
				for _, pn := range ms.w.Panics {
					rep.Violate(g.name+"/sweep/panic", pn+" "+p.String(), p.String())
				}
			})
		}
	}
	rep.Outcome("info-size-sweep")

	realLinks(t, rep, env, &evals, &nontrivial, mine)
	overTime(t, rep, env, &evals, &nontrivial, mine)
	addressTypes(t, rep, env, &evals, &nontrivial, mine)
	restarts(t, rep, env, &evals, &nontrivial, mine)

	rep.Add(evals, nontrivial, 0, 0)
	if err := rep.Finish(env); err != nil {
		t.Fatal(err)
	}
}
