package zzdbg
import ("testing";"fmt";"verif/kit";"github.com/mycoria/mycoria/peering";"github.com/mycoria/mycoria/state")
func TestDbgLink(t *testing.T){
 for _, tc := range []struct{ka,kb int; order string}{{1,0,"BA"},{1,0,"BBA"},{1,0,"BBBA"},{1,0,"BBBBA"},{3,0,"BA"},{3,0,"BBBBA"},{1,1,"BBBBBA"},{1,3,"BBBBA"},{0,0,"BA"},{0,0,"BBBBA"},{0,1,"AAAAB"}} {
  la, lb := state.NewEncryptionSession(), state.NewEncryptionSession()
  if err := kit.KeyPair(la, lb); err != nil { panic(err) }
  ha := &state.EncryptionSessionTestHelper{EncryptionSession: la}
  hb := &state.EncryptionSessionTestHelper{EncryptionSession: lb}
  ra := uint32(int64(0xFFFFFFFF) - int64(tc.ka)); rb := uint32(int64(0xFFFFFFFF) - int64(tc.kb))
  ha.ReglSetOut(ra); _ = hb.ReglSeq().Check(ra); hb.ReglSetOut(rb); _ = ha.ReglSeq().Check(rb)
  res := ""
  for i, c := range tc.order {
   from, to := la, lb
   if c=='B' { from, to = lb, la }
   buf := make([]byte, peering.FrameOffset+30+peering.FrameOverhead)
   copy(buf[peering.FrameOffset:], fmt.Sprintf("duplex-%d", i))
   if err := peering.LinkFrame(buf).Seal(from); err != nil { res += fmt.Sprintf(" seal-err:%v", err); break }
   err := peering.LinkFrame(append([]byte(nil), buf...)).Unseal(to)
   res += fmt.Sprintf(" %c(seq %d):%v", c, peering.LinkFrame(buf).SequenceNum(), err==nil)
  }
  fmt.Println(tc, res)
 }
}
