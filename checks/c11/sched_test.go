// C11, interleaving tier: the routing table is shared by every frame handler
// (announcements add routes, disconnect pings remove them, every forwarded frame
// looks routes up), the link registry (peer routes) and the periodic cleaner.
// The m package is compiled with its sync / sync/atomic imports rewritten to the
// controlled-scheduler shims; harness threads call the real table operations of
// the sequential alphabet CONCURRENTLY on a populated table; ALL schedules up to
// a preemption bound are explored. Oracle: table content, every look-up result
// and every 'added' answer of an interleaving equal those of one of the orders in
// which the same operations run one after the other, and the statement's table
// invariants hold at the end.
package c11

import (
	"fmt"
	"net/netip"
	"strings"
	"testing"
	"testing/synctest"
	"time"

	"verif/kit"
	"verif/schedx"

	"github.com/mycoria/mycoria/m"
)

// rawApply performs one table operation without per-operation oracles and
// returns what the caller of the real operation gets to see.
func (sc *scenario) rawApply(rt *m.RoutingTable, o op) string {
	switch o.kind {
	case opAddPeer, opAddPeerAnnounce, opAddGossip:
		added, err := rt.AddRoute(sc.mkEntry(o))
		return fmt.Sprintf("%s->added=%v,err=%v", o.name, added, err != nil)
	case opRemoveNextHop:
		rt.RemoveNextHop(o.via)
	case opRemoveDisconnected:
		rt.RemoveDisconnected(o.dst, o.list)
	case opClean:
		rt.Clean()
	case opAdvance:
		time.Sleep(o.dur)
	}
	return o.name
}

func lookups(rt *m.RoutingTable, probes []netip.Addr) string {
	var b strings.Builder
	for _, p := range probes {
		for li, look := range []func(netip.Addr) (*m.RoutingTableEntry, bool){rt.LookupNearest, rt.LookupNearestRoute} {
			e, isDst := look(p)
			if e == nil {
				fmt.Fprintf(&b, "%d:%s=none ", li, p)
			} else {
				fmt.Fprintf(&b, "%d:%s=%s/dst=%v ", li, p, routeID(e), isDst)
			}
		}
	}
	return b.String()
}

type tableConc struct {
	name    string
	prefix  []string // op names applied one after the other first
	advance time.Duration
	threads [][]string // op names; "Lookups" = look every probe up
}

func (sc *scenario) opByName(n string) op {
	for _, o := range sc.ops {
		if o.name == n {
			return o
		}
	}
	panic("harness: no op " + n)
}

func (sc *scenario) conc(t *testing.T, tc tableConc, bubble bool) schedx.Conc {
	build := func() *schedx.Instance {
		rt := m.NewRoutingTable(sc.cfg())
		for _, n := range tc.prefix {
			sc.rawApply(rt, sc.opByName(n))
		}
		if tc.advance > 0 {
			time.Sleep(tc.advance)
		}
		in := &schedx.Instance{}
		results := make([][]string, len(tc.threads))
		for ti, names := range tc.threads {
			ti := ti
			var ops []schedx.Op
			for _, n := range names {
				n := n
				if n == "Lookups" {
					// every single look-up is an operation of its own (the group is not atomic).
					for _, p := range sc.probes {
						for li := 0; li < 2; li++ {
							p, li := p, li
							ops = append(ops, schedx.Op{Name: fmt.Sprintf("Lookup%d(%s)", li, p), Do: func() {
								look := rt.LookupNearest
								if li == 1 {
									look = rt.LookupNearestRoute
								}
								e, isDst := look(p)
								r := fmt.Sprintf("lookup%d(%s)=none", li, p)
								if e != nil {
									r = fmt.Sprintf("lookup%d(%s)=%s/dst=%v", li, p, routeID(e), isDst)
								}
								results[ti] = append(results[ti], r)
							}})
						}
					}
					continue
				}
				ops = append(ops, schedx.Op{Name: n, Do: func() {
					results[ti] = append(results[ti], sc.rawApply(rt, sc.opByName(n)))
				}})
			}
			in.Threads = append(in.Threads, ops)
		}
		in.Observe = func() string {
			now := time.Now()
			var b strings.Builder
			for ti, r := range results {
				fmt.Fprintf(&b, "thread%d: %s\n", ti, strings.Join(r, " ; "))
			}
			b.WriteString("table:\n" + strings.Join(snapKeys(rt.VerifEntries(), now), "\n") + "\n")
			b.WriteString("final lookups: " + lookups(rt, sc.probes))
			return b.String()
		}
		in.Check = func(ex *schedx.Exec) {
			for _, v := range sc.invariants(rt) {
				ex.Bad("invariant/"+strings.TrimPrefix(v.key, sc.name+"/"), "%s", v.detail)
			}
		}
		return in
	}
	c := schedx.Conc{Name: "concurrent-table/" + tc.name, Build: build}
	if bubble {
		c.Wrap = func(f func()) { synctest.Test(t, func(t *testing.T) { f() }) }
	} else {
		c.Wrap = func(f func()) {
			t.Run("bubble", func(t *testing.T) { synctest.Test(t, func(t *testing.T) { f() }) })
		}
	}
	return c
}

func tableConcs(deep bool) []tableConc {
	populated := []string{"AddPeer(P1)", "AddPeer(P2)", "Gossip(D1 via P1,5ms)", "Gossip(D2 via P2,5ms)", "Gossip(D1 via P2+X,5ms)", "Gossip(P2 via P1,20ms)"}
	alphabet := []string{"AddPeer(P1)", "AddPeerAnnounce(P1,20ms)", "Gossip(D3 via P1,5ms)", "Gossip(D1 via P1,20ms)", "Gossip(D2 via P1+X,5ms)",
		"RemoveNextHop(P1)", "RemoveNextHop(P2)", "RemoveDisconnected(X)", "RemoveDisconnected(P1)", "Clean", "Lookups"}
	var out []tableConc
	for i, a := range alphabet {
		for _, b := range alphabet[i:] {
			if a == "Lookups" && b == "Lookups" {
				continue
			}
			out = append(out, tableConc{name: a + " | " + b, prefix: populated, threads: [][]string{{a}, {b}}})
		}
	}
	// the cleaner against writers after the gossip routes expired (11 minutes later).
	for _, a := range []string{"AddPeer(P1)", "Gossip(D3 via P1,5ms)", "RemoveNextHop(P2)", "RemoveDisconnected(X)", "Lookups"} {
		out = append(out, tableConc{name: "after-expiry: Clean | " + a, prefix: populated, advance: 11 * time.Minute, threads: [][]string{{"Clean"}, {a}}})
	}
	// three parties: a writer, the cleaner and a reader.
	out = append(out, tableConc{name: "Gossip(D3 via P1,5ms) | Clean | Lookups", prefix: populated, threads: [][]string{{"Gossip(D3 via P1,5ms)"}, {"Clean"}, {"Lookups"}}})
	out = append(out, tableConc{name: "RemoveNextHop(P1) | RemoveNextHop(P2) | AddPeer(P1)", prefix: populated, threads: [][]string{{"RemoveNextHop(P1)"}, {"RemoveNextHop(P2)"}, {"AddPeer(P1)"}}})
	if deep {
		out = append(out, tableConc{name: "two ops each", prefix: populated, threads: [][]string{{"Gossip(D3 via P1,5ms)", "RemoveNextHop(P2)"}, {"Clean", "AddPeer(P1)"}}})
	}
	return out
}

func runTableSched(t *testing.T, rep *kit.Report, env kit.Env) {
	sc := scenarios()[0]
	bound := 2
	if env.Deep() {
		bound = 3
	}
	rep.Bounds["sched_preemption_bound"] = bound
	top := 0
	for _, tc := range tableConcs(env.Deep()) {
		schedx.ExploreConc(rep, env, sc.conc(t, tc, true), bound, &top)
	}
}

// TestC11Race: the same operations on free-running goroutines under the race
// detector (supporting evidence next to the exhaustive pass; see schedx.FreeRun).
func TestC11Race(t *testing.T) {
	env := kit.GetEnv()
	rep := kit.NewReport("C11", env)
	defer func() { _ = rep.Finish(env) }()
	sc := scenarios()[0]
	iters := 30
	if env.Deep() {
		iters = 400
	}
	var n int64
	var all []schedx.Conc
	for _, tc := range tableConcs(env.Deep()) {
		all = append(all, sc.conc(t, tc, false))
	}
	n = schedx.FreeRunAll(rep, env, all, true, iters)
	rep.Add(n, 0, 0, 0)
	rep.OutcomeN("free-running race-detector pass [iterations]", n)
}
