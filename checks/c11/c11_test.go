// C11: routing table — exact best-first lookups, bounded size, peers never evicted.
//
// Explicit-state BFS over operation sequences on the real m.RoutingTable
// (fresh table + replay of the path inside a synctest bubble = virtual clock),
// deduplicated on the table snapshot + clock. After every operation the
// post-condition of that operation and the global invariants of the statement
// are evaluated against the snapshot taken through the VerifEntries hook.
package c11

import (
	"fmt"
	"net/netip"
	"sort"
	"strings"
	"testing"
	"testing/synctest"
	"time"

	"verif/kit"

	"github.com/mycoria/mycoria/m"
)

type opKind int

const (
	opAddPeer         opKind = iota // as Peering.AddLink does
	opAddPeerAnnounce               // as the announce handler does for a hop-less announcement
	opAddGossip
	opRemoveNextHop
	opRemoveDisconnected
	opClean
	opAdvance
	opFill  // macro: k gossip destinations inside one routing prefix
	opMulti // macro: several route additions in a row
)

type op struct {
	kind    opKind
	dst     netip.Addr
	via     netip.Addr
	relays  []netip.Addr // between via and dst
	delay   uint16
	list    []netip.Addr
	dur     time.Duration
	expires time.Duration // announce "Expires" relative to now (0 = none)
	fillPfx netip.Prefix
	fillN   int
	fillOff int
	sub     []op
	name    string
	src     m.RouteSource // non-peer additions: 0 = gossip
}

type scenario struct {
	name     string
	cfg      func() m.RoutingTableConfig
	router   netip.Addr
	ops      []op
	probes   []netip.Addr
	limitOf  func(dst netip.Addr) int // limit of the routable-prefix configuration that governs dst
	depth    [2]int                   // quick, thorough
	maxState [2]int
}

func ip(s string) netip.Addr { return netip.MustParseAddr(s) }

// entry keys -------------------------------------------------------------

func hopsKey(e *m.RoutingTableEntry) string {
	var b strings.Builder
	for _, h := range e.Path.Hops {
		fmt.Fprintf(&b, "%s/%d/%d/%d,", h.Router, h.Delay, h.ForwardLabel, h.ReturnLabel)
	}
	return b.String()
}

func routeID(e *m.RoutingTableEntry) string { // identity of a route (what "present" means)
	var b strings.Builder
	fmt.Fprintf(&b, "%s>%s s%d [", e.DstIP, e.NextHop, e.Source)
	for _, h := range e.Path.Hops {
		b.WriteString(h.Router.String())
		b.WriteByte(',')
	}
	b.WriteByte(']')
	return b.String()
}

func entryKey(e *m.RoutingTableEntry, now time.Time) string {
	exp := "-"
	if !e.Expires.IsZero() {
		exp = e.Expires.Sub(now).Round(time.Second).String()
	}
	return fmt.Sprintf("%s|%s|%v|%s|h%d d%d|%s", routeID(e), e.RoutingPrefix, e.Stub, hopsKey(e), e.Path.TotalHops, e.Path.TotalDelay, exp)
}

func snapKeys(es []m.RoutingTableEntry, now time.Time) []string {
	out := make([]string, len(es))
	for i := range es {
		out[i] = entryKey(&es[i], now)
	}
	return out
}

func containsRouter(e *m.RoutingTableEntry, x netip.Addr) bool {
	for _, h := range e.Path.Hops {
		if h.Router == x {
			return true
		}
	}
	return false
}

// ---------------------------------------------------------------------------

type violation struct{ key, detail string }

// apply performs one op on the real table and checks its post-condition.
func (sc *scenario) apply(rt *m.RoutingTable, o op) []violation {
	var vs []violation
	bad := func(key, format string, a ...any) {
		vs = append(vs, violation{sc.name + "/" + key, fmt.Sprintf(format, a...)})
	}
	now := time.Now()
	before := rt.VerifEntries()
	bkeys := snapKeys(before, now)

	switch o.kind {
	case opAdvance:
		time.Sleep(o.dur)
		now = time.Now()
		after := rt.VerifEntries()
		if len(after) != len(before) {
			bad("advance-changed", "clock advance changed the table")
		}
		return vs

	case opAddPeer, opAddPeerAnnounce, opAddGossip:
		e := sc.mkEntry(o)
		id := routeID(&e)
		added, err := rt.AddRoute(e)
		after := rt.VerifEntries()
		akeys := snapKeys(after, now)
		if !added {
			if strings.Join(akeys, "\n") != strings.Join(bkeys, "\n") {
				bad("notadded-changed", "AddRoute(%s) returned added=false (err=%v) but the table changed", o.name, err)
			}
			return vs
		}
		present := false
		for i := range after {
			if routeID(&after[i]) == id {
				present = true
			}
		}
		if !present {
			bad("added-absent", "AddRoute(%s) returned added=true but the route is not in the table", o.name)
		}
		// what disappeared?
		aset := map[string]int{}
		for i := range after {
			aset[routeID(&after[i])]++
		}
		lost := 0
		for i := range before {
			rid := routeID(&before[i])
			if aset[rid] > 0 {
				aset[rid]--
				continue
			}
			lost++
			b := &before[i]
			if b.Source == m.RouteSourcePeer && !(e.Source == m.RouteSourcePeer && e.DstIP == b.DstIP) {
				bad("peer-evicted-by-add", "AddRoute(%s) evicted direct-peer route %s", o.name, rid)
			}
			if b.DstIP != e.DstIP {
				bad("add-removed-other-dst", "AddRoute(%s) removed a route to another destination: %s", o.name, rid)
			}
		}
		if lost > 1 {
			bad("add-removed-many", "AddRoute(%s) removed %d routes", o.name, lost)
		}
		return vs

	case opFill:
		for i := 0; i < o.fillN; i++ {
			e := sc.mkEntry(sc.fillOp(o, i))
			_, _ = rt.AddRoute(e)
		}
		return vs

	case opMulti:
		for _, so := range o.sub {
			_, _ = rt.AddRoute(sc.mkEntry(so))
		}
		return vs

	case opRemoveNextHop:
		rt.RemoveNextHop(o.via)
		after := rt.VerifEntries()
		var want []string
		for i := range before {
			if before[i].NextHop != o.via {
				want = append(want, bkeys[i])
			}
		}
		if strings.Join(snapKeys(after, now), "\n") != strings.Join(want, "\n") {
			bad("removenexthop-wrong", "RemoveNextHop(%s): table is not 'before minus routes via that next hop'", o.via)
		}
		return vs

	case opRemoveDisconnected:
		rt.RemoveDisconnected(o.dst, o.list)
		after := rt.VerifEntries()
		var want []string
		for i := range before {
			b := &before[i]
			remove := false
			if len(o.list) == 0 {
				remove = b.DstIP == o.dst || b.NextHop == o.dst || containsRouter(b, o.dst)
			} else {
				for j, h := range b.Path.Hops {
					if h.Router != o.dst {
						continue
					}
					for _, p := range o.list {
						if j > 0 && b.Path.Hops[j-1].Router == p {
							remove = true
						}
						if j < len(b.Path.Hops)-1 && b.Path.Hops[j+1].Router == p {
							remove = true
						}
					}
				}
			}
			if !remove {
				want = append(want, bkeys[i])
			}
		}
		if strings.Join(snapKeys(after, now), "\n") != strings.Join(want, "\n") {
			bad("removedisconnected-wrong", "RemoveDisconnected(%s,%v): table is not 'before minus routes containing the disconnected router/link'", o.dst, o.list)
		}
		return vs

	case opClean:
		rt.Clean()
		after := rt.VerifEntries()
		// (1) subset, peers kept.
		aset := map[string]int{}
		for _, k := range snapKeys(after, now) {
			aset[k]++
		}
		bset := map[string]int{}
		for _, k := range bkeys {
			bset[k]++
		}
		for k, n := range aset {
			if bset[k] < n {
				bad("clean-invented", "Clean produced an entry that was not there: %s", k)
			}
		}
		// entries per prefix after expiry (before trimming).
		perPrefix := map[netip.Prefix]int{}
		for i := range before {
			b := &before[i]
			if b.Source != m.RouteSourcePeer && b.Expires.Before(now) {
				continue
			}
			perPrefix[b.RoutingPrefix]++
		}
		for i := range before {
			b := &before[i]
			k := bkeys[i]
			if aset[k] > 0 {
				aset[k]--
				continue
			}
			// removed: must be justified.
			switch {
			case b.Source == m.RouteSourcePeer:
				bad("clean-removed-peer", "Clean removed direct-peer route %s", routeID(b))
			case b.Expires.Before(now):
			case b.Source == m.RouteSourceGossip && perPrefix[b.RoutingPrefix] > sc.limitOf(b.DstIP):
			default:
				bad("clean-removed-unjustified", "Clean removed %s although neither expired nor over the prefix limit", routeID(b))
			}
		}
		gossip := map[netip.Prefix]int{}
		lim := map[netip.Prefix]int{}
		for i := range after {
			a := &after[i]
			if a.Source != m.RouteSourcePeer && a.Expires.Before(now) {
				bad("clean-expired-survived", "expired route survived Clean: %s", routeID(a))
			}
			if a.Source == m.RouteSourceGossip {
				gossip[a.RoutingPrefix]++
				lim[a.RoutingPrefix] = sc.limitOf(a.DstIP)
			}
		}
		for p, n := range gossip {
			if n > lim[p] {
				bad("clean-over-limit", "after Clean routing prefix %s holds %d gossip routes, limit %d", p, n, lim[p])
			}
		}
		return vs
	}
	return vs
}

func (sc *scenario) fillOp(o op, i int) op {
	a := o.fillPfx.Addr().As16()
	n := o.fillOff + i + 1
	// deterministic pseudo-random variety in address bits, delay and hop count.
	x := uint32(n)*2654435761 + 12345
	a[13] = byte(n >> 16)
	a[14] = byte(n >> 8)
	a[15] = byte(n)
	a[8] = 0x77
	a[9] = byte(x >> 8)
	f := op{kind: opAddGossip, dst: netip.AddrFrom16(a), via: o.via, delay: uint16(5 + (x>>16)%50), expires: o.expires}
	if (x>>3)%2 == 0 {
		f.relays = []netip.Addr{ip("fd6b:3::c")}
	}
	return f
}

func (sc *scenario) mkEntry(o op) m.RoutingTableEntry {
	switch o.kind {
	case opAddPeer:
		return m.RoutingTableEntry{DstIP: o.dst, NextHop: o.dst, Source: m.RouteSourcePeer}
	case opAddPeerAnnounce:
		sp := m.SwitchPath{Hops: []m.SwitchHop{
			{Router: sc.router, Delay: o.delay, ForwardLabel: labelOf(o.dst)},
			{Router: o.dst, ReturnLabel: 9},
		}}
		sp.CalculateTotals()
		return m.RoutingTableEntry{DstIP: o.dst, NextHop: o.dst, Path: sp, Source: m.RouteSourcePeer}
	default:
		hops := []m.SwitchHop{{Router: sc.router, Delay: o.delay, ForwardLabel: labelOf(o.via)}}
		hops = append(hops, m.SwitchHop{Router: o.via, Delay: o.delay, ForwardLabel: 21, ReturnLabel: 22})
		for _, r := range o.relays {
			hops = append(hops, m.SwitchHop{Router: r, Delay: 5, ForwardLabel: 300, ReturnLabel: 31})
		}
		hops = append(hops, m.SwitchHop{Router: o.dst, ReturnLabel: 9})
		sp := m.SwitchPath{Hops: hops}
		sp.CalculateTotals()
		e := m.RoutingTableEntry{DstIP: o.dst, NextHop: o.via, Path: sp, Source: m.RouteSourceGossip}
		if o.src != 0 {
			e.Source = o.src
		}
		if o.expires != 0 {
			e.Expires = time.Now().Add(o.expires)
		}
		return e
	}
}

func labelOf(a netip.Addr) m.SwitchLabel {
	b := a.As16()
	return m.SwitchLabel(b[15]&0x7f) | 1
}

// refTotals recomputes hop count and delay of a route from its hop list: every
// hop counts at least the minimum hop delay, the sum saturates at 65534.
func refTotals(e *m.RoutingTableEntry) (hops int, delay int) {
	if len(e.Path.Hops) < 2 {
		return int(e.Path.TotalHops), int(e.Path.TotalDelay)
	}
	hops = len(e.Path.Hops) - 1
	if hops > 254 {
		hops = 254
	}
	for _, h := range e.Path.Hops {
		d := int(h.Delay)
		if d < m.MinHopDelay {
			d = m.MinHopDelay
		}
		delay += d
	}
	if delay > 65534 {
		delay = 65534
	}
	return
}

// invariants evaluated in every state.
func (sc *scenario) invariants(rt *m.RoutingTable) []violation {
	var vs []violation
	bad := func(key, format string, a ...any) {
		vs = append(vs, violation{sc.name + "/" + key, fmt.Sprintf(format, a...)})
	}
	es := rt.VerifEntries()
	nonPeer := map[netip.Addr]int{}
	peers := map[netip.Addr]int{}
	gossip := map[netip.Prefix]int{}
	lims := map[netip.Prefix]int{}
	for i := range es {
		e := &es[i]
		if h, d := refTotals(e); h != int(e.Path.TotalHops) || d != int(e.Path.TotalDelay) {
			bad("stored-totals-wrong", "route %s is ranked with hops=%d delay=%d but its hop list gives hops=%d delay=%d", routeID(e), e.Path.TotalHops, e.Path.TotalDelay, h, d)
		}
		if e.Source == m.RouteSourcePeer {
			peers[e.DstIP]++
		} else {
			nonPeer[e.DstIP]++
		}
		if e.Source == m.RouteSourceGossip {
			gossip[e.RoutingPrefix]++
			lims[e.RoutingPrefix] = sc.limitOf(e.DstIP)
		}
	}
	for d, n := range nonPeer {
		if n > 3 {
			bad("more-than-3-routes", "%d non-peer routes kept for destination %s", n, d)
		}
	}
	for p, n := range gossip {
		if lim := lims[p]; n > 3*(2*lim+1) {
			bad("prefix-overflow", "routing prefix %s holds %d gossip routes > 3*(2*%d+1)", p, n, lim)
		}
	}
	// lookups.
	for _, a := range sc.probes {
		var best *m.RoutingTableEntry
		havePeer := false
		for i := range es {
			e := &es[i]
			if e.DstIP != a {
				continue
			}
			if e.Source == m.RouteSourcePeer {
				havePeer = true
			}
			if best == nil {
				best = e
			} else {
				eh, ed := refTotals(e)
				bh, bd := refTotals(best)
				if eh < bh || (eh == bh && ed < bd) {
					best = e
				}
			}
		}
		for li, look := range []func(netip.Addr) (*m.RoutingTableEntry, bool){rt.LookupNearest, rt.LookupNearestRoute} {
			got, isDst := look(a)
			name := []string{"LookupNearest", "LookupNearestRoute"}[li]
			if best == nil {
				if isDst || (got != nil && got.DstIP == a) {
					bad("lookup-phantom", "%s(%s) claims a destination match but the table has no route to it", name, a)
				}
				continue
			}
			switch {
			case got == nil || got.DstIP != a || !isDst:
				bad("lookup-miss", "%s(%s) did not return an exact destination route although %d exist (got %v isDst=%v)", name, a, nonPeer[a]+peers[a], fmtRoute(got), isDst)
			case havePeer && got.Source != m.RouteSourcePeer:
				bad("lookup-not-peer-first", "%s(%s) returned %s although a direct-peer route exists", name, a, fmtRoute(got))
			case !havePeer:
				gh, gd := refTotals(got)
				bh, bd := refTotals(best)
				if gh != bh || gd != bd {
					bad("lookup-not-best", "%s(%s) returned hops=%d delay=%d but best is hops=%d delay=%d", name, a, gh, gd, bh, bd)
				}
			}
		}
	}
	return vs
}

func fmtRoute(e *m.RoutingTableEntry) string {
	if e == nil {
		return "<nil>"
	}
	return routeID(e)
}

// ---------------------------------------------------------------------------

type result struct {
	stateKey string
	viol     []violation
	panicked any
	entries  int
}

// run replays path on a fresh table in a fresh bubble and returns the state reached.
func (sc *scenario) run(t *testing.T, path []int) (res result) {
	synctest.Test(t, func(t *testing.T) {
		rt := m.NewRoutingTable(sc.cfg())
		start := time.Now()
		defer func() {
			if p := recover(); p != nil {
				res.panicked = p
			}
		}()
		for i, oi := range path {
			vs := sc.apply(rt, sc.ops[oi])
			if i == len(path)-1 {
				res.viol = append(res.viol, vs...)
			}
		}
		res.viol = append(res.viol, sc.invariants(rt)...)
		es := rt.VerifEntries()
		res.entries = len(es)
		now := time.Now()
		res.stateKey = kit.Hash(strings.Join(snapKeys(es, now), "\n"), now.Sub(start).String())
	})
	return res
}

func (sc *scenario) pathNames(path []int) []string {
	out := make([]string, len(path))
	for i, p := range path {
		out[i] = sc.ops[p].name
	}
	return out
}

func explore(t *testing.T, rep *kit.Report, env kit.Env, sc *scenario) {
	ti := 0
	if env.Thorough() {
		ti = 1
	}
	depth, maxStates := sc.depth[ti], sc.maxState[ti]
	seen := map[string]bool{}
	type node struct{ path []int }
	var frontier []node
	// level 1 is sharded.
	for i := range sc.ops {
		if env.Mine(i) {
			frontier = append(frontier, node{[]int{i}})
		}
	}
	var evals, transitions, nontrivial int64
	capped := false
	for d := 1; d <= depth && len(frontier) > 0; d++ {
		var next []node
		for _, nd := range frontier {
			if env.Expired() {
				capped = true
				break
			}
			r := sc.run(t, nd.path)
			evals++
			transitions += int64(len(nd.path))
			if r.panicked != nil {
				rep.Violate(sc.name+"/panic", fmt.Sprintf("panic %v after ops %v", r.panicked, sc.pathNames(nd.path)), map[string]any{"scenario": sc.name, "ops": sc.pathNames(nd.path)})
				continue
			}
			for _, v := range r.viol {
				rep.Violate(v.key, v.detail+fmt.Sprintf(" — after ops %v", sc.pathNames(nd.path)), map[string]any{"scenario": sc.name, "ops": sc.pathNames(nd.path)})
			}
			if r.entries >= 2 {
				nontrivial++
			}
			if seen[r.stateKey] {
				continue
			}
			seen[r.stateKey] = true
			if len(seen)%5000 == 1 {
				rep.Sample(map[string]any{"scenario": sc.name, "ops": sc.pathNames(nd.path), "table_entries": r.entries})
			}
			if len(seen) >= maxStates {
				capped = true
				continue
			}
			if d < depth {
				for i := range sc.ops {
					next = append(next, node{append(append([]int(nil), nd.path...), i)})
				}
			}
		}
		frontier = next
	}
	if capped {
		rep.Cap(fmt.Sprintf("%s: state cap %d or time budget hit before depth %d was completed", sc.name, maxStates, depth))
	}
	rep.Add(evals, nontrivial, int64(len(seen)), transitions)
	rep.Outcome(fmt.Sprintf("%s: %d states", sc.name, len(seen)))
	rep.Bounds[sc.name] = map[string]any{"depth": depth, "ops": len(sc.ops), "state_cap": maxStates}
}

// limitFrom derives the per-prefix limit that governs a destination: the
// EntriesPerPrefix of the first routable-prefix configuration containing the
// destination address (the same rule AddRoute uses to pick the routing prefix).
func limitFrom(cfg m.RoutingTableConfig) func(netip.Addr) int {
	return func(dst netip.Addr) int {
		for _, rp := range cfg.RoutablePrefixes {
			if rp.BasePrefix.Contains(dst) {
				return rp.EntriesPerPrefix
			}
		}
		return 0
	}
}

func scenarios() []*scenario {
	var out []*scenario

	// --- scenario 1: one bucket, limit 1, five destinations, rich op alphabet.
	{
		R := ip("fd10:1::1")
		P1, P2 := ip("fd10:2::b"), ip("fd10:3::c")
		D1, D2, D3 := ip("fd10:4::1"), ip("fd10:5::1"), ip("fd10:6::1")
		X := ip("fd10:7::7")
		cfg := func() m.RoutingTableConfig {
			return m.RoutingTableConfig{RouterIP: R, RoutablePrefixes: []m.RoutablePrefix{
				{BasePrefix: m.BaseNetPrefix, RoutingBits: 12, EntryTTL: 3 * time.Hour, EntriesPerPrefix: 1},
			}}
		}
		sc := &scenario{name: "one-prefix-limit1", cfg: cfg, router: R, limitOf: limitFrom(cfg()),
			probes: []netip.Addr{P1, P2, D1, D2, D3, X, ip("fd10:4::2"), ip("fd77::1")},
			depth:  [2]int{4, 6}, maxState: [2]int{60000, 2500000}}
		add := func(o op) { sc.ops = append(sc.ops, o) }
		add(op{kind: opAddPeer, dst: P1, name: "AddPeer(P1)"})
		add(op{kind: opAddPeer, dst: P2, name: "AddPeer(P2)"})
		add(op{kind: opAddPeerAnnounce, dst: P1, delay: 20, name: "AddPeerAnnounce(P1,20ms)"})
		for _, d := range []struct {
			n string
			a netip.Addr
		}{{"D1", D1}, {"D2", D2}, {"P2", P2}} {
			for _, v := range []struct {
				n string
				a netip.Addr
			}{{"P1", P1}, {"P2", P2}} {
				if v.a == d.a {
					continue
				}
				add(op{kind: opAddGossip, dst: d.a, via: v.a, delay: 5, expires: 10*time.Minute + 10*time.Second, name: fmt.Sprintf("Gossip(%s via %s,5ms)", d.n, v.n)})
				add(op{kind: opAddGossip, dst: d.a, via: v.a, delay: 20, expires: 10*time.Minute + 10*time.Second, name: fmt.Sprintf("Gossip(%s via %s,20ms)", d.n, v.n)})
				add(op{kind: opAddGossip, dst: d.a, via: v.a, relays: []netip.Addr{X}, delay: 5, expires: time.Hour, name: fmt.Sprintf("Gossip(%s via %s+X,5ms)", d.n, v.n)})
			}
		}
		add(op{kind: opAddGossip, dst: D3, via: P1, delay: 5, expires: 10*time.Minute + 10*time.Second, name: "Gossip(D3 via P1,5ms)"})
		add(op{kind: opRemoveNextHop, via: P1, name: "RemoveNextHop(P1)"})
		add(op{kind: opRemoveNextHop, via: P2, name: "RemoveNextHop(P2)"})
		add(op{kind: opRemoveDisconnected, dst: P1, name: "RemoveDisconnected(P1)"})
		add(op{kind: opRemoveDisconnected, dst: X, name: "RemoveDisconnected(X)"})
		add(op{kind: opRemoveDisconnected, dst: D1, name: "RemoveDisconnected(D1)"})
		add(op{kind: opRemoveDisconnected, dst: X, list: []netip.Addr{P1}, name: "RemoveDisconnected(X,[P1])"})
		add(op{kind: opClean, name: "Clean"})
		add(op{kind: opAdvance, dur: 11 * time.Minute, name: "Advance(11m)"})
		add(op{kind: opAdvance, dur: 4 * time.Hour, name: "Advance(4h)"})
		out = append(out, sc)
	}

	// --- scenario 2: own-country bucket and region bucket as the real
	// GetRoutablePrefixesFor derives them for a router whose country prefix has
	// all-zero marker bits (LY fd20::/17 inside region fd20::/16), limits shrunk to 1.
	{
		R := ip("fd20:1::1")
		P1 := ip("fd20:2::b")
		cfgReal := m.GetRoutablePrefixesFor(R, netip.MustParsePrefix("fd20::/17"))
		cfg := func() m.RoutingTableConfig {
			rps := append([]m.RoutablePrefix(nil), cfgReal...)
			for i := range rps {
				rps[i].EntriesPerPrefix = 1
			}
			return m.RoutingTableConfig{RouterIP: R, RoutablePrefixes: rps}
		}
		own := []netip.Addr{ip("fd20:10::1"), ip("fd20:11::1"), ip("fd20:12::1")}
		region := []netip.Addr{ip("fd20:8010::1"), ip("fd20:8011::1"), ip("fd20:8012::1")}
		sc := &scenario{name: "zero-marker-country-limit1", cfg: cfg, router: R, limitOf: limitFrom(cfg()),
			probes: append(append([]netip.Addr{P1}, own...), region...),
			depth:  [2]int{6, 7}, maxState: [2]int{60000, 1500000}}
		add := func(o op) { sc.ops = append(sc.ops, o) }
		add(op{kind: opAddPeer, dst: P1, name: "AddPeer(P1)"})
		for i, d := range own {
			add(op{kind: opAddGossip, dst: d, via: P1, delay: uint16(5 + 10*i), expires: time.Hour, name: fmt.Sprintf("Gossip(own%d)", i)})
		}
		for i, d := range region {
			add(op{kind: opAddGossip, dst: d, via: P1, delay: uint16(10 + 10*i), expires: time.Hour, name: fmt.Sprintf("Gossip(region%d)", i)})
		}
		add(op{kind: opClean, name: "Clean"})
		add(op{kind: opAdvance, dur: 4 * time.Hour, name: "Advance(4h)"})
		out = append(out, sc)
	}

	// --- scenarios 3..6: the shipped configuration (limits 32/64/1024) of four
	// router addresses, with Fill macro-ops so the shipped limits bind.
	for _, rc := range []struct {
		name   string
		router string
		prefix string
	}{
		{"shipped-LY(zero marker)", "fd20:1::1", "fd20::/17"},
		{"shipped-DE", "", ""},
		{"shipped-roaming", "fd00:1234::1", "fd00::/16"},
		{"shipped-organisation", "fd01:1234::1", "fd01::/16"},
	} {
		R, pfx := netip.Addr{}, netip.Prefix{}
		if rc.router == "" {
			p, err := m.GetCountryPrefix("DE")
			if err != nil {
				panic(err)
			}
			pfx = p
			a := p.Addr().As16()
			a[15] = 1
			a[7] = 9
			R = netip.AddrFrom16(a)
		} else {
			R, pfx = ip(rc.router), netip.MustParsePrefix(rc.prefix)
		}
		rps := m.GetRoutablePrefixesFor(R, pfx)
		cfg := func() m.RoutingTableConfig {
			return m.RoutingTableConfig{RouterIP: R, RoutablePrefixes: append([]m.RoutablePrefix(nil), rps...)}
		}
		ra := R.As16()
		ra[15] = 0xb
		ra[5] = 0x55
		P1 := netip.AddrFrom16(ra)
		// buckets: own prefix; sibling inside region (if geo marked); other continent; special region.
		regionPfx, _ := R.Prefix(16)
		sib := regionPfx.Addr().As16()
		sib[2] = 0xC0 // another country slot inside the same /16
		sibling := netip.PrefixFrom(netip.AddrFrom16(sib), 24)
		sc := &scenario{name: rc.name, cfg: cfg, router: R, limitOf: limitFrom(cfg()),
			probes: []netip.Addr{P1},
			depth:  [2]int{5, 6}, maxState: [2]int{3000, 40000}}
		add := func(o op) { sc.ops = append(sc.ops, o) }
		add(op{kind: opAddPeer, dst: P1, name: "AddPeer(P1)"})
		ownSub := netip.PrefixFrom(pfx.Addr(), 24)
		add(op{kind: opFill, fillPfx: ownSub, fillN: 15, via: P1, expires: time.Hour, name: "Fill(own,15)"})
		add(op{kind: opFill, fillPfx: ownSub, fillN: 40, fillOff: 500, via: P1, expires: time.Hour, name: "Fill(own,40)"})
		add(op{kind: opFill, fillPfx: sibling, fillN: 70, via: P1, expires: time.Hour, name: "Fill(region-sibling,70)"})
		add(op{kind: opFill, fillPfx: sibling, fillN: 70, fillOff: 1000, via: P1, expires: time.Hour, name: "Fill(region-sibling,70,#2)"})
		add(op{kind: opFill, fillPfx: netip.MustParsePrefix("fd6a:cc00::/24"), fillN: 40, via: P1, expires: time.Hour, name: "Fill(other-continent,40)"})
		add(op{kind: opFill, fillPfx: netip.MustParsePrefix("fd0f:cc00::/24"), fillN: 40, via: P1, expires: time.Hour, name: "Fill(experiments,40)"})
		add(op{kind: opClean, name: "Clean"})
		add(op{kind: opAdvance, dur: 4 * time.Hour, name: "Advance(4h)"})
		add(op{kind: opRemoveNextHop, via: P1, name: "RemoveNextHop(P1)"})
		out = append(out, sc)
	}

	// --- scenario 7: default table configuration.
	{
		R := ip("fd10:1::1")
		P1 := ip("fd10:2::b")
		D1, D2 := ip("fd10:4::1"), ip("fd3a:5::1")
		cfg := func() m.RoutingTableConfig { return m.RoutingTableConfig{RouterIP: R} }
		sc := &scenario{name: "default-config", cfg: cfg, router: R,
			limitOf: func(netip.Addr) int { return 0 },
			probes:  []netip.Addr{P1, D1, D2},
			depth:   [2]int{5, 6}, maxState: [2]int{20000, 200000}}
		add := func(o op) { sc.ops = append(sc.ops, o) }
		add(op{kind: opAddPeer, dst: P1, name: "AddPeer(P1)"})
		add(op{kind: opAddGossip, dst: D1, via: P1, delay: 5, expires: time.Hour, name: "Gossip(D1)"})
		add(op{kind: opAddGossip, dst: D1, via: P1, relays: []netip.Addr{D2}, delay: 5, expires: time.Hour, name: "Gossip(D1 via D2)"})
		add(op{kind: opAddGossip, dst: D2, via: P1, delay: 5, expires: time.Hour, name: "Gossip(D2)"})
		add(op{kind: opRemoveDisconnected, dst: D2, name: "RemoveDisconnected(D2)"})
		add(op{kind: opClean, name: "Clean"})
		add(op{kind: opAdvance, dur: 2 * time.Hour, name: "Advance(2h)"})
		out = append(out, sc)
	}
	// --- scenario 8: many alternative routes to ONE destination that is also a
	// direct peer (section of up to four entries: peer route + three gossip
	// routes), refreshed with better / equal / worse cost in every order.
	{
		R := ip("fd10:1::1")
		P1, P2, P3 := ip("fd10:2::b"), ip("fd10:3::c"), ip("fd10:8::d")
		X, Y := ip("fd10:7::7"), ip("fd10:9::9")
		cfg := func() m.RoutingTableConfig {
			return m.RoutingTableConfig{RouterIP: R, RoutablePrefixes: []m.RoutablePrefix{
				{BasePrefix: m.BaseNetPrefix, RoutingBits: 12, EntryTTL: 3 * time.Hour, EntriesPerPrefix: 2},
			}}
		}
		sc := &scenario{name: "one-destination-many-routes", cfg: cfg, router: R, limitOf: limitFrom(cfg()),
			probes: []netip.Addr{P1, P2, P3, X},
			depth:  [2]int{6, 7}, maxState: [2]int{60000, 1500000}}
		add := func(o op) { sc.ops = append(sc.ops, o) }
		add(op{kind: opAddPeer, dst: P2, name: "AddPeer(P2)"})
		for _, r := range []struct {
			n      string
			via    netip.Addr
			relays []netip.Addr
		}{{"P1", P1, nil}, {"P3", P3, nil}, {"P1+X", P1, []netip.Addr{X}}, {"P3+Y", P3, []netip.Addr{Y}}} {
			for _, d := range []uint16{5, 20} {
				add(op{kind: opAddGossip, dst: P2, via: r.via, relays: r.relays, delay: d, expires: time.Hour, name: fmt.Sprintf("Gossip(P2 via %s,%dms)", r.n, d)})
			}
		}
		add(op{kind: opRemoveNextHop, via: P3, name: "RemoveNextHop(P3)"})
		add(op{kind: opRemoveDisconnected, dst: P2, name: "RemoveDisconnected(P2)"})
		add(op{kind: opClean, name: "Clean"})
		out = append(out, sc)
	}
	// --- scenario 8b: routes of the third source kind ("discovered") mixed with gossip
	// routes to one destination: the cap of three non-peer routes holds for any mix.
	{
		R := ip("fd10:1::1")
		P1, P3 := ip("fd10:2::b"), ip("fd10:8::d")
		X, Y := ip("fd10:7::7"), ip("fd10:9::9")
		D := ip("fd10:4::1")
		cfg := func() m.RoutingTableConfig {
			return m.RoutingTableConfig{RouterIP: R, RoutablePrefixes: []m.RoutablePrefix{
				{BasePrefix: m.BaseNetPrefix, RoutingBits: 12, EntryTTL: 3 * time.Hour, EntriesPerPrefix: 2},
			}}
		}
		sc := &scenario{name: "discovered-and-gossip-routes", cfg: cfg, router: R, limitOf: limitFrom(cfg()),
			probes: []netip.Addr{P1, P3, D, X},
			depth:  [2]int{6, 7}, maxState: [2]int{60000, 1500000}}
		add := func(o op) { sc.ops = append(sc.ops, o) }
		for _, r := range []struct {
			n      string
			via    netip.Addr
			relays []netip.Addr
			delay  uint16
		}{{"P1", P1, nil, 5}, {"P3", P3, nil, 20}, {"P1+X", P1, []netip.Addr{X}, 5}, {"P3+Y", P3, []netip.Addr{Y}, 5}} {
			add(op{kind: opAddGossip, dst: D, via: r.via, relays: r.relays, delay: r.delay, expires: time.Hour, name: fmt.Sprintf("Gossip(D via %s,%dms)", r.n, r.delay)})
			add(op{kind: opAddGossip, src: m.RouteSourceDiscovered, dst: D, via: r.via, relays: r.relays, delay: r.delay + 1, expires: time.Hour, name: fmt.Sprintf("Discovered(D via %s,%dms)", r.n, r.delay+1)})
		}
		add(op{kind: opRemoveNextHop, via: P3, name: "RemoveNextHop(P3)"})
		add(op{kind: opClean, name: "Clean"})
		out = append(out, sc)
	}
	// --- scenario 9: delay sums beyond the 16-bit range (saturate, never wrap).
	{
		R := ip("fd10:1::1")
		P1, P3 := ip("fd10:2::b"), ip("fd10:8::d")
		X, Y := ip("fd10:7::7"), ip("fd10:9::9")
		D := ip("fd10:4::1")
		cfg := func() m.RoutingTableConfig {
			return m.RoutingTableConfig{RouterIP: R, RoutablePrefixes: []m.RoutablePrefix{
				{BasePrefix: m.BaseNetPrefix, RoutingBits: 12, EntryTTL: 3 * time.Hour, EntriesPerPrefix: 2},
			}}
		}
		sc := &scenario{name: "delay-saturation", cfg: cfg, router: R, limitOf: limitFrom(cfg()),
			probes: []netip.Addr{D, P1},
			depth:  [2]int{5, 6}, maxState: [2]int{60000, 400000}}
		add := func(o op) { sc.ops = append(sc.ops, o) }
		for _, r := range []struct {
			n      string
			via    netip.Addr
			relays []netip.Addr
			delay  uint16
		}{{"P1", P1, nil, 40000}, {"P3", P3, nil, 25000}, {"P1", P1, nil, 5}, {"P1+X", P1, []netip.Addr{X}, 40000}, {"P3+Y", P3, []netip.Addr{Y}, 30000}, {"P3+Y", P3, []netip.Addr{Y}, 65535}} {
			add(op{kind: opAddGossip, dst: D, via: r.via, relays: r.relays, delay: r.delay, expires: time.Hour, name: fmt.Sprintf("Gossip(D via %s,%dms)", r.n, r.delay)})
		}
		add(op{kind: opClean, name: "Clean"})
		out = append(out, sc)
	}

	// --- scenarios 10a/10b: destinations at the edges of a routing prefix (first
	// and last address of fd10::/12; first address of the next prefix and last
	// of the previous one), limit 1, so that the per-prefix bounds bind.
	for _, variant := range []struct {
		name  string
		dests [][2]string
		depth [2]int
	}{
		{"prefix-boundary-addresses(inside)", [][2]string{{"last-of-prefix", "fd1f:ffff:ffff:ffff:ffff:ffff:ffff:ffff"}, {"first-of-prefix", "fd10::"}, {"mid1", "fd14:5::1"}, {"mid2", "fd18:6::1"}}, [2]int{8, 9}},
		{"prefix-boundary-addresses(neighbours)", [][2]string{{"last-of-previous-prefix", "fd0f:ffff:ffff:ffff:ffff:ffff:ffff:ffff"}, {"first-of-prefix", "fd10::"}, {"last-of-prefix", "fd1f:ffff:ffff:ffff:ffff:ffff:ffff:ffff"}, {"first-of-next-prefix", "fd20::"}}, [2]int{6, 8}},
	} {
		R := ip("fd30:1::1")
		P1, P2, P3 := ip("fd30:2::b"), ip("fd30:3::c"), ip("fd30:8::d")
		cfg := func() m.RoutingTableConfig {
			return m.RoutingTableConfig{RouterIP: R, RoutablePrefixes: []m.RoutablePrefix{
				{BasePrefix: m.BaseNetPrefix, RoutingBits: 12, EntryTTL: 3 * time.Hour, EntriesPerPrefix: 1},
			}}
		}
		var probes []netip.Addr
		for _, d := range variant.dests {
			probes = append(probes, ip(d[1]))
		}
		sc := &scenario{name: variant.name, cfg: cfg, router: R, limitOf: limitFrom(cfg()),
			probes: probes,
			depth:  variant.depth, maxState: [2]int{60000, 400000}}
		add := func(o op) { sc.ops = append(sc.ops, o) }
		for _, d := range variant.dests {
			a := ip(d[1])
			add(op{kind: opAddGossip, dst: a, via: P1, delay: 5, expires: time.Hour, name: fmt.Sprintf("Gossip(%s via P1)", d[0])})
			add(op{kind: opMulti, name: fmt.Sprintf("Alternatives(%s via P2, P3)", d[0]), sub: []op{
				{kind: opAddGossip, dst: a, via: P2, delay: 7, expires: time.Hour},
				{kind: opAddGossip, dst: a, via: P3, delay: 9, expires: time.Hour},
			}})
		}
		add(op{kind: opClean, name: "Clean"})
		out = append(out, sc)
	}
	return out
}

func TestC11(t *testing.T) {
	env := kit.GetEnv()
	rep := kit.NewReport("C11", env)
	rep.Rule = "explicit-state BFS: every operation sequence up to the depth bound over the scenario's op alphabet (AddRoute as AddLink / as hop-less announce / as gossip with system-producible paths, RemoveNextHop, RemoveDisconnected with and without peer list, Clean, clock advances, Fill macro-ops; scenarios incl. many routes to one destination, hop delays whose sum exceeds 16 bits, destinations at the first/last address of a routing prefix), hop count and delay of every route recomputed from its hop list by the reference, deduplicated on (table snapshot, clock); each execution = fresh real table + replay inside a virtual-time bubble; after the last op its post-condition and all invariants + lookups of every probe address are checked; non-trivial = resulting table holds >= 2 entries; states = distinct (snapshot, clock) per shard"
	rep.Assumptions = []string{
		"routes are system-producible: peer routes as AddLink/announce build them, gossip routes with >= 1 signed relay hop (so >= 2 hops), first hop = this router, next hop = first relay",
		"per-prefix limits are taken from the table's own configuration; 'limit' scenarios shrink EntriesPerPrefix through the public config struct, 'shipped' scenarios keep 32/64/1024 and use Fill macro-ops",
		"states of different shards (level-1 subtrees) may coincide; the states count is the sum over shards",
	}
	scs := scenarios()
	sort.SliceStable(scs, func(i, j int) bool { return false })
	runTableSched(t, rep, env)
	for _, sc := range scs {
		explore(t, rep, env, sc)
	}
	if err := rep.Finish(env); err != nil {
		t.Fatal(err)
	}
}
