// C06: traffic policy — default-deny inbound firewall, no spoofing, outbound isolation.
//
// Configurations (services x access rules x friends x isolation) are parsed by
// the real config parser; packets in both directions are pushed through the
// real router handlers of a router R with three real neighbours (friend,
// listed, stranger); what reaches the tun device / the mesh is compared with a
// small reference model derived from the *intent* of the configuration.
package c06

import (
	"fmt"
	"net/netip"
	"strings"
	"testing"
	"testing/synctest"
	"time"

	"verif/kit"

	"github.com/mycoria/mycoria/config"
	"github.com/mycoria/mycoria/frame"
	"github.com/mycoria/mycoria/m"
)

var pool = pickPool()

// pickPool returns identities whose address type is acceptable for friends.
func pickPool() []*m.Address {
	var out []*m.Address
	for _, a := range kit.RoutablePool("c06", 24) {
		switch m.GetAddressType(a.IP) {
		case m.TypeGeoMarked, m.TypeRoaming, m.TypeOrganization, m.TypeAnycast, m.TypeExperiment:
			out = append(out, a)
		}
	}
	if len(out) < 5 {
		panic("pool too small")
	}
	return out
}

// indices into pool.
const (
	iR = iota
	iF1
	iF2
	iL
	iX
)

type svcIntent struct {
	scheme  string
	port    int // 0 = default
	access  string
	name    string
	keys    [][2]int // (protocol, port)
	allowed func(sender netip.Addr, friends []netip.Addr) bool
}

type cfgIntent struct {
	svcs    []svcIntent
	friends []int // pool indices
	isolate bool
}

func (c cfgIntent) String() string {
	var s []string
	for _, v := range c.svcs {
		s = append(s, fmt.Sprintf("%s:%d/%s", v.scheme, v.port, v.access))
	}
	return fmt.Sprintf("services=[%s] friends=%v isolate=%v", strings.Join(s, ","), c.friends, c.isolate)
}

func mkSvc(scheme string, port int, access string) (svcIntent, config.ServiceConfig, bool) {
	si := svcIntent{scheme: scheme, port: port, access: access}
	url := scheme + "://svc.myco"
	if port != 0 {
		url += fmt.Sprintf(":%d", port)
	}
	p := port
	expressible := true
	switch scheme {
	case "tcp":
		si.keys = [][2]int{{6, p}}
		expressible = port != 0
	case "udp":
		si.keys = [][2]int{{17, p}}
		expressible = port != 0
	case "http":
		if p == 0 {
			p = 80
		}
		si.keys = [][2]int{{6, p}, {17, p}}
	case "https":
		if p == 0 {
			p = 443
		}
		si.keys = [][2]int{{6, p}, {17, p}}
	case "icmp6", "ping6":
		si.keys = [][2]int{{58, 0}}
	}
	sc := config.ServiceConfig{Name: scheme + "-" + access, URL: url}
	switch access {
	case "public":
		sc.Public = true
		si.allowed = func(netip.Addr, []netip.Addr) bool { return true }
	case "friends":
		sc.Friends = true
		si.allowed = func(s netip.Addr, fr []netip.Addr) bool { return contains(fr, s) }
	case "for-ip":
		sc.For = []string{pool[iL].IP.String()}
		si.allowed = func(s netip.Addr, fr []netip.Addr) bool { return s == pool[iL].IP }
	case "for-friendname":
		sc.For = []string{"friend1"}
		si.allowed = func(s netip.Addr, fr []netip.Addr) bool { return s == pool[iF1].IP }
	case "friends+for-ip":
		sc.Friends = true
		sc.For = []string{pool[iL].IP.String()}
		si.allowed = func(s netip.Addr, fr []netip.Addr) bool { return contains(fr, s) || s == pool[iL].IP }
	}
	return si, sc, expressible
}

func contains(l []netip.Addr, a netip.Addr) bool {
	for _, x := range l {
		if x == a {
			return true
		}
	}
	return false
}

func packet(src, dst netip.Addr, proto uint8, sport, dport uint16, extra int) []byte {
	b := make([]byte, 44+extra)
	b[0] = 0x60
	b[4], b[5] = byte((4+extra)>>8), byte(4+extra)
	b[6] = proto
	b[7] = 64
	s, d := src.As16(), dst.As16()
	copy(b[8:24], s[:])
	copy(b[24:40], d[:])
	b[40], b[41] = byte(sport>>8), byte(sport)
	b[42], b[43] = byte(dport>>8), byte(dport)
	for i := 44; i < len(b); i++ {
		b[i] = byte(i)
	}
	return b
}

type tworld struct {
	w     *kit.World
	r     *kit.Node
	nb    map[int]*kit.Node
	cfg   cfgIntent
	fr    []netip.Addr
	sport uint16
	memo  map[string]bool // flow verdict memo of the reference model
}

func build(c cfgIntent, scs []config.ServiceConfig) (*tworld, error) {
	st := config.Store{ServiceConfigs: scs}
	st.Router.Isolate = c.isolate
	var fr []netip.Addr
	for k, fi := range c.friends {
		st.FriendConfigs = append(st.FriendConfigs, config.FriendConfig{Name: fmt.Sprintf("friend%d", k+1), IP: pool[fi].IP.String()})
		fr = append(fr, pool[fi].IP)
	}
	w := kit.NewWorld()
	r, err := w.AddNode("R", pool[iR], st)
	if err != nil {
		return nil, err
	}
	tw := &tworld{w: w, r: r, nb: map[int]*kit.Node{}, cfg: c, fr: fr, sport: 20000, memo: map[string]bool{}}
	for _, i := range []int{iF1, iF2, iL, iX} {
		n, err := w.AddNode(fmt.Sprintf("N%d", i), pool[i], config.Store{})
		if err != nil {
			return nil, err
		}
		if _, _, err := w.Connect(r, n, m.SwitchLabel(10+i), m.SwitchLabel(20+i), 5); err != nil {
			return nil, err
		}
		if err := kit.KeySessions(n, r); err != nil {
			return nil, err
		}
		tw.nb[i] = n
	}
	return tw, nil
}

func (tw *tworld) drainTun() (frames int, payloads [][]byte) {
	for {
		select {
		case f := <-tw.r.TunDevice().SendFrame:
			frames++
			// what the tun writer would put on the interface, not only what the policy looked at.
			if tb, err := kit.TunBytes(f); err == nil {
				payloads = append(payloads, append([]byte(nil), tb...))
			} else {
				payloads = append(payloads, nil)
			}
			f.ReturnToPool()
		default:
			return
		}
	}
}

func (tw *tworld) drainRaw() int {
	n := 0
	for {
		select {
		case <-tw.r.TunDevice().SendRaw:
			n++
		default:
			return n
		}
	}
}

type inbound struct {
	sender   int
	proto    uint8
	dport    uint16
	innerSrc int // pool index
	innerDst int // pool index (iR = self) or -1 = API/internal address
	validity int // 0 sealed by sender, 1 sealed with another router's session, 2 unsealed garbage, 3/4 sealed by sender and label-switched (non-empty switch block: fresh / with return labels of earlier hops)
}

// policyInbound is the memo-free policy verdict for a packet that passed the
// integrity conditions.
func (tw *tworld) policyInbound(p inbound) bool {
	port := int(p.dport)
	if p.proto != 6 && p.proto != 17 {
		port = 0
	}
	for _, s := range tw.cfg.svcs {
		for _, k := range s.keys {
			if k[0] == int(p.proto) && k[1] == port {
				return s.allowed(pool[p.sender].IP, tw.fr)
			}
		}
	}
	return false
}

func flowKey(remote netip.Addr, proto uint8, localPort, remotePort uint16) string {
	if proto != 6 && proto != 17 {
		localPort, remotePort = 0, 0
	}
	return fmt.Sprintf("%s/%d/%d/%d", remote, proto, localPort, remotePort)
}

// refInbound is the reference verdict including the by-design verdict memo:
// the first packet of a flow (5-tuple, either direction) decides for the flow.
func (tw *tworld) refInbound(p inbound, sport uint16) bool {
	if (p.validity != 0 && p.validity < 3) || p.innerSrc != p.sender || p.innerDst != iR {
		return false
	}
	k := flowKey(pool[p.sender].IP, p.proto, p.dport, sport)
	if v, ok := tw.memo[k]; ok {
		return v
	}
	v := tw.policyInbound(p)
	tw.memo[k] = v
	return v
}

// sendInbound builds, seals and injects one inbound traffic frame. Returns whether
// the packet reached the tun device, and whether the handler panicked.
func (tw *tworld) sendInbound(p inbound, sport uint16) (delivered bool, panicked bool, exact bool) {
	s := tw.nb[p.sender]
	dst := pool[iR].IP
	innerDst := dst
	switch {
	case p.innerDst == -1:
		innerDst = config.DefaultAPIAddress
	case p.innerDst != iR:
		innerDst = pool[p.innerDst].IP
	}
	pk := packet(pool[p.innerSrc].IP, innerDst, p.proto, sport, p.dport, 8)
	// label-switched arrival: the switch block lies inside the authenticated part of a
	// frame and R's switch rewrites it on arrival, so the sender seals over the block
	// as it will look after R's rotation (it knows R's label of their link) and puts
	// the not-yet-rotated block on the wire.
	var swb, swbWire []byte
	switch p.validity {
	case 3:
		swbWire = []byte{0, 0, 0}
	case 4:
		swbWire = []byte{0, 9, 7, 0, 0, 0, 0}
	}
	if swbWire != nil {
		swb = append([]byte(nil), swbWire...)
		if _, err := m.NextRotateSwitchBlock(swb, tw.r.Peering().GetLink(s.Identity().IP).SwitchLabel()); err != nil {
			panic(err)
		}
	}
	f, err := s.FrameBuilder().NewFrameV1(s.Identity().IP, dst, frame.NetworkTraffic, swb, pk, nil)
	if err != nil {
		panic(err)
	}
	switch p.validity {
	case 0, 3, 4:
		if err := f.Seal(s.State().GetSession(dst)); err != nil {
			panic(err)
		}
	case 1:
		// sealed by a different router (its session with R), but claiming to come from s.
		other := tw.nb[iX]
		if p.sender == iX {
			other = tw.nb[iF2]
		}
		if err := f.Seal(other.State().GetSession(dst)); err != nil {
			panic(err)
		}
	case 2:
		f.SetSequenceNum(1 << 20)
	}
	raw, _ := f.FrameDataWithMargins(0, 0)
	raw = append([]byte(nil), raw...)
	f.ReturnToPool()
	if swbWire != nil {
		copy(raw[49:49+len(swbWire)], swbWire)
	}
	np := len(tw.w.Panics)
	tw.w.Inject(s, tw.r, raw)
	n, pls := tw.drainTun()
	exact = n == 1 && string(pls[0]) == string(pk)
	return n > 0, len(tw.w.Panics) > np, exact
}

type outbound struct {
	src   int // pool index (iR = own address)
	dst   int // pool index, or -2 multicast, -3 non-mycoria, -4 unknown mycoria address without route
	proto uint8
	dport uint16
}

func (tw *tworld) outDst(o outbound) netip.Addr {
	switch o.dst {
	case -2:
		return netip.MustParseAddr("ff02::1")
	case -3:
		return netip.MustParseAddr("2001:db8::1")
	case -4:
		return netip.MustParseAddr("fd5a:1234::99")
	}
	return pool[o.dst].IP
}

// policyOutbound is the memo-free verdict.
func (tw *tworld) policyOutbound(o outbound) bool {
	dst := tw.outDst(o)
	if o.src != iR || !m.BaseNetPrefix.Contains(dst) || dst.IsMulticast() {
		return false
	}
	if tw.cfg.isolate && !contains(tw.fr, dst) {
		return false
	}
	return true
}

func (tw *tworld) refOutboundMay(o outbound, sport uint16) bool {
	dst := tw.outDst(o)
	if o.src != iR || !m.BaseNetPrefix.Contains(dst) || dst.IsMulticast() {
		return false
	}
	k := flowKey(dst, o.proto, sport, o.dport)
	if v, ok := tw.memo[k]; ok {
		return v
	}
	v := tw.policyOutbound(o)
	tw.memo[k] = v
	return v
}

// sendOutbound hands one local packet to the tun handler and reports how many
// frames for the destination entered the mesh.
func (tw *tworld) sendOutbound(o outbound, sport uint16) (emitted int, panicked bool) {
	dst := tw.outDst(o)
	pk := packet(pool[o.src].IP, dst, o.proto, sport, o.dport, 8)
	ps := tw.r.FrameBuilder().GetPooledSlice(len(pk))
	copy(ps, pk)
	before := len(tw.w.Log)
	np := len(tw.w.Panics)
	_ = tw.w.TunPacket(tw.r, ps[:len(pk)])
	for _, fl := range tw.w.Log[before:] {
		if fl.From == tw.r {
			emitted++
		}
	}
	tw.w.InFlight = nil
	tw.drainRaw()
	return emitted, len(tw.w.Panics) > np
}

func TestC06(t *testing.T) {
	env := kit.GetEnv()
	rep := kit.NewReport("C06", env)
	rep.Rule = "configurations: {tcp,udp,http,https,icmp6,ping6} x {explicit port 8080, default port} x {public, friends, for=[IP], for=[friend name], friends+for} x friends in {none,{F1},{F1,F2}} x isolate {off,on} (thorough: all ordered pairs of services over {public, friends, for=[IP], friends+for} incl. colliding keys), each through the real Store parser; per accepted configuration on one real router with four real keyed neighbours: inbound packets = sender {friend, friend2, listed, stranger} x protocol {0,1,6,17,58,255; every other protocol number 0..255 as a deviation-free packet} x dst port {0,80,443,8080,81} x inner src {sender, other} x inner dst {self, other, API address} x frame {sealed by sender, sealed by another router, garbage, sealed by sender and label-switched with a switch block that R's switch rotates (2 shapes)}, judged on the bytes the tun writer puts on the interface; outbound = src {own, foreign} x dst {friend, stranger, listed, multicast, non-Mycoria, unrouted Mycoria} x protocol {6,17,58} ; plus multi-step sequences over mirrored 5-tuples (verdict cache), including expiry of the cached verdict through the real cleaner after 11 minutes of virtual time, and refused flows (inbound without service, outbound against isolation) after each of six authentic error notices (unreachable naming the peer from a third router; generic, unreachable, no-encryption-keys followed by fresh key setup, access-denied, rejected from the peer itself), after a fresh key setup started by the peer and after a pong exchange with it + pauses + cleaner runs; each packet uses a fresh source port so verdicts are independent unless a sequence says otherwise; non-trivial = packets whose reference verdict is 'deliver' or that deviate in exactly one condition from a deliverable packet; distinct = distinct (configuration, packet)"
	rep.Assumptions = []string{
		"the verdict cache is by design: a packet mirroring the 5-tuple of a previously allowed flow in the other direction shares that flow's verdict; single-packet cases use fresh tuples, the cache is exercised in dedicated two-step sequences and judged with the same memo in the reference",
		"'enters the mesh' = a frame emitted by R on any virtual link while the local packet is handled (traffic frame or hello ping)",
		"the local API address is not used as a local destination (the harness has no netstack)",
	}
	schemes := []string{"tcp", "udp", "http", "https", "icmp6", "ping6"}
	ports := []int{8080, 0}
	accesses := []string{"public", "friends", "for-ip", "for-friendname", "friends+for-ip"}
	friendSets := [][]int{{}, {iF1}, {iF1, iF2}}

	var evals, nontrivial int64
	idx := 0
	runCfg := func(c cfgIntent, scs []config.ServiceConfig, expectParse bool) {
		idx++
		if !env.Mine(idx) {
			return
		}
		synctest.Test(t, func(t *testing.T) {
			tw, err := build(c, scs)
			if err != nil {
				evals++
				if expectParse {
					rep.Violate("config-rejected/"+schemeOf(c), fmt.Sprintf("valid configuration rejected: %v; %s", err, c), c.String())
				}
				rep.Outcome("config-rejected")
				return
			}
			if !expectParse {
				evals++
				rep.Violate("config-accepted/"+schemeOf(c), "configuration that must be rejected (missing port / colliding protocol-port / unknown friend) was accepted: "+c.String(), c.String())
				return
			}
			sport := uint16(20000)
			// ---- inbound singles
			for _, sender := range []int{iF1, iF2, iL, iX} {
				for pi := 0; pi < 256; pi++ {
					proto := uint8(pi)
					// the six core protocols go through the whole grid; EVERY other protocol number
					// is sent as a deviation-free packet (a policy keyed by (protocol, port) must not
					// confuse any (protocol, port) pair with a configured one).
					core := proto == 0 || proto == 1 || proto == 6 || proto == 17 || proto == 58 || proto == 255
					for _, dport := range []uint16{0, 80, 443, 8080, 81} {
						for _, innerSrc := range []int{sender, iX, iF1} {
							if innerSrc != sender && innerSrc == iX && sender == iX {
								continue
							}
							for _, innerDst := range []int{iR, iL, -1} {
								for validity := 0; validity < 5; validity++ {
									// one-deviation restriction keeps the grid meaningful: at most one
									// of (inner src, inner dst, validity) deviates.
									dev := 0
									if innerSrc != sender {
										dev++
									}
									if innerDst != iR {
										dev++
									}
									if validity != 0 {
										dev++
									}
									if dev > 1 || (dev > 0 && !core) {
										continue
									}
									p := inbound{sender, proto, dport, innerSrc, innerDst, validity}
									sport++
									want := tw.refInbound(p, sport)
									got, pan, exact := tw.sendInbound(p, sport)
									evals++
									base := inbound{sender, proto, dport, sender, iR, 0}
									if tw.policyInbound(base) {
										nontrivial++
									}
									desc := fmt.Sprintf("inbound sender=%s proto=%d dport=%d innerSrc=%s innerDst=%s frame=%s", who(sender), proto, dport, who(innerSrc), who(innerDst), []string{"sealed-by-sender", "sealed-by-other", "garbage", "sealed-by-sender,label-switched", "sealed-by-sender,label-switched-over-earlier-hops"}[validity])
									switch {
									case got && !want:
										rep.Violate(fmt.Sprintf("inbound-leak/%s/%s", schemeOf(c), leakClass(p, tw)), fmt.Sprintf("packet handed to the local interface although the policy forbids it: %s; %s", desc, c), map[string]any{"config": c.String(), "packet": desc})
										rep.Outcome("inbound/leak")
									case !got && want && !pan:
										rep.Violate(fmt.Sprintf("inbound-blocked/%s/proto%d", schemeOf(c), proto), fmt.Sprintf("packet for a configured service from an admitted sender was dropped: %s; %s", desc, c), map[string]any{"config": c.String(), "packet": desc})
										rep.Outcome("inbound/blocked")
									case got && !exact:
										rep.Violate("inbound-altered", fmt.Sprintf("delivered packet differs from the sent one: %s", desc), nil)
									case got:
										rep.Outcome("inbound/delivered")
									default:
										rep.Outcome("inbound/dropped")
									}
									if pan {
										rep.Outcome("inbound/handler-panic(reported-under-C13)")
									}
									if evals%30000 == 1 {
										rep.Sample(map[string]any{"config": c.String(), "packet": desc, "delivered": got})
									}
								}
							}
						}
					}
				}
			}
			// ---- outbound singles
			for _, src := range []int{iR, iX} {
				for _, dst := range []int{iF1, iX, iL, -2, -3, -4} {
					for _, proto := range []uint8{6, 17, 58} {
						o := outbound{src, dst, proto, 443}
						sport++
						may := tw.refOutboundMay(o, sport)
						n, _ := tw.sendOutbound(o, sport)
						evals++
						if may || (src == iR && dst >= 0) {
							nontrivial++
						}
						desc := fmt.Sprintf("outbound src=%s dst=%s proto=%d", who(src), who(dst), proto)
						if n > 0 && !may {
							rep.Violate(fmt.Sprintf("outbound-leak/%s", outClass(o, tw)), fmt.Sprintf("local packet entered the mesh although forbidden: %s; %s", desc, c), map[string]any{"config": c.String(), "packet": desc})
							rep.Outcome("outbound/leak")
						} else if n > 0 {
							rep.Outcome("outbound/emitted")
						} else if may && dst >= 0 {
							rep.Violate("outbound-blocked", fmt.Sprintf("permitted local packet did not enter the mesh: %s; %s", desc, c), map[string]any{"config": c.String(), "packet": desc})
						} else {
							rep.Outcome("outbound/dropped")
						}
					}
				}
			}
			// ---- two-step sequences over one 5-tuple (verdict cache).
			for _, peer := range []int{iF1, iX} {
				for _, proto := range []uint8{6, 17} {
					// (a) outbound first, then the mirrored inbound = reply traffic: the
					// inbound packet shares the outbound flow's verdict (memo).
					sport += 2
					o := outbound{iR, peer, proto, 9000}
					mayOut := tw.refOutboundMay(o, sport)
					nOut, _ := tw.sendOutbound(o, sport)
					in := inbound{peer, proto, sport, peer, iR, 0}
					wantIn := tw.refInbound(in, 9000)
					gotIn, _, _ := tw.sendInbound(in, 9000)
					evals++
					nontrivial++
					if (nOut > 0) != mayOut {
						rep.Violate("sequence/outbound-verdict", fmt.Sprintf("outbound verdict wrong in sequence: emitted=%d reference=%v peer=%s proto=%d; %s", nOut, mayOut, who(peer), proto, c), c.String())
					}
					if gotIn != wantIn {
						rep.Violate("sequence/outbound-then-inbound", fmt.Sprintf("mirrored inbound packet after an outbound packet: delivered=%v reference=%v peer=%s proto=%d; %s", gotIn, wantIn, who(peer), proto, c), c.String())
					}
					// (b) inbound on a non-service port twice: must stay denied.
					sport += 2
					in2 := inbound{peer, proto, 81, peer, iR, 0}
					w1 := tw.refInbound(in2, sport)
					g1, _, _ := tw.sendInbound(in2, sport)
					g2, _, _ := tw.sendInbound(in2, sport)
					evals++
					if g1 != w1 || g2 != w1 {
						rep.Violate("sequence/repeat-inbound", fmt.Sprintf("repeated inbound packet: delivered=%v,%v reference=%v peer=%s proto=%d; %s", g1, g2, w1, who(peer), proto, c), c.String())
					}
					// (c) inbound service packet first, then the mirrored outbound (a reply of the
					// local service) - shares the inbound verdict even under isolation.
					sport += 2
					in3 := inbound{peer, proto, 8080, peer, iR, 0}
					w3 := tw.refInbound(in3, sport)
					g3, _, _ := tw.sendInbound(in3, sport)
					o3 := outbound{iR, peer, proto, sport}
					may3 := tw.refOutboundMay(o3, 8080)
					n3, _ := tw.sendOutbound(o3, 8080)
					evals++
					nontrivial++
					if g3 != w3 || (n3 > 0) != may3 {
						rep.Violate("sequence/inbound-then-outbound", fmt.Sprintf("service packet then reply: delivered=%v/%v emitted=%d/%v peer=%s proto=%d; %s", g3, w3, n3, may3, who(peer), proto, c), c.String())
					}
					// (f) a denied flow stays denied after pauses shorter than the state expiry,
					// with and without the cleaner running in between.
					for _, pause := range []time.Duration{11 * time.Second, 31 * time.Second, 5 * time.Minute} {
						sport += 2
						in6 := inbound{peer, proto, 81, peer, iR, 0}
						w6 := tw.refInbound(in6, sport)
						g6, _, _ := tw.sendInbound(in6, sport)
						time.Sleep(pause)
						if pause == 31*time.Second {
							_ = tw.r.Router().VerifClean()
						}
						g6b, _, _ := tw.sendInbound(in6, sport)
						g6c, _, _ := tw.sendInbound(in6, sport)
						evals++
						nontrivial++
						if g6 != w6 || g6b != w6 || g6c != w6 {
							rep.Violate("sequence/verdict-changed-after-pause", fmt.Sprintf("flow judged %v, then %v and %v after a pause of %v (reference %v throughout): peer=%s proto=%d; %s", g6, g6b, g6c, pause, w6, who(peer), proto, c), c.String())
						}
					}
					// (g) a refused flow stays refused after an authentic error notice of every
					// kind - "unreachable" naming the peer from a third router (such notices rewrite
					// the status of every flow with that peer), and generic / unreachable / no
					// encryption keys (keys are then set up again) / access denied / rejected from
					// the peer itself - followed by pauses and runs of the cleaner.
					for _, notice := range []string{"unreachable-from-third-router", "generic-from-peer", "unreachable-self-from-peer", "no-encryption-keys-from-peer", "access-denied-from-peer", "rejected-from-peer", "fresh-key-setup-started-by-peer", "pong-exchange-with-peer"} {
						sport += 2
						in7 := inbound{peer, proto, 81, peer, iR, 0}
						w7 := tw.refInbound(in7, sport)
						g7, _, _ := tw.sendInbound(in7, sport)
						o7 := outbound{iR, peer, proto, 9100}
						may7 := tw.refOutboundMay(o7, sport+1)
						n7, _ := tw.sendOutbound(o7, sport+1)
						reporter := tw.nb[peer]
						var code uint8
						var body []byte
						switch notice {
						case "unreachable-from-third-router":
							reporter = tw.nb[iL]
							if peer == iL {
								reporter = tw.nb[iF2]
							}
							code, body = 1, kit.MustCBOR(map[string]any{"u": pool[peer].IP})
						case "generic-from-peer":
							code, body = 0, kit.MustCBOR("something went wrong")
						case "unreachable-self-from-peer":
							code, body = 1, kit.MustCBOR(map[string]any{"u": pool[peer].IP})
						case "no-encryption-keys-from-peer":
							code, body = 2, nil
						case "access-denied-from-peer":
							code, body = 3, kit.MustCBOR(map[string]any{"d": tw.r.Identity().IP, "t": proto, "p": uint16(81)})
						case "rejected-from-peer":
							code, body = 4, kit.MustCBOR(map[string]any{"d": pool[peer].IP, "t": proto, "p": uint16(9100)})
						}
						switch notice {
						case "fresh-key-setup-started-by-peer":
							// the peer re-keys (it may start a hello exchange at any time); both ends complete it.
							tw.w.InFlight = nil
							if _, err := tw.nb[peer].Router().HelloPing.Send(tw.r.Identity().IP); err != nil {
								panic(err)
							}
							tw.w.Run(kit.FIFO, 20)
						case "pong-exchange-with-peer":
							tw.w.InFlight = nil
							if _, _, err := tw.nb[peer].Router().PingPong.Send(tw.r.Identity().IP, true, 0); err != nil {
								panic(err)
							}
							tw.w.Run(kit.FIFO, 20)
						default:
							ep, err := kit.BuildPing(reporter, kit.PingSpec{Dst: tw.r.Identity().IP, MsgType: frame.RouterPing, PingType: "error", Code: code, Body: body})
							if err != nil {
								panic(err)
							}
							tw.w.Inject(reporter, tw.r, ep)
						}
						tw.w.InFlight = nil
						if code == 2 {
							// both ends set up fresh keys, as the next packet would trigger.
							_ = tw.nb[peer].State().SetEncryptionSession(tw.r.Identity().IP, nil)
							_ = tw.r.State().SetEncryptionSession(pool[peer].IP, nil)
							if err := kit.KeySessions(tw.nb[peer], tw.r); err != nil {
								panic(err)
							}
						}
						time.Sleep(11 * time.Second)
						_ = tw.r.Router().VerifClean()
						g7b, _, _ := tw.sendInbound(in7, sport)
						n7b, _ := tw.sendOutbound(o7, sport+1)
						time.Sleep(31 * time.Second)
						_ = tw.r.Router().VerifClean()
						g7c, _, _ := tw.sendInbound(in7, sport)
						n7c, _ := tw.sendOutbound(o7, sport+1)
						evals++
						nontrivial++
						if !w7 && (g7 || g7b || g7c) {
							rep.Violate("sequence/refused-inbound-admitted-after-error-notice", fmt.Sprintf("inbound flow without admitting service: delivered=%v, then %v and %v after an error notice (%s), pauses and the cleaner: peer=%s proto=%d; %s", g7, g7b, g7c, notice, who(peer), proto, c), c.String())
						}
						if !may7 && (n7 > 0 || n7b > 0 || n7c > 0) {
							rep.Violate("sequence/prohibited-outbound-emitted-after-error-notice", fmt.Sprintf("outbound flow the policy prohibits: emitted=%d, then %d and %d after an error notice (%s), pauses and the cleaner: peer=%s proto=%d; %s", n7, n7b, n7c, notice, who(peer), proto, c), c.String())
						}
					}
					// (e) verdict expiry: after the connection-state cleaner dropped an old flow
					// (regular flows: 10 min idle), a packet of that flow is judged afresh by the policy.
					sport += 2
					in5 := inbound{peer, proto, 8080, peer, iR, 0}
					w5 := tw.refInbound(in5, sport)
					g5, _, _ := tw.sendInbound(in5, sport)
					time.Sleep(11 * time.Minute)
					_ = tw.r.Router().VerifClean()
					tw.memo = map[string]bool{} // the reference forgets with the cleaner
					w5b := tw.refInbound(in5, sport)
					g5b, _, _ := tw.sendInbound(in5, sport)
					o5 := outbound{iR, peer, proto, sport}
					may5 := tw.refOutboundMay(o5, 8080)
					n5, _ := tw.sendOutbound(o5, 8080)
					evals++
					nontrivial++
					if g5 != w5 || g5b != w5b || (n5 > 0) != may5 {
						rep.Violate("sequence/after-state-expiry", fmt.Sprintf("flow judged %v/%v before and %v/%v after the verdict expired, reply emitted=%d/%v: peer=%s proto=%d; %s", g5, w5, g5b, w5b, n5, may5, who(peer), proto, c), c.String())
					}
					// (d) spoofed inner source never gets through, whatever came before.
					sport += 2
					sp := inbound{peer, proto, 8080, iL, iR, 0}
					gs, _, _ := tw.sendInbound(sp, sport)
					evals++
					if gs {
						rep.Violate("sequence/spoofed-admitted", "spoofed inner source admitted", c.String())
					}
				}
			}
			rep.Outcome("config-explored")
		})
	}

	for _, scheme := range schemes {
		for _, port := range ports {
			for _, access := range accesses {
				for _, fs := range friendSets {
					for _, iso := range []bool{false, true} {
						si, sc, expressible := mkSvc(scheme, port, access)
						c := cfgIntent{svcs: []svcIntent{si}, friends: fs, isolate: iso}
						expectParse := expressible
						if access == "for-friendname" && len(fs) == 0 {
							expectParse = false // "friend1" is then neither a friend name nor an IP
						}
						runCfg(c, []config.ServiceConfig{sc}, expectParse)
					}
				}
			}
		}
	}
	if env.Thorough() {
		// all ordered pairs of services (friends {F1}, isolate off), including colliding keys.
		type one struct {
			si svcIntent
			sc config.ServiceConfig
		}
		var all []one
		for _, scheme := range schemes {
			for _, port := range []int{8080, 0} {
				for _, access := range []string{"public", "friends", "for-ip", "friends+for-ip"} {
					si, sc, ok := mkSvc(scheme, port, access)
					if ok {
						all = append(all, one{si, sc})
					}
				}
			}
		}
		for i := range all {
			for j := range all {
				if i == j {
					continue
				}
				a, b := all[i], all[j]
				b.sc.Name += "-2"
				collide := false
				for _, ka := range a.si.keys {
					for _, kb := range b.si.keys {
						if ka == kb {
							collide = true
						}
					}
				}
				c := cfgIntent{svcs: []svcIntent{a.si, b.si}, friends: []int{iF1}}
				runCfg(c, []config.ServiceConfig{a.sc, b.sc}, !collide)
			}
		}
	}
	{
		e, n := outboundKeySetup(t, rep, env)
		evals += e
		nontrivial += n
	}
	rep.Add(evals, nontrivial, 0, 0)
	if err := rep.Finish(env); err != nil {
		t.Fatal(err)
	}
}

func schemeOf(c cfgIntent) string {
	var s []string
	for _, v := range c.svcs {
		s = append(s, v.scheme)
	}
	return strings.Join(s, "+")
}

func who(i int) string {
	switch i {
	case iR:
		return "self"
	case iF1:
		return "friend1"
	case iF2:
		return "friend2"
	case iL:
		return "listed"
	case iX:
		return "stranger"
	case -1:
		return "api-address"
	case -2:
		return "multicast"
	case -3:
		return "non-mycoria"
	case -4:
		return "unrouted-mycoria"
	}
	return "?"
}

func leakClass(p inbound, tw *tworld) string {
	switch {
	case p.validity != 0 && p.validity < 3:
		return "unauthenticated-frame"
	case p.innerSrc != p.sender:
		return "spoofed-inner-source"
	case p.innerDst != iR:
		return "inner-destination-mismatch"
	}
	return fmt.Sprintf("no-matching-service-or-sender/proto%d", p.proto)
}

func outClass(o outbound, tw *tworld) string {
	switch {
	case o.src != iR:
		return "foreign-source"
	case o.dst == -2:
		return "multicast"
	case o.dst == -3:
		return "non-mycoria"
	}
	return "isolation"
}
