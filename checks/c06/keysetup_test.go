// C06, outbound packets around the end-to-end key setup that precedes traffic.
//
// The first local packet for a router without keys starts a hello exchange and
// waits briefly for it; local packets keep arriving meanwhile - good ones and
// ones that must never enter the mesh (foreign source, non-Mycoria or multicast
// destination) - and the buffers they are read into are recycled. All short
// histories over {good packet, refused packet of each kind, the hello request
// reaches the peer, its response reaches this router, 250 ms pass} are run in
// virtual time; every traffic frame this router ever emits is unsealed at the
// peer, and its inner packet must be byte-identical to a local packet that
// passed the outbound rule - never a refused one, never recycled buffer content.
package c06

import (
	"bytes"
	"fmt"
	"net/netip"
	"strings"
	"testing"
	"testing/synctest"
	"time"

	"verif/kit"

	"github.com/mycoria/mycoria/config"
	"github.com/mycoria/mycoria/frame"
)

func outboundKeySetup(t *testing.T, rep *kit.Report, env kit.Env) (evals, nontrivial int64) {
	alphabet := []string{"good", "foreign-source", "non-mycoria-dst", "multicast-dst", "req-arrives", "resp-arrives", "250ms"}
	depth := 5
	k := len(alphabet)
	word := make([]int, depth)
	caseNo := 5000
	for {
		caseNo++
		// histories start with a good packet (that is what starts a key setup).
		if alphabet[word[0]] == "good" && env.Mine(caseNo) {
			var names []string
			for _, w := range word {
				names = append(names, alphabet[w])
			}
			synctest.Test(t, func(t *testing.T) {
				w := kit.NewWorld()
				r, err := w.AddNode("R", pool[iR], config.Store{})
				if err != nil {
					panic(err)
				}
				n, err := w.AddNode("N", pool[iX], config.Store{})
				if err != nil {
					panic(err)
				}
				if _, _, err := w.Connect(r, n, 11, 12, 5); err != nil {
					panic(err)
				}
				var admitted [][]byte
				sport := uint16(31000)
				local := func(kind string) {
					sport++
					src, dst := r.Identity().IP, n.Identity().IP
					switch kind {
					case "foreign-source":
						src = netip.MustParseAddr("fd6f:dead:beef::1")
					case "non-mycoria-dst":
						dst = netip.MustParseAddr("2001:db8::1")
					case "multicast-dst":
						dst = netip.MustParseAddr("ff02::1")
					}
					pk := packet(src, dst, 6, sport, 80, 24)
					copy(pk[44:], []byte(kind+"-"+fmt.Sprint(sport)))
					if kind == "good" {
						admitted = append(admitted, append([]byte(nil), pk...))
					}
					// as the tun reader does: into a pooled buffer, which the handler recycles.
					ps := r.FrameBuilder().GetPooledSlice(len(pk))
					copy(ps, pk)
					_ = w.TunPacket(r, ps[:len(pk)])
				}
				deliver := func(to *kit.Node, what string) {
					for i, fl := range w.InFlight {
						if fl.To == to && strings.Contains(kit.DescribeFrame(fl.Bytes), what) {
							w.Deliver(i)
							return
						}
					}
				}
				for _, ev := range names {
					switch ev {
					case "req-arrives":
						deliver(n, "ping-hello/followup=false")
					case "resp-arrives":
						deliver(r, "ping-hello/followup=true")
					case "250ms":
						time.Sleep(250 * time.Millisecond)
					default:
						local(ev)
					}
					synctest.Wait()
				}
				// let everything still pending finish: exchange completes, waits expire.
				for i := 0; i < 6; i++ {
					deliver(n, "ping-hello/followup=false")
					deliver(r, "ping-hello/followup=true")
					time.Sleep(300 * time.Millisecond)
					synctest.Wait()
				}
				evals++
				nontrivial++
				// every traffic frame R ever emitted, unsealed by N.
				sn := n.State().GetSession(r.Identity().IP)
				for _, fl := range w.Log {
					if fl.From != r || frame.MessageType(fl.Bytes[4]) != frame.NetworkTraffic {
						continue
					}
					g, err := n.FrameBuilder().ParseFrame(append([]byte(nil), fl.Bytes...), nil, 0)
					if err != nil || sn == nil || g.Unseal(sn) != nil {
						rep.Outcome("key-setup/traffic-frame-not-readable-by-peer")
						continue
					}
					inner := g.MessageData()
					ok := false
					for _, a := range admitted {
						if bytes.Equal(inner, a) {
							ok = true
						}
					}
					if !ok {
						what := "bytes that are no local packet at all (recycled buffer content)"
						if len(inner) >= 40 && netip.AddrFrom16([16]byte(inner[8:24])) != r.Identity().IP {
							what = "a local packet with a foreign source address"
						} else if len(inner) >= 40 && netip.AddrFrom16([16]byte(inner[24:40])) != n.Identity().IP {
							what = "a local packet for another destination"
						}
						rep.Violate("key-setup/refused-or-foreign-bytes-entered-the-mesh", fmt.Sprintf("a traffic frame of this router carries %s; local history %v", what, names), map[string]any{"history": names})
						rep.Outcome("key-setup/leak!")
					} else {
						rep.Outcome("key-setup/admitted-packet-sent")
					}
				}
				if len(w.Panics) > 0 {
					rep.Violate("key-setup/panic", w.Panics[0]+fmt.Sprint(names), names)
				}
			})
		}
		p := depth - 1
		for p >= 0 {
			word[p]++
			if word[p] < k {
				break
			}
			word[p] = 0
			p--
		}
		if p < 0 {
			break
		}
	}
	return
}
