package c02

import (
	"fmt"
	"testing"

	"verif/kit"

	"github.com/mycoria/mycoria/frame"
	"github.com/mycoria/mycoria/peering"
	"github.com/mycoria/mycoria/state"
)

// (f) whole key epochs, several wraps on ONE session: per epoch the sender seals
// frames around sequence number 255 (the upper end of the zone in which the
// receiver looks for a rollover), the counters then stand W numbers before the
// 32-bit wrap, the frames recorded around 255 are replayed there (they must be
// refused and must not disturb the session), and the sender runs across the
// wrap; all in order. Three epochs in a row: the second and third rollover must
// work exactly like the first. For link frames and for end-to-end regular
// frames, both key-exchange roles of the sender.
func runEpochTier(t *testing.T, rep *kit.Report, env kit.Env) {
	var evals, transitions int64
	caseNo := 3000
	for _, layer := range []string{"link", "end-to-end"} {
		for _, serverSends := range []bool{false, true} {
			for _, before := range []uint32{0, 1, 3, 0x7F, 0xFE} { // numbers left before the wrap when the replays arrive
				caseNo++
				if !env.Mine(caseNo) {
					continue
				}
				desc := fmt.Sprintf("%s frames, sender is key-exchange server=%v, replays arrive %d numbers before the wrap", layer, serverSends, before)
				var out, in *state.EncryptionSession
				var a, b *kit.Node
				var sa, sb *state.Session
				if layer == "link" {
					out, in = state.NewEncryptionSession(), state.NewEncryptionSession()
					var err error
					if serverSends {
						err = kit.KeyPair(in, out)
					} else {
						err = kit.KeyPair(out, in)
					}
					if err != nil {
						panic(err)
					}
				} else {
					var err error
					a, err = kit.NewNode(kit.NodeOpts{Name: "A", ID: pool[0], StateOnly: true})
					if err != nil {
						panic(err)
					}
					b, err = kit.NewNode(kit.NodeOpts{Name: "B", ID: pool[1], StateOnly: true})
					if err != nil {
						panic(err)
					}
					if serverSends {
						err = kit.KeySessions(b, a)
					} else {
						err = kit.KeySessions(a, b)
					}
					if err != nil {
						panic(err)
					}
					sa, sb = a.State().GetSession(pool[1].IP), b.State().GetSession(pool[0].IP)
					out, in = sa.Encryption(), sb.Encryption()
				}
				ho := &state.EncryptionSessionTestHelper{EncryptionSession: out}
				hi := &state.EncryptionSessionTestHelper{EncryptionSession: in}
				n := 0
				seal := func() (uint32, []byte, error) {
					n++
					if layer == "link" {
						buf := make([]byte, peering.FrameOffset+30+peering.FrameOverhead)
						copy(buf[peering.FrameOffset:], fmt.Sprintf("epoch-frame-%d", n))
						if err := peering.LinkFrame(buf).Seal(out); err != nil {
							return 0, nil, err
						}
						return peering.LinkFrame(buf).SequenceNum(), buf, nil
					}
					f, err := a.FrameBuilder().NewFrameV1(pool[0].IP, pool[1].IP, frame.NetworkTraffic, nil, []byte(fmt.Sprintf("epoch-frame-%d", n)), nil)
					if err != nil {
						panic(err)
					}
					defer f.ReturnToPool()
					if err := f.Seal(sa); err != nil {
						return 0, nil, err
					}
					d, _ := f.FrameDataWithMargins(0, 0)
					return f.SequenceNum(), append([]byte(nil), d...), nil
				}
				unseal := func(wire []byte) error {
					transitions++
					if layer == "link" {
						return peering.LinkFrame(append([]byte(nil), wire...)).Unseal(in)
					}
					return unsealAt(b, sb, wire)
				}
				bad := func(key, f string, args ...any) {
					rep.Violate("epochs/"+layer+"/"+key, fmt.Sprintf(f, args...)+"; "+desc, desc)
				}
				ok := true
				inOrder := func(epoch int, what string, k int) [][]byte {
					var wires [][]byte
					for i := 0; i < k && ok; i++ {
						seq, wire, err := seal()
						if err != nil {
							bad("seal-failed", "epoch %d: Seal failed %s: %v", epoch, what, err)
							ok = false
							break
						}
						if err := unseal(wire); err != nil {
							bad("in-order-rejected", "epoch %d: frame with sequence number %#x, delivered in order %s, does not unseal: %v", epoch, seq, what, err)
							ok = false
							break
						}
						wires = append(wires, wire)
					}
					return wires
				}
				for epoch := 1; epoch <= 3 && ok; epoch++ {
					// frames around sequence number 255 of this epoch.
					if cur := ho.ReglSeq(); cur != nil {
						ho.ReglSetOut(0xFC)
						_ = hi.ReglSeq().Check(0xFC)
					}
					recorded := inOrder(epoch, "around sequence number 255", 5) // 0xFD .. 0x101
					// a long time later: the counters stand just before the wrap.
					near := uint32(0xFFFFFFFF) - before - 1
					ho.ReglSetOut(near)
					_ = hi.ReglSeq().Check(near)
					inOrder(epoch, "just before the wrap", 1)
					for ri, wire := range recorded {
						if !ok {
							break
						}
						if err := unseal(wire); err == nil {
							bad("old-frame-accepted-again", "epoch %d: the frame with sequence number %#x of this key epoch, accepted long ago, unseals a second time near the end of the epoch", epoch, 0xFD+ri)
							ok = false
						}
					}
					// the session is undisturbed: on across the wrap, in order.
					inOrder(epoch, "after old frames of the epoch were replayed near its end", int(before)+6)
				}
				evals++
				rep.Outcome(fmt.Sprintf("epochs/%s/three-epochs-ok=%v", layer, ok))
			}
		}
	}
	rep.Add(evals, evals, 0, transitions)
}
