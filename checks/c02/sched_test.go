// C02, interleaving tier: the router seals and unseals on one session from
// several goroutines at once (one frame handler per CPU, tun handlers, periodic
// senders). The state and frame packages are compiled with their sync /
// sync/atomic imports rewritten to the controlled-scheduler shims. Harness
// threads (a) seal frames concurrently on a session that has never been used
// (everything that is created lazily is created in the race), (b) unseal
// different genuine frames concurrently, also across the key rollover at the
// sequence wrap. ALL schedules up to a preemption bound are explored; on every
// one each frame sealed by A must unseal at B to exactly its payload.
package c02

import (
	"fmt"
	"sort"
	"strings"
	"sync"
	"testing"
	"testing/synctest"

	"verif/kit"
	"verif/schedx"

	"github.com/mycoria/mycoria/frame"
	"github.com/mycoria/mycoria/state"
	"github.com/mycoria/mycoria/zz_verif/sched"
)

type rtScenario struct {
	name    string
	kind    string // "seal" (threads seal, delivery sequential) or "unseal" (sealing sequential, threads unseal)
	mt      frame.MessageType
	preset  uint32  // regular out counter of the sender before sealing (encrypted classes)
	threads [][]int // per thread: indexes of the frames it seals / unseals
	pre     []int   // unseal kind: frames delivered sequentially before the threads start
	nframes int
}

type rtFrame struct {
	idx  int
	wire []byte
	seq  uint32
	err  error
}

func (sc rtScenario) prepare() (bodies []func(), eval func(ex *schedx.Exec)) {
	a, err := kit.NewNode(kit.NodeOpts{Name: "A", ID: pool[0], StateOnly: true})
	must(err)
	b, err := kit.NewNode(kit.NodeOpts{Name: "B", ID: pool[1], StateOnly: true})
	must(err)
	if sc.mt.IsEncrypted() {
		must(kit.KeySessions(a, b))
	} else {
		must(kit.Introduce(a, b))
	}
	sa := a.State().GetSession(pool[1].IP)
	sb := b.State().GetSession(pool[0].IP)
	if sc.mt.IsEncrypted() && sc.preset > 0 {
		h := &state.EncryptionSessionTestHelper{EncryptionSession: sa.Encryption()}
		hb := &state.EncryptionSessionTestHelper{EncryptionSession: sb.Encryption()}
		if sc.mt.IsPriority() {
			h.PrioSetOut(sc.preset)
			_ = hb.PrioSeq().Check(sc.preset)
		} else {
			h.ReglSetOut(sc.preset)
			_ = hb.ReglSeq().Check(sc.preset)
		}
	}
	payload := func(i int) []byte { return []byte(fmt.Sprintf("payload-of-frame-%d-%s", i, strings.Repeat("x", i*3))) }
	sealOne := func(i int) rtFrame {
		f, err := a.FrameBuilder().NewFrameV1(pool[0].IP, pool[1].IP, sc.mt, nil, payload(i), nil)
		must(err)
		r := rtFrame{idx: i}
		if r.err = f.Seal(sa); r.err == nil {
			d, _ := f.FrameDataWithMargins(0, 0)
			r.wire = append([]byte(nil), d...)
			r.seq = f.SequenceNum()
		}
		f.ReturnToPool()
		return r
	}
	unsealOne := func(r rtFrame) error {
		g, err := b.FrameBuilder().ParseFrame(append([]byte(nil), r.wire...), nil, 0)
		if err != nil {
			return fmt.Errorf("parse: %w", err)
		}
		defer g.ReturnToPool()
		if err := g.Unseal(sb); err != nil {
			return err
		}
		if string(g.MessageData()) != string(payload(r.idx)) {
			return fmt.Errorf("payload differs")
		}
		return nil
	}
	var mu sync.Mutex
	frames := make([]rtFrame, sc.nframes)
	results := map[int]error{}
	if sc.kind == "unseal" {
		for i := 0; i < sc.nframes; i++ {
			frames[i] = sealOne(i)
			must(frames[i].err)
		}
		for _, i := range sc.pre {
			must(unsealOne(frames[i]))
		}
	}
	for _, idxs := range sc.threads {
		idxs := idxs
		bodies = append(bodies, func() {
			for _, i := range idxs {
				if sc.kind == "seal" {
					r := sealOne(i)
					mu.Lock()
					frames[i] = r
					mu.Unlock()
				} else {
					err := unsealOne(frames[i])
					mu.Lock()
					results[i] = err
					mu.Unlock()
				}
			}
		})
	}
	eval = func(ex *schedx.Exec) {
		var sig []string
		if ex.Res.Deadlock || len(ex.Res.Panics) > 0 {
			return
		}
		if sc.kind == "seal" {
			// deliver in the order the receiver expects: by sequence number
			// (signed class: by sealing timestamp = position in the wire header).
			order := append([]rtFrame(nil), frames...)
			for _, r := range order {
				if r.err != nil {
					ex.Bad("seal-failed", "Seal of frame %d failed when other frames were sealed concurrently on the same session: %v", r.idx, r.err)
					return
				}
			}
			if sc.mt.IsEncrypted() {
				sort.Slice(order, func(i, j int) bool { return order[i].seq < order[j].seq })
			} else {
				// signed frames carry their sequence time in bytes 8..16.
				sort.SliceStable(order, func(i, j int) bool { return string(order[i].wire[8:16]) < string(order[j].wire[8:16]) })
			}
			for _, r := range order {
				err := unsealOne(r)
				sig = append(sig, fmt.Sprintf("f%d:%v", r.idx, err == nil))
				if err != nil {
					ex.Bad("sealed-concurrently-does-not-unseal", "frame %d, sealed while another goroutine sealed on the same fresh session, does not unseal at the receiver when all frames are delivered in sequence order: %v", r.idx, err)
				}
			}
		} else {
			var ks []int
			for i := range results {
				ks = append(ks, i)
			}
			sort.Ints(ks)
			for _, i := range ks {
				sig = append(sig, fmt.Sprintf("f%d:%v", i, results[i] == nil))
				if results[i] != nil {
					ex.Bad("genuine-frame-rejected", "genuine frame %d (sequence %d), unsealed while another goroutine unsealed a different genuine frame on the same session, was rejected: %v", i, frames[i].seq, results[i])
				}
			}
		}
		sort.Strings(sig)
		ex.Sig = strings.Join(sig, " ")
	}
	return
}

// run executes one schedule in a fresh bubble of virtual time (signed frames
// carry sealing timestamps: with the real clock two runs of one schedule could differ).
func (sc rtScenario) run(t *testing.T, choices []int) *schedx.Exec {
	ex := &schedx.Exec{}
	synctest.Test(t, func(t *testing.T) {
		bodies, eval := sc.prepare()
		ex.Res = sched.Run(bodies, choices, 20000)
		eval(ex)
	})
	return ex
}

func rtScenarios(thorough bool) []rtScenario {
	var out []rtScenario
	for _, c := range []struct {
		n  string
		mt frame.MessageType
	}{{"signed", frame.RouterPing}, {"regular", frame.NetworkTraffic}, {"priority", frame.RouterCtrl}} {
		out = append(out, rtScenario{name: "seal-on-fresh-session/" + c.n + "/0|1", kind: "seal", mt: c.mt, threads: [][]int{{0}, {1}}, nframes: 2})
		out = append(out, rtScenario{name: "seal-on-fresh-session/" + c.n + "/0,1|2,3", kind: "seal", mt: c.mt, threads: [][]int{{0, 1}, {2, 3}}, nframes: 4})
		if thorough {
			out = append(out, rtScenario{name: "seal-on-fresh-session/" + c.n + "/0|1|2", kind: "seal", mt: c.mt, threads: [][]int{{0}, {1}, {2}}, nframes: 3})
		}
		if c.mt.IsEncrypted() {
			out = append(out, rtScenario{name: "unseal/" + c.n + "/low/0|1", kind: "unseal", mt: c.mt, threads: [][]int{{0}, {1}}, nframes: 2})
			out = append(out, rtScenario{name: "unseal/" + c.n + "/low/0,2|1,3", kind: "unseal", mt: c.mt, threads: [][]int{{0, 2}, {1, 3}}, nframes: 4})
		}
	}
	// across the key rollover of the regular class: the sender's counter is
	// preset so that frame 0 is the last of the old key and frames 1.. are the
	// first of the next key.
	for _, p := range []struct {
		n   string
		pre uint32
	}{{"wrap-1", 0xFFFFFFFE}, {"wrap-0", 0xFFFFFFFF}} {
		out = append(out, rtScenario{name: "unseal/regular/" + p.n + "/after-0: 1|2", kind: "unseal", mt: frame.NetworkTraffic, preset: p.pre, pre: []int{0}, threads: [][]int{{1}, {2}}, nframes: 3})
		out = append(out, rtScenario{name: "unseal/regular/" + p.n + "/after-0,1: 2|3", kind: "unseal", mt: frame.NetworkTraffic, preset: p.pre, pre: []int{0, 1}, threads: [][]int{{2}, {3}}, nframes: 4})
		out = append(out, rtScenario{name: "unseal/regular/" + p.n + "/after-0: 1,3|2", kind: "unseal", mt: frame.NetworkTraffic, preset: p.pre, pre: []int{0}, threads: [][]int{{1, 3}, {2}}, nframes: 4})
	}
	return out
}

func runRoundTripSched(t *testing.T, rep *kit.Report, env kit.Env) {
	bound := 2
	rep.Bounds["sched_preemption_bound"] = bound
	top := 0
	for _, sc := range rtScenarios(env.Thorough()) {
		sc := sc
		s := schedx.Scenario{Name: "concurrent/" + sc.name, Run: func(c []int) *schedx.Exec { return sc.run(t, c) }}
		st := schedx.Explore(rep, env, s, bound, &top)
		schedx.Record(rep, s, st)
	}
}

// TestC02Race: the same thread bodies on free-running goroutines under the race
// detector (supporting evidence next to the exhaustive pass; see schedx.FreeRun).
func TestC02Race(t *testing.T) {
	env := kit.GetEnv()
	rep := kit.NewReport("C02", env)
	iters := 100
	if env.Thorough() {
		iters = 1000
	}
	var n int64
	for _, sc := range rtScenarios(env.Thorough()) {
		for i := 0; i < iters && !env.Expired(); i++ {
			bodies, eval := sc.prepare()
			ex := &schedx.Exec{}
			ex.Res.Panics = schedx.FreeRun(bodies)
			eval(ex)
			n++
			for _, p := range ex.Res.Panics {
				rep.Violate("free-running/"+sc.name+"/panic", p, nil)
			}
			for _, v := range ex.Viol {
				rep.Violate("free-running/"+sc.name+"/"+v[0], v[1], nil)
			}
		}
	}
	rep.Add(n, 0, 0, 0)
	rep.OutcomeN("free-running race-detector pass [iterations]", n)
	if err := rep.Finish(env); err != nil {
		t.Fatal(err)
	}
}
