package c02

import (
	"verif/kit"

	"github.com/mycoria/mycoria/state"
)

// The tiers in wrap_epochs_test.go and wrap_duplex_test.go are the near-wrap tiers of the
// C15 check (sessions that have carried almost 2^32 frames: whole key epochs in a row with
// replays of old frames of the epoch near its end; duplex traffic around the wrap of either
// side), run here under this property's statement as well: a frame accepted once must not
// unseal again (C03), and a frame sealed for the peer must unseal there (C02), in every
// state a session can reach - not only in young sessions.
func unsealAt(b *kit.Node, sb *state.Session, wire []byte) error {
	g, err := b.FrameBuilder().ParseFrame(append([]byte(nil), wire...), nil, 0)
	if err != nil {
		return err
	}
	return g.Unseal(sb)
}
