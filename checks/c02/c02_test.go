// C02: sealed frames — exact round trip; any change to a protected byte is rejected.
//
// Exhaustive cross product of message types x payload sizes x switch-block
// sizes x appendix sizes x builder margins for the round trip and wrong-session
// checks; for a sub-grid, EVERY bit of the serialized frame is flipped and the
// result compared with a reference layout computed from the sizes alone.
package c02

import (
	"bytes"
	"fmt"
	"testing"

	"verif/kit"

	"github.com/mycoria/mycoria/frame"
	"github.com/mycoria/mycoria/state"
)

var pool = kit.RoutablePool("c02", 3)

type world struct {
	a, b, c    *kit.Node
	ab, ba     *state.Session // A's session for B, B's session for A
	bc, ca, ac *state.Session
	ab2, ba2   *state.Session // same identities, different key exchange (fresh nodes)
}

func newWorld() *world {
	mk := func(name string, i int) *kit.Node {
		n, err := kit.NewNode(kit.NodeOpts{Name: name, ID: pool[i], StateOnly: true})
		if err != nil {
			panic(err)
		}
		return n
	}
	w := &world{a: mk("A", 0), b: mk("B", 1), c: mk("C", 2)}
	must(kit.KeySessions(w.a, w.b))
	must(kit.KeySessions(w.b, w.c))
	must(kit.KeySessions(w.c, w.a))
	w.ab = w.a.State().GetSession(pool[1].IP)
	w.ba = w.b.State().GetSession(pool[0].IP)
	w.bc = w.b.State().GetSession(pool[2].IP)
	w.ca = w.c.State().GetSession(pool[0].IP)
	w.ac = w.a.State().GetSession(pool[2].IP)
	a2, b2 := mk("A2", 0), mk("B2", 1)
	must(kit.KeySessions(a2, b2))
	w.ab2 = a2.State().GetSession(pool[1].IP)
	w.ba2 = b2.State().GetSession(pool[0].IP)
	return w
}

func must(err error) {
	if err != nil {
		panic(err)
	}
}

type cfg struct {
	mt       frame.MessageType
	payload  int
	swb      int
	apx      int
	off, ovh int
}

func (c cfg) String() string {
	return fmt.Sprintf("type=%d payload=%d switch=%d appendix=%d margins=(%d,%d)", c.mt, c.payload, c.swb, c.apx, c.off, c.ovh)
}

var drbg = kit.NewDRBG("c02-data", 7)

func randBytes(n int) []byte {
	b := make([]byte, n)
	_, _ = drbg.Read(b)
	return b
}

type sealed struct {
	wire             []byte
	payload, sw, apx []byte
}

// seal builds and seals a fresh frame for the config and returns its wire bytes.
func (w *world) seal(c cfg, payload, sw, apx []byte) (*sealed, error) {
	w.a.FrameBuilder().SetFrameMargins(c.off, c.ovh)
	f, err := w.a.FrameBuilder().NewFrameV1(pool[0].IP, pool[1].IP, c.mt, sw, payload, apx)
	if err != nil {
		return nil, fmt.Errorf("build: %w", err)
	}
	if err := f.Seal(w.ab); err != nil {
		return nil, fmt.Errorf("seal: %w", err)
	}
	d, err := f.FrameDataWithMargins(0, 0)
	if err != nil {
		return nil, err
	}
	s := &sealed{wire: append([]byte(nil), d...), payload: payload, sw: sw, apx: apx}
	f.ReturnToPool()
	return s, nil
}

// unseal parses raw at B's builder and unseals under the session.
func (w *world) unseal(raw []byte, s *state.Session) (frame.Frame, error) {
	buf := append([]byte(nil), raw...)
	f, err := w.b.FrameBuilder().ParseFrame(buf, nil, 0)
	if err != nil {
		return nil, err
	}
	if err := f.Unseal(s); err != nil {
		return f, err
	}
	return f, nil
}

// layout is the reference frame layout derived from the sizes only.
type layout struct{ swLen, msgLen, authLen, apxLen int }

func (l layout) total() int { return 48 + 1 + l.swLen + 2 + l.msgLen + l.authLen + l.apxLen }
func (l layout) apxStart() int {
	return 48 + 1 + l.swLen + 2 + l.msgLen + l.authLen
}

// harmless reports whether byte position p may change without invalidating.
func (l layout) harmless(p int) bool { return p == 1 || p == 2 || p >= l.apxStart() }

func (l layout) field(p int) string {
	switch {
	case p == 0:
		return "version"
	case p == 1:
		return "ttl"
	case p == 2:
		return "flow"
	case p == 3:
		return "recvrate"
	case p == 4:
		return "type"
	case p < 8:
		return "nonce"
	case p < 16:
		return "sequence"
	case p < 32:
		return "src"
	case p < 48:
		return "dst"
	case p == 48:
		return "switchlen"
	case p < 49+l.swLen:
		return "switchblock"
	case p < 51+l.swLen:
		return "msglen"
	case p < 51+l.swLen+l.msgLen:
		return "payload"
	case p < l.apxStart():
		return "auth"
	default:
		return "appendix"
	}
}

func isEnc(mt frame.MessageType) bool { return mt.IsEncrypted() }

func TestC02(t *testing.T) {
	env := kit.GetEnv()
	rep := kit.NewReport("C02", env)
	rep.Rule = "grid A (round trip, wrong sessions, clear-text scan, appendix replaced / grown by a relay to 7 sizes across the pooled tiers after sealing): full cross product of 7 message types x payload sizes x switch-block sizes x appendix sizes x builder margins; grid B (tamper), on fresh sessions and on a warm session whose sender has received 70 in-sequence frames per class (receive-rate byte at its maximum): for a sub-grid, every bit of every byte of the serialized frame is flipped (larger frames: every bit of all fields except payload/appendix interior, where one bit per byte is flipped) and judged by a reference layout computed from sizes; each harmless-position flip is applied to a freshly sealed frame so replay protection cannot mask the result; learned sessions: in converged lines / rings / trees of 4-6 real routers (sessions acquired from links and from the hop records of relayed announcements, two announcement orders) every router unseals, per other router T, a signed frame of two types sealed by T (must succeed, exact payload) and frames claiming T sealed by every other router (must fail); non-trivial = the mutation changed a byte (always) / the round trip crossed a pooled-buffer tier or used a switch block or appendix; distinct = distinct (config, bit position)"
	rep.Assumptions = []string{
		"ChaCha20-Poly1305 and Ed25519 are correct; the check exercises how the frame code uses them (which bytes are covered), not the primitives",
		"sizes between the enumerated ones behave like the enumerated ones (all pooled-buffer tier boundaries and the field-size extremes are in the grid)",
	}
	w := newWorld()

	types := []frame.MessageType{frame.RouterHopPingDeprecated, frame.RouterPing, frame.RouterCtrl, frame.RouterHopPing, frame.NetworkTraffic, frame.SessionCtrl, frame.SessionData}
	payloads := []int{1, 2, 15, 16, 17, 45, 583, 584, 1583, 9999, 10000}
	switches := []int{0, 1, 2, 127, 255}
	appendixes := []int{0, 1, 64, 600}
	margins := [][2]int{{0, 0}, {12, 16}, {100, 100}}
	rep.Bounds["types"] = types
	rep.Bounds["payload_sizes"] = payloads
	rep.Bounds["switch_block_sizes"] = switches
	rep.Bounds["appendix_sizes"] = appendixes
	rep.Bounds["margins"] = margins

	var evals, nontrivial int64
	idx := 0
	// ---------- grid A
	for _, mt := range types {
		for _, ps := range payloads {
			for _, ss := range switches {
				for _, as := range appendixes {
					for _, mg := range margins {
						idx++
						if !env.Mine(idx) {
							continue
						}
						c := cfg{mt, ps, ss, as, mg[0], mg[1]}
						evals++
						if ss > 0 || as > 0 || ps > 500 {
							nontrivial++
						}
						gridA(rep, w, c)
					}
				}
			}
		}
	}
	// ---------- grid B
	tPayloads := []int{1, 45, 584}
	tSwitches := []int{0, 2, 255}
	tAppendix := []int{0, 64}
	if env.Thorough() {
		tPayloads = []int{1, 16, 45, 584, 1583, 10000}
		tSwitches = []int{0, 1, 2, 127, 255}
		tAppendix = []int{0, 1, 64, 600}
	}
	rep.Bounds["tamper_payload_sizes"] = tPayloads
	rep.Bounds["tamper_switch_sizes"] = tSwitches
	rep.Bounds["tamper_appendix_sizes"] = tAppendix
	for _, mt := range types {
		for _, ps := range tPayloads {
			for _, ss := range tSwitches {
				for _, as := range tAppendix {
					idx++
					if !env.Mine(idx) {
						continue
					}
					c := cfg{mt, ps, ss, as, 12, 16}
					n := gridB(rep, w, c, env)
					evals += n
					nontrivial += n
				}
			}
		}
	}
	// ---------- grid B on a warm session: the sender has received a long run of
	// in-sequence frames of both classes from the receiver, so the receive-rate
	// byte of its frames carries its maximum instead of the value of a fresh
	// session (header bytes are protected whatever value they carry).
	ww := newWorld()
	for i := 0; i < 70; i++ {
		for _, mt := range []frame.MessageType{frame.NetworkTraffic, frame.RouterCtrl} {
			f, err := ww.b.FrameBuilder().NewFrameV1(pool[1].IP, pool[0].IP, mt, nil, []byte("warm-up"), nil)
			must(err)
			must(f.Seal(ww.ba))
			d, _ := f.FrameDataWithMargins(0, 0)
			g, err := ww.a.FrameBuilder().ParseFrame(append([]byte(nil), d...), nil, 0)
			must(err)
			must(g.Unseal(ww.ab))
			f.ReturnToPool()
		}
	}
	for _, mt := range types {
		idx++
		if !env.Mine(idx) {
			continue
		}
		c := cfg{mt, 45, 2, 64, 12, 16}
		probe, err := ww.seal(c, randBytes(45), []byte{2, 0}, nil)
		must(err)
		rep.Outcome(fmt.Sprintf("warm-session/recv-rate-byte=%d", probe.wire[3]))
		n := gridB(rep, ww, c, env)
		evals += n
		nontrivial += n
	}
	// ---------- sessions as a running router acquires them.
	learnedSessions(t, rep, env, &idx, &evals, &nontrivial)
	runRoundTripSched(t, rep, env)
	rep.Add(evals, nontrivial, 0, 0)
	// near-wrap tiers (shared with the C15 check, see wrap_util_test.go).
	runEpochTier(t, rep, env)
	runDuplexTier(t, rep, env)
	if err := rep.Finish(env); err != nil {
		t.Fatal(err)
	}
}

func gridA(rep *kit.Report, w *world, c cfg) {
	payload, sw, apx := randBytes(c.payload), randBytes(c.swb), randBytes(c.apx)
	if c.swb > 0 {
		sw[0] |= 1
	}
	s, err := w.seal(c, payload, sw, apx)
	if err != nil {
		rep.Violate("seal-failed/"+className(c.mt), "valid frame could not be built/sealed: "+err.Error()+" "+c.String(), c.String())
		rep.Outcome("seal-failed")
		return
	}
	l := layout{c.swb, c.payload, authLen(c.mt), c.apx}
	if len(s.wire) != l.total() {
		rep.Violate("wire-length", fmt.Sprintf("serialized length %d != layout %d for %s", len(s.wire), l.total(), c), c.String())
	}
	// clear-text scan (encrypted classes).
	if isEnc(c.mt) && c.payload >= 8 {
		for i := 0; i+8 <= len(payload); i += 1 {
			if bytes.Contains(s.wire, payload[i:i+8]) {
				rep.Violate("cleartext/"+className(c.mt), fmt.Sprintf("payload window at %d appears in clear on the wire: %s", i, c), c.String())
				break
			}
			if i > 64 && i < len(payload)-72 {
				i += 7 // windows every 8 bytes in the interior
			}
		}
	}
	// wrong sessions first (must not consume the sequence number / must fail).
	wrong := []struct {
		name string
		s    *state.Session
		only func(frame.MessageType) bool
	}{
		{"B's session for C (different sender)", w.bc, nil},
		{"A's own session for B (sender side)", w.ab, nil},
		{"C's session for A (different receiver)", w.ca, isEnc},
		{"session of a different key exchange", w.ba2, isEnc},
	}
	for _, ws := range wrong {
		if ws.only != nil && !ws.only(c.mt) {
			continue
		}
		if f, err := w.unseal(s.wire, ws.s); err == nil {
			rep.Violate("wrong-session/"+className(c.mt)+"/"+ws.name, fmt.Sprintf("frame unsealed under %s: %s", ws.name, c), c.String())
			_ = f
		}
	}
	// the real receiver.
	f, err := w.unseal(s.wire, w.ba)
	if err != nil {
		rep.Violate("roundtrip-failed/"+className(c.mt), fmt.Sprintf("intact frame failed to unseal at B: %v; %s", err, c), c.String())
		rep.Outcome("roundtrip-failed")
		return
	}
	if !bytes.Equal(f.MessageData(), payload) || !bytes.Equal(f.SwitchBlock(), sw) || !bytes.Equal(f.AppendixData(), apx) ||
		f.SrcIP() != pool[0].IP || f.DstIP() != pool[1].IP || f.MessageType() != c.mt {
		rep.Violate("roundtrip-mismatch/"+className(c.mt), "unsealed content differs from sealed content: "+c.String(), c.String())
	}
	rep.Outcome("roundtrip-ok/" + className(c.mt))
	// a relay may replace / grow the appendix of a sealed frame (also across
	// pooled-buffer tiers): that must never invalidate it.
	if c.off == 12 && (c.payload == 45 || c.payload == 584 || c.payload == 1583) && c.swb <= 2 {
		for _, newApx := range []int{0, 1, 300, 700, 2000, 6000, 10000} {
			fs, err := w.seal(c, payload, sw, apx)
			if err != nil {
				continue
			}
			// re-parse at the relay (pooled slice, link offset) and change the appendix there.
			ps := w.c.FrameBuilder().GetPooledSlice(len(fs.wire) + 28)
			n := copy(ps[12:], fs.wire)
			rf, err := w.c.FrameBuilder().ParseFrame(ps[12:12+n], ps[:cap(ps)], 12)
			if err != nil {
				rep.Violate("relay-parse-failed", err.Error(), c.String())
				continue
			}
			na := randBytes(newApx)
			if err := rf.SetAppendixData(na); err != nil {
				rep.Violate("appendix-change-failed/"+className(c.mt), fmt.Sprintf("SetAppendixData(%d) on a sealed frame failed: %v; %s", newApx, err, c), c.String())
				continue
			}
			d, _ := rf.FrameDataWithMargins(0, 0)
			g, err := w.unseal(d, w.ba)
			if err != nil || !bytes.Equal(g.MessageData(), payload) || !bytes.Equal(g.AppendixData(), na) {
				rep.Violate("appendix-change-invalidates/"+className(c.mt), fmt.Sprintf("replacing the appendix of a sealed frame by %d bytes invalidated it: %v; %s", newApx, err, c), map[string]any{"config": c.String(), "new_appendix": newApx})
			}
			rf.ReturnToPool()
		}
	}
	if c.payload == 45 && c.swb == 2 && c.apx == 64 && c.off == 12 {
		rep.Sample(map[string]any{"grid": "A", "config": c.String(), "wire_len": len(s.wire)})
	}
}

func authLen(mt frame.MessageType) int {
	if mt.IsEncrypted() {
		return 16
	}
	return 64
}

func className(mt frame.MessageType) string {
	switch mt.Class() {
	case frame.MessageClassSigned:
		return "signed"
	case frame.MessageClassPriorityEncrypted:
		return "prio-encrypted"
	case frame.MessageClassEncrypted:
		return "encrypted"
	}
	return "unknown"
}

// gridB flips bits. Returns number of executions.
func gridB(rep *kit.Report, w *world, c cfg, env kit.Env) int64 {
	payload, sw, apx := randBytes(c.payload), randBytes(c.swb), randBytes(c.apx)
	if c.swb > 0 {
		sw[0] |= 1
	}
	l := layout{c.swb, c.payload, authLen(c.mt), c.apx}
	s, err := w.seal(c, payload, sw, apx)
	if err != nil {
		rep.Violate("seal-failed/"+className(c.mt), err.Error()+" "+c.String(), c.String())
		return 1
	}
	var n int64
	allBits := len(s.wire) <= 800 || env.Thorough() && len(s.wire) <= 2000
	for pass := 0; pass < 2; pass++ {
		if pass == 1 {
			// the intact frame must still unseal after all the failed attempts
			// (checked before the harmless pass seals newer frames, which would
			// legitimately push this one out of the 64-frame replay window).
			f, err := w.unseal(s.wire, w.ba)
			if err != nil || !bytes.Equal(f.MessageData(), payload) {
				rep.Violate("intact-after-tamper/"+className(c.mt), fmt.Sprintf("intact frame no longer unseals after rejected tampered copies: %v; %s", err, c), c.String())
			}
		}
		for p := 0; p < len(s.wire); p++ {
			if l.harmless(p) != (pass == 1) {
				continue
			}
			field := l.field(p)
			bits := []int{0, 1, 2, 3, 4, 5, 6, 7}
			if !allBits && (field == "payload" || field == "appendix") {
				// interior of large payload / appendix: one bit per byte, all bits at the edges.
				start := 51 + c.swb
				if field == "appendix" {
					start = l.apxStart()
				}
				rel := p - start
				size := c.payload
				if field == "appendix" {
					size = c.apx
				}
				if rel >= 64 && rel < size-64 {
					bits = []int{p % 8}
				}
			}
			for _, b := range bits {
				n++
				if l.harmless(p) {
					// must stay valid: use a freshly sealed frame so that the
					// receiver's replay filter cannot be what decides.
					fs, err := w.seal(c, payload, sw, apx)
					if err != nil {
						rep.Violate("seal-failed/"+className(c.mt), err.Error(), c.String())
						return n
					}
					fs.wire[p] ^= 1 << b
					f, err := w.unseal(fs.wire, w.ba)
					if err != nil || !bytes.Equal(f.MessageData(), payload) {
						rep.Violate("harmless-flip-rejected/"+className(c.mt)+"/"+field, fmt.Sprintf("flipping bit %d of byte %d (%s) invalidated the frame: %v; %s", b, p, field, err, c),
							map[string]any{"config": c.String(), "byte": p, "bit": b, "field": field})
					}
					rep.Outcome("harmless-accepted/" + field)
					continue
				}
				mut := append([]byte(nil), s.wire...)
				mut[p] ^= 1 << b
				f, err := w.unseal(mut, w.ba)
				if err == nil {
					rep.Violate("tamper-accepted/"+className(c.mt)+"/"+field, fmt.Sprintf("flipping bit %d of byte %d (%s) was NOT detected; %s", b, p, field, c),
						map[string]any{"config": c.String(), "byte": p, "bit": b, "field": field})
					rep.Outcome("tamper-accepted/" + field)
					_ = f
					continue
				}
				rep.Outcome("tamper-rejected/" + field)
			}
		}
	}
	if c.payload == 45 && c.swb == 2 {
		rep.Sample(map[string]any{"grid": "B", "config": c.String(), "bits_flipped": n})
	}
	return n
}
