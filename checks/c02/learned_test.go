package c02

import (
	"fmt"
	"testing"
	"testing/synctest"
	"time"

	"verif/kit"

	"github.com/mycoria/mycoria/config"
	"github.com/mycoria/mycoria/frame"
	"github.com/mycoria/mycoria/m"
)

var meshPool = kit.RoutablePool("c02-mesh", 6)

// learnedSessions: the "no session of a different sender" half of the statement
// for sessions the way a running router acquires them - from its links, from
// first-contact pings and from the hop records of relayed announcements -
// instead of sessions the harness registers itself. In a converged line / ring
// every router B is asked, for every other router T it has a session for, to
// unseal (1) a signed frame T sealed for B and (2) frames that claim T as their
// source but were sealed by each other router S: (1) must unseal to the exact
// payload, (2) never.
func learnedSessions(t *testing.T, rep *kit.Report, env kit.Env, idx *int, evals, nontrivial *int64) {
	type shape struct {
		name  string
		n     int
		edges [][2]int
	}
	shapes := []shape{
		{"line4", 4, [][2]int{{0, 1}, {1, 2}, {2, 3}}},
		{"line5", 5, [][2]int{{0, 1}, {1, 2}, {2, 3}, {3, 4}}},
		{"ring5", 5, [][2]int{{0, 1}, {1, 2}, {2, 3}, {3, 4}, {4, 0}}},
		{"star-of-lines6", 6, [][2]int{{0, 1}, {1, 2}, {0, 3}, {3, 4}, {0, 5}}},
	}
	for _, sh := range shapes {
		for _, order := range []string{"ascending", "descending"} {
			*idx++
			if !env.Mine(*idx) {
				continue
			}
			synctest.Test(t, func(t *testing.T) {
				w := kit.NewWorld()
				var nodes []*kit.Node
				for i := 0; i < sh.n; i++ {
					n, err := w.AddNode(fmt.Sprintf("N%d", i), meshPool[i], config.Store{})
					must(err)
					nodes = append(nodes, n)
				}
				for ei, e := range sh.edges {
					_, _, err := w.Connect(nodes[e[0]], nodes[e[1]], m.SwitchLabel(2+ei), m.SwitchLabel(20+ei), 5)
					must(err)
				}
				for k := range nodes {
					i := k
					if order == "descending" {
						i = len(nodes) - 1 - k
					}
					for _, l := range nodes[i].Peering().GetLinks() {
						must(nodes[i].Router().AnnouncePing.Send(l.Peer()))
					}
					for steps := 0; len(w.InFlight) > 0 && steps < 100000; steps++ {
						w.Deliver(0)
					}
					time.Sleep(3 * time.Millisecond)
				}
				for bi, b := range nodes {
					for ti, tn := range nodes {
						if ti == bi {
							continue
						}
						desc := fmt.Sprintf("%s announcements=%s receiver=%s claimed-source=%s", sh.name, order, b.Name, tn.Name)
						sess := b.State().GetSession(tn.Identity().IP)
						if sess == nil {
							rep.Violate("learned-sessions/no-session", "converged mesh but the receiver has no session for a router it learned: "+desc, desc)
							continue
						}
						for si, sn := range nodes {
							if si == bi {
								continue
							}
							for _, mt := range []frame.MessageType{frame.RouterPing, frame.RouterHopPing} {
								time.Sleep(2 * time.Millisecond)
								payload := []byte(fmt.Sprintf("payload %d->%d as %d", si, bi, ti))
								raw, err := kit.BuildPing(sn, kit.PingSpec{Dst: b.Identity().IP, Src: tn.Identity().IP, MsgType: mt, PingType: "pong", Body: payload})
								must(err)
								f, err := b.FrameBuilder().ParseFrame(append([]byte(nil), raw...), nil, 0)
								must(err)
								uerr := f.Unseal(sess)
								*evals++
								*nontrivial++
								switch {
								case si == ti && uerr != nil:
									rep.Violate("learned-sessions/genuine-frame-rejected", fmt.Sprintf("a frame %s sealed for %s does not unseal under the session %s holds for %s: %v; %s", tn.Name, b.Name, b.Name, tn.Name, uerr, desc), desc)
									rep.Outcome("learned-sessions/genuine-rejected!")
								case si != ti && uerr == nil:
									rep.Violate("learned-sessions/unsealed-under-other-senders-session", fmt.Sprintf("a frame sealed by %s claiming source %s unseals under the session %s holds for %s; %s", sn.Name, tn.Name, b.Name, tn.Name, desc), desc)
									rep.Outcome("learned-sessions/foreign-accepted!")
								case si == ti:
									rep.Outcome("learned-sessions/genuine-unsealed")
								default:
									rep.Outcome("learned-sessions/foreign-rejected")
								}
							}
						}
					}
				}
			})
		}
	}
}
