"""Build overlays generated from /repo's CURRENT working tree on every run.

Each overlay is a pure import substitution plus the injection of a shim package
under the repository's module path, so the code under test stays the code in
/repo. Nothing here is committed to /repo.
"""
import json, os, re

REPO = os.environ.get("VERIF_REPO") or "/repo"
ROOT = os.path.dirname(os.path.abspath(__file__))


def _rewrite_import(src, old, new_path, alias):
    # handles `import "os"` inside an import block: replaces the line `"os"` by `alias "new"`.
    pat = re.compile(r'^(\s*)"%s"\s*$' % re.escape(old), re.M)
    out, n = pat.subn(r'\1%s "%s"' % (alias, new_path), src)
    if n == 0:
        raise SystemExit("overlay: import %r not found" % old)
    return out


def generate(spec, build_dir):
    odir = os.path.join(build_dir, "overlay", spec["name"])
    os.makedirs(odir, exist_ok=True)
    replace = {}
    for rel in spec.get("os_to_vos", []):
        src = open(os.path.join(REPO, rel)).read()
        out = _rewrite_import(src, "os", "github.com/mycoria/mycoria/zz_verif/vos", "os")
        dst = os.path.join(odir, rel.replace("/", "__"))
        open(dst, "w").write(out)
        replace[os.path.join(REPO, rel)] = dst
        replace[os.path.join(REPO, "zz_verif/vos/vos.go")] = os.path.join(ROOT, "vos/vos.go")
    for pkg in spec.get("sync_to_vsync", []):
        pdir = os.path.join(REPO, pkg)
        for fn in sorted(os.listdir(pdir)):
            if not fn.endswith(".go") or fn.endswith("_test.go"):
                continue
            src = open(os.path.join(pdir, fn)).read()
            changed = False
            for old, alias in (("sync", "sync"), ("sync/atomic", "atomic")):
                pat = re.compile(r'^(\s*)"%s"\s*$' % re.escape(old), re.M)
                if pat.search(src):
                    src = pat.sub(r'\1%s "github.com/mycoria/mycoria/zz_verif/v%s"' % (alias, alias), src)
                    changed = True
            if changed:
                dst = os.path.join(odir, (pkg + "/" + fn).replace("/", "__"))
                open(dst, "w").write(src)
                replace[os.path.join(pdir, fn)] = dst
        replace[os.path.join(REPO, "zz_verif/vsync/vsync.go")] = os.path.join(ROOT, "_shim/vsync.go")
        replace[os.path.join(REPO, "zz_verif/vatomic/vatomic.go")] = os.path.join(ROOT, "_shim/vatomic.go")
        replace[os.path.join(REPO, "zz_verif/sched/sched.go")] = os.path.join(ROOT, "_shim/sched.go")
    for rel in spec.get("net_to_vnet", []):
        # read the already rewritten copy if an earlier rule replaced this file.
        cur = replace.get(os.path.join(REPO, rel), os.path.join(REPO, rel))
        src = open(cur).read()
        out = _rewrite_import(src, "net", "github.com/mycoria/mycoria/zz_verif/vnet", "net")
        dst = os.path.join(odir, rel.replace("/", "__"))
        open(dst, "w").write(out)
        replace[os.path.join(REPO, rel)] = dst
        replace[os.path.join(REPO, "zz_verif/vnet/vnet.go")] = os.path.join(ROOT, "vnet/vnet.go")
    path = os.path.join(odir, "overlay.json")
    json.dump({"Replace": replace}, open(path, "w"), indent=1)
    return path
