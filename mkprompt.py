#!/usr/bin/env python3
"""Prints the sub-agent prompt for seeding a property-breaking change. usage: mkprompt.py C02 /tmp/wt-c02"""
import json, sys
pid, wt = sys.argv[1], sys.argv[2]
p = next(json.loads(l) for l in open('/verif/properties.jsonl') if json.loads(l)['id'] == pid)
rnd = sys.argv[3] if len(sys.argv) > 3 else ""
out = "/tmp/seed-out%s/%s" % (rnd, pid.lower())
if rnd == "-r3":
    extra3 = " - for THIS round: every clause of the statement is a separate obligation; break a clause that is stated late or in passing (a secondary clause, an 'including ...' case, a boundary, the behaviour after an error or after a cleanup/expiry step, a configuration corner case), preferably through a file that is NOT the first one listed, in state that is carried across calls, in an error path, or in code that only runs for rarely used settings; it must need something specific to manifest and a careful reviewer should be able to overlook it; make the variants call themselves \"e\" and \"f\" (directories e/ and f/, meta.json variant \"e\"/\"f\")"
if rnd == "-r4":
    extra3 = " - for THIS round: assume an automated checker for this property already explores the obvious space (fresh objects, short histories, default configuration, the first alphabet that comes to mind, single instances). Put your defect OUTSIDE of that: it should only manifest with a history of four or more steps, or on the second/third occurrence of an event, or with two instances of something (two links, two sessions, two services, two peers) interacting, or with a non-default configuration value, or through an interaction with another subsystem (a periodic cleaner, a timer or expiry, a cache, a pool), or at a numeric boundary (0, maximum, wrap-around, exact buffer-size classes); a careful reviewer should be able to overlook it; make the variants call themselves \"g\" and \"h\" (directories g/ and h/, meta.json variant \"g\"/\"h\")"
if rnd == "-r5":
    extra3 = " - for THIS round: assume an automated checker for this property explores fresh and used objects, multi-step histories, periodic cleaners, two instances of things, non-default settings and numeric boundaries of the listed files. Put your defect where such a checker is still likely to be blind: in an INDIRECT dependency that the property's mechanism relies on but that is not among the listed files (module/worker manager, buffer and object pools, configuration parsing helpers, address / prefix / label utilities, encoding helpers, storage), or in the INTERACTION of two features (for example lite or stub mode with gossip or forwarding, isolation with services, universes with peering, key rollover with replay protection, friends with name resolution), or in an ASYMMETRIC role (client vs server of a key exchange, dialling vs accepting side, lower vs higher address, first vs later link of a router); it must still break the property as stated, and a careful reviewer should be able to overlook it; make the variants call themselves \"i\" and \"j\" (directories i/ and j/, meta.json variant \"i\"/\"j\")"
extra = extra3 if rnd in ("-r3", "-r4", "-r5") else " - for THIS round prefer less obvious places: not the first function that comes to mind, ideally a defect that needs a multi-step history, a particular interleaving, or two cooperating code sites that each look fine alone, and that a careful reviewer could still overlook; make the variants call themselves \"c\" and \"d\" (directories c/ and d/, meta.json variant \"c\"/\"d\")" if rnd else ""
text = (f"""You are helping to evaluate a verification effort for the Go project mycoria (an overlay mesh router). Your job: craft a realistic, subtle code change ("seeded defect") that BREAKS the semantic property below while the project still compiles and its existing test suite still passes.

Work ONLY inside the scratch git worktree {wt} (a checkout of the project). Do NOT read or touch /verif, /root/.vp or /repo - your work must be independent of them.

Environment (sealed sandbox, no network). In EVERY shell call that uses go, first run:
  export GOFLAGS=-mod=mod GOPROXY=off
(do NOT set GOSUMDB or GOTOOLCHAIN). Run the existing suite with:  cd {wt} && go test -vet=off -count=1 ./...   (takes about 1-2 minutes; all packages must stay 'ok').
Files named verif_hooks.go (build tag 'verif') are verification hooks - leave them alone, and do not use the 'verif' build tag. Do NOT use `git stash` (the stash is shared with other worktrees of this repository and other people work in those); save a change with `git diff > file` and undo it with `git checkout -- .`.

THE PROPERTY ({pid}: {p['title']}):
{p['statement']}
Quantified over: {p['quantifier']['text']}
Relevant files: {', '.join(p['anchors']['files'])}

What to produce - up to TWO independent seeded defects (variant "a" and, if you can, a genuinely different variant "b"; each is a separate patch against the pristine worktree){{EXTRA}}:
1. The change must violate the property as stated (not merely change behaviour), still compile, and keep the existing test suite passing (run it to be sure).
2. It should look like a plausible developer mistake / refactoring slip / "optimisation", small (a few lines), and should need something specific to manifest: a particular interleaving, a fault at a particular point, a multi-step sequence of operations, an unusual input or boundary value, or two cooperating sites that each look fine alone. Avoid changes that ordinary use would expose at once (e.g. breaking every frame).
3. A demonstration: a Go test file (package-internal test is fine) that FAILS with your change applied and PASSES on the pristine tree. Keep it small and deterministic.

For each variant write into {out}/<a|b>/ (create the directory):
  - patch.diff : output of `git -C {wt} diff` for the source change only (NOT including the demo test), applicable with `git apply` from the repository root
  - demo_test.go : the demonstration test, plus in meta.json the repo-relative path where it must be placed (e.g. "m/zz_seed_demo_test.go") and the exact go test command to run it
  - meta.json : {{"property":"{pid}","variant":"a","summary":"...what the change does...","needs":"...what is needed for it to manifest...","demo_path":"...","demo_cmd":"...","suite_passes":true}}
After capturing a variant, reset the worktree (git -C {wt} checkout -- . ; remove the demo file) before starting the next one, and leave the worktree pristine at the end.
Verify for each variant yourself: (i) suite passes with patch, (ii) demo fails with patch, (iii) demo passes without patch. Report briefly what you did.""")
print(text.replace("{EXTRA}", extra).replace("<a|b>", "<i|j>" if rnd == "-r5" else "<g|h>" if rnd == "-r4" else "<e|f>" if rnd == "-r3" else ("<c|d>" if rnd else "<a|b>")))
