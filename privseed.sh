#!/bin/sh
# usage: privseed.sh <seed dir with patch.diff> <CHECK>  - runs the check's quick tier against a PRIVATE copy of /repo HEAD with the patch (never touches /repo)
d=/tmp/priv-$$; rm -rf $d; mkdir -p $d && git -C /repo archive HEAD | tar -x -C $d && (cd $d && patch -p1 -s < "$1/patch.diff") || { echo "PATCH DOES NOT APPLY"; rm -rf $d; exit 3; }
cd /verif && VERIF_REPO=$d timeout ${PRIV_TIMEOUT:-1200} ./vcheck $2 2>&1 | grep -v KNOWN | grep "violation key\|tier=\|VIOLATION" | cut -c1-400 | head -8
rm -rf $d
