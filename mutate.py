#!/usr/bin/env python3
"""Mutation campaign: which checks notice operator-level changes that the
repository's own tests do not notice?

For every property, the functions named in its anchors (properties.jsonl) are
mutated syntactically (tools/mutgen: relational / logical / arithmetic operator
swaps, dropped negations, negated conditions, deleted call and assignment
statements, +-1 on integer literals, break<->continue, swallowed errors). Each
mutant is applied to a PRIVATE copy of the repository's HEAD commit (never to /repo,
whose working tree is not even read), must
build and pass the repository's test suite, and is then handed to the quick tier
of the property's check (run from a private copy of /verif with VERIF_REPO
pointing at the mutated copy). Results: mutation/results.jsonl; survivors are
triaged by hand (equivalent / outside the statement / gap) in DESIGN.md.

usage: mutate.py [--workers N] [--cap M] [--props C01,C02] [--shards S] [--resume]
"""
import collections
import json
import os
import re
import shutil
import signal
import subprocess
import sys
import threading
import time

ROOT = os.path.dirname(os.path.abspath(__file__))
SCRATCH = "/tmp/mut"
PRISTINE = "/tmp/mut-pristine"  # git archive of the pinned commit: /repo's working tree is never read


def pin(dest=None):
    """Exports /repo's HEAD commit (not its working tree, which seeded-defect runs patch) to dest (default PRISTINE)."""
    dest = dest or PRISTINE
    head = subprocess.run(["git", "-C", "/repo", "rev-parse", "HEAD"], stdout=subprocess.PIPE, text=True, check=True).stdout.strip()
    shutil.rmtree(dest, ignore_errors=True)
    os.makedirs(dest)
    subprocess.run("git -C /repo archive %s | tar -x -C %s" % (head, dest), shell=True, check=True)
    return head
OUT = os.path.join(ROOT, "mutation", "results.jsonl")


def arg(name, default=None):
    if name in sys.argv:
        return sys.argv[sys.argv.index(name) + 1]
    return default


def goenv(extra=None):
    env = dict(os.environ, GOFLAGS="-mod=mod", GOPROXY="off")
    env.pop("GOSUMDB", None)
    env.pop("GOTOOLCHAIN", None)
    env.update(extra or {})
    return env


def run(cmd, cwd, timeout, env=None):
    p = subprocess.Popen(cmd, cwd=cwd, env=env or goenv(), stdout=subprocess.PIPE, stderr=subprocess.STDOUT,
                         text=True, start_new_session=True)
    try:
        out, _ = p.communicate(timeout=timeout)
        return p.returncode, out
    except subprocess.TimeoutExpired:
        try:
            os.killpg(p.pid, signal.SIGKILL)
        except ProcessLookupError:
            pass
        p.wait()
        return -9, "TIMEOUT"


def mutants(props_filter, cap):
    props = [json.loads(l) for l in open(os.path.join(ROOT, "properties.jsonl"))]
    files = collections.OrderedDict()
    words = {}
    for p in props:
        words[p["id"]] = set(re.findall(r"[A-Za-z_][A-Za-z0-9_]{3,}", json.dumps(p["anchors"])))
        for f in p["anchors"]["files"]:
            files.setdefault(f, []).append(p["id"])
    subprocess.run(["go", "build", "-o", os.path.join(ROOT, ".build", "mutgen"), "./tools/mutgen"], cwd=ROOT, env=goenv(), check=True)
    per_prop = collections.defaultdict(list)
    for f, ids in files.items():
        if not os.path.exists(PRISTINE + "/" + f):
            continue
        out = subprocess.run([os.path.join(ROOT, ".build", "mutgen"), PRISTINE + "/" + f], capture_output=True, text=True).stdout
        for line in out.splitlines():
            m = json.loads(line)
            m["file"] = f
            fn = m["func"].split(".")[-1]
            hit = [i for i in ids if fn in words[i] and (not props_filter or i in props_filter)]
            if hit:
                m["props"] = hit
                per_prop[hit[0]].append(m)
    chosen = []
    for pid in sorted(per_prop):
        ms = per_prop[pid]
        if cap and len(ms) > cap:
            step = len(ms) / cap
            ms = [ms[int(i * step)] for i in range(cap)]
        chosen += ms
    for i, m in enumerate(chosen):
        m["id"] = "%s:%d:%s:%d" % (m["file"], m["line"], m["op"], m["start"])
    return chosen


def setup_worker(k):
    w = os.path.join(SCRATCH, "w%d" % k)
    shutil.rmtree(w, ignore_errors=True)
    os.makedirs(w)
    subprocess.run(["rsync", "-a", PRISTINE + "/", w + "/repo/"], check=True)
    subprocess.run(["rsync", "-a", "--exclude", ".git", "--exclude", "replays", "--exclude", "seeded", "--exclude", "mutation",
                    "--exclude", ".build/out", ROOT + "/", w + "/verif/"], check=True)
    return w


PRESURVIVED = set()  # mutants that built and passed the repository's tests in the run taken over (--reuse)


def work(k, queue, lock, shards, done):
    w = setup_worker(k)
    repo, verif = w + "/repo", w + "/verif"
    while True:
        with lock:
            if not queue:
                return
            m = queue.pop(0)
        if m["id"] in done:
            continue
        path = os.path.join(repo, m["file"])
        src = open(PRISTINE + "/" + m["file"], "rb").read()
        res = dict(m)
        if src[m["start"]:m["end"]].decode() != m["old"]:
            res["status"] = "stale"
        else:
            open(path, "wb").write(src[:m["start"]] + m["new"].encode() + src[m["end"]:])
            t0 = time.time()
            trusted = m["id"] in PRESURVIVED
            rc, out = (0, "") if trusted else run(["go", "build", "./..."], repo, 300)
            if rc != 0:
                res["status"] = "no-build"
            else:
                rc, out = (0, "") if trusted else run(["go", "test", "-vet=off", "-count=1", "./..."], repo, 600)
                if trusted:
                    res["suite_verdict_from"] = "earlier run"
                if rc != 0:
                    res["status"] = "killed-by-repo-tests"
                else:
                    res["status"] = "survived"
                    res["checks"] = {}
                    for pid in m["props"]:
                        rc, out = run([os.path.join(verif, "vcheck"), pid, "--tier", "quick", "--shards", str(shards)], verif, 1200,
                                      goenv({"VERIF_REPO": repo, "GOCACHE": os.path.join(verif, ".build", "gocache")}))
                        if rc == 1 and "VIOLATION property=" in out:
                            keys = re.findall(r"violation key=([^:]*):", out)
                            res["checks"][pid] = {"verdict": "detected", "keys": keys[:3]}
                            res["status"] = "detected"
                            break
                        elif rc == 0:
                            res["checks"][pid] = {"verdict": "not-detected", "tail": out[-300:]}
                        elif rc == -9:
                            res["checks"][pid] = {"verdict": "timeout"}
                            res["status"] = "detected(timeout: check did not finish)"
                            break
                        else:
                            res["checks"][pid] = {"verdict": "check-broken rc=%d" % rc, "tail": out[-600:]}
                            res["status"] = "detected(check crashed)" if "HARNESS-BUILD-FAILED" not in out else "harness-no-build"
                            break
            res["secs"] = round(time.time() - t0, 1)
            open(path, "wb").write(src)
        with lock:
            os.makedirs(os.path.dirname(OUT), exist_ok=True)
            with open(OUT, "a") as f:
                f.write(json.dumps(res) + "\n")
            print("[w%d] %-38s %s %s" % (k, res["status"], m["id"], m["old"][:30].replace("\n", " ") + " -> " + m["new"][:30]), flush=True)


def main():
    workers = int(arg("--workers", "2"))
    cap = int(arg("--cap", "40"))
    shards = int(arg("--shards", "8"))
    pf = arg("--props")
    pf = set(pf.split(",")) if pf else None
    head = pin()
    ms = mutants(pf, cap)
    done = set()
    reuse = arg("--reuse")
    if reuse and "--list" not in sys.argv:
        # verdicts that do not depend on the checks (does not build / killed by the repository's
        # own tests) are taken over from an earlier run for files that are unchanged since.
        old = {}
        for line in open(reuse):
            r = json.loads(line)
            old[r["id"]] = r
        base = arg("--reuse-commit")
        kept = 0
        os.makedirs(os.path.dirname(OUT), exist_ok=True)
        with open(OUT, "a") as f:
            for m in ms:
                r = old.get(m["id"])
                keep = (arg("--reuse-status") or "killed-by-repo-tests,no-build").split(",")
                if not r:
                    continue
                if r["status"].split("(")[0] not in keep:
                    if r["status"] == "survived" and "--trust-survived" in sys.argv and r["old"] == m["old"] and r["new"] == m["new"] and \
                            subprocess.run(["git", "-C", "/repo", "diff", "--quiet", base, head, "--", m["file"]]).returncode == 0:
                        PRESURVIVED.add(m["id"])
                    continue
                same = subprocess.run(["git", "-C", "/repo", "diff", "--quiet", base, head, "--", m["file"]]).returncode == 0
                if same and r["old"] == m["old"] and r["new"] == m["new"]:
                    r["reused_from"] = os.path.basename(reuse)
                    f.write(json.dumps(r) + "\n")
                    done.add(m["id"])
                    kept += 1
        print("reused %d verdicts from %s" % (kept, reuse), flush=True)
    if "--resume" in sys.argv and os.path.exists(OUT):
        for line in open(OUT):
            done.add(json.loads(line)["id"])
    print("pinned commit %s; %d mutants selected, %d already done" % (head[:7], len(ms), len(done)), flush=True)
    if "--list" in sys.argv:
        c = collections.Counter(m["props"][0] for m in ms)
        print(dict(c))
        return
    lock = threading.Lock()
    ts = [threading.Thread(target=work, args=(k, ms, lock, shards, done)) for k in range(workers)]
    for t in ts:
        t.start()
    for t in ts:
        t.join()
    shutil.rmtree(SCRATCH, ignore_errors=True)
    print("done")


if __name__ == "__main__":
    main()
