// Package vlife runs real relay-only instances (mycoria.New, tun disabled) on the
// in-memory network of /verif/vnet inside one testing/synctest bubble: A listens,
// B dials A from the start, C is started later and dials A too; named network
// operations fail on request. Shared by the C20 check (lifecycle oracle) and the
// C16 check (registry / route consistency at every quiescent second).
package vlife

import (
	"fmt"
	"runtime"
	"sort"
	"strings"
	"sync"
	"testing"
	"testing/synctest"
	"time"

	"verif/kit"

	mycoria "github.com/mycoria/mycoria"
	"github.com/mycoria/mycoria/config"
	"github.com/mycoria/mycoria/m"
	"github.com/mycoria/mycoria/zz_verif/vnet"
)

// Result of one run.
type Result struct {
	Ops      []string
	Fired    map[string]bool
	Problems []string // key|detail
}

// Options of a run.
type Options struct {
	// Horizon is the virtual time the routers run before they are stopped (C starts at LateStart).
	Horizon, LateStart time.Duration
	// ExpectPeering: the configurations allow the routers to peer.
	ExpectPeering bool
	// GuardStop wraps every Stop call (real-time stall oracle of the caller); may be nil.
	GuardStop func(func())
	// OnLeftovers is called when goroutines are left (the bubble may never end); may be nil.
	OnLeftovers func()
	// Sample, if set, is called at every quiescent virtual second with the running instances;
	// it returns problems (key|detail).
	Sample func(at time.Duration, running []*mycoria.Instance) []string
	// ListenAddr of A as the network sees it.
	ListenAddr string
	// RestartB > 0: B is stopped RestartB after the start and a NEW instance built from the
	// same configuration is started ten virtual seconds later (a router that restarts while
	// its peer keeps running); the new instance must peer with A again.
	RestartB time.Duration
}

// Run runs the three-router scenario with the given operations failing.
func Run(t *testing.T, stores []config.Store, faults []string, opt Options) (res Result) {
	res.Fired = map[string]bool{}
	problem := func(key, detail string) { res.Problems = append(res.Problems, key+"|"+detail) }
	guard := opt.GuardStop
	if guard == nil {
		guard = func(f func()) { f() }
	}
	body := func(t *testing.T) {
		n := vnet.New()
		var fmu sync.Mutex
		var lastFault time.Time
		stopping := false
		want := map[string]bool{}
		for _, f := range faults {
			want[f] = true
		}
		n.Fault = func(op string) bool {
			if !want[op] {
				return false
			}
			fmu.Lock()
			res.Fired[op] = true
			if !stopping {
				lastFault = time.Now()
			}
			fmu.Unlock()
			return true
		}
		vnet.Install(n)
		defer vnet.Install(nil)
		t0 := time.Now()
		var insts []*mycoria.Instance
		for i, st := range stores {
			cfg, err := st.Parse()
			if err != nil {
				problem("vnet/config-rejected", err.Error())
				return
			}
			var inst *mycoria.Instance
			pan, pv := kit.Try(func() { inst, err = mycoria.New("verif", cfg) })
			if pan || err != nil {
				problem("vnet/new-fails", fmt.Sprintf("router %d: panic=%v err=%v", i, pv, err))
				return
			}
			insts = append(insts, inst)
		}
		a, b, cc := insts[0], insts[1], insts[2]
		var started []*mycoria.Instance
		start := func(inst *mycoria.Instance, name string) {
			var err error
			pan, pv := kit.Try(func() { err = inst.Start() })
			if pan || err != nil {
				problem("vnet/start-fails", fmt.Sprintf("Start of %s: panic=%v err=%v", name, pv, err))
				return
			}
			started = append(started, inst)
		}
		seenSample := map[string]bool{}
		// advance d of virtual time, sampling at every quiescent second.
		advance := func(d time.Duration) {
			if opt.Sample == nil {
				time.Sleep(d)
				synctest.Wait()
				return
			}
			for d > 0 {
				step := time.Second
				if d < step {
					step = d
				}
				time.Sleep(step)
				synctest.Wait()
				d -= step
				for _, p := range opt.Sample(time.Since(t0), started) {
					if !seenSample[strings.SplitN(p, "|", 2)[0]] {
						seenSample[strings.SplitN(p, "|", 2)[0]] = true
						res.Problems = append(res.Problems, p)
					}
				}
			}
		}
		start(a, "A")
		start(b, "B")
		if opt.RestartB > 0 && opt.RestartB < opt.LateStart {
			advance(opt.RestartB)
			var stopped bool
			pan, pv := kit.Try(func() { guard(func() { stopped = b.Stop() }) })
			if pan || !stopped {
				problem("vnet/stop-false", fmt.Sprintf("Stop of router B (restart) failed: panic=%v stopped=%v", pv, stopped))
			}
			for i, x := range started {
				if x == b {
					started = append(started[:i], started[i+1:]...)
					break
				}
			}
			advance(10 * time.Second)
			cfg, err := stores[1].Parse()
			if err != nil {
				problem("vnet/config-rejected", err.Error())
				return
			}
			var nb *mycoria.Instance
			pan, pv = kit.Try(func() { nb, err = mycoria.New("verif", cfg) })
			if pan || err != nil {
				problem("vnet/new-fails", fmt.Sprintf("router B (second incarnation): panic=%v err=%v", pv, err))
				return
			}
			b = nb
			start(b, "B'")
			advance(opt.LateStart - opt.RestartB - 10*time.Second)
		} else {
			advance(opt.LateStart)
		}
		start(cc, "C")
		advance(opt.Horizon - opt.LateStart)
		// three minute ticks of the managers after the last fault (one more than the recovery needs).
		fmu.Lock()
		lf := lastFault
		fmu.Unlock()
		if !lf.IsZero() {
			if d := lf.Add(185 * time.Second).Sub(time.Now()); d > 0 {
				advance(d)
			}
		}
		if opt.ExpectPeering && len(started) == 3 {
			for _, pr := range []struct {
				name string
				x, y *mycoria.Instance
			}{{"A-B", a, b}, {"A-C", a, cc}} {
				lx := pr.x.Peering().GetLink(pr.y.Identity().IP)
				ly := pr.y.Peering().GetLink(pr.x.Identity().IP)
				if lx == nil || ly == nil {
					problem("vnet/not-peered", fmt.Sprintf("%s: three minute ticks after the last fault the routers have no link on both sides (listener side has link: %v, dialling side has link: %v; A listens: %v, times A's address was bound: %d)",
						pr.name, lx != nil, ly != nil, n.Listening(opt.ListenAddr), n.Listens[opt.ListenAddr]))
				}
			}
		}
		fmu.Lock()
		stopping = true
		fmu.Unlock()
		for i := len(started) - 1; i >= 0; i-- {
			var stopped bool
			inst := started[i]
			pan, pv := kit.Try(func() { guard(func() { stopped = inst.Stop() }) })
			if pan {
				problem("vnet/stop-panics", fmt.Sprintf("Stop of router %d panicked: %v", i, pv))
			} else if !stopped {
				problem("vnet/stop-false", fmt.Sprintf("Stop of router %d returned false (a worker did not stop)", i))
			}
			synctest.Wait()
		}
		time.Sleep(time.Second)
		synctest.Wait()
		if left := BubbleLeftovers(); len(left) > 0 {
			problem("vnet/goroutines-left-running", fmt.Sprintf("%d goroutines of the routers are left after every router stopped: %s", len(left), strings.Join(left, "; ")))
			if opt.OnLeftovers != nil {
				opt.OnLeftovers()
			}
		}
		res.Ops = n.OpNames()
	}
	pan, pv := kit.Try(func() { synctest.Test(t, body) })
	if pan {
		problem("vnet/bubble-ended-abnormally", fmt.Sprintf("%v", pv))
	}
	return res
}

// RegistryInvariant evaluates the link-registry / route consistency of one running instance
// from what the instance itself exposes (C16's statement at a quiescent point): every
// registered link is not closing, is found by its peer address and by its non-zero, unique
// switch label; the routing table holds a direct-peer route for exactly the peers with a
// registered link and no route whose next hop has no registered link.
func RegistryInvariant(name string, inst *mycoria.Instance) (out []string) {
	bad := func(k, format string, a ...any) { out = append(out, k+"|"+name+": "+fmt.Sprintf(format, a...)) }
	p := inst.Peering()
	livePeers := map[string]bool{}
	labels := map[m.SwitchLabel]bool{}
	for _, l := range p.GetLinks() {
		if l.IsClosing() {
			bad("registry-holds-closing-link", "the registry holds a closing link to %s", l.Peer())
			continue
		}
		livePeers[l.Peer().String()] = true
		if got := p.GetLink(l.Peer()); got != l {
			bad("live-link-not-found-by-peer", "registered link to %s is not the one found by its peer address", l.Peer())
		}
		lbl := l.SwitchLabel()
		if lbl == 0 {
			bad("zero-label", "registered link to %s has switch label 0", l.Peer())
		}
		if labels[lbl] {
			bad("duplicate-label", "two registered links share switch label %d", lbl)
		}
		labels[lbl] = true
		if got := p.GetLinkByLabel(lbl); got != l {
			bad("live-link-not-found-by-label", "registered link to %s cannot be found by its switch label %d", l.Peer(), lbl)
		}
	}
	peerRoutes := map[string]bool{}
	for _, e := range inst.RoutingTable().VerifEntries() {
		if e.Source == m.RouteSourcePeer {
			peerRoutes[e.DstIP.String()] = true
		}
		if !livePeers[e.NextHop.String()] {
			bad("route-via-dead-next-hop", "route to %s via %s, which has no registered live link", e.DstIP, e.NextHop)
		}
	}
	for q := range livePeers {
		if !peerRoutes[q] {
			bad("live-link-without-peer-route", "live link to %s but no direct-peer route", q)
		}
	}
	for q := range peerRoutes {
		if !livePeers[q] {
			bad("peer-route-without-live-link", "direct-peer route to %s but no live link", q)
		}
	}
	sort.Strings(out)
	return out
}

// bubbleLeftovers lists the goroutines of the current synctest bubble other than the caller
// (after synctest.Wait every one of them is durably blocked, so the list is exact).
func BubbleLeftovers() []string {
	buf := make([]byte, 1<<20)
	for {
		n := runtime.Stack(buf, true)
		if n < len(buf) {
			buf = buf[:n]
			break
		}
		buf = make([]byte, 2*len(buf))
	}
	var out []string
	for i, blk := range strings.Split(string(buf), "\n\n") {
		lines := strings.Split(blk, "\n")
		if i == 0 || len(lines) < 2 || !strings.Contains(lines[0], "synctest bubble") {
			continue // block 0 is the calling goroutine
		}
		// the bubble's root (testing/synctest.Test.func1 waiting for the body) is not a worker.
		if strings.Contains(blk, "testing/synctest.testingSynctestTest") || strings.Contains(blk, "synctest.Run") {
			continue
		}
		fn := ""
		for _, l := range lines[1:] {
			if strings.HasPrefix(l, "github.com/mycoria/mycoria/") && !strings.Contains(l, "/mgr.") && !strings.Contains(l, "zz_verif") {
				fn = strings.SplitN(l, "(", 2)[0]
				break
			}
		}
		if fn == "" {
			fn = strings.SplitN(lines[1], "(", 2)[0]
		}
		st := lines[0]
		if k := strings.Index(st, "["); k >= 0 {
			st = st[k:]
		}
		out = append(out, fn+" "+st)
	}
	sort.Strings(out)
	return out
}

func OpClass(op string) string {
	// conn#1/client/read#7 -> conn/client/read ; accept@127.0.0.1:4001#2 -> accept ; dial#1 -> dial
	switch {
	case strings.HasPrefix(op, "dial"):
		return "dial"
	case strings.HasPrefix(op, "accept"):
		return "accept"
	}
	parts := strings.Split(op, "/")
	if len(parts) == 3 {
		return "conn/" + parts[1] + "/" + strings.SplitN(parts[2], "#", 2)[0]
	}
	return op
}
