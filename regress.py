#!/usr/bin/env python3
"""Regression over the stored seeded defects: every seed in /verif/seeded/ is
applied to a PRIVATE copy of /repo's HEAD commit (never to /repo) and the checks
that detected it before are run against that copy (VERIF_REPO); each must still
report a violation. Writes seeded/REGRESSION.json.

usage: regress.py [--only C01,C02] [--shards N]
"""
import glob
import json
import os
import subprocess
import sys
import time

ROOT = os.path.dirname(os.path.abspath(__file__))
sys.path.insert(0, ROOT)
import mutate  # noqa: E402


def main():
    only = None
    if "--only" in sys.argv:
        only = set(sys.argv[sys.argv.index("--only") + 1].split(","))
    shards = "16"
    if "--shards" in sys.argv:
        shards = sys.argv[sys.argv.index("--shards") + 1]
    tag = os.environ.get("REGRESS_TAG", "")
    pristine = "/tmp/regress-pristine" + tag
    head = mutate.pin(pristine)
    repo = "/tmp/regress-repo" + tag
    # the checks run from a private copy of /verif (own build directory and evidence files).
    verif = "/tmp/regress-verif" + tag
    subprocess.run(["rsync", "-a", "--delete", "--exclude", ".git", "--exclude", "replays", "--exclude", "seeded", "--exclude", "mutation",
                    "--exclude", ".build/out", ROOT + "/", verif + "/"], check=True)
    out = {"commit": head, "results": {}}
    for d in sorted(glob.glob(os.path.join(ROOT, "seeded", "C*-*"))):
        name = os.path.basename(d)
        meta = json.load(open(os.path.join(d, "meta.json")))
        if only and meta["property"] not in only:
            continue
        checks = [c for c, v in meta.get("checks", {}).items() if isinstance(v, dict) and v.get("detected")]
        if not checks:
            checks = [meta["property"]]
        subprocess.run(["rsync", "-a", "--delete", pristine + "/", repo + "/"], check=True)
        p = subprocess.run(["git", "apply", "--unsafe-paths", "--directory=" + repo, os.path.join(d, "patch.diff")], cwd="/", capture_output=True, text=True)
        if p.returncode != 0:
            p = subprocess.run(["patch", "-p1", "-d", repo, "-i", os.path.join(d, "patch.diff"), "--no-backup-if-mismatch", "-s"], capture_output=True, text=True)
        if p.returncode != 0:
            out["results"][name] = {"applies": False, "note": (p.stdout + p.stderr)[-300:]}
            print(name, "PATCH DOES NOT APPLY to", head[:7], flush=True)
            continue
        res = {"applies": True, "checks": {}}
        for c in checks:
            t0 = time.time()
            rc, o = mutate.run([os.path.join(verif, "vcheck"), c, "--tier", "quick", "--shards", shards], verif, 3000,
                                mutate.goenv({"VERIF_REPO": repo, "GOCACHE": os.path.join(verif, ".build", "gocache")}))
            res["checks"][c] = {"exit": rc, "detected": rc == 1 and "VIOLATION property=" in o, "wall_s": round(time.time() - t0, 1)}
        out["results"][name] = res
        print(name, {c: v["detected"] for c, v in res["checks"].items()}, flush=True)
        json.dump(out, open(os.path.join(ROOT, "seeded", "REGRESSION%s.json" % os.environ.get("REGRESS_TAG", "")), "w"), indent=1)
    missed = [n for n, r in out["results"].items() if r.get("applies") and not all(v["detected"] for v in r["checks"].values())]
    print("missed:", missed)
    print("not applicable any more:", [n for n, r in out["results"].items() if not r.get("applies")])


if __name__ == "__main__":
    main()
