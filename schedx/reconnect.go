package schedx

import (
	"fmt"
	"testing"
	"testing/synctest"

	"verif/kit"

	"github.com/mycoria/mycoria/config"
	"github.com/mycoria/mycoria/m"
)

// ReconnectWorld is a converged line A - B - C of real routers over virtual
// links, used by the link-flap interleaving tiers of C09 and C10.
type ReconnectWorld struct {
	W       *kit.World
	A, B, C *kit.Node
	Old     *kit.VLink // A's established link to B
	New     *kit.VLink // the replacement link object (not registered yet)
}

// NewReconnectWorld builds the line, lets every router announce and drains.
func NewReconnectWorld(ids []*m.Address) *ReconnectWorld {
	w := kit.NewWorld()
	mk := func(name string, id *m.Address) *kit.Node {
		n, err := w.AddNode(name, id, config.Store{})
		if err != nil {
			panic(err)
		}
		return n
	}
	rw := &ReconnectWorld{W: w, A: mk("A", ids[0]), B: mk("B", ids[1]), C: mk("C", ids[2])}
	la, _, err := w.Connect(rw.A, rw.B, 11, 12, 5)
	if err != nil {
		panic(err)
	}
	if _, _, err := w.Connect(rw.B, rw.C, 13, 14, 5); err != nil {
		panic(err)
	}
	rw.Old = la
	rw.New = &kit.VLink{W: w, From: rw.A, To: rw.B, Label: 15, Lat: 5}
	rw.AnnounceAll()
	return rw
}

// AnnounceAll lets every router announce itself on every link and drains (FIFO).
func (rw *ReconnectWorld) AnnounceAll() {
	for _, n := range rw.W.Nodes {
		for _, l := range n.Peering().GetLinks() {
			_ = n.Router().AnnouncePing.Send(l.Peer())
		}
	}
	rw.W.Run(kit.FIFO, 2000)
}

// Flap returns the scenario "the old link of A to B is torn down while the
// replacement link registers" (optionally with a third party reading the
// registry); judge evaluates the property's oracle once the threads are done.
func Flap(t *testing.T, name string, ids []*m.Address, withReader bool, bubble bool, judge func(rw *ReconnectWorld, ex *Exec)) Conc {
	build := func() *Instance {
		rw := NewReconnectWorld(ids)
		in := &Instance{}
		in.Threads = [][]Op{
			{{Name: "close(old link)", Do: func() { rw.Old.Close(nil) }}},
			{{Name: "register(new link)", Do: func() { _ = rw.A.Peering().AddLink(rw.New) }}},
		}
		if withReader {
			in.Threads = append(in.Threads, []Op{{Name: "lookups", Do: func() {
				_ = rw.A.Peering().GetLink(rw.B.Identity().IP)
				_, _ = rw.A.RoutingTable().LookupNearest(rw.C.Identity().IP)
				_ = rw.A.Peering().GetLinks()
			}}})
		}
		in.Observe = func() string {
			live := rw.A.Peering().GetLink(rw.B.Identity().IP)
			return fmt.Sprintf("live-link=%v new=%v\n%s", live != nil, live == rw.New, kit.TableKey(rw.A))
		}
		in.Check = func(ex *Exec) {
			for _, p := range rw.W.Panics {
				ex.Bad("panic", "worker panic: %s", p)
			}
			judge(rw, ex)
		}
		return in
	}
	c := Conc{Name: name, Build: build}
	if bubble {
		c.Wrap = func(f func()) { synctest.Test(t, func(t *testing.T) { f() }) }
	} else {
		c.Wrap = func(f func()) {
			t.Run("bubble", func(t *testing.T) { synctest.Test(t, func(t *testing.T) { f() }) })
		}
	}
	return c
}
