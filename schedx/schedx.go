// Package schedx is the generic driver of the controlled scheduler
// (zz_verif/sched, injected by the build overlay): iterative preemption-bounded
// depth-first exploration of ALL schedules of a small multi-threaded scenario
// (CHESS style), with prefix replay, divergence detection, a determinism gate
// and process sharding on the first level of the search tree.
//
// A scenario is a function that builds a FRESH instance of the real objects,
// runs the thread bodies under sched.Run with the prescribed decision prefix and
// returns what was observed. Scheduling points are the synchronisation
// operations of the packages whose sync / sync/atomic imports the overlay
// rewrote; a preemption is a switch away from a thread that could have
// continued.
package schedx

import (
	"fmt"
	"sync"

	"verif/kit"

	"github.com/mycoria/mycoria/zz_verif/sched"
)

// Exec is what one controlled execution produced.
type Exec struct {
	Res sched.Result
	// Sig is the observation signature of the execution: everything the oracle
	// looks at. The same decision prefix must reproduce it (determinism gate).
	Sig string
	// Viol lists violations found in this execution: stable key, detail.
	Viol [][2]string
}

// Bad records a violation of this execution.
func (e *Exec) Bad(key, format string, a ...any) {
	e.Viol = append(e.Viol, [2]string{key, fmt.Sprintf(format, a...)})
}

// Scenario is one explorable scenario.
type Scenario struct {
	Name string
	Run  func(choices []int) *Exec
	// Replay is stored with every violation (in addition to the schedule).
	Replay any
}

// Stats summarises one exploration.
type Stats struct {
	Execs, Points int64
	// Switched counts executions with at least one preemption (the executions in
	// which the threads' critical sections could actually interleave).
	Switched int64
	Outcomes map[string]int64
	Capped   bool
	GateRuns int64
	MaxPts   int
}

// Explore runs all schedules of sc with at most bound preemptions. top is the
// running index of first-level subtrees across scenarios (for sharding).
func Explore(rep *kit.Report, env kit.Env, sc Scenario, bound int, top *int) Stats {
	st := Stats{Outcomes: map[string]int64{}}
	var rec func(prefix []int, depth int)
	rec = func(prefix []int, depth int) {
		if env.Expired() {
			st.Capped = true
			return
		}
		ex := sc.Run(prefix)
		st.Execs++
		st.Points += int64(len(ex.Res.Points))
		if len(ex.Res.Points) > st.MaxPts {
			st.MaxPts = len(ex.Res.Points)
		}
		replay := map[string]any{"scenario": sc.Name, "choices": append([]int(nil), prefix...), "setup": sc.Replay}
		if ex.Res.Diverged == "horizon" {
			rep.Violate(sc.Name+"/no-termination", fmt.Sprintf("execution did not end within the horizon of scheduling points (livelock / unbounded retry) under schedule %v", prefix), replay)
			return
		}
		if ex.Res.Diverged != "" {
			rep.Violate(sc.Name+"/harness-divergence", "replay of a schedule prefix diverged: "+ex.Res.Diverged, replay)
			return
		}
		if ex.Res.Deadlock {
			ex.Bad("deadlock", "all unfinished threads are blocked on locks (deadlock); blocked ops: %s", lastOps(ex.Res))
		}
		for _, p := range ex.Res.Panics {
			ex.Bad("panic", "%s", p)
		}
		// determinism gate: the first executions, 1 in 64, and every violating one.
		if st.Execs <= 3 || st.Execs%64 == 0 || len(ex.Viol) > 0 {
			n := 1
			if len(ex.Viol) > 0 {
				n = 4
			}
			for i := 0; i < n; i++ {
				ex2 := sc.Run(prefix)
				st.GateRuns++
				if ex2.Sig != ex.Sig || len(ex2.Res.Points) != len(ex.Res.Points) || len(ex2.Viol) != len(ex.Viol) {
					rep.Violate(sc.Name+"/harness-nondeterminism", fmt.Sprintf("replaying schedule %v gave different observations (%q vs %q; %d vs %d points): uncontrolled nondeterminism in the harness", prefix, ex.Sig, ex2.Sig, len(ex.Res.Points), len(ex2.Res.Points)), replay)
					return
				}
			}
		}
		for _, v := range ex.Viol {
			rep.Violate(sc.Name+"/"+v[0], fmt.Sprintf("%s — schedule %v (%s)", v[1], prefix, describe(ex.Res)), replay)
		}
		st.Outcomes[ex.Sig]++
		if st.Execs == 1 || st.Execs%50000 == 0 {
			rep.Sample(map[string]any{"scenario": sc.Name, "choices": append([]int(nil), prefix...), "decision_points": len(ex.Res.Points), "observed": ex.Sig})
		}
		pts := ex.Res.Points
		cost := 0
		costs := make([]int, len(pts))
		for i, p := range pts {
			costs[i] = cost
			if p.Chosen != 0 && p.RunningEnabled {
				cost++
			}
		}
		if cost > 0 {
			st.Switched++
		}
		for i := len(prefix); i < len(pts); i++ {
			p := pts[i]
			for alt := 1; alt < len(p.Enabled); alt++ {
				c := costs[i]
				if p.RunningEnabled {
					c++
				}
				if c > bound {
					continue
				}
				if depth == 0 {
					*top++
					if !env.Mine(*top) {
						continue
					}
				}
				np := make([]int, i+1)
				for j := 0; j < i; j++ {
					np[j] = pts[j].Chosen
				}
				np[i] = alt
				rec(np, depth+1)
			}
		}
	}
	// the root execution (default schedule) belongs to shard 0 only; its
	// subtrees are distributed.
	rec(nil, 0)
	return st
}

// describe renders the context switches of a schedule.
func describe(r sched.Result) string {
	out := ""
	last := -1
	for i, p := range r.Points {
		cur := p.Enabled[p.Chosen]
		if cur != last {
			if out != "" {
				out += " "
			}
			out += fmt.Sprintf("@%d:t%d[%s]", i, cur, p.Op)
			last = cur
		}
		if len(out) > 400 {
			return out + " ..."
		}
	}
	return out
}

func lastOps(r sched.Result) string {
	n := len(r.Points)
	out := ""
	for i := n - 4; i < n; i++ {
		if i >= 0 {
			out += r.Points[i].Op + " "
		}
	}
	return out
}

// Record adds the statistics of one exploration to the report.
func Record(rep *kit.Report, sc Scenario, st Stats) {
	rep.Add(st.Execs, st.Switched, int64(len(st.Outcomes)), st.Points)
	if st.Capped {
		rep.Cap(sc.Name + ": time budget reached before all schedules within the preemption bound were explored")
	}
	rep.OutcomeN("sched:"+sc.Name+" [schedules]", st.Execs)
	rep.OutcomeN("sched:"+sc.Name+" [distinct observations, summed over shards]", int64(len(st.Outcomes)))
}

// FreeRun runs the bodies on free-running goroutines released together (the
// companion pass under the race detector: the cooperative scheduler's hand-offs
// are happens-before edges, so unsynchronised accesses are only visible to the
// detector when the threads really run in parallel). Panics are returned.
func FreeRun(bodies []func()) (panics []string) {
	var wg sync.WaitGroup
	var mu sync.Mutex
	start := make(chan struct{})
	for i, b := range bodies {
		wg.Add(1)
		go func() {
			defer wg.Done()
			defer func() {
				if p := recover(); p != nil {
					mu.Lock()
					panics = append(panics, fmt.Sprintf("thread %d: %v", i, p))
					mu.Unlock()
				}
			}()
			<-start
			b()
		}()
	}
	close(start)
	wg.Wait()
	return panics
}
