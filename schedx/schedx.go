// Package schedx is the generic driver of the controlled scheduler
// (zz_verif/sched, injected by the build overlay): iterative preemption-bounded
// depth-first exploration of ALL schedules of a small multi-threaded scenario
// (CHESS style), with prefix replay, divergence detection, a determinism gate
// and process sharding on the first level of the search tree.
//
// A scenario is a function that builds a FRESH instance of the real objects,
// runs the thread bodies under sched.Run with the prescribed decision prefix and
// returns what was observed. Scheduling points are the synchronisation
// operations of the packages whose sync / sync/atomic imports the overlay
// rewrote; a preemption is a switch away from a thread that could have
// continued.
package schedx

import (
	"fmt"
	"sort"
	"strings"
	"sync"

	"verif/kit"

	"github.com/mycoria/mycoria/zz_verif/sched"
)

// Exec is what one controlled execution produced.
type Exec struct {
	Res sched.Result
	// Sig is the observation signature of the execution: everything the oracle
	// looks at. The same decision prefix must reproduce it (determinism gate).
	Sig string
	// Viol lists violations found in this execution: stable key, detail.
	Viol [][2]string
}

// Bad records a violation of this execution.
func (e *Exec) Bad(key, format string, a ...any) {
	e.Viol = append(e.Viol, [2]string{key, fmt.Sprintf(format, a...)})
}

// Scenario is one explorable scenario.
type Scenario struct {
	Name string
	Run  func(choices []int) *Exec
	// Replay is stored with every violation (in addition to the schedule).
	Replay any
}

// Stats summarises one exploration.
type Stats struct {
	Execs, Points int64
	// Switched counts executions with at least one preemption (the executions in
	// which the threads' critical sections could actually interleave).
	Switched int64
	Outcomes map[string]int64
	Capped   bool
	GateRuns int64
	MaxPts   int
}

// Explore runs all schedules of sc with at most bound preemptions. top is the
// running index of first-level subtrees across scenarios (for sharding).
func Explore(rep *kit.Report, env kit.Env, sc Scenario, bound int, top *int) Stats {
	st := Stats{Outcomes: map[string]int64{}}
	var rec func(prefix []int, depth int)
	rec = func(prefix []int, depth int) {
		if env.Expired() {
			st.Capped = true
			return
		}
		ex := sc.Run(prefix)
		st.Execs++
		st.Points += int64(len(ex.Res.Points))
		if len(ex.Res.Points) > st.MaxPts {
			st.MaxPts = len(ex.Res.Points)
		}
		replay := map[string]any{"scenario": sc.Name, "choices": append([]int(nil), prefix...), "setup": sc.Replay}
		if ex.Res.Diverged == "horizon" {
			rep.Violate(sc.Name+"/no-termination", fmt.Sprintf("execution did not end within the horizon of scheduling points (livelock / unbounded retry) under schedule %v", prefix), replay)
			return
		}
		if ex.Res.Diverged != "" {
			rep.Violate(sc.Name+"/harness-divergence", "replay of a schedule prefix diverged: "+ex.Res.Diverged, replay)
			return
		}
		// determinism gate: the first executions, 1 in 64, and every violating one.
		if bad := len(ex.Viol) > 0 || ex.Res.Deadlock || len(ex.Res.Panics) > 0; st.Execs <= 3 || st.Execs%64 == 0 || bad {
			n := 1
			if bad {
				n = 4
			}
			for i := 0; i < n; i++ {
				ex2 := sc.Run(prefix)
				st.GateRuns++
				if ex2.Sig != ex.Sig || len(ex2.Res.Points) != len(ex.Res.Points) || len(ex2.Viol) != len(ex.Viol) || ex2.Res.Deadlock != ex.Res.Deadlock || len(ex2.Res.Panics) != len(ex.Res.Panics) {
					rep.Violate(sc.Name+"/harness-nondeterminism", fmt.Sprintf("replaying schedule %v gave different observations (%q vs %q; %d vs %d points): uncontrolled nondeterminism in the harness", prefix, ex.Sig, ex2.Sig, len(ex.Res.Points), len(ex2.Res.Points)), replay)
					return
				}
			}
		}
		if ex.Res.Deadlock {
			ex.Bad("deadlock", "all unfinished threads are blocked on locks for ever (deadlock: these workers never finish, nothing else can take the locks they hold); last operations: %s", lastOps(ex.Res))
		}
		for _, p := range ex.Res.Panics {
			ex.Bad("panic", "%s", p)
		}
		for _, v := range ex.Viol {
			rep.Violate(sc.Name+"/"+v[0], fmt.Sprintf("%s — schedule %v (%s)", v[1], prefix, describe(ex.Res)), replay)
		}
		st.Outcomes[ex.Sig]++
		if st.Execs == 1 || st.Execs%50000 == 0 {
			rep.Sample(map[string]any{"scenario": sc.Name, "choices": append([]int(nil), prefix...), "decision_points": len(ex.Res.Points), "observed": ex.Sig})
		}
		pts := ex.Res.Points
		cost := 0
		costs := make([]int, len(pts))
		for i, p := range pts {
			costs[i] = cost
			if p.Chosen != 0 && p.RunningEnabled {
				cost++
			}
		}
		if cost > 0 {
			st.Switched++
		}
		for i := len(prefix); i < len(pts); i++ {
			p := pts[i]
			for alt := 1; alt < len(p.Enabled); alt++ {
				c := costs[i]
				if p.RunningEnabled {
					c++
				}
				if c > bound {
					continue
				}
				if depth == 0 {
					*top++
					if !env.Mine(*top) {
						continue
					}
				}
				np := make([]int, i+1)
				for j := 0; j < i; j++ {
					np[j] = pts[j].Chosen
				}
				np[i] = alt
				rec(np, depth+1)
			}
		}
	}
	// the root execution (default schedule) belongs to shard 0 only; its
	// subtrees are distributed.
	rec(nil, 0)
	return st
}

// describe renders the context switches of a schedule.
func describe(r sched.Result) string {
	out := ""
	last := -1
	for i, p := range r.Points {
		cur := p.Enabled[p.Chosen]
		if cur != last {
			if out != "" {
				out += " "
			}
			out += fmt.Sprintf("@%d:t%d[%s]", i, cur, p.Op)
			last = cur
		}
		if len(out) > 400 {
			return out + " ..."
		}
	}
	return out
}

func lastOps(r sched.Result) string {
	n := len(r.Points)
	out := ""
	for i := n - 4; i < n; i++ {
		if i >= 0 {
			out += r.Points[i].Op + " "
		}
	}
	return out
}

// Record adds the statistics of one exploration to the report.
func Record(rep *kit.Report, sc Scenario, st Stats) {
	rep.Add(st.Execs, st.Switched, int64(len(st.Outcomes)), st.Points)
	if st.Capped {
		rep.Cap(sc.Name + ": time budget reached before all schedules within the preemption bound were explored")
	}
	rep.OutcomeN("sched:"+sc.Name+" [schedules]", st.Execs)
	rep.OutcomeN("sched:"+sc.Name+" [distinct observations, summed over shards]", int64(len(st.Outcomes)))
}

// FreeRun runs the bodies on free-running goroutines released together (the
// companion pass under the race detector: the cooperative scheduler's hand-offs
// are happens-before edges, so unsynchronised accesses are only visible to the
// detector when the threads really run in parallel). Panics are returned.
func FreeRun(bodies []func()) (panics []string) {
	var wg sync.WaitGroup
	var mu sync.Mutex
	start := make(chan struct{})
	for i, b := range bodies {
		wg.Add(1)
		go func() {
			defer wg.Done()
			defer func() {
				if p := recover(); p != nil {
					mu.Lock()
					panics = append(panics, fmt.Sprintf("thread %d: %v", i, p))
					mu.Unlock()
				}
			}()
			<-start
			b()
		}()
	}
	close(start)
	wg.Wait()
	return panics
}

// ---------------------------------------------------------------------------
// Serializability oracle.

// Op is one operation of a thread (one handler invocation, one registry call ...).
type Op struct {
	Name string
	Do   func()
}

// Instance is one fresh instance of a concurrent scenario.
type Instance struct {
	Threads [][]Op
	// Observe returns the canonical, randomness-free description of everything
	// the property can see once all threads are done (it may run more of the
	// system first: drain the network, probe, look up).
	Observe func() string
	// Check, if set, evaluates invariants that must hold on every execution
	// (serial or not) and reports through ex.Bad.
	Check func(ex *Exec)
}

// Conc is a concurrent scenario judged against its own serial executions: the
// observation of every explored schedule must equal the observation of SOME
// order in which the operations run one after the other (per-thread order
// kept). No expected value is written by hand.
type Conc struct {
	Name  string
	Build func() *Instance
	// Wrap runs one execution (e.g. inside a bubble of virtual time); nil = direct.
	Wrap func(f func())
	// MaxPoints is the horizon of scheduling points per execution (0 = 20000).
	MaxPoints int
	// InvariantOnly: executions are judged by Check alone (the statement's
	// invariant); no comparison with serial outcomes.
	InvariantOnly bool
}

func (c Conc) wrap(f func()) {
	if c.Wrap != nil {
		c.Wrap(f)
		return
	}
	f()
}

// Serial runs every merge order of the threads' operation lists on fresh
// instances and returns the set of observations (order description per observation).
func (c Conc) Serial() (allowed map[string]string, n int) {
	allowed = map[string]string{}
	var shape []int
	c.wrap(func() {
		in := c.Build()
		for _, th := range in.Threads {
			shape = append(shape, len(th))
		}
	})
	var rec func(pos []int, order [][2]int)
	rec = func(pos []int, order [][2]int) {
		done := true
		for ti := range shape {
			if pos[ti] < shape[ti] {
				done = false
				np := append([]int(nil), pos...)
				np[ti]++
				rec(np, append(append([][2]int(nil), order...), [2]int{ti, pos[ti]}))
			}
		}
		if !done {
			return
		}
		c.wrap(func() {
			in := c.Build()
			desc := ""
			for _, o := range order {
				op := in.Threads[o[0]][o[1]]
				op.Do()
				desc += op.Name + "; "
			}
			obs := in.Observe()
			n++
			if _, ok := allowed[obs]; !ok {
				allowed[obs] = desc
			}
		})
	}
	rec(make([]int, len(shape)), nil)
	return allowed, n
}

// Scenario turns the concurrent scenario into an explorable one; allowed is the
// result of Serial.
func (c Conc) Scenario(allowed map[string]string) Scenario {
	max := c.MaxPoints
	if max == 0 {
		max = 20000
	}
	return Scenario{Name: c.Name, Run: func(choices []int) *Exec {
		ex := &Exec{}
		c.wrap(func() {
			in := c.Build()
			var bodies []func()
			for _, th := range in.Threads {
				th := th
				bodies = append(bodies, func() {
					for _, op := range th {
						op.Do()
					}
				})
			}
			ex.Res = sched.Run(bodies, choices, max)
			if ex.Res.Deadlock || ex.Res.Diverged != "" {
				return
			}
			ex.Sig = in.Observe()
			if in.Check != nil {
				in.Check(ex)
			}
			if _, ok := allowed[ex.Sig]; !ok && len(ex.Res.Panics) == 0 && !c.InvariantOnly {
				ex.Bad("not-serializable", "the outcome of this interleaving equals the outcome of NO order in which the same operations run one after the other. %s", nearest(ex.Sig, allowed))
			}
		})
		return ex
	}}
}

// FreeRunConc runs the scenario iters times on free goroutines with the same oracles.
func (c Conc) FreeRunConc(rep *kit.Report, env kit.Env, allowed map[string]string, iters int) (n int64) {
	for i := 0; i < iters && !env.Expired(); i++ {
		ex := &Exec{}
		c.wrap(func() {
			in := c.Build()
			var bodies []func()
			for _, th := range in.Threads {
				th := th
				bodies = append(bodies, func() {
					for _, op := range th {
						op.Do()
					}
				})
			}
			ex.Res.Panics = FreeRun(bodies)
			ex.Sig = in.Observe()
			if in.Check != nil {
				in.Check(ex)
			}
			if _, ok := allowed[ex.Sig]; !ok && len(ex.Res.Panics) == 0 && !c.InvariantOnly {
				ex.Bad("not-serializable", "free-running: outcome equals no serial order. %s", nearest(ex.Sig, allowed))
			}
		})
		n++
		for _, p := range ex.Res.Panics {
			rep.Violate("free-running/"+c.Name+"/panic", p, nil)
		}
		for _, v := range ex.Viol {
			rep.Violate("free-running/"+c.Name+"/"+v[0], v[1], nil)
		}
	}
	return n
}

func clip(s string, n int) string {
	if len(s) > n {
		return s[:n] + "..."
	}
	return s
}

// nearest describes how obs differs from the closest serial outcome (line diff).
func nearest(obs string, allowed map[string]string) string {
	ol := strings.Split(obs, "\n")
	best, bestOrder, bestN := []string(nil), "", -1
	for a, order := range allowed {
		al := strings.Split(a, "\n")
		set := map[string]int{}
		for _, l := range al {
			set[l]++
		}
		var diff []string
		for _, l := range ol {
			if set[l] > 0 {
				set[l]--
			} else {
				diff = append(diff, "+ "+clip(l, 400))
			}
		}
		for l, n := range set {
			for ; n > 0; n-- {
				diff = append(diff, "- "+clip(l, 400))
			}
		}
		if bestN < 0 || len(diff) < bestN {
			best, bestOrder, bestN = diff, order, len(diff)
		}
	}
	sort.Strings(best)
	if len(best) > 12 {
		best = append(best[:12], "...")
	}
	return fmt.Sprintf("Closest serial order [%s]; lines only in the interleaved outcome (+) / only in the serial one (-): %s", clip(bestOrder, 200), strings.Join(best, " || "))
}

func clipAllowed(allowed map[string]string) string {
	out := ""
	for obs, order := range allowed {
		out += fmt.Sprintf("{%s => %s} ", clip(order, 120), clip(obs, 300))
		if len(out) > 1500 {
			return out + "..."
		}
	}
	return out
}

// ExploreConc computes the serial outcomes, explores all schedules within the
// bound and records the statistics.
func ExploreConc(rep *kit.Report, env kit.Env, c Conc, bound int, top *int) Stats {
	var allowed map[string]string
	nser := 0
	if !c.InvariantOnly {
		allowed, nser = c.Serial()
	}
	sc := c.Scenario(allowed)
	st := Explore(rep, env, sc, bound, top)
	Record(rep, sc, st)
	rep.OutcomeN("sched:"+c.Name+" [serial orders run for the oracle]", int64(nser))
	return st
}

// FreeRunAll runs the free-running companion pass over all scenarios in two rounds:
// first two iterations of EVERY scenario (the race detector works on happens-before,
// so one overlap-free execution of two conflicting bodies is usually enough for a
// report - no scenario must be starved by the time budget on a loaded machine),
// then the remaining iterations. withSerial: judge outcomes by the serial orders.
func FreeRunAll(rep *kit.Report, env kit.Env, concs []Conc, withSerial bool, iters int) (n int64) {
	allowed := make([]map[string]string, len(concs))
	first := 2
	if iters < first {
		first = iters
	}
	for round, k := range []int{first, iters - first} {
		for i, c := range concs {
			if k <= 0 {
				continue
			}
			if env.Expired() {
				if round == 0 {
					rep.Cap(fmt.Sprintf("free-running companion pass: the time budget ended before every scenario had run once (%d of %d scenarios)", i, len(concs)))
				}
				return n
			}
			if withSerial && allowed[i] == nil {
				allowed[i], _ = c.Serial()
			}
			n += c.FreeRunConc(rep, env, allowed[i], k)
		}
	}
	return n
}
