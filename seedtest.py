#!/usr/bin/env python3
"""Confirm a seeded defect and run the property's check against it.

usage: seedtest.py <seed-out dir, e.g. /tmp/seed-out/c02/a> [--checks C02,C13] [--skip-confirm]

1. In a scratch worktree of /repo HEAD: apply patch; build; run the repository suite (must pass);
   run the demo with the patch (must fail) and without it (must pass).
2. Apply the patch to /repo itself, run the check(s), undo it straight afterwards.
3. Store patch, demo and meta under /verif/seeded/<ID>-<variant>/.
"""
import json, os, shutil, subprocess, sys, time

def sh(cmd, cwd=None, timeout=3000):
    env = dict(os.environ, GOFLAGS="-mod=mod", GOPROXY="off")
    p = subprocess.run(cmd, shell=True, cwd=cwd, env=env, stdout=subprocess.PIPE, stderr=subprocess.STDOUT, text=True, timeout=timeout)
    return p.returncode, p.stdout

def fixcmd(cmd, pid, wt):
    import re
    cmd = re.sub(r"/tmp/wt\d?-%s" % pid.lower(), wt, cmd)
    return re.sub(r"<repo[^>]*>", wt, cmd)


def main():
    src = sys.argv[1].rstrip("/")
    checks = None
    skip = "--skip-confirm" in sys.argv
    if "--checks" in sys.argv:
        checks = sys.argv[sys.argv.index("--checks") + 1].split(",")
    meta = json.load(open(os.path.join(src, "meta.json")))
    pid, var = meta["property"], meta.get("variant", "a")
    checks = checks or [pid]
    name = "%s-%s" % (pid, var)
    patch = os.path.join(src, "patch.diff")
    demo = os.path.join(src, "demo_test.go")
    res = {"property": pid, "variant": var, "summary": meta.get("summary"), "needs": meta.get("needs"),
           "demo_path": meta.get("demo_path"), "demo_cmd": meta.get("demo_cmd")}
    wt = "/tmp/wt-verify-%s" % name
    prev = os.path.join("/verif/seeded", name, "meta.json")
    if skip and os.path.exists(prev):
        old = json.load(open(prev))
        old.update({k: v for k, v in res.items() if v is not None})
        res = old
    if not skip:
        sh("git -C /repo worktree remove --force %s" % wt)
        rc, out = sh("git -C /repo worktree add -q --detach %s HEAD" % wt)
        assert rc == 0, out
        try:
            rc, out = sh("git apply %s" % patch, cwd=wt)
            res["applies"] = rc == 0
            if rc != 0:
                print("PATCH DOES NOT APPLY:\n", out); res["apply_error"] = out[-2000:]
            else:
                # the repository's suite has two flaky tests (mgr TestTaskRepeat* is timing
                # sensitive under load, m TestTable uses random prefixes): a run that fails
                # only in those is repeated, up to three runs.
                for attempt in range(3):
                    rc, out = sh("go build ./... && go test -vet=off -count=1 ./... 2>&1 | grep -v 'no test files' | tail -60", cwd=wt)
                    fails = [l for l in out.splitlines() if l.startswith("FAIL") or l.startswith("--- FAIL")]
                    named = [l for l in out.splitlines() if l.startswith("--- FAIL")]
                    flaky_only = fails and named and all(("TestTaskRepeat" in l or "TestTable" in l) for l in named)
                    if not flaky_only:
                        break
                    res["suite_note"] = "attempt %d failed only in the repository's flaky tests %s; repeated" % (attempt + 1, sorted(set(l.split()[2] for l in named)))
                res["suite_passes_with_patch"] = (rc == 0 and not fails)
                res["suite_output_tail"] = out[-1500:]
                shutil.copy(demo, os.path.join(wt, meta["demo_path"]))
                rc, out = sh(fixcmd(meta["demo_cmd"], pid, wt), cwd=wt)
                res["demo_fails_with_patch"] = rc != 0
                sh("git apply -R %s" % patch, cwd=wt)
                rc, out = sh(fixcmd(meta["demo_cmd"], pid, wt), cwd=wt)
                res["demo_passes_without_patch"] = rc == 0
                if rc != 0:
                    res["demo_pristine_output"] = out[-1500:]
        finally:
            sh("git -C /repo worktree remove --force %s" % wt)
    # run checks against /repo with the patch applied (exclusive use of /repo's tree).
    import fcntl
    lockf = open("/tmp/verif-repo.lock", "w")
    fcntl.flock(lockf, fcntl.LOCK_EX)
    os.environ["VERIF_LOCK_HELD"] = "1"
    rc, out = sh("git -C /repo status --porcelain")
    assert out.strip() == "", "/repo not clean: " + out
    rc, out = sh("git -C /repo apply %s" % patch)
    res["checks"] = {}
    if rc != 0:
        res["applies_to_repo"] = False
        print("patch does not apply to /repo:", out)
    else:
        try:
            for c in checks:
                t0 = time.time()
                rc, out = sh("./vcheck %s --tier quick" % c, cwd="/verif")
                lines = [l for l in out.splitlines() if l.startswith("VIOLATION") or l.startswith("  violation") or l.startswith("HARNESS")]
                res["checks"][c] = {"exit": rc, "detected": rc == 1, "wall_s": round(time.time() - t0, 1), "lines": lines[:6]}
        finally:
            sh("git -C /repo checkout -- .")
            sh("git -C /repo clean -fdq")
    dst = os.path.join("/verif/seeded", name)
    os.makedirs(dst, exist_ok=True)
    shutil.copy(patch, os.path.join(dst, "patch.diff"))
    shutil.copy(demo, os.path.join(dst, "demo_test.go"))
    res["ran"] = "seedtest.py: scratch worktree confirm (suite with patch, demo with/without patch), then `git -C /repo apply patch.diff; ./vcheck <ID> --tier quick; git -C /repo checkout -- .`"
    json.dump(res, open(os.path.join(dst, "meta.json"), "w"), indent=1)
    print(json.dumps({k: v for k, v in res.items() if k not in ("suite_output_tail",)}, indent=1))

main()
