#!/usr/bin/env python3
"""Re-run single mutants (by id from mutation/results.jsonl) against chosen checks,
on a private copy of the repository: mutone.py <check[,check]> <mutant id> [...]"""
import json, os, subprocess, sys
sys.path.insert(0, os.path.dirname(os.path.abspath(__file__)))
import mutate
checks = sys.argv[1].split(",")
rows = {}
import glob
for l in (x for fn in sorted(glob.glob(os.path.join(mutate.ROOT, "mutation", "results*.jsonl"))) for x in open(fn)):
    r = json.loads(l); rows[r["id"]] = r
repo = "/tmp/priv/repo"
PR = '/tmp/mutone-pristine'
mutate.pin(PR)
for mid in sys.argv[2:]:
    m = rows[mid]
    subprocess.run(["rsync", "-a", "--delete", PR + "/", repo + "/"], check=True)
    src = open(PR + "/" + m["file"], "rb").read()
    if src[m["start"]:m["end"]].decode() != m["old"]:
        print(mid, "STALE"); continue
    open(os.path.join(repo, m["file"]), "wb").write(src[:m["start"]] + m["new"].encode() + src[m["end"]:])
    for c in checks:
        rc, out = mutate.run([os.path.join(mutate.ROOT, "vcheck"), c, "--tier", "quick"], mutate.ROOT, 1500, mutate.goenv({"VERIF_REPO": repo}))
        keys = [l.strip()[:160] for l in out.splitlines() if "violation key" in l][:2]
        print(mid, c, "rc=%d" % rc, keys if rc == 1 else out.strip().splitlines()[-1][:160])
subprocess.run(["git", "-C", mutate.ROOT, "checkout", "evidence/"])
