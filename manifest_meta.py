# Human-written metadata per check for MANIFEST.json.
ENGINES = [
    {"name": "meshx", "path": "/verif/kit (world.go, node.go, conn.go)", "serves_properties": ["C01", "C04", "C05", "C06", "C07", "C08", "C09", "C10"],
     "kind_free_text": "event-level explorer over a world of real routers (real state/peering/switch/router modules per node) wired by virtual links or adversary-owned connections; one event = one synchronous call into the real handlers, virtual time via testing/synctest"},
    {"name": "seqx", "path": "/verif/kit (bfs.go) + /verif/checks/*", "serves_properties": ["C01", "C02", "C03", "C11", "C12", "C17", "C18", "C19"],
     "kind_free_text": "sequential bounded-exhaustive / explicit-state explorer over the real objects (fresh object + replay per path, canonical state hash)"},
]

PENDING = "harness not built yet in this session (planned in DESIGN.md; will be claimed when its check exists)"
NOT_APPLICABLE = [{"property_id": "C%02d" % i, "reason": PENDING} for i in range(1, 21)]

META = {
    "C01": {
        "engine": "seqx+meshx",
        "technique": "bounded exhaustive deviation enumeration (singles, pairs, self-consistent forgeries) at every entry point of the real code vs reference predicate",
        "design_ref": "DESIGN.md §2 C01",
        "text": "A valid identity, every single field deviation (all 128 address bits, foreign/invalid addresses, all 14 other known and 4 unknown hash names, 5 key-type names, all 256 key bits, odd key sizes, easing values) and ~50 self-consistent forgeries (address recomputed to be the digest of a malformed identity) are presented at all six entry points: VerifyAddress, AddressFromStorage (plus 7 private-key corruptions), AddressFromKeyPair, a first-contact ping header handled by a real router, a peering request on a real link setup (synctest bubble, adversary-owned connection) and a gossip hop record; all pairs of deviations at the pure entry points; bad->good and good->bad presentation sequences on one long-lived router; the generator over all satisfiable subsets of a 5-prefix acceptable x 4-prefix ignore alphabet x two easing limits. Verdicts are compared with an independently computed reference predicate; rejection must leave no session or stored record and no panic anywhere.",
        "note": "Digest primitives of crop are trusted; key material space is sampled by construction (one to three base identities), the deviation space around it is exhaustive; network entry points observe acceptance as 'a record for the presented address exists afterwards'.",
    },
    "C17": {
        "engine": "seqx",
        "technique": "depth-bounded exhaustive operation sequences on a shared real frame builder vs byte-level shadow model (deterministic pools)",
        "design_ref": "DESIGN.md §2 C17",
        "text": "Every sequence of up to 4 (thorough 5) operations over new (sizes at every pooled tier boundary), parse (of a live frame's bytes and of canned network bytes, through a pooled slice like the link reader), clone, reply/replyTo, set-appendix (0, small, tier-crossing, 10000, 10001), mutate, set-link and release, with at most three live frames on one shared builder, is executed on the real code; after every step every live frame is compared byte-for-byte and field-for-field (addresses, type, block lengths, receive link) with a shadow model, new/parsed frames are checked for stale bytes in their margins and stale link references, and appendix growth must succeed up to the protocol limit while keeping the link margins. Pools are deterministic (single P, GC off) and a gate proves that recycling happens.",
        "note": "sync.Pool determinism relies on GOMAXPROCS(1)+GC off (gate checked at start); sizes between the enumerated tier-boundary sizes are assumed to behave alike; concurrency of pool use is out of scope here.",
    },
    "C18": {
        "engine": "seqx+vos",
        "technique": "exhaustive crash-point enumeration (every step boundary, every byte offset of every write) of the real save path over an in-memory file system, recovery by the real loader",
        "design_ref": "DESIGN.md §2 C18",
        "text": "The storage package is compiled with its os import rewritten (build overlay generated from /repo's current tree) to an in-memory file system that logs open/truncate, write, close, rename and remove steps and can kill the process before any step or at any byte offset of a write. For states of {0,1,2,5}x{0,1,2,5} routers/mappings in three value flavours (empty, unicode, 4 kB and JSON-hostile strings, nil/present public info, offline flag, used/unused) plus a 50- (thorough 200-) entry state, over three previous-file situations (absent, two other complete states), the real Stop() is run once to obtain the step log and then once per crash point; the real NewJSONFileStorage must load the image and the loaded content (every router field incl. timestamps, every mapping) must equal the previous or the new state. Save->load equality is checked for every state.",
        "note": "Crash model is process kill (completed steps persist, in-progress write persists a prefix), as in the statement; power-loss write reordering and fsync semantics are out of scope. Large writes are covered at every offset in the first/last 1 kB and every 97th offset in between (cap stated in the evidence).",
    },
    "C19": {
        "engine": "seqx",
        "technique": "exhaustive configuration x mapping-history x query enumeration on the real DNS server vs reference precedence function",
        "design_ref": "DESIGN.md §2 C19",
        "text": "For each of 13 names (built-in, forbidden, ordinary incl. sub-name / mixed-case / trailing-dot config spellings, IDN, non-.myco and edge names), every subset of {resolve entry, friend} holding it, and every history of up to 2 (thorough 3) mapping operations (save with two different addresses, delete, on the name and on an unrelated name) a real dns.Server is built over the real config parser and MemStorage; every query variant (3 case variants x trailing dot x 9 qtypes x 5 qclasses x question count 0/1/2) goes through the real ServeDNS and is compared with a reference precedence function (rcode, returned address, source tag); Lookup is compared directly too. Exhaustive over that grid.",
        "note": "Wire-level parsing is miekg/dns's; mixed-case friend names in the configuration are excluded (unspecified by the statement); pairwise different addresses per source make the winning source identifiable.",
    },
    "C02": {
        "engine": "seqx",
        "technique": "exhaustive input cross product + every-bit mutation of real sealed frames vs reference layout",
        "design_ref": "DESIGN.md §2 C02",
        "text": "Full cross product of the 7 message types x 11 payload sizes (1..10000, around every pooled-buffer tier) x 5 switch-block sizes (0..255) x 4 appendix sizes x 3 builder margins is sealed by A and unsealed at B (exact payload/switch/appendix/addresses), unsealed under four wrong sessions (other sender, sender's own, other receiver, other key exchange) and scanned for clear-text payload windows. For a sub-grid every single bit of the serialized frame is flipped and the outcome compared with a layout computed from sizes only (TTL, flow flags, appendix harmless; everything else must fail); harmless flips use freshly sealed frames so the replay filter cannot mask the verdict. Exhaustive over the stated grid and all bit positions.",
        "note": "Trusts the AEAD/signature primitives; sizes between grid points assumed to behave like grid points; multi-bit mutations are not enumerated (single-bit detection by a MAC/signature over the covered range implies coverage, which is what is being established).",
    },
    "C03": {
        "engine": "seqx",
        "technique": "exhaustive enumeration of delivery histories on the real handlers/frames vs reference set model",
        "design_ref": "DESIGN.md §2 C03",
        "text": "All delivery histories of length 6 (thorough 7) over four 6-number alphabets (contiguous, straddling the 64-frame window edge twice, near 2^32) are delivered to the bare sequence handler, to real end-to-end frames sealed by A and unsealed at B (regular and priority class), and to real link frames; signed class: all words over 5 timestamps through the bare time handler and real signed frames. Each delivery is judged by a reference model (accepted set + maximum): never accepted twice; fresh and within 64 of the newest => accepted; signed => strictly increasing. Complete for the stated alphabets and length, which covers reordering, duplication and loss in every combination.",
        "note": "Numbers outside the alphabets are assumed to behave like those inside; the key-rollover zone (>= 0xFFFFFF00) is excluded here and covered by C15.",
    },
    "C04": {
        "engine": "meshx (real links)",
        "technique": "exhaustive fault enumeration on the six handshake messages of the real link setup over an adversary-owned connection (synctest bubble), plus an active impostor speaking the protocol",
        "design_ref": "DESIGN.md §2 C04",
        "text": "Two real Peering instances run the real handleSetup (hook VerifSetupLink) over an in-memory connection whose every message the harness sees and whose every read it feeds; executions are made deterministic by a synctest bubble (quiescence instead of timeouts). Configurations: identity pairs incl. self-connection x universe {same, different, empty} x secret {same, different, only A, only B, none}. Faults per message: every bit of every byte (one configuration in full; others header/edges/signature), truncation to every length, drop, duplicate, replay of the same-position message of a previous complete session of the same pair, reflection to the sender - under both dispatch orders of simultaneous messages. Oracles: a registered link names the true peer and the configuration admits it (same universe; own secret => peer proved it); the receiver of an altered/truncated/replayed/reflected message registers nothing; without fault both ends register and three frames per direction sent through the link arrive byte-identical. An active impostor with its own key pair speaks the full protocol claiming another router's address over connection sequences (forged key first, then the genuine address; victim known/unknown): no link may ever be registered.",
        "note": "Length-prefix and TTL/flow bits are unauthenticated; for them only the safety oracle applies. The adversary holds no honest private key. Swaps of messages within one direction are causally impossible in this lock-step protocol and therefore not enumerated.",
    },
    "C05": {
        "engine": "meshx (real links)",
        "technique": "exhaustive fault enumeration on the byte stream of a real established link (synctest bubble, adversary-owned connection)",
        "design_ref": "DESIGN.md §2 C05",
        "text": "Per execution a real link pair is established by the real handshake; the sender hands frames (4 message types x 6 sizes up to the 10000-byte maximum, priority and regular queues, both directions) to the real link object, the adversary holds the written link frames and feeds the receiver's real reader a manipulated stream: every bit of every byte of two small link frames (prefix, header, ciphertext, MAC) and one bit per byte of a 1500-byte frame, truncation at every offset, all words of length <= 2 (thorough 3) over {dup, drop, swap} on three frames, replays, a spliced frame of the reverse direction, well-framed garbage with every length prefix 0..40 in three fill patterns, raw injected bytes of nine lengths; then two intact frames follow. Oracles: everything reaching the remote frame-handler channel is byte-identical to a handed frame and arrives at most once; untouched frames still arrive when framing is intact; afterwards intact frames arrive or the link is closing; no worker panic (worker-panic alerts of the module manager); no 8-byte window of any payload on the wire.",
        "note": "Faults that destroy stream framing (truncation, length-prefix flips, raw injections) are judged by the safety oracles only. One link per execution; concurrency between reader and writer is bounded by bubble quiescence between adversary actions.",
    },
    "C06": {
        "engine": "meshx",
        "technique": "exhaustive configuration x packet enumeration through the real config parser and router handlers vs reference policy model (with flow-verdict memo)",
        "design_ref": "DESIGN.md §2 C06",
        "text": "Every single-service configuration (6 schemes x explicit/default port x 5 access rules x 3 friend sets x isolation on/off; thorough: all ordered pairs of services incl. colliding protocol-port keys, which the parser must reject) goes through the real Store parser into a real router with four real, keyed neighbours (two friends, a listed address, a stranger). Inbound: sender x protocol {0,1,6,17,58,255} x port {0,80,443,8080,81} x one deviation of (inner source, inner destination, frame sealed by another router / garbage), sealed with the sender's real session and injected over its link; outbound: own/foreign source x friend/stranger/listed/multicast/non-Mycoria/unrouted destination x protocol, through the real tun handler in virtual time; two-step sequences over mirrored 5-tuples. What reaches the tun device (byte-exact) and the mesh is compared with a 30-line reference derived from the configuration's intent, including the by-design flow-verdict memo.",
        "note": "The flow-verdict cache is treated as by design and mirrored in the reference; panics of the handlers are counted here but reported under C13; the local API address as a destination is excluded (no netstack in the harness).",
    },
    "C07": {
        "engine": "meshx",
        "technique": "exhaustive single-bit / re-address / re-seal / replay fault enumeration on real pings delivered to a real router, snapshot comparison",
        "design_ref": "DESIGN.md §2 C07",
        "text": "In a fresh world of six real routers (R with peers X, Y, Z, a populated routing table covering every 3-router path shape, connection verdicts and keyed sessions) each of 14 ping kinds (hello req/resp, pong req/resp, error codes 0-4 and unknown, disconnect going-down/list, announce with 0 and 1 hop) is produced by X's real sender code and delivered to R after: every single-bit flip of every authenticated header byte, the length fields and the signature/MAC plus one bit per body byte (thorough: all bits); rewriting source or destination; re-sealing the same content by Y or Z claiming X's address; four first-contact variants (right key / wrong key / key of another address / no key) x four ping types; replay of the exact frame after {nothing, a newer ping from X, a ping from Y, +31 s}. A snapshot (routing table via VerifEntries, session set-up flags and key fingerprints, peer MTU, stored public info and offline flags, connection verdicts) must be unchanged for everything that does not verify; the valid ping's effect is bounded per kind (hello: only session(X); disconnect: only routes containing X, and all of them).",
        "note": "Bare identity records (address+key, no keys/MTU/info) are normalised away: the statement's state list does not contain them and C01 governs them. Disconnect pings are addressed to the router itself because, as emitted by the real sender (unicast type to the multicast address), they are never dispatched to the disconnect handler.",
    },
    "C08": {
        "engine": "meshx",
        "technique": "exhaustive bit-flip and structural fault enumeration on real signed hop-record chains delivered to a real router, with a log of honestly produced records as oracle",
        "design_ref": "DESIGN.md §2 C08",
        "text": "For chain lengths 0..3 (thorough 0..5) a fresh world of real routers (two origins O and O2, relays H1..Hk, receiver R with two more peers) lets announcements of O at two times and of O2 propagate through the real forwarding code up to R's inbound link. The first announcement is then delivered after: every bit flip of the frame (quick: all header bits, one bit per byte beyond, all bits of the signature head), strip-outermost-j, strip-innermost, swap, duplicate, inner chain / appendix / body substituted from the other time or the other origin, re-attribution of every record to three other identities, impersonation of a router R already knows with the attacker's key embedded, wrapping by a non-delivering router, delivery over a different link - each as-is and re-signed by the (malicious, key-owning) delivering peer - and two-step histories where the genuine announcement is accepted first and a tampered copy with the same origin timestamp follows. Rejection = R's table unchanged and no announcement emitted; every acceptance is validated: route hops = [R, signers in order with signed delay/labels, origin], next hop = delivering peer, every record byte-identical to one logged from its signer for this (origin, timestamp, signature).",
        "note": "A malicious delivering peer can always sign a record of its own that omits inner hops (shortcut lie) - the statement only forbids naming routers that did not sign; such cases are judged by the acceptance oracle, not expected to be rejected. Frames whose type byte is mutated into a unicast type are relayed as transit traffic (unauthenticated by design) and not counted as forwarded announcements.",
    },
    "C09": {
        "engine": "meshx",
        "technique": "explicit-state BFS over all delivery orders of in-flight frames in worlds of real routers (tiny meshes), deterministic-discipline enumeration for larger meshes",
        "design_ref": "DESIGN.md §2 C09",
        "text": "Exhaustive tier: for every connected labelled graph on 2 and 3 routers (x label-size assignments, router-info sizes 0/450/1300 B, clock tick) with every router announcing as announceRouter does - and for 4-router graphs for every single announcement (origin x Send call) - ALL delivery orders of in-flight frames are explored breadth-first, each state reached by replaying the delivery path on a fresh world of real routers, deduplicated on (all routing tables, canonical nonce-free in-flight multiset). Every emitted frame is checked against the flooding rules (each (announcement, path) at most once, never to the origin, never back over the receive link, never to a router in the hop list, no repeated router) and every quiescent state against reach: exact destination route at every router for every announcing router, and walking the route's forward labels through the real GetLinkByLabel maps arrives there; a frame dropped by the (mirrored) link writer is reported. Larger meshes (lines, rings, stars, trees, grids, pseudo-random graphs up to 8 quick / 16 thorough routers) run under four deterministic delivery disciplines; a byte-by-byte router-info size sweep across the pooled-buffer tiers runs on short lines.",
        "note": "All-orders exploration is limited to n<=3 (all announcing; the triangle with all three announcing only in the thorough tier under a state cap) and single announcements for n=4; beyond that the delivery disciplines are fixed, enumerated and not exhaustive - stated in the evidence. Deliveries are atomic (sequential world).",
    },
    "C10": {
        "engine": "meshx",
        "technique": "exhaustive enumeration of forwarding states (next-hop assignments, switch blocks, TTLs) and of router pairs in converged worlds of real routers, with every link crossing checked",
        "design_ref": "DESIGN.md §2 C10",
        "text": "(a) Converged meshes built by real gossip (all connected graphs on 2-3 routers, most/all on 4, lines/rings/stars/trees/grids up to 8 quick / 16 thorough routers, 1- and 2-byte labels): for every ordered pair a routed ping-pong must complete and no router other than A and B may originate a frame; network traffic between every pair of tun-equipped routers across relays with and without a tun interface must arrive exactly once at B's interface and nowhere else. (b) On complete graphs of 2-4 routers every assignment of 'next hop towards D' per router (all cycles, dead ends) x initial TTL {0,1,2,3,32,255} x message class is installed and a routed frame injected; label-switched frames with ten switch-block shapes (valid, cyclic, too short for the return label, zero-first, dangling, non-terminated, huge varint, full 255) x label sizes x TTLs are injected on three graphs. Every link crossing of the injected frame is logged and checked: TTL strictly decreasing and never 0 on the wire, crossings <= TTL0-1, all bytes outside TTL / flow flags / switch block preserved.",
        "note": "Transit relaying is unauthenticated by design, so injected frames carry no valid seal; a unicast frame has one frame in flight at a time, so the sequential world covers its delivery order completely; adversarial tables are limited to 4 routers.",
    },
    "C11": {
        "engine": "seqx",
        "technique": "explicit-state BFS over operation sequences on the real routing table (virtual clock) with per-operation post-conditions and invariants",
        "design_ref": "DESIGN.md §2 C11",
        "text": "Breadth-first search over all operation sequences to depth 4-6 (thorough 5-7) in seven scenarios: a one-prefix table with limit 1 and a 25-op alphabet (peer adds as AddLink/announce build them, gossip adds with 2/3-hop paths and two delays, RemoveNextHop, RemoveDisconnected with/without peer list, Clean, +11min/+4h), the own-country/region bucket pair of a zero-marker country with limits shrunk to 1, the shipped configuration (32/64/1024) of four router address classes with Fill macro-ops so the real limits bind, and the default configuration. Each transition is a fresh real table + replay in a synctest bubble; states are deduplicated on (snapshot via VerifEntries, clock). Every operation is checked against its post-condition (added => present / not added => unchanged, removals remove exactly the named routes, Clean removes only expired or over-limit gossip routes and never a peer) and every state against the invariants (<=3 non-peer routes per destination, per-prefix bounds, exact best-first peer-first lookups for every probe address).",
        "note": "Routes are restricted to system-producible shapes; address universes are small (5-8 addresses) except in the Fill scenarios; states reached only beyond the depth bound are not covered.",
    },
    "C12": {
        "engine": "seqx",
        "technique": "bounded exhaustive enumeration of label vectors on the real switch-label code vs list-level reference simulation",
        "design_ref": "DESIGN.md §2 C12",
        "text": "Every label vector over size-class representatives (hop counts 2..4 full cross product, 5..6/7 boundary representatives) and every uniform / single-odd-one-out pattern up to 131 hops is traversed forward and back through the real rotate/reverse/build functions inside guarded buffers and compared with an independent simulation on label lists; block size is compared with an independently computed maximum over rotation states (sufficient and minimal). Exhaustive within those bounds, which is the right level for a pure function of a small structured input.",
        "note": "Assumes labels within one varint size class behave like the class representatives; hop counts above 7 are covered only by uniform and one-deviation patterns.",
    },
}
