# Human-written metadata per check for MANIFEST.json.
ENGINES = [
    {"name": "seqx", "path": "/verif/kit (bfs.go) + /verif/checks/*", "serves_properties": ["C12"],
     "kind_free_text": "sequential bounded-exhaustive / explicit-state explorer over the real objects (fresh object + replay per path, canonical state hash)"},
]

PENDING = "harness not built yet in this session (planned in DESIGN.md; will be claimed when its check exists)"
NOT_APPLICABLE = [{"property_id": "C%02d" % i, "reason": PENDING} for i in range(1, 21)]

META = {
    "C12": {
        "engine": "seqx",
        "technique": "bounded exhaustive enumeration of label vectors on the real switch-label code vs list-level reference simulation",
        "design_ref": "DESIGN.md §2 C12",
        "text": "Every label vector over size-class representatives (hop counts 2..4 full cross product, 5..6/7 boundary representatives) and every uniform / single-odd-one-out pattern up to 131 hops is traversed forward and back through the real rotate/reverse/build functions inside guarded buffers and compared with an independent simulation on label lists; block size is compared with an independently computed maximum over rotation states (sufficient and minimal). Exhaustive within those bounds, which is the right level for a pure function of a small structured input.",
        "note": "Assumes labels within one varint size class behave like the class representatives; hop counts above 7 are covered only by uniform and one-deviation patterns.",
    },
}
