// Package vos is an in-memory stand-in for the subset of package os that the
// storage package uses. It is injected by a build overlay as
// github.com/mycoria/mycoria/zz_verif/vos and the storage package's import of
// "os" is rewritten to it, so the code under test stays the code in /repo.
//
// Every call is decomposed into steps (open+truncate, write, close, rename,
// remove) that are logged; a crash plan kills the "process" (panic with Crash)
// before a given step or in the middle of a write, leaving the file system
// image exactly as a killed process would leave it: completed steps persist, an
// in-progress write persists an arbitrary prefix.
package vos

import (
	"errors"
	"io/fs"
	"sort"
	"sync"
)

// FileMode mirrors os.FileMode.
type FileMode = fs.FileMode

// ErrNotExist mirrors os.ErrNotExist.
var ErrNotExist = fs.ErrNotExist

// ErrExist mirrors os.ErrExist.
var ErrExist = fs.ErrExist

// Crash is the panic value used to kill the process.
type Crash struct{ Step int }

// Step is one logged file system step.
type Step struct {
	Kind string // "open-trunc", "write", "close", "rename", "remove"
	Name string
	To   string
	Size int
}

var (
	mu        sync.Mutex
	files     = map[string][]byte{}
	log       []Step
	crashStep = -1
	crashOff  = 0
)

// Reset empties the file system, the log and the crash plan.
func Reset() {
	mu.Lock()
	defer mu.Unlock()
	files = map[string][]byte{}
	log = nil
	crashStep = -1
}

// SetFile installs a file.
func SetFile(name string, data []byte) {
	mu.Lock()
	defer mu.Unlock()
	files[name] = append([]byte(nil), data...)
}

// GetFile returns a file's content.
func GetFile(name string) ([]byte, bool) {
	mu.Lock()
	defer mu.Unlock()
	d, ok := files[name]
	return append([]byte(nil), d...), ok
}

// Names returns all file names.
func Names() []string {
	mu.Lock()
	defer mu.Unlock()
	var out []string
	for n := range files {
		out = append(out, n)
	}
	sort.Strings(out)
	return out
}

// Log returns the steps logged since the last ClearLog / Reset.
func Log() []Step {
	mu.Lock()
	defer mu.Unlock()
	return append([]Step(nil), log...)
}

// ClearLog clears the step log (and with it the step counter).
func ClearLog() {
	mu.Lock()
	defer mu.Unlock()
	log = nil
}

// CrashAt arms the crash plan: the process dies when step number `step`
// (0-based, counted from the last ClearLog) is about to run; for a write step,
// the first `offset` bytes of it persist.
func CrashAt(step, offset int) {
	mu.Lock()
	defer mu.Unlock()
	crashStep, crashOff = step, offset
}

// Disarm removes the crash plan.
func Disarm() {
	mu.Lock()
	defer mu.Unlock()
	crashStep = -1
}

// step logs a step and reports whether the process must die now.
// Must be called with mu held.
func step(s Step) bool {
	idx := len(log)
	log = append(log, s)
	return idx == crashStep
}

// ReadFile mirrors os.ReadFile.
func ReadFile(name string) ([]byte, error) {
	mu.Lock()
	defer mu.Unlock()
	d, ok := files[name]
	if !ok {
		return nil, &fs.PathError{Op: "open", Path: name, Err: fs.ErrNotExist}
	}
	return append([]byte(nil), d...), nil
}

// WriteFile mirrors os.WriteFile: open with O_TRUNC|O_CREATE, write, close.
func WriteFile(name string, data []byte, perm FileMode) error {
	mu.Lock()
	if step(Step{Kind: "open-trunc", Name: name}) {
		mu.Unlock()
		panic(Crash{len(log) - 1})
	}
	files[name] = []byte{}
	if step(Step{Kind: "write", Name: name, Size: len(data)}) {
		off := crashOff
		if off > len(data) {
			off = len(data)
		}
		files[name] = append([]byte(nil), data[:off]...)
		mu.Unlock()
		panic(Crash{len(log) - 1})
	}
	files[name] = append([]byte(nil), data...)
	if step(Step{Kind: "close", Name: name}) {
		mu.Unlock()
		panic(Crash{len(log) - 1})
	}
	mu.Unlock()
	return nil
}

// Rename mirrors os.Rename (atomic replace).
func Rename(oldpath, newpath string) error {
	mu.Lock()
	if step(Step{Kind: "rename", Name: oldpath, To: newpath}) {
		mu.Unlock()
		panic(Crash{len(log) - 1})
	}
	defer mu.Unlock()
	d, ok := files[oldpath]
	if !ok {
		return &fs.PathError{Op: "rename", Path: oldpath, Err: fs.ErrNotExist}
	}
	files[newpath] = d
	delete(files, oldpath)
	return nil
}

// Remove mirrors os.Remove.
func Remove(name string) error {
	mu.Lock()
	if step(Step{Kind: "remove", Name: name}) {
		mu.Unlock()
		panic(Crash{len(log) - 1})
	}
	defer mu.Unlock()
	if _, ok := files[name]; !ok {
		return &fs.PathError{Op: "remove", Path: name, Err: fs.ErrNotExist}
	}
	delete(files, name)
	return nil
}

// Flags mirroring package os.
const (
	O_RDONLY = 0x0
	O_WRONLY = 0x1
	O_RDWR   = 0x2
	O_APPEND = 0x400
	O_CREATE = 0x40
	O_EXCL   = 0x80
	O_SYNC   = 0x101000
	O_TRUNC  = 0x200
)

// File mirrors the part of *os.File used for writing files.
type File struct {
	name   string
	pos    int
	append bool
	closed bool
}

// OpenFile mirrors os.OpenFile for writing (and creating) files.
func OpenFile(name string, flag int, perm FileMode) (*File, error) {
	mu.Lock()
	kind := "open"
	if flag&O_TRUNC != 0 {
		kind = "open-trunc"
	}
	if step(Step{Kind: kind, Name: name}) {
		mu.Unlock()
		panic(Crash{len(log) - 1})
	}
	defer mu.Unlock()
	_, exists := files[name]
	switch {
	case !exists && flag&O_CREATE == 0:
		return nil, &fs.PathError{Op: "open", Path: name, Err: fs.ErrNotExist}
	case exists && flag&O_CREATE != 0 && flag&O_EXCL != 0:
		return nil, &fs.PathError{Op: "open", Path: name, Err: fs.ErrExist}
	case !exists:
		files[name] = []byte{}
	}
	if flag&O_TRUNC != 0 {
		files[name] = []byte{}
	}
	return &File{name: name, append: flag&O_APPEND != 0}, nil
}

// Create mirrors os.Create.
func Create(name string) (*File, error) { return OpenFile(name, O_RDWR|O_CREATE|O_TRUNC, 0o666) }

// Name mirrors (*os.File).Name.
func (f *File) Name() string { return f.name }

// Write mirrors (*os.File).Write: bytes are written at the file position; a
// crash in the middle persists an arbitrary prefix of this write.
func (f *File) Write(p []byte) (int, error) {
	mu.Lock()
	if f.closed {
		mu.Unlock()
		return 0, fs.ErrClosed
	}
	apply := func(n int) {
		cur := files[f.name]
		pos := f.pos
		if f.append {
			pos = len(cur)
		}
		for len(cur) < pos+n {
			cur = append(cur, 0)
		}
		copy(cur[pos:], p[:n])
		files[f.name] = cur
		f.pos = pos + n
	}
	if step(Step{Kind: "write", Name: f.name, Size: len(p)}) {
		off := crashOff
		if off > len(p) {
			off = len(p)
		}
		apply(off)
		mu.Unlock()
		panic(Crash{len(log) - 1})
	}
	apply(len(p))
	mu.Unlock()
	return len(p), nil
}

// WriteString mirrors (*os.File).WriteString.
func (f *File) WriteString(s string) (int, error) { return f.Write([]byte(s)) }

// Sync mirrors (*os.File).Sync (a no-op in the process-kill model, but a step).
func (f *File) Sync() error {
	mu.Lock()
	if step(Step{Kind: "sync", Name: f.name}) {
		mu.Unlock()
		panic(Crash{len(log) - 1})
	}
	mu.Unlock()
	return nil
}

// Close mirrors (*os.File).Close.
func (f *File) Close() error {
	mu.Lock()
	if step(Step{Kind: "close", Name: f.name}) {
		mu.Unlock()
		panic(Crash{len(log) - 1})
	}
	f.closed = true
	mu.Unlock()
	return nil
}

// MkdirAll mirrors os.MkdirAll (directories are implicit).
func MkdirAll(path string, perm FileMode) error { return nil }

// Chmod mirrors os.Chmod (no-op).
func Chmod(name string, mode FileMode) error { return nil }

// IsNotExist mirrors os.IsNotExist.
func IsNotExist(err error) bool { return errors.Is(err, fs.ErrNotExist) }
