# Registry of checks: property id -> harness package, test function, level.
CHECKS = {
    "C12": {"pkg": "checks/c12", "test": "TestC12", "level": "exploration", "shards": 16},
}
