# Registry of checks: property id -> harness package, test function, level.
CHECKS = {
    "C02": {"pkg": "checks/c02", "test": "TestC02", "level": "exploration", "shards": 16},
    "C03": {"pkg": "checks/c03", "test": "TestC03", "level": "model_checking", "shards": 16},
    "C12": {"pkg": "checks/c12", "test": "TestC12", "level": "exploration", "shards": 16},
}
