# Registry of checks: property id -> harness package, test function, level.
CHECKS = {
    "C01": {"pkg": "checks/c01", "test": "TestC01", "level": "model_checking", "shards": 16},
    "C02": {"pkg": "checks/c02", "test": "TestC02", "level": "exploration", "shards": 16},
    "C03": {"pkg": "checks/c03", "test": "TestC03", "level": "model_checking", "shards": 16},
    "C04": {"pkg": "checks/c04", "test": "TestC04", "level": "model_checking", "shards": 16},
    "C05": {"pkg": "checks/c05", "test": "TestC05", "level": "model_checking", "shards": 16},
    "C06": {"pkg": "checks/c06", "test": "TestC06", "level": "model_checking", "shards": 16},
    "C07": {"pkg": "checks/c07", "test": "TestC07", "level": "model_checking", "shards": 16},
    "C08": {"pkg": "checks/c08", "test": "TestC08", "level": "model_checking", "shards": 16},
    "C09": {"pkg": "checks/c09", "test": "TestC09", "level": "model_checking", "shards": 16, "budget_s": {"quick": 90, "thorough": 1500}},
    "C10": {"pkg": "checks/c10", "test": "TestC10", "level": "model_checking", "shards": 16},
    "C11": {"pkg": "checks/c11", "test": "TestC11", "level": "model_checking", "shards": 16, "budget_s": {"quick": 100, "thorough": 1500}},
    "C12": {"pkg": "checks/c12", "test": "TestC12", "level": "exploration", "shards": 16},
    "C17": {"pkg": "checks/c17", "test": "TestC17", "level": "model_checking", "shards": 16, "gomaxprocs": 1},
    "C18": {"pkg": "checks/c18", "test": "TestC18", "level": "fault_enumeration", "shards": 16,
            "overlay": {"name": "c18", "os_to_vos": ["storage/storage_json.go"]}},
    "C19": {"pkg": "checks/c19", "test": "TestC19", "level": "model_checking", "shards": 16},
}
