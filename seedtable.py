#!/usr/bin/env python3
"""Regenerates the seeded-defect table inside DESIGN.md from /verif/seeded/*/meta.json."""
import glob, json, os, re
rows = []
for d in sorted(glob.glob('/verif/seeded/*/meta.json')):
    m = json.load(open(d))
    name = os.path.basename(os.path.dirname(d))
    det = []
    for c, v in (m.get('checks') or {}).items():
        det.append("%s: %s" % (c, "DETECTED" if v.get('detected') else "missed"))
    summ = (m.get('summary') or '').replace('|', '/').replace('\n', ' ')
    if len(summ) > 150:
        summ = summ[:147] + '...'
    conf = "yes" if m.get('suite_passes_with_patch') and m.get('demo_fails_with_patch') and m.get('demo_passes_without_patch') else "partly"
    rows.append("| %s | %s | %s | %s |" % (name, summ, conf, ", ".join(det)))
table = "| seed | change | confirmed (suite passes, demo fails with / passes without) | quick check |\n|---|---|---|---|\n" + "\n".join(rows)
p = '/verif/DESIGN.md'
s = open(p).read()
if 'SEEDTABLE' in s:
    s = s.replace('SEEDTABLE', '<!-- seedtable:begin -->\n' + table + '\n<!-- seedtable:end -->')
else:
    s = re.sub(r'<!-- seedtable:begin -->.*?<!-- seedtable:end -->', '<!-- seedtable:begin -->\n' + table + '\n<!-- seedtable:end -->', s, flags=re.S)
open(p, 'w').write(s)
print("rows:", len(rows))
