// Package vnet replaces the "net" import of peering/protocol_tcp.go (build overlay,
// see overlay.py): with no virtual network installed it passes everything through
// to the real package; with one installed (Install) Listen and Dial operate on an
// in-memory network whose connections are message-preserving pipes built on
// sync.Cond - durably blocking inside a testing/synctest bubble - and whose
// operations consult a fault plan. Every operation gets a stable name
// (connection number in dial order, side, kind, index on that side) so that a
// fault point of one run can be addressed in the next.
package vnet

import (
	"context"
	"errors"
	"fmt"
	"io"
	"net"
	"sort"
	"sync"
	"time"
)

// Re-exports used by the rewritten file.
type (
	Conn     = net.Conn
	Listener = net.Listener
	Addr     = net.Addr
)

// JoinHostPort is net.JoinHostPort.
func JoinHostPort(host, port string) string { return net.JoinHostPort(host, port) }

// Dialer mirrors the fields of net.Dialer that the code under test sets.
type Dialer struct {
	Timeout       time.Duration
	FallbackDelay time.Duration
	KeepAlive     time.Duration
}

// DialLatency is the virtual time one connection attempt takes.
const DialLatency = 2 * time.Millisecond

// ErrInjected is returned by faulted operations.
var ErrInjected = &net.OpError{Op: "verif", Net: "tcp", Err: errors.New("injected i/o failure")}

// ErrRefused is returned by a dial to an address nobody listens on.
var ErrRefused = &net.OpError{Op: "dial", Net: "tcp", Err: errors.New("connection refused")}

// Network is an in-memory network.
type Network struct {
	mu        sync.Mutex
	listeners map[string]*vListener
	conns     int
	dials     int
	accepts   map[string]int
	// Fault decides whether the operation with this name fails. Called with the network lock NOT held.
	Fault func(op string) bool
	// Ops records every operation name in the order of its start (diagnostic; order across
	// goroutines is not deterministic, the SET of names is what the harness uses).
	ops map[string]int
	// Listens counts successful Listen calls per address.
	Listens map[string]int
}

var (
	instMu sync.Mutex
	inst   *Network
)

// Install makes n the network used by Listen and Dial (nil: the real network).
func Install(n *Network) {
	instMu.Lock()
	inst = n
	instMu.Unlock()
}

func current() *Network {
	instMu.Lock()
	defer instMu.Unlock()
	return inst
}

// New returns an empty network.
func New() *Network {
	return &Network{listeners: map[string]*vListener{}, accepts: map[string]int{}, ops: map[string]int{}, Listens: map[string]int{}}
}

func (n *Network) hit(op string) bool {
	n.mu.Lock()
	n.ops[op]++
	f := n.Fault
	n.mu.Unlock()
	return f != nil && f(op)
}

// OpNames returns the sorted names of all operations that were started.
func (n *Network) OpNames() []string {
	n.mu.Lock()
	defer n.mu.Unlock()
	out := make([]string, 0, len(n.ops))
	for k := range n.ops {
		out = append(out, k)
	}
	sort.Strings(out)
	return out
}

// Listening reports whether somebody listens on the address.
func (n *Network) Listening(address string) bool {
	n.mu.Lock()
	defer n.mu.Unlock()
	return n.listeners[address] != nil
}

// Listen is net.Listen.
func Listen(network, address string) (Listener, error) {
	n := current()
	if n == nil {
		return net.Listen(network, address)
	}
	n.mu.Lock()
	defer n.mu.Unlock()
	if n.listeners[address] != nil {
		return nil, &net.OpError{Op: "listen", Net: network, Err: errors.New("address already in use")}
	}
	l := &vListener{n: n, address: address}
	l.cond = sync.NewCond(&l.mu)
	n.listeners[address] = l
	n.Listens[address]++
	return l, nil
}

// DialContext is (*net.Dialer).DialContext.
func (d *Dialer) DialContext(ctx context.Context, network, address string) (Conn, error) {
	n := current()
	if n == nil {
		rd := &net.Dialer{Timeout: d.Timeout, FallbackDelay: d.FallbackDelay, KeepAlive: d.KeepAlive}
		return rd.DialContext(ctx, network, address)
	}
	if err := ctx.Err(); err != nil {
		return nil, err
	}
	// a connection attempt takes a round trip: virtual time passes (with a frozen clock the
	// immediate reconnect after a lost link is refused for ever, because the signed request
	// carries the same millisecond as the last frame of the old link).
	time.Sleep(DialLatency)
	n.mu.Lock()
	n.dials++
	name := fmt.Sprintf("dial#%d", n.dials)
	n.mu.Unlock()
	if n.hit(name) {
		return nil, ErrInjected
	}
	n.mu.Lock()
	l := n.listeners[address]
	if l == nil {
		n.mu.Unlock()
		return nil, ErrRefused
	}
	n.conns++
	id := n.conns
	n.mu.Unlock()
	p := &pipe{n: n, id: id}
	p.cond = sync.NewCond(&p.mu)
	client := &vConn{p: p, side: 0, local: vAddr("client:" + fmt.Sprint(id)), remote: vAddr(address)}
	server := &vConn{p: p, side: 1, local: vAddr(address), remote: vAddr("client:" + fmt.Sprint(id))}
	l.mu.Lock()
	if l.closed {
		l.mu.Unlock()
		return nil, ErrRefused
	}
	l.backlog = append(l.backlog, server)
	l.cond.Broadcast()
	l.mu.Unlock()
	return client, nil
}

type vAddr string

func (a vAddr) Network() string { return "tcp" }
func (a vAddr) String() string  { return string(a) }

type vListener struct {
	n       *Network
	address string
	mu      sync.Mutex
	cond    *sync.Cond
	backlog []*vConn
	closed  bool
}

func (l *vListener) Accept() (net.Conn, error) {
	l.n.mu.Lock()
	l.n.accepts[l.address]++
	name := fmt.Sprintf("accept@%s#%d", l.address, l.n.accepts[l.address])
	l.n.mu.Unlock()
	if l.n.hit(name) {
		return nil, ErrInjected
	}
	l.mu.Lock()
	defer l.mu.Unlock()
	for len(l.backlog) == 0 && !l.closed {
		l.cond.Wait()
	}
	if l.closed {
		return nil, net.ErrClosed
	}
	c := l.backlog[0]
	l.backlog = l.backlog[1:]
	return c, nil
}

func (l *vListener) Close() error {
	l.mu.Lock()
	if l.closed {
		l.mu.Unlock()
		return net.ErrClosed
	}
	l.closed = true
	pending := l.backlog
	l.backlog = nil
	l.cond.Broadcast()
	l.mu.Unlock()
	for _, c := range pending {
		_ = c.Close()
	}
	l.n.mu.Lock()
	if l.n.listeners[l.address] == l {
		delete(l.n.listeners, l.address)
	}
	l.n.mu.Unlock()
	return nil
}

func (l *vListener) Addr() net.Addr { return vAddr(l.address) }

// pipe is one connection: two directions of message chunks.
type pipe struct {
	n      *Network
	id     int
	mu     sync.Mutex
	cond   *sync.Cond
	q      [2][][]byte // q[s]: chunks readable by side s
	closed [2]bool     // side s closed its end
	broken bool        // injected failure: every later operation of both sides fails
	nops   [2][2]int   // per side, per kind (0 read, 1 write)
}

type vConn struct {
	p             *pipe
	side          int
	local, remote vAddr
}

var sideName = [2]string{"client", "server"}

func (c *vConn) fault(kind int) bool {
	p := c.p
	p.mu.Lock()
	p.nops[c.side][kind]++
	idx := p.nops[c.side][kind]
	p.mu.Unlock()
	name := fmt.Sprintf("conn#%d/%s/%s#%d", p.id, sideName[c.side], [2]string{"read", "write"}[kind], idx)
	if p.n.hit(name) {
		p.mu.Lock()
		p.broken = true
		p.cond.Broadcast()
		p.mu.Unlock()
		return true
	}
	return false
}

func (c *vConn) Read(b []byte) (int, error) {
	if c.fault(0) {
		return 0, ErrInjected
	}
	p := c.p
	p.mu.Lock()
	defer p.mu.Unlock()
	for {
		if p.broken {
			return 0, ErrInjected
		}
		if p.closed[c.side] {
			return 0, net.ErrClosed
		}
		if len(p.q[c.side]) > 0 {
			chunk := p.q[c.side][0]
			k := copy(b, chunk)
			if k == len(chunk) {
				p.q[c.side] = p.q[c.side][1:]
			} else {
				p.q[c.side][0] = chunk[k:]
			}
			return k, nil
		}
		if p.closed[1-c.side] {
			return 0, errEOF
		}
		p.cond.Wait()
	}
}

var errEOF = io.EOF

func (c *vConn) Write(b []byte) (int, error) {
	if c.fault(1) {
		return 0, ErrInjected
	}
	p := c.p
	p.mu.Lock()
	defer p.mu.Unlock()
	if p.broken {
		return 0, ErrInjected
	}
	if p.closed[c.side] {
		return 0, net.ErrClosed
	}
	if p.closed[1-c.side] {
		return 0, &net.OpError{Op: "write", Net: "tcp", Err: errors.New("broken pipe")}
	}
	p.q[1-c.side] = append(p.q[1-c.side], append([]byte(nil), b...))
	p.cond.Broadcast()
	return len(b), nil
}

func (c *vConn) Close() error {
	p := c.p
	p.mu.Lock()
	defer p.mu.Unlock()
	if p.closed[c.side] {
		return net.ErrClosed
	}
	p.closed[c.side] = true
	p.cond.Broadcast()
	return nil
}

func (c *vConn) LocalAddr() net.Addr                { return c.local }
func (c *vConn) RemoteAddr() net.Addr               { return c.remote }
func (c *vConn) SetDeadline(t time.Time) error      { return nil }
func (c *vConn) SetReadDeadline(t time.Time) error  { return nil }
func (c *vConn) SetWriteDeadline(t time.Time) error { return nil }
