// mutgen lists syntactic mutants of Go source files as JSON lines:
// {"file","line","op","start","end","old","new","func"}.
// Used by mutate.py (mutation campaign that measures which checks notice
// operator-level changes the repository's own tests do not notice).
package main

import (
	"encoding/json"
	"fmt"
	"go/ast"
	"go/parser"
	"go/token"
	"os"
	"strconv"
	"strings"
)

type mutant struct {
	File  string `json:"file"`
	Line  int    `json:"line"`
	Op    string `json:"op"`
	Start int    `json:"start"`
	End   int    `json:"end"`
	Old   string `json:"old"`
	New   string `json:"new"`
	Func  string `json:"func"`
}

var swap = map[token.Token]string{
	token.EQL: "!=", token.NEQ: "==", token.LSS: "<=", token.LEQ: "<", token.GTR: ">=", token.GEQ: ">",
	token.LAND: "||", token.LOR: "&&", token.ADD: "-", token.SUB: "+",
}

func main() {
	enc := json.NewEncoder(os.Stdout)
	for _, path := range os.Args[1:] {
		src, err := os.ReadFile(path)
		if err != nil {
			fmt.Fprintln(os.Stderr, err)
			continue
		}
		fset := token.NewFileSet()
		f, err := parser.ParseFile(fset, path, src, parser.ParseComments)
		if err != nil {
			fmt.Fprintln(os.Stderr, err)
			continue
		}
		off := func(p token.Pos) int { return fset.Position(p).Offset }
		for _, d := range f.Decls {
			fd, ok := d.(*ast.FuncDecl)
			if !ok || fd.Body == nil {
				continue
			}
			name := fd.Name.Name
			if fd.Recv != nil && len(fd.Recv.List) > 0 {
				var sb strings.Builder
				switch t := fd.Recv.List[0].Type.(type) {
				case *ast.StarExpr:
					if id, ok := t.X.(*ast.Ident); ok {
						sb.WriteString(id.Name)
					}
				case *ast.Ident:
					sb.WriteString(t.Name)
				}
				name = sb.String() + "." + name
			}
			if strings.HasPrefix(fd.Name.Name, "Verif") || strings.HasPrefix(fd.Name.Name, "String") || fd.Name.Name == "Format" {
				continue
			}
			emit := func(op string, s, e token.Pos, repl string) {
				so, eo := off(s), off(e)
				enc.Encode(mutant{File: path, Line: fset.Position(s).Line, Op: op, Start: so, End: eo, Old: string(src[so:eo]), New: repl, Func: name})
			}
			ast.Inspect(fd.Body, func(n ast.Node) bool {
				switch x := n.(type) {
				case *ast.CallExpr:
					// skip logging calls entirely (arguments are not behaviour).
					if sel, ok := x.Fun.(*ast.SelectorExpr); ok {
						switch sel.Sel.Name {
						case "Debug", "Info", "Warn", "Error", "Errorf", "Sprintf", "Printf", "New":
							if sel.Sel.Name != "New" {
								return false
							}
							if id, ok := sel.X.(*ast.Ident); ok && id.Name == "errors" {
								return false
							}
						}
					}
				case *ast.BinaryExpr:
					if r, ok := swap[x.Op]; ok {
						// skip string concatenation.
						if x.Op == token.ADD {
							if bl, ok := x.X.(*ast.BasicLit); ok && bl.Kind == token.STRING {
								break
							}
							if bl, ok := x.Y.(*ast.BasicLit); ok && bl.Kind == token.STRING {
								break
							}
						}
						emit("binop:"+x.Op.String(), x.OpPos, x.OpPos+token.Pos(len(x.Op.String())), r)
					}
				case *ast.UnaryExpr:
					if x.Op == token.NOT {
						emit("drop-not", x.OpPos, x.OpPos+1, "")
					}
				case *ast.IfStmt:
					if _, isNot := x.Cond.(*ast.UnaryExpr); !isNot {
						if _, isBin := x.Cond.(*ast.BinaryExpr); !isBin {
							emit("negate-if", x.Cond.Pos(), x.Cond.End(), "!("+string(src[off(x.Cond.Pos()):off(x.Cond.End())])+")")
						}
					}
				case *ast.ExprStmt:
					if _, ok := x.X.(*ast.CallExpr); ok {
						emit("delete-call", x.Pos(), x.End(), "")
					}
				case *ast.AssignStmt:
					if x.Tok == token.ASSIGN && len(x.Lhs) == 1 {
						if id, ok := x.Lhs[0].(*ast.Ident); ok && id.Name == "_" {
							break
						}
						emit("delete-assign", x.Pos(), x.End(), "")
					}
					if x.Tok == token.ADD_ASSIGN {
						emit("assignop", x.TokPos, x.TokPos+2, "-=")
					}
					if x.Tok == token.SUB_ASSIGN {
						emit("assignop", x.TokPos, x.TokPos+2, "+=")
					}
				case *ast.IncDecStmt:
					if x.Tok == token.INC {
						emit("incdec", x.TokPos, x.TokPos+2, "--")
					} else {
						emit("incdec", x.TokPos, x.TokPos+2, "++")
					}
				case *ast.BasicLit:
					if x.Kind == token.INT {
						if v, err := strconv.ParseInt(x.Value, 0, 64); err == nil {
							emit("int+1", x.Pos(), x.End(), strconv.FormatInt(v+1, 10))
							if v > 0 {
								emit("int-1", x.Pos(), x.End(), strconv.FormatInt(v-1, 10))
							}
						}
					}
				case *ast.BranchStmt:
					if x.Label == nil {
						switch x.Tok {
						case token.CONTINUE:
							emit("branch", x.Pos(), x.End(), "break")
						case token.BREAK:
							emit("branch", x.Pos(), x.End(), "continue")
						}
					}
				case *ast.ReturnStmt:
					// "return ..., err" inside a function whose last result is error -> swallow.
					if len(x.Results) > 0 {
						if id, ok := x.Results[len(x.Results)-1].(*ast.Ident); ok && id.Name == "err" {
							emit("swallow-err", id.Pos(), id.End(), "nil")
						}
					}
				}
				return true
			})
		}
	}
}
