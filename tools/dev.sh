#!/bin/sh
# usage: tools/dev.sh <CHECK> [patch.diff] [extra vcheck args]: runs the check from a PRIVATE copy of /verif against a
# PRIVATE copy of /repo's HEAD (optionally with a patch applied): no lock on /repo's working tree is needed, so it can
# run next to seedbatch.sh. Exploratory only; registered commands and evidence always use /verif and /repo.
c=$1; patch=$2; shift; [ -n "$patch" ] && shift
tag=${DEV_TAG:-$c}
repo=/tmp/dev-repo-$tag; verif=/tmp/dev-verif-$tag
git -C /repo worktree remove --force $repo >/dev/null 2>&1
git -C /repo worktree add -q --detach $repo HEAD || exit 3
if [ -n "$patch" ] && [ "$patch" != "-" ]; then git -C $repo apply "$patch" || exit 3; fi
rsync -a --delete --exclude .git --exclude replays --exclude seeded --exclude mutation --exclude .build/out --exclude .build/gocache /verif/ $verif/
mkdir -p $verif/.build
VERIF_REPO=$repo GOCACHE=/verif/.build/gocache $verif/vcheck $c --tier ${TIER:-quick} "$@"
rc=$?
git -C /repo worktree remove --force $repo >/dev/null 2>&1
rm -rf $verif
exit $rc
